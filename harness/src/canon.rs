//! Canonical text form of values, errors and outcomes (twin of lean/XehModel/Driver/Codec.lean).
use xeh::prelude::*;

pub fn hex(bytes: &[u8]) -> String {
    let mut s = String::with_capacity(bytes.len() * 2);
    for b in bytes {
        s.push_str(&format!("{:02x}", b));
    }
    s
}

pub fn bits_of(bs: &Xbitstr) -> String {
    bs.bits().map(|b| if b == 1 { '1' } else { '0' }).collect()
}

pub fn cell(c: &Cell) -> String {
    let mut s = String::new();
    show(c, &mut s);
    s
}

fn pairs(m: &Xmap, s: &mut String) {
    let mut first = true;
    for (k, v) in m.iter() {
        if !first {
            s.push(',');
        }
        first = false;
        show(k, s);
        s.push(':');
        show(v, s);
    }
}

fn show(c: &Cell, s: &mut String) {
    match c {
        Cell::Nil => s.push('N'),
        Cell::Flag(true) => s.push('T'),
        Cell::Flag(false) => s.push('F'),
        Cell::Int(i) => {
            s.push('i');
            s.push_str(&i.to_string())
        }
        Cell::Real(r) => s.push_str(&format!("r{:016x}", r.to_bits())),
        Cell::Str(x) => {
            s.push('s');
            s.push_str(&hex(x.as_bytes()))
        }
        Cell::Vector(v) => {
            s.push_str("v(");
            let mut first = true;
            for x in v.iter() {
                if !first {
                    s.push(',');
                }
                first = false;
                show(x, s);
            }
            s.push(')');
        }
        Cell::Map(m) => {
            s.push_str("m(");
            pairs(m, s);
            s.push(')');
        }
        Cell::Fun(Xfn::Interp(a)) => s.push_str(&format!("f{}", a)),
        Cell::Fun(Xfn::Native(_)) => s.push_str("x0"),
        Cell::Bitstr(b) => {
            s.push('b');
            s.push_str(&bits_of(b))
        }
        Cell::AnyRc(_) => s.push('a'),
        Cell::WithTag(_) => {
            s.push_str("t(");
            show(c.value(), s);
            s.push(';');
            pairs(c.tags().unwrap(), s);
            s.push(')');
        }
    }
}

/// NaN payloads are not modelled: compare NaNs as a class (used by C09 only).
pub fn canon_nan(c: &Cell) -> Cell {
    match c {
        Cell::Real(r) if r.is_nan() => Cell::Real(f64::from_bits(0x7ff8000000000000)),
        Cell::WithTag(_) => match c.value() {
            Cell::Real(r) if r.is_nan() => {
                Cell::Real(f64::from_bits(0x7ff8000000000000)).with_tags(c.tags().unwrap().clone())
            }
            _ => c.clone(),
        },
        _ => c.clone(),
    }
}

fn us(s: &str) -> String {
    s.chars().map(|c| if c == ' ' || c == '\n' { '_' } else { c }).collect()
}

pub fn err(e: &Xerr) -> String {
    match e {
        Xerr::UnknownWord(n) => format!("UnknownWord:{}", hex(n.as_bytes())),
        Xerr::ParseError { msg, .. } => format!("ParseError:{}", us(msg)),
        Xerr::StrDecodeError { .. } => "StrDecodeError".into(),
        Xerr::ExpectingName => "ExpectingName".into(),
        Xerr::ExpectingLiteral => "ExpectingLiteral".into(),
        Xerr::ControlFlowError { msg } => format!("ControlFlowError:{}", us(msg)),
        Xerr::IntegerOverflow => "IntegerOverflow".into(),
        Xerr::DivisionByZero => "DivisionByZero".into(),
        Xerr::StackUnderflow => "StackUnderflow".into(),
        Xerr::ReturnStackUnderflow => "ReturnStackUnderflow".into(),
        Xerr::LoopStackUnderflow => "LoopStackUnderflow".into(),
        Xerr::TypeError => "TypeError".into(),
        Xerr::TypeErrorMsg { val, msg } => format!("TypeErrorMsg:{}:{}", cell(val), us(msg)),
        Xerr::TypeNotSupported { val } => format!("TypeNotSupported:{}", cell(val)),
        Xerr::IOError { .. } => "IOError".into(),
        Xerr::OutOfBounds { index, range } => {
            format!("OutOfBounds:{}:{}..{}", index, range.start, range.end)
        }
        Xerr::AssertFailed => "AssertFailed".into(),
        Xerr::AssertEqFailed { a, b } => format!("AssertEqFailed:{}:{}", cell(a), cell(b)),
        Xerr::InternalError => "InternalError".into(),
        Xerr::ReadError { remain, len } => format!("ReadError:{}:{}", remain, len),
        Xerr::SeekError { offset, .. } => format!("SeekError:{}", offset),
        Xerr::MatchError { fail_pos, .. } => format!("MatchError:{}", fail_pos),
        Xerr::ToBytestrError(_) => "ToBytestrError".into(),
        Xerr::BitstrSliceError(_) => "BitstrSliceError".into(),
        Xerr::ErrorMsg(m) => format!("ErrorMsg:{}", us(m)),
        Xerr::UserError(c) => format!("UserError:{}", cell(c)),
        Xerr::Exit(c) => format!("Exit:{}", c),
    }
}

/// visible data stack, bottom first
pub fn stack(xs: &Xstate) -> Vec<Cell> {
    let n = xs.data_depth();
    (0..n).rev().map(|i| xs.get_data(i).unwrap().clone()).collect()
}

pub fn stack_str(cells: &[Cell]) -> String {
    cells.iter().map(cell).collect::<Vec<_>>().join(" ")
}

pub fn ok_stack(cells: &[Cell]) -> String {
    if cells.is_empty() {
        "ok".into()
    } else {
        format!("ok {}", stack_str(cells))
    }
}
