//! Tie A harness: generates structured cases from one PRNG seed, runs the real xeh code
//! in-process, writes one request per line (`<prop>.ops`) with the implementation's canonical
//! answer (`<prop>.impl`), runs the implementation-side property oracle, and writes
//! `<prop>.stats.json` (distribution histograms, oracle failures, samples).
mod canon;
mod rng;
mod props;
mod progen;
mod vmcanon;

use std::collections::BTreeMap;
use std::io::Write;

pub struct OracleFailure {
    pub case: String,
    pub expected: String,
    pub observed: String,
}

pub struct Ctx {
    pub rng: rng::Rng,
    pub n: usize,
    pub thorough: bool,
    pub release: bool,
    ops: Vec<String>,
    imp: Vec<String>,
    hist: BTreeMap<String, u64>,
    pub oracle_checks: u64,
    oracle_failures: Vec<OracleFailure>,
    notes: Vec<String>,
    /// a directory of this run's own for files the code under test reads (`include` / `require`)
    pub scratch: String,
    /// where `progress` writes what the implementation is about to be given
    progress_file: String,
}

/// small library files for `include` / `require` (created on first use inside this run's scratch directory)
pub fn lib_files(dir: &str) -> String {
    if !std::path::Path::new(dir).exists() {
        std::fs::create_dir_all(dir).unwrap();
        std::fs::write(format!("{}/lib1.xeh", dir), ": libword1 101 ;\n: libshared 1 ;\n").unwrap();
        std::fs::write(format!("{}/lib2.xeh", dir), format!("require \"{}/lib1.xeh\"\n: libword2 libword1 1 + ;\n", dir)).unwrap();
        std::fs::write(format!("{}/broken.xeh", dir), ": libbroken 7 ;\n77 var libvar\nthen\n").unwrap();
    }
    dir.to_string()
}

impl Ctx {
    /// note what the implementation is about to be given: if it never comes back, the orchestrator reports this input
    pub fn progress(&self, what: &str) {
        let _ = std::fs::write(&self.progress_file, what);
    }
    /// record one correspondence case: the request line for the model and what the implementation answered
    pub fn case(&mut self, op: String, imp: String) {
        debug_assert!(!op.contains('\n') && !imp.contains('\n'));
        self.ops.push(op);
        self.imp.push(imp);
    }
    pub fn tag(&mut self, t: &str) {
        *self.hist.entry(t.to_string()).or_insert(0) += 1;
    }
    pub fn oracle_ok(&mut self) {
        self.oracle_checks += 1;
    }
    pub fn oracle_fail(&mut self, case: String, expected: String, observed: String) {
        self.oracle_checks += 1;
        // failures carrying a `[marker]` prefix (candidate known findings) are capped per marker so that
        // they can never crowd an unmarked — i.e. new — failure out of the report
        let marker = if case.starts_with('[') { case.split(']').next().unwrap_or("").to_string() } else { String::new() };
        let same = self.oracle_failures.iter().filter(|f| {
            let m = if f.case.starts_with('[') { f.case.split(']').next().unwrap_or("").to_string() } else { String::new() };
            m == marker
        }).count();
        let cap = if marker.is_empty() { 50 } else { 5 };
        if same < cap {
            self.oracle_failures.push(OracleFailure { case, expected, observed });
        }
        self.tag(&format!("oracle-failure{}", if marker.is_empty() { String::new() } else { format!(":{}]", marker) }));
    }
    pub fn check(&mut self, ok: bool, case: impl FnOnce() -> String, expected: impl FnOnce() -> String, observed: impl FnOnce() -> String) {
        if ok {
            self.oracle_ok()
        } else {
            self.oracle_fail(case(), expected(), observed())
        }
    }
    pub fn note(&mut self, s: String) {
        self.notes.push(s);
    }
}

fn json_str(s: &str) -> String {
    let mut o = String::from("\"");
    for c in s.chars() {
        match c {
            '"' => o.push_str("\\\""),
            '\\' => o.push_str("\\\\"),
            '\n' => o.push_str("\\n"),
            '\r' => o.push_str("\\r"),
            '\t' => o.push_str("\\t"),
            c if (c as u32) < 0x20 => o.push_str(&format!("\\u{:04x}", c as u32)),
            c => o.push(c),
        }
    }
    o.push('"');
    o
}

/// run `f`, turning a panic into `None` (the hook is silenced once in main)
pub fn guarded<T>(f: impl FnOnce() -> T) -> Option<T> {
    std::panic::catch_unwind(std::panic::AssertUnwindSafe(f)).ok()
}

fn main() {
    let args: Vec<String> = std::env::args().collect();
    if args.len() >= 2 && args[1] == "session" {
        // ad-hoc replay: one operation per stdin line (`e <src>` eval, `c <src>` compile, `r` run, `a` abort_run, `d` dump)
        std::panic::set_hook(Box::new(|_| {}));
        let mut xs = xeh::prelude::Xstate::boot().unwrap();
        xs.intercept_stdout(true);
        let mut line = String::new();
        while { line.clear(); std::io::stdin().read_line(&mut line).unwrap() > 0 } {
            let l = line.trim_end_matches('\n');
            let (op, src) = l.split_at(l.len().min(1));
            let src = src.trim_start();
            let r = match op {
                "e" => guarded(|| xs.eval(src)).map(|r| format!("{:?}", r)),
                "c" => guarded(|| xs.compile(src)).map(|r| format!("{:?}", r)),
                "r" => guarded(|| xs.run()).map(|r| format!("{:?}", r)),
                "a" => { xs.abort_run(); Some("aborted".to_string()) }
                _ => Some(String::new()),
            };
            println!("{} => {} | {}", l, r.unwrap_or("panic".into()), props::c03::snapshot(&mut xs));
        }
        return;
    }
    if args.len() < 6 || args[1] != "emit" {
        eprintln!("usage: harness emit <prop> <seed> <n> <outdir> [quick|thorough]");
        std::process::exit(2);
    }
    std::panic::set_hook(Box::new(|_| {}));
    let prop = args[2].clone();
    let seed: u64 = args[3].parse().expect("seed");
    let n: usize = args[4].parse().expect("n");
    let outdir = args[5].clone();
    let thorough = args.get(6).map(|s| s == "thorough").unwrap_or(false);
    let mut ctx = Ctx {
        rng: rng::Rng::new(seed),
        n,
        thorough,
        release: !cfg!(debug_assertions),
        ops: Vec::new(),
        imp: Vec::new(),
        hist: BTreeMap::new(),
        oracle_checks: 0,
        oracle_failures: Vec::new(),
        notes: Vec::new(),
        scratch: format!("{}/scratch-{}-{}", outdir, prop, std::process::id()),
        progress_file: format!("{}/{}.progress", outdir, prop),
    };
    if !props::run(&prop, &mut ctx) {
        eprintln!("unknown property {}", prop);
        std::process::exit(2);
    }
    let _ = std::fs::remove_dir_all(&ctx.scratch);
    std::fs::create_dir_all(&outdir).unwrap();
    let suffix = if ctx.release { ".release" } else { "" };
    let base = format!("{}/{}{}", outdir, prop, suffix);
    let mut f = std::io::BufWriter::new(std::fs::File::create(format!("{}.ops", base)).unwrap());
    for l in &ctx.ops {
        writeln!(f, "{}", l).unwrap();
    }
    f.flush().unwrap();
    let mut f = std::io::BufWriter::new(std::fs::File::create(format!("{}.impl", base)).unwrap());
    for l in &ctx.imp {
        writeln!(f, "{}", l).unwrap();
    }
    f.flush().unwrap();
    let mut j = String::from("{");
    j.push_str(&format!("\"property\":{},\"seed\":{},\"n\":{},\"profile\":{},", json_str(&prop), seed, n, json_str(if ctx.release { "release" } else { "debug" })));
    j.push_str(&format!("\"cases\":{},\"oracle_checks\":{},", ctx.ops.len(), ctx.oracle_checks));
    j.push_str("\"hist\":{");
    j.push_str(&ctx.hist.iter().map(|(k, v)| format!("{}:{}", json_str(k), v)).collect::<Vec<_>>().join(","));
    j.push_str("},\"oracle_failures\":[");
    j.push_str(
        &ctx.oracle_failures
            .iter()
            .map(|f| format!("{{\"case\":{},\"expected\":{},\"observed\":{}}}", json_str(&f.case), json_str(&f.expected), json_str(&f.observed)))
            .collect::<Vec<_>>()
            .join(","),
    );
    j.push_str("],\"notes\":[");
    j.push_str(&ctx.notes.iter().map(|s| json_str(s)).collect::<Vec<_>>().join(","));
    j.push_str("]}");
    std::fs::write(format!("{}.stats.json", base), j).unwrap();
}
