//! Grammar-directed program generator with stack-effect tracking (DESIGN §4.1).
//! Produces xeh source text built from: literals, arithmetic/stack words, if/else/then,
//! case/of/endof/endcase, begin/while/repeat/until/break, do/loop with I/J/K and break,
//! foreach, word definitions (redefinition, recursion), locals, global variables, vectors/maps,
//! `late`. Most programs run without underflow; a separate malformed stream breaks them.
use crate::rng::Rng;

#[derive(Clone)]
pub struct GenCfg {
    pub max_depth: usize,
    pub max_stmts: usize,
    pub defs: bool,
    pub locals: bool,
    pub vars: bool,
    pub foreach: bool,
    pub case: bool,
    pub late: bool,
    pub vectors: bool,
    pub reals: bool,
    pub endless: bool,   // allow structurally endless loops (callers must set an instruction limit)
    pub malformed_percent: u32,
}

impl Default for GenCfg {
    fn default() -> Self {
        GenCfg { max_depth: 4, max_stmts: 4, defs: true, locals: true, vars: true, foreach: true, case: true, late: true, vectors: true, reals: false, endless: false, malformed_percent: 12 }
    }
}

struct Fun {
    name: String,
    arity: usize, // values consumed; every function leaves exactly one value
}

pub struct Gen<'a> {
    r: &'a mut Rng,
    cfg: GenCfg,
    out: Vec<String>,
    vars: Vec<String>,
    funs: Vec<Fun>,
    locals: Vec<String>,
    in_fun: bool,
    loop_depth: usize,    // counted loops open (I/J/K)
    breakable: usize,     // begin/do loops open (break allowed)
    nvar: usize,
    nfun: usize,
    flow: usize,
    pub tags: Vec<&'static str>,
}

impl<'a> Gen<'a> {
    pub fn new(r: &'a mut Rng, cfg: GenCfg) -> Self {
        Gen { r, cfg, out: vec![], vars: vec![], funs: vec![], locals: vec![], in_fun: false, loop_depth: 0, breakable: 0, nvar: 0, nfun: 0, flow: 0, tags: vec![] }
    }

    fn w(&mut self, s: &str) {
        self.out.push(s.to_string());
    }

    fn small(&mut self) -> i64 {
        match self.r.below(8) {
            0 => 0,
            1 => 1,
            2 => -1,
            3 => self.r.range(-2, 5),
            4 => self.r.range(-100, 100),
            _ => self.r.range(0, 9),
        }
    }

    /// pushes exactly one integer
    fn expr(&mut self, d: usize) {
        let k = self.r.below(if d == 0 { 4 } else { 12 });
        match k {
            0 | 1 => { let n = self.small(); self.w(&n.to_string()); }
            2 => {
                if self.loop_depth > 0 { let c = ["I", "J", "K"][self.r.below(self.loop_depth.min(3))]; self.w(c); self.tags.push("loop-index"); }
                else { let n = self.small(); self.w(&n.to_string()); }
            }
            3 => {
                if !self.locals.is_empty() && self.r.bool() { let l = self.r.pick(&self.locals.clone()).clone(); self.w(&l); self.tags.push("local-get"); }
                else if !self.vars.is_empty() { let v = self.r.pick(&self.vars.clone()).clone(); self.w(&v); self.tags.push("var-get"); }
                else { let n = self.small(); self.w(&n.to_string()); }
            }
            4 | 5 => {
                self.expr(d - 1); self.expr(d - 1);
                let op = *self.r.pick(&["+", "-", "*", "min", "max", "band", "bxor"]);
                self.w(op);
            }
            6 => { self.expr(d - 1); let op = *self.r.pick(&["neg", "abs", "bnot", "dup +", "1 +"]); self.w(op); }
            7 => { self.cond(d - 1); self.w("if"); self.expr(d - 1); self.w("else"); self.expr(d - 1); self.w("then"); self.tags.push("if-else-expr"); }
            8 => {
                if !self.funs.is_empty() {
                    let i = self.r.below(self.funs.len());
                    let (name, arity) = (self.funs[i].name.clone(), self.funs[i].arity);
                    for _ in 0..arity { self.expr(d - 1); }
                    self.w(&name); self.tags.push("call");
                } else { self.expr(d - 1); }
            }
            9 => { self.expr(d - 1); self.expr(d - 1); let op = *self.r.pick(&["swap drop", "drop", "over + +", "swap -", "rot drop drop"]);
                   if op == "rot drop drop" { self.expr(d - 1); } self.w(op); }
            10 => {
                if self.cfg.vectors { // vector round trip
                    self.w("["); let n = self.r.below(3) + 1; for _ in 0..n { self.expr(d - 1); } self.w("]");
                    let i = self.r.below(n); self.w(&i.to_string()); self.w("swap drop drop 7"); 
                } else { self.expr(d - 1); }
            }
            _ => { self.expr(d - 1); self.w("dup"); self.w("drop"); }
        }
    }

    /// pushes exactly one flag
    fn cond(&mut self, d: usize) {
        match self.r.below(if d == 0 { 3 } else { 8 }) {
            0 => self.w("true"),
            1 => self.w("false"),
            2 | 3 | 4 => { self.expr(d.saturating_sub(1)); self.expr(d.saturating_sub(1)); let op = *self.r.pick(&["<", "<=", ">", ">=", "==", "<>"]); self.w(op); }
            5 => { self.expr(d - 1); let op = *self.r.pick(&["zero?", "positive?", "negative?"]); self.w(op); }
            6 => { self.cond(d - 1); self.w("not"); }
            _ => { self.cond(d - 1); self.cond(d - 1); let op = *self.r.pick(&["and", "or", "xor"]); self.w(op); }
        }
    }

    fn new_var(&mut self) -> String {
        self.nvar += 1;
        format!("v{}", self.nvar)
    }

    fn block(&mut self, d: usize) {
        self.flow += 1;
        self.block0(d);
        self.flow -= 1;
    }

    fn block0(&mut self, d: usize) {
        let n = if self.r.chance(15) { 0 } else { self.r.below(self.cfg.max_stmts) + 1 };
        if n == 0 { self.tags.push("empty-body"); }
        for _ in 0..n { self.stmt(d); }
    }

    /// net stack effect 0
    fn stmt(&mut self, d: usize) {
        let top = !self.in_fun && self.loop_depth == 0 && self.breakable == 0 && self.flow == 0;
        let k = if d == 0 { self.r.below(3) } else { self.r.below(16) };
        match k {
            0 => { self.expr(d.min(2)); self.w("drop"); }
            1 => {
                if !self.vars.is_empty() && self.cfg.vars { let v = self.r.pick(&self.vars.clone()).clone(); self.expr(d.min(2)); self.w("!"); self.w(&v); self.tags.push("var-set"); }
                else { self.expr(d.min(2)); self.w("drop"); }
            }
            2 => {
                if self.in_fun && self.cfg.locals { // (re)initialise a local, possibly inside a loop
                    let name = if !self.locals.is_empty() && self.r.bool() { self.tags.push("local-reinit"); self.r.pick(&self.locals.clone()).clone() } else { let n = format!("l{}", self.locals.len()); n };
                    if self.r.chance(40) {
                        // the same `local` opcode executed on every iteration of a loop: the slot must be overwritten, not
                        // appended, and the value read afterwards is the latest one
                        self.tags.push("local-in-loop");
                        let (lim, start) = (self.r.range(1, 4), self.r.range(-1, 1));
                        self.w(&lim.to_string()); self.w(&start.to_string()); self.w("do"); self.w("I");
                        if self.r.bool() { self.expr(1); self.w("+"); }
                        self.w("local"); self.w(&name); self.w(&name); self.w("drop"); self.w("loop");
                        self.locals.push(name.clone());
                        if self.r.bool() { self.w(&name); self.w("drop"); }
                        return;
                    }
                    self.expr(d.min(2)); self.w("local"); self.w(&name);
                    self.locals.push(name);
                } else { self.expr(d.min(2)); self.w("drop"); }
            }
            3 | 4 => { self.cond(d - 1); self.w("if"); self.block(d - 1); if self.r.bool() { self.w("else"); self.block(d - 1); } self.w("then"); self.tags.push("if"); }
            5 => { // begin … until with a counter variable so it terminates
                self.tags.push("begin-until");
                if self.cfg.endless && self.r.chance(15) { self.w("begin"); self.breakable += 1; self.block(d - 1); self.breakable -= 1; self.w("false until"); self.tags.push("endless"); return; }
                if let Some(c) = self.counter() {
                    self.w("0 !"); self.w(&c); self.w("begin"); self.breakable += 1; self.block(d - 1); self.maybe_break(d);
                    self.breakable -= 1; self.w(&c); self.w("1 + dup !"); self.w(&c); let n = self.r.range(0, 4); self.w(&n.to_string()); self.w(">= until");
                } else { self.expr(1); self.w("drop"); }
            }
            6 => { // begin … while … repeat
                self.tags.push("begin-while-repeat");
                if let Some(c) = self.counter() {
                    self.w("0 !"); self.w(&c); self.w("begin"); self.w(&c); let n = self.r.range(-1, 4); self.w(&n.to_string()); self.w("< while");
                    self.breakable += 1; self.block(d - 1); self.maybe_break(d); self.breakable -= 1;
                    self.w(&c); self.w("1 + !"); self.w(&c); self.w("repeat");
                } else { self.expr(1); self.w("drop"); }
            }
            7 => { // begin … repeat (endless unless break)
                self.tags.push("begin-repeat");
                if let Some(c) = self.counter() {
                    self.w("0 !"); self.w(&c); self.w("begin"); self.breakable += 1;
                    self.w(&c); self.w("1 + dup !"); self.w(&c); let n = self.r.range(1, 4); self.w(&n.to_string()); self.w("> if break then");
                    self.block(d - 1); self.breakable -= 1; self.w("repeat");
                } else if self.cfg.endless && self.r.chance(30) { self.w("begin"); self.block(d - 1); self.w("repeat"); self.tags.push("endless"); }
                else { self.expr(1); self.w("drop"); }
            }
            8 | 9 => { // do … loop, zero-trip included
                self.tags.push("do-loop");
                let (lim, start) = (self.r.range(-2, 5), self.r.range(-2, 3));
                if start >= lim { self.tags.push("zero-trip"); }
                self.w(&lim.to_string()); self.w(&start.to_string()); self.w("do");
                self.loop_depth += 1; self.breakable += 1; self.block(d - 1); self.maybe_break(d); self.breakable -= 1; self.loop_depth -= 1;
                self.w("loop");
            }
            10 => {
                if self.cfg.foreach { self.tags.push("foreach");
                    let n = self.r.below(4);
                    if self.r.chance(25) { self.w("{"); for i in 0..n { self.expr(1); self.w(&i.to_string()); } self.w("}"); self.w("foreach");
                        self.loop_depth += 1; self.breakable += 1; self.w("I drop drop"); self.block(d - 1); self.breakable -= 1; self.loop_depth -= 1; self.w("loop"); }
                    else { self.w("["); for _ in 0..n { self.expr(1); } self.w("]"); self.w("foreach");
                        self.loop_depth += 1; self.breakable += 1; self.w("I drop"); self.block(d - 1); self.maybe_break(d); self.breakable -= 1; self.loop_depth -= 1; self.w("loop"); }
                } else { self.expr(1); self.w("drop"); }
            }
            11 => {
                if self.cfg.case { self.tags.push("case");
                    self.expr(d.min(2)); self.w("case");
                    let arms = self.r.below(3);
                    for _ in 0..arms { let k = self.small(); self.w(&k.to_string()); self.w("of"); self.block(d - 1); self.w("endof"); }
                    self.w("drop endcase");
                } else { self.expr(1); self.w("drop"); }
            }
            12 | 13 => {
                if top && self.cfg.defs { self.def(d); } else if top && self.cfg.vars { self.var_def(d); }
                else { self.expr(1); self.w("drop"); }
            }
            14 => {
                if top && self.cfg.vars { self.var_def(d); }
                else { self.expr(1); self.w("drop"); }
            }
            _ => { self.expr(d.min(2)); self.expr(1); self.w("swap drop drop"); }
        }
    }

    /// `<expr> var v`: a fresh name, or (25%) a name that exists already — the new variable shadows the old one, and
    /// words compiled before keep using the old cell
    fn var_def(&mut self, d: usize) {
        if !self.vars.is_empty() && self.r.chance(40) {
            let v = self.r.pick(&self.vars.clone()).clone();
            self.expr(d.min(2)); self.w("var"); self.w(&v); self.tags.push("var-redeclare");
            // observe both cells: through a word compiled earlier (if any reads a variable) and directly
            self.w(&v); self.w("drop");
        } else {
            let v = self.new_var(); self.expr(d.min(2)); self.w("var"); self.w(&v); self.vars.push(v); self.tags.push("var-def");
        }
    }

    fn maybe_break(&mut self, d: usize) {
        if self.breakable > 0 && self.r.chance(30) { self.cond(d.min(1)); self.w("if break then"); self.tags.push("break"); }
    }

    /// a variable usable as a loop counter; defined at top level on demand
    fn counter(&mut self) -> Option<String> {
        let top = !self.in_fun && self.loop_depth == 0 && self.breakable == 0 && self.flow == 0;
        if top && self.cfg.vars {
            let v = format!("c{}", self.nvar); self.nvar += 1;
            self.w("0 var"); self.w(&v);
            Some(v)
        } else if self.in_fun && self.cfg.locals {
            None
        } else { None }
    }

    fn def(&mut self, d: usize) {
        self.nfun += 1;
        // redefinition of an existing name now and then
        let name = if !self.funs.is_empty() && self.r.chance(20) { self.tags.push("redefinition"); self.funs[self.r.below(self.funs.len())].name.clone() } else { format!("f{}", self.nfun) };
        let arity = self.r.below(3);
        let recursive = self.r.chance(15) && arity >= 1;
        if self.cfg.late && self.r.chance(10) && !self.funs.is_empty() {
            // late-bound call of a word defined afterwards
            let lname = format!("g{}", self.nfun);
            self.w("late"); self.w(&lname); self.w(":"); self.w(&name); self.w(&lname); self.w(";");
            self.w(":"); self.w(&lname); let n = self.small(); self.w(&n.to_string()); self.w(";");
            self.funs.push(Fun { name, arity: 0 }); self.tags.push("late");
            return;
        }
        self.w(":"); self.w(&name);
        let saved_locals = std::mem::take(&mut self.locals);
        self.in_fun = true;
        for i in 0..arity { let l = format!("a{}", i); self.w("local"); self.w(&l); self.locals.push(l); }
        if recursive {
            // f(n, …) = n <= 0 ? 0 : f(n-1, …) + 1   (first declared local holds the last pushed argument)
            self.tags.push("recursion");
            self.w("a0 0 <= if 0 else");
            for i in (1..arity).rev() { self.w(&format!("a{}", i)); }
            self.w("a0 1 -"); self.w(&name); self.w("1 + then");
        } else {
            let saved = (self.loop_depth, self.breakable);
            self.loop_depth = 0; self.breakable = 0;
            if d >= 2 && self.r.chance(8) {
                // a definition nested in this one (its own table of locals; the name is global)
                self.tags.push("nested-def");
                self.def(d - 1);
                self.in_fun = true;
            }
            self.block(d - 1);
            self.expr(d.min(2));
            self.loop_depth = saved.0; self.breakable = saved.1;
        }
        self.in_fun = false;
        self.locals = saved_locals;
        self.w(";");
        self.tags.push("def");
        if let Some(f) = self.funs.iter_mut().find(|f| f.name == name) { f.arity = arity; } else { self.funs.push(Fun { name, arity }); }
    }

    pub fn program(mut self) -> (String, Vec<&'static str>) {
        let n = self.r.below(5) + 1;
        for _ in 0..n {
            if self.r.chance(35) { let d = self.cfg.max_depth.min(2); self.expr(d); self.tags.push("leave-value"); }
            else { let d = self.cfg.max_depth; self.stmt(d); }
        }
        let mut toks = self.out;
        if self.r.chance(self.cfg.malformed_percent) {
            self.tags.push("malformed");
            match self.r.below(4) {
                0 => { if !toks.is_empty() { let i = self.r.below(toks.len()); toks.remove(i); } }
                1 => { let i = self.r.below(toks.len() + 1); let t = *self.r.pick(&["then", "loop", "repeat", "drop", "+", "endcase", "break", "I", ";", "else", "if", "begin", "do", "until", "nosuchword", "]", "}"]); toks.insert(i, t.to_string()); }
                2 => { if toks.len() > 1 { let i = self.r.below(toks.len() - 1); toks.swap(i, i + 1); } }
                _ => { if !toks.is_empty() { let i = self.r.below(toks.len()); toks.truncate(i); } }
            }
        }
        (toks.join(" "), self.tags)
    }
}

pub fn gen_program(r: &mut Rng, cfg: &GenCfg) -> (String, Vec<&'static str>) {
    // now and then one of the shapes the grammar reaches rarely
    if cfg.defs && cfg.vars && cfg.locals && r.chance(8) { return (shape(r), vec!["shape"]); }
    Gen::new(r, cfg.clone()).program()
}

/// shapes the grammar reaches rarely: redeclared variables and redefined words seen through words compiled
/// earlier, a `local` re-executed by a loop (the slot is overwritten, and rewinding restores the old value),
/// shadowed locals, tagged values stored over equal untagged ones
pub fn shape(r: &mut Rng) -> String {
    let (a, b, n) = (r.range(-9, 99), r.range(-9, 99), r.range(0, 5));
    match r.below(21) {
        // a name that means a variable and then a word (or the other way round): `!` goes by what the name means NOW
        15 => format!("{} var n : get-n n ; : n {} ; 7 ! n get-n", a, b),
        16 => format!(": n {} ; {} var n : get-n n ; 7 ! n get-n n : n 1 ; get-n n", a, b),
        // a local whose `local` statement was skipped: reading it is an error when no later slot exists, whatever the nesting
        17 => format!(": f if {} local a then a ; false f", a),
        18 => format!(": f {} 0 do {} local y loop y ; f 0 var z : g 0 0 do 1 local y loop y ; g", n, a),
        19 => format!(": down dup 0 > if 1 - down then ; {} down", *r.pick(&[3, 40, 200])),
        20 => format!(": up local n n {} < if n 1 + up else n then ; 0 up", *r.pick(&[2, 30, 150])),
        0 => format!("{} var x : getx x ; {} var x getx x", a, b),
        1 => format!("0 var acc : add acc + ! acc ; {} add 0 var acc {} ! acc 1 add acc", a, b),
        2 => format!(": f {} ; : g f ; : f {} ; g f", a, b),
        3 => format!(": f {} 0 do I local x x loop ; f", n),
        4 => format!(": f {} local x {} 0 do x I + local x loop x ; f", a, n),
        5 => format!(": cnt 0 begin 1 + dup local k k {} >= until ; cnt", n),
        6 => format!("{} var x {} var y : sum x y + ; sum {} var x sum x", a, b, n),
        7 => format!(": f local p {} 0 do p I * local q q loop p ; {} f", n, a),
        8 => format!("{} var x x {{ 1 2 }} with-tags ! x x tags x {} ! x x", a, a),
        9 => format!("{} 0 do I 1 == if break then I loop {} 0 do {} 0 do I J + 2 == if break then loop loop 99", n + 1, n, n + 1),
        10 => format!("{} var z z ! z z {} ! z z", a, a),
        // a definition inside a definition: each has its own table of locals, also when the names coincide
        11 => format!(": outer local a : inner local a a 10 * ; {} inner a ; {} outer", n, a),
        12 => format!(": o local p local q : i local q local p p q - ; p q i q p ; {} {} o", a, b),
        13 => format!("{} var g : o local g : i g local g g + ; {} i g ; {} o g", a, n, b),
        _ => format!(": o local x : i local y y 1 + ; x i local y : j local x x y ; y ; {} o {} j", a, b),
    }
}
