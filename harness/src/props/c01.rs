//! C01 — stub, not built yet.
use crate::Ctx;

pub fn run(_ctx: &mut Ctx) {}
