//! C01 — structured control flow compiles to bytecode that means what the source says.
//! Correspondence (translation validation of the real compiler + execution):
//!   `C01 build …`  the model's flow-stack compiler must emit exactly the bytecode and debug map of the
//!                  real one, or fail with the same error at the same token;
//!   `C01 eval …`   building and running in the model must end in the same machine / error / token.
//! Oracle (implementation only): metamorphic statements of the property — a terminated program
//! leaves no loop index visible (`I` afterwards fails with LoopStackUnderflow), a zero-trip loop
//! leaves the stack as it found it, a structurally endless loop under an instruction limit never
//! returns Ok.
use crate::canon;
use crate::progen::{gen_program, GenCfg};
use crate::vmcanon;
use crate::Ctx;
use xeh::lex::{Lex, Tok};
use xeh::prelude::*;

pub const LIMIT: usize = 4000;

pub struct Toks {
    pub text: Vec<String>,          // canonical token text
    pub ranges: Vec<(usize, usize)>,
    pub words: Vec<String>,
}

pub fn lex_all(src: &str) -> Option<Toks> {
    let mut lx = Lex::new(Xstr::from(src));
    let mut t = Toks { text: vec![], ranges: vec![], words: vec![] };
    loop {
        match lx.next() {
            Ok(Tok::EndOfInput) => break,
            Ok(Tok::Whitespace(_)) | Ok(Tok::Comment(_)) => continue,
            Ok(Tok::Word(w)) => {
                let r = w.range();
                t.text.push(format!("w{}", canon::hex(w.as_bytes())));
                t.ranges.push((r.start, r.end));
                t.words.push(w.to_string());
            }
            Ok(Tok::Literal(c)) => {
                let s = lx.last_substr();
                let r = s.range();
                t.text.push(format!("l{}", canon::cell(&c)));
                t.ranges.push((r.start, r.end));
            }
            Err(_) => return None,
        }
    }
    Some(t)
}

/// index of the token whose byte range starts at `start` (the end of the text = number of tokens)
pub fn tok_index(t: &Toks, start: usize, src_len: usize) -> String {
    match t.ranges.iter().position(|r| r.0 == start) {
        Some(i) => i.to_string(),
        None => if start >= src_len { t.ranges.len().to_string() } else { format!("?{}", start) },
    }
}

pub fn dict_for(xs: &Xstate, words: &[String]) -> String {
    // names of the source's words, plus the names late-bound `Resolve` opcodes will look up at run time
    let resolves: Vec<String> = xs.verif_code().iter().filter(|o| o.kind == "resolve").map(|o| o.name.clone()).collect();
    xs.verif_dict()
        .iter()
        .filter(|e| words.iter().any(|w| *w == e.0) || resolves.iter().any(|w| *w == e.0))
        .map(|(name, kind, imm, num, cell, native)| {
            format!("{}~{}~{}~{}~{}~{}", canon::hex(name.as_bytes()), kind, if *imm { 1 } else { 0 }, num,
                cell.as_ref().map(canon::cell).unwrap_or("N".into()), canon::hex(native.as_bytes()))
        })
        .collect::<Vec<_>>()
        .join("|")
}

fn base_state() -> Xstate {
    let mut xs = Xstate::boot().unwrap();
    xs.intercept_stdout(true);
    xs.set_insn_limit(Some(LIMIT)).unwrap();
    xs
}

fn err_tok(xs: &Xstate, t: &Toks, src: &str) -> String {
    match xs.last_err_location() {
        Some(loc) => tok_index(t, loc.token.range().start, src.len()),
        None => "none".into(),
    }
}

pub fn emit_program(ctx: &mut Ctx, base: &Xstate, src: &str) { emit_program_lim(ctx, base, src, LIMIT, true) }

/// the same with the instruction limit `base` was given (deep recursion needs more than the usual budget)
pub fn emit_program_lim(ctx: &mut Ctx, base: &Xstate, src: &str, limit: usize, structural: bool) {
    let t = match lex_all(src) { Some(t) => t, None => { ctx.tag("skipped:lex-error"); return; } };
    let setup_common = {
        let d = base.verif_dump();
        format!("toks={} dict={} heap=v({}) lim={}/-/- view=full", t.text.join("|"), dict_for(base, &t.words),
            d.heap.iter().map(canon::cell).collect::<Vec<_>>().join(","), limit)
    };
    // --- build only
    let mut xs = base.clone();
    let code0 = xs.verif_code().len();
    let r = crate::guarded(|| xs.compile(src));
    let build_answer = match &r {
        None => "panic".to_string(),
        Some(Err(e)) => format!("err {} tok={}", canon::err(e), err_tok(&xs, &t, src)),
        Some(Ok(())) => {
            let code = xs.verif_code();
            let ops: Vec<String> = code[code0..].iter().map(vmcanon::op_str).collect();
            let dmap: Vec<String> = code[code0..].iter().map(|o| tok_index(&t, o.tok.0, src.len())).collect();
            format!("ok code={} dmap={}", ops.join("|"), dmap.join(","))
        }
    };
    ctx.tag(if build_answer.starts_with("ok") { "build:ok" } else { "build:err" });
    ctx.case(format!("C01 build {}", setup_common), build_answer.clone());
    // --- eval
    let mut ys = base.clone();
    let r = crate::guarded(|| ys.eval(src));
    let answer = match r {
        None => "panic@".to_string(),
        Some(Ok(())) => format!("ok@{}", vmcanon::full_dump(&mut ys)),
        Some(Err(e)) => {
            if build_answer.starts_with("err") {
                format!("builderr {} tok={}", canon::err(&e), err_tok(&ys, &t, src))
            } else {
                format!("err {} tok={}@{}", canon::err(&e), err_tok(&ys, &t, src), vmcanon::full_dump(&mut ys))
            }
        }
    };
    ctx.tag(&format!("eval:{}", answer.split(|c| c == ' ' || c == '@').next().unwrap_or("")));
    let timed_out = answer.contains("insn_limit_reached");
    ctx.case(format!("C01 eval {}", setup_common), answer);
    // --- structural reading: actual bytecode == compileS (parseS source), evalS == VM (decided by the model;
    //     `unsupported` when the program is outside the structured fragment)
    if build_answer.starts_with("ok") && structural {
        ctx.case(format!("C01 struct {}", setup_common), if timed_out { "tv=same sem=timeout".into() } else { "tv=same sem=same".into() });
    }
}

fn depth_after(base: &Xstate, src: &str) -> Option<(Xresult, usize)> {
    let mut xs = base.clone();
    let r = crate::guarded(|| xs.eval(src))?;
    Some((r, xs.data_depth()))
}

pub fn run(ctx: &mut Ctx) {
    let base = base_state();
    let cfg = GenCfg { endless: true, ..GenCfg::default() };
    for _ in 0..ctx.n {
        let (src, tags) = gen_program(&mut ctx.rng, &cfg);
        for t in tags.iter() { ctx.tag(&format!("prog:{}", t)); }
        emit_program(ctx, &base, &src);
        // oracle 1: a program that terminated normally leaves no loop index behind
        if !tags.contains(&"malformed") {
            if let Some((Ok(()), _)) = depth_after(&base, &src) {
                let probe = format!("{} I", src);
                let mut xs = base.clone();
                let r = crate::guarded(|| xs.eval(&probe));
                let ok = matches!(r, Some(Err(Xerr::LoopStackUnderflow)));
                ctx.check(ok, || format!("C01 `{}`", probe), || "err LoopStackUnderflow (no loop index visible after the program)".into(), || format!("{:?}", r));
            }
        }
    }
    // shapes the grammar reaches rarely: redeclared variables and redefined words seen through words compiled
    // earlier, a `local` re-executed by a loop, shadowed locals
    for _ in 0..(ctx.n / 8).max(40) {
        let src = crate::progen::shape(&mut ctx.rng);
        ctx.tag("shape:redeclare/relocal");
        emit_program(ctx, &base, &src);
    }
    // recursion a thousand and more frames deep is just recursion: no hidden bound on the return stack (a larger
    // instruction budget than the other programs get; the model's return stack is a list)
    {
        let mut deep = Xstate::boot().unwrap();
        deep.intercept_stdout(true);
        deep.set_insn_limit(Some(40000)).unwrap();
        for _ in 0..4 {
            let d = *ctx.rng.pick(&[900, 1023, 1024, 1025, 1500, 2100, 3000]);
            let src = if ctx.rng.bool() { format!(": down dup 0 > if 1 - down then ; {} down", d) } else { format!(": up local n n {} < if n 1 + up else n then ; 0 up", d) };
            ctx.tag("shape:deep-recursion");
            // (not to the structural evaluator of the driver: its recursion fuel is calibrated for the usual budget)
            emit_program_lim(ctx, &deep, &src, 40000, false);
            let mut x = deep.clone();
            let r = crate::guarded(|| x.eval(&src));
            ctx.check(matches!(r, Some(Ok(()))) && x.data_depth() == 1, || format!("C01 `{}`", src), || "Ok, one value".into(), || format!("{:?} depth {}", r.map(|r| r.is_ok()), x.data_depth()));
        }
    }
    // `of` runs the clause whose value EQUALS the selector: values of different kinds (a flag and a number, nil and
    // zero, a text and a vector) are never equal, whatever an ordering would say about them
    {
        let pool = ["1", "2", "0", "\"x\"", "\"1\"", "true", "false", "nil", "1.5", "[ 1 ]", "[ ]", "-1"];
        for _ in 0..(ctx.n / 8).max(40) {
            let sel = *ctx.rng.pick(&pool);
            let k = ctx.rng.range(1, 4) as usize;
            let vals: Vec<&str> = (0..k).map(|_| *ctx.rng.pick(&pool)).collect();
            let mut src = format!("{} case", sel);
            for (i, v) in vals.iter().enumerate() { src.push_str(&format!(" {} of {} endof", v, 100 + i)); }
            let with_default = ctx.rng.bool();
            if with_default { src.push_str(" 999"); }
            src.push_str(" endcase");
            let hit = vals.iter().position(|v| *v == sel);
            let mut xs = base.clone();
            let r = crate::guarded(|| xs.eval(&src));
            let top = xs.get_data(0).and_then(|c| c.to_xint().ok());
            let (want_depth, want_top) = match hit {
                Some(i) => (1, Some(100 + i as i128)),
                None => if with_default { (2, Some(999)) } else { (1, sel.parse::<i128>().ok()) },
            };
            let ok = matches!(r, Some(Ok(()))) && xs.data_depth() == want_depth && (top == want_top || (hit.is_none() && !with_default));
            ctx.check(ok, || format!("C01 `{}`", src), || format!("Ok, depth {} top {:?} (the clause whose value equals the selector, else the default part)", want_depth, want_top),
                || format!("{:?} depth {} top {:?}", r.map(|r| r.is_ok()), xs.data_depth(), top));
            ctx.tag(if hit.is_some() { "shape:case-mixed:hit" } else { "shape:case-mixed:default" });
            emit_program(ctx, &base, &src);
        }
    }
    // counted loops whose bounds do not fit the index type cannot run: the program fails at its `do`, it does not run
    // some other loop
    {
        let big = ["9223372036854775808", "-9223372036854775809", "18446744073709551616", "9223372036854775807", "-9223372036854775808", "170141183460469231731687303715884105727"];
        for _ in 0..(ctx.n / 16).max(24) {
            let a = if ctx.rng.chance(60) { big[ctx.rng.below(big.len())].to_string() } else { ctx.rng.range(-3, 4).to_string() };
            let b = if ctx.rng.chance(60) { big[ctx.rng.below(big.len())].to_string() } else { ctx.rng.range(-3, 4).to_string() };
            let src = match ctx.rng.below(3) {
                0 => format!("{} {} do I break loop 7", a, b),
                1 => format!(": w do I I 2 == if break then loop ; {} {} w 7", a, b),
                _ => format!("5 {} {} do I drop break loop 7", a, b),
            };
            let fits = |t: &str| t.parse::<i128>().map(|v| v >= isize::MIN as i128 && v <= isize::MAX as i128).unwrap_or(false);
            if !(fits(&a) && fits(&b)) {
                let mut xs = base.clone();
                let r = crate::guarded(|| xs.eval(&src));
                ctx.check(matches!(r, Some(Err(Xerr::IntegerOverflow))), || format!("C01 `{}`", src), || "err IntegerOverflow at the `do` (a bound outside the index range)".into(), || format!("{:?}", r));
                ctx.tag("shape:do-bounds:outside");
            } else { ctx.tag("shape:do-bounds:inside"); }
            emit_program(ctx, &base, &src);
        }
    }
    // bodies of tens of thousands of instructions: a jump spans whatever its construct spans
    {
        let mut long = Xstate::boot().unwrap();
        long.intercept_stdout(true);
        long.set_insn_limit(Some(400000)).unwrap();
        let n = *ctx.rng.pick(&[17000usize, 20000, 33000, 40000]);
        let body = "1 drop ".repeat(n);
        let progs: Vec<(String, Vec<i128>)> = vec![
            (format!(": f {} ; 7 f 8", body), vec![7, 8]),
            (format!("false if {} then 7", body), vec![7]),
            (format!("true if 6 else {} then 7", body), vec![6, 7]),
            (format!("0 begin 1 + dup 3 == if break then {} repeat 7", body), vec![3, 7]),
            (format!("0 0 do {} loop 7", body), vec![7]),
            (format!("2 0 do {} loop 7", body), vec![7]),
            (format!("1 case 0 of {} 5 endof 1 of 6 endof endcase 7", body), vec![6, 7]),
            (format!("0 begin 1 + dup 2 < while {} repeat 7", body), vec![2, 7]),
        ];
        for (src, want) in progs {
            let mut xs = long.clone();
            let r = crate::guarded(|| xs.eval(&src));
            let got: Vec<Option<i128>> = (0..xs.data_depth()).rev().map(|i| xs.get_data(i).and_then(|c| c.to_xint().ok())).collect();
            let ok = matches!(r, Some(Ok(()))) && got == want.iter().map(|v| Some(*v)).collect::<Vec<_>>();
            let head: String = src.chars().take(60).collect();
            ctx.check(ok, || format!("C01 long body ({} x `1 drop`): `{}...`", n, head), || format!("Ok, stack {:?}", want), || format!("{:?} stack {:?}", r.map(|r| r.is_ok()), got));
            ctx.tag("shape:long-body");
        }
    }
    // oracle 2: zero-trip counted loops leave the stack as `drop drop` does; the body never runs
    for _ in 0..(ctx.n / 4).max(50) {
        let start = ctx.rng.range(-3, 6);
        let lim = ctx.rng.range(-3, start);
        let (body, _) = gen_program(&mut ctx.rng, &GenCfg { defs: false, vars: false, malformed_percent: 0, max_depth: 2, ..GenCfg::default() });
        let src = format!("11 22 {} {} do {} 99 loop depth", lim, start, body);
        let r = depth_after(&base, &src);
        let ok = matches!(&r, Some((Ok(()), 3)));
        ctx.check(ok, || format!("C01 `{}`", src), || "Ok, depth 3 (11 22 and the depth itself)".into(), || format!("{:?}", r));
        emit_program(ctx, &base, &src);
        ctx.tag("oracle:zero-trip");
    }
    // oracle 4: a program stopped by a run-time error inside its loops leaves their records behind (the failed
    // program stays paused for inspection); they belong to that program: the next source starts with no loop of its
    // own, so `I` `J` `K` in it see only the loops it opens itself
    for _ in 0..(ctx.n / 8).max(30) {
        let k = ctx.rng.range(0, 3);
        let failing = match ctx.rng.below(4) {
            0 => format!("5 0 do I {} == if \"x\" 1 + then loop", k),
            1 => format!("3 0 do 4 0 do I {} == if 1 0 / then loop loop", k),
            2 => format!("[ 7 8 9 ] foreach I {} == if nil 1 + then loop", 7 + k),
            _ => format!(": lf 4 0 do I {} == if 1 0 / then loop ; 2 0 do lf loop", k),
        };
        let probe = *ctx.rng.pick(&["I", "J", "K", "1 0 do J loop", "1 0 do K loop", "1 0 do 1 0 do K loop loop", "[ 1 ] foreach J loop", ": pi I ; pi", ": pj 1 0 do J loop ; pj"]);
        let mut xs = base.clone();
        let r0 = crate::guarded(|| xs.eval(&failing));
        if !matches!(r0, Some(Err(_))) { ctx.tag("oracle:loop-leftover:did-not-fail"); continue; }
        let abort = ctx.rng.bool();
        if abort { xs.abort_run(); }
        {
            // the same history for the session model
            use crate::props::c10::{correspondence, Op};
            let mut ops = vec![Op::Eval(failing.clone())];
            if abort { ops.push(Op::Abort); }
            ops.push(Op::Eval(probe.to_string()));
            correspondence(ctx, "C01", &ops);
        }
        let r = crate::guarded(|| xs.eval(probe));
        let ok = matches!(r, Some(Err(Xerr::LoopStackUnderflow)));
        ctx.check(ok, || format!("C01 `{}` (fails at run time) then `{}`", failing, probe), || "err LoopStackUnderflow (the loops of the failed program are not the new program's)".into(), || format!("{:?}", r));
        ctx.tag("oracle:loop-leftover");
    }
    // oracle 3: structurally endless loops never fall through
    for _ in 0..(ctx.n / 4).max(50) {
        let (body, _) = gen_program(&mut ctx.rng, &GenCfg { defs: false, vars: false, malformed_percent: 0, max_depth: 1, max_stmts: 2, ..GenCfg::default() });
        let body = if ctx.rng.chance(30) { String::new() } else { body.replace("break", "drop") };
        let src = match ctx.rng.below(3) {
            0 => format!("begin {} repeat 5", body),
            1 => format!("begin {} false until 5", body),
            _ => format!("begin true while {} repeat 5", body),
        };
        let r = depth_after(&base, &src);
        let ok = match &r { Some((Err(_), _)) => true, _ => false };
        ctx.check(ok, || format!("C01 `{}`", src), || "an error (instruction limit or an error raised by the body), never Ok".into(), || format!("{:?}", r));
        emit_program(ctx, &base, &src);
        ctx.tag("oracle:endless");
    }
}
