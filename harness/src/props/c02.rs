//! C02 — reverse stepping exactly undoes forward stepping, and replay reproduces it.
//! One case = one generated program compiled on a booted interpreter with recording on; the actual
//! bytecode (`verif_code`) and machine state are sent to the model together with a script of
//! `n` (next) / `r` (rnext) commands; after every command the full dump is compared.
//! Oracle (implementation only): the dump after rewinding to step i equals the dump first seen at
//! step i, for every i reached, and replaying forward reproduces the recorded dumps.
use crate::progen::{gen_program, GenCfg};
use crate::vmcanon;
use crate::Ctx;
use xeh::prelude::*;

pub const INSN_LIMIT: usize = 3000;

pub fn prepare(base: &Xstate, src: &str, rec: bool) -> Option<Xstate> {
    let mut xs = base.clone();
    xs.intercept_stdout(true);
    xs.set_recording_enabled(rec);
    xs.set_insn_limit(Some(INSN_LIMIT)).ok()?;
    match crate::guarded(|| xs.compile(src)) {
        Some(Ok(())) => Some(xs),
        _ => None,
    }
}

/// a run long enough for the reverse log to hold far more than 2^16 records, then all the way back: the start is
/// reached, one backward step per forward step (oracle only: the script would be tens of thousands of commands)
fn long_rewind(ctx: &mut Ctx, base: &Xstate) {
    let n = if ctx.thorough { 40000 } else { 12000 };
    let src = format!("0 {} 0 do I + loop", n);
    let mut xs = base.clone();
    xs.intercept_stdout(true);
    xs.set_recording_enabled(true);
    if !matches!(crate::guarded(|| xs.compile(&src)), Some(Ok(()))) { return; }
    let start = vmcanon::core_dump(&xs.verif_dump());
    let mut steps = 0usize;
    let mut mid = String::new();
    while xs.is_running() && steps < 10 * n + 100 {
        if crate::guarded(|| xs.next()).map(|r| r.is_err()).unwrap_or(true) { break; }
        steps += 1;
        if steps == 1000 { mid = vmcanon::core_dump(&xs.verif_dump()); }
    }
    let log = xs.verif_dump().reverse_log_len.unwrap_or(0);
    ctx.progress(&format!("C02 long rewind of `{}`: {} steps forward, log {}", src, steps, log));
    let mut back = 0usize;
    let mut mid_ok = true;
    while back < steps {
        if crate::guarded(|| xs.rnext()).map(|r| r.is_err()).unwrap_or(true) { break; }
        back += 1;
        if steps - back == 1000 { mid_ok = vmcanon::core_dump(&xs.verif_dump()) == mid; }
    }
    let end = vmcanon::core_dump(&xs.verif_dump());
    ctx.check(back == steps && end == start && mid_ok, || format!("C02 `{}`: {} steps forward (log of {} records), then as many backward", src, steps, log),
        || format!("back at the start: {}", start), || format!("{} backward steps, state {}{}", back, end, if mid_ok { "" } else { " (and the state 1000 steps from the start was not restored on the way)" }));
    ctx.tag("kind:long-rewind");
}

/// known finding [host-object-not-logged]: the words of the d2 plug-in (loaded by the `xeh` binary) change their canvas,
/// a host object behind a `Cell::AnyRc`, in place and write no undo record: stepping back over them restores the
/// interpreter's own state but not the canvas (same root as C03's [anyrc-shared])
fn host_objects(ctx: &mut Ctx) {
    let mut xs = Xstate::boot().unwrap();
    if xeh::d2_plugin::load(&mut xs).is_err() { return; }
    xs.intercept_stdout(true);
    xs.set_recording_enabled(true);
    let src = "2 3 d2-resize 7 d2-color! 1 1 d2-data!";
    if !matches!(crate::guarded(|| xs.compile(src)), Some(Ok(()))) { return; }
    let view = |xs: &Xstate| { let mut p = xs.clone(); let _ = p.eval("d2-width d2-height"); format!("{:?}x{:?}", p.get_data(1).map(crate::canon::cell), p.get_data(0).map(crate::canon::cell)) };
    let before = view(&xs);
    let mut n = 0;
    while xs.is_running() && n < 50 { if crate::guarded(|| xs.next()).map(|r| r.is_err()).unwrap_or(true) { break; } n += 1; }
    for _ in 0..n { let _ = crate::guarded(|| xs.rnext()); }
    let after = view(&xs);
    ctx.check(before == after, || format!("[host-object-not-logged] C02 `{}` stepped to the end and all the way back", src), || format!("canvas {}", before), || format!("canvas {}", after));
    ctx.tag("kind:host-object");
}

/// The same program whichever way its text reaches the compiler: given as a text (`compile`), read from a file
/// (`compile_file`, what `xeh -r file` does), or included by another text. What runs while the source is BUILT (meta
/// blocks, `const`, immediate words) leaves nothing for reverse stepping to take back: the program is stepped to its
/// end, all the way back (every state on the way is the one recorded going forward, the start is the start) and
/// forward again.
fn from_files(ctx: &mut Ctx, base: &Xstate) {
    let dir = crate::lib_files(&ctx.scratch);
    let cfg = GenCfg { endless: false, max_stmts: 4, ..GenCfg::default() };
    let rounds = if ctx.thorough { 60 } else { 16 };
    for round in 0..rounds {
        let (a, b) = (ctx.rng.range(-9, 99), ctx.rng.range(0, 9));
        let pre = match round % 8 {
            0 => format!("#( {} const kf{} #)\nkf{} 1 +", a, b, b),
            1 => format!("#( {} {} + #)", a, b),
            2 => format!("#( {} {} #) drop", a, b),
            3 => format!("#( [ {} {} ] #) drop #( {} const kk{} #)", a, b, b, b),
            4 => format!(": im{} immediate drop ; #( {} #) {} im{}", b, a, b, b),
            5 => format!("{} var fv{} #( 3 const kc #) kc ! fv{} fv{}", a, b, b, b),
            6 => format!("#( {} #( {} 1 + #) * #)", a, b),
            _ => String::new(),
        };
        let (prog, _) = gen_program(&mut ctx.rng, &cfg);
        let text = format!("{}\n{}\n", pre, prog);
        let path = format!("{}/c02-{}.xeh", dir, round);
        std::fs::write(&path, &text).unwrap();
        let routes: [(&str, Box<dyn Fn(&mut Xstate) -> Xresult>); 3] = [
            ("compile", Box::new({ let t = text.clone(); move |xs: &mut Xstate| xs.compile(&t) })),
            ("compile_file", Box::new({ let p = path.clone(); move |xs: &mut Xstate| xs.compile_file(p.as_str().into()) })),
            ("include", Box::new({ let p = path.clone(); move |xs: &mut Xstate| xs.compile(&format!("include \"{}\"", p)) })),
        ];
        let mut trails: Vec<(String, Vec<String>)> = Vec::new();
        for (route, build) in routes.iter() {
            let mut xs = base.clone();
            xs.intercept_stdout(true);
            xs.set_recording_enabled(true);
            xs.set_insn_limit(Some(INSN_LIMIT)).unwrap();
            match crate::guarded(|| build(&mut xs)) {
                Some(Ok(())) => {}
                _ => { ctx.tag("files:build-error"); continue; }
            }
            let mut hist = vec![vmcanon::core_dump(&xs.verif_dump())];
            let mut failed = false;
            while xs.is_running() && hist.len() <= 80 {
                match crate::guarded(|| xs.next()) { Some(Ok(())) => hist.push(vmcanon::core_dump(&xs.verif_dump())), _ => { failed = true; break; } }
            }
            // (a program whose last step failed is stepped back through the failed step first: compared with the model in
            // `failing_steps`, not here)
            if failed { ctx.tag("files:last-step-failed"); continue; }
            let n = hist.len() - 1;
            // back to the start, every state on the way
            let mut bad: Option<String> = None;
            for k in 1..=n {
                let r = crate::guarded(|| xs.rnext());
                let core = vmcanon::core_dump(&xs.verif_dump());
                if !matches!(r, Some(Ok(()))) || core != hist[n - k] {
                    bad = Some(format!("after {} steps back: {:?} {} (recorded going forward: {})", k, r.map(|r| r.is_ok()), core, hist[n - k]));
                    break;
                }
            }
            // … and forward again
            if bad.is_none() {
                for k in 1..=n {
                    let r = crate::guarded(|| xs.next());
                    let core = vmcanon::core_dump(&xs.verif_dump());
                    if !matches!(r, Some(Ok(()))) || core != hist[k] {
                        bad = Some(format!("replay step {}: {:?} {} (recorded the first time: {})", k, r.map(|r| r.is_ok()), core, hist[k]));
                        break;
                    }
                }
            }
            ctx.check(bad.is_none(), || format!("C02 {} of `{}`: {} steps forward{}, all the way back, forward again", route, text.replace('\n', " \\n "), n, if failed { " (the last one failed)" } else { "" }),
                || "every state on the way back and on the replay is the one recorded going forward".into(), || bad.clone().unwrap_or_default());
            ctx.tag(&format!("files:{}", route));
            // (the included text sits behind a different first instruction count only if `include` compiled code of its own: it does not)
            trails.push((route.to_string(), hist));
        }
        // the three routes build the same program: same states step for step (sources and debug map are not part of the core dump)
        if trails.len() == 3 {
            let same = trails[0].1 == trails[1].1 && trails[0].1 == trails[2].1;
            ctx.check(same, || format!("C02 `{}` compiled as a text, from a file and through include", text.replace('\n', " \\n ")), || format!("the same {} states", trails[0].1.len()),
                || format!("compile {} states, compile_file {} states, include {} states; first difference at step {:?}", trails[0].1.len(), trails[1].1.len(), trails[2].1.len(),
                    (0..trails[0].1.len().min(trails[1].1.len()).min(trails[2].1.len())).find(|&i| trails[0].1[i] != trails[1].1[i] || trails[0].1[i] != trails[2].1[i])));
        }
    }
}

/// programs whose last step FAILS (half-way through: operands popped, a frame pushed), then all the way back and
/// forward again: always part of the run, compared with the model command for command (what a failed step leaves in the
/// log is exactly what takes its partial effects back)
fn failing_steps(ctx: &mut Ctx, base: &Xstate) {
    for src in ["1 2 nil + 7", "1 0 / 5", "[ 1 2 ] 5 nth 9", "\"x\" 1 + 2", ": f nil 1 + ; 3 f 4", "3 0 do I 1 == if nil 1 + then I loop", "1 2 3 rot drop drop drop drop 8", "5 var v v nil * ! v v",
        "[ 1 [ 2 nil + ] ]", "1 2 { 3 nil + }", "2 0 do 2 0 do J I + 2 == if \"s\" 0 / then loop loop", "false assert 1", "1 2 swap nil swap - 3", "|ff| open-bitstr u8 u8 7",
        // … and a few that run through but whose steps are unusual: loops with nothing in them, jumps to themselves
        "3 0 do loop 7", "0 0 do loop 1", "2 0 do 2 0 do loop loop 5", "[ 1 2 ] foreach loop 3", "0 begin 1 + dup 3 > until", "1 case endcase 2", "true if then false if else then 4", ": e ; e e 6"] {
        let mut xs = match prepare(base, src, true) { Some(xs) => xs, None => { ctx.tag("failing-steps:build-error"); continue; } };
        let setup = vmcanon::setup_str(&xs, (Some(INSN_LIMIT), None, None));
        let mut script: Vec<&str> = Vec::new();
        let mut answers: Vec<String> = Vec::new();
        let mut fwd = 0usize;
        let mut step = |xs: &mut Xstate, cmd: &'static str, script: &mut Vec<&str>, answers: &mut Vec<String>| -> Option<bool> {
            let r = crate::guarded(|| if cmd == "n" { xs.next() } else { xs.rnext() });
            script.push(cmd);
            match r { Some(r) => { answers.push(format!("{}@{}", vmcanon::outcome(&r), vmcanon::full_dump(xs))); Some(r.is_ok()) } None => { answers.push("panic@".into()); None } }
        };
        let mut failed = false;
        while fwd < 60 && xs.is_running() {
            match step(&mut xs, "n", &mut script, &mut answers) { Some(true) => fwd += 1, Some(false) => { fwd += 1; failed = true; break; } None => break }
        }
        for _ in 0..fwd + 1 { if step(&mut xs, "r", &mut script, &mut answers).is_none() { break; } }
        for _ in 0..fwd + 1 { if step(&mut xs, "n", &mut script, &mut answers).is_none() { break; } }
        for _ in 0..2 { if step(&mut xs, "r", &mut script, &mut answers).is_none() { break; } }
        ctx.tag(if failed { "failing-steps:failed" } else { "failing-steps:ran-through" });
        ctx.case(format!("C02 vm {} view=full script={}", setup, script.join(",")), answers.join(" ; "));
    }
}

pub fn run(ctx: &mut Ctx) {
    let base = Xstate::boot().unwrap();
    failing_steps(ctx, &base);
    host_objects(ctx);
    long_rewind(ctx, &base);
    let cfg = GenCfg { endless: false, ..GenCfg::default() };
    let max_steps = if ctx.thorough { 120 } else { 60 };
    let mut n_done = 0;
    let mut attempts = 0;
    while n_done < ctx.n && attempts < ctx.n * 3 {
        attempts += 1;
        let (mut src, tags) = gen_program(&mut ctx.rng, &cfg);
        // some sources begin with meta blocks: they run while the source is compiled, with recording already on, and
        // their results are re-emitted as literals — none of which may leave anything for reverse stepping to undo
        // (repair 0bda475). The machine-level model starts from an empty log, so these go to the oracle only.
        let meta_prefix = ctx.rng.chance(12);
        if meta_prefix {
            let (a, b) = (ctx.rng.range(-9, 99), ctx.rng.range(0, 9));
            let pre = match ctx.rng.below(4) {
                0 => format!("#( {} {} + #)", a, b),
                1 => format!("#( {} {} #) drop", a, b),
                2 => format!("#( {} #( {} 1 + #) * #)", a, b),
                _ => format!("#( [ {} {} ] #) drop #( {} const kk{} #)", a, b, b, b),
            };
            src = format!("{} {}", pre, src);
            ctx.tag("kind:meta-prefix");
        }
        // a program whose first instruction is a jump target: it comes back to address 0, which is the start of the
        // program only the first time
        if !meta_prefix && ctx.rng.chance(8) {
            let k = ctx.rng.range(1, 4);
            src = match ctx.rng.below(3) {
                0 => format!("begin depth {} < while 7 repeat {}", k, src),
                1 => format!("begin 1 depth {} > until {}", k, src),
                _ => format!("begin depth {} < while depth 0 do I drop loop 5 repeat", k),
            };
            ctx.tag("kind:back-to-address-0");
        }
        // late-bound words: the first execution of each resolves and patches the instruction, and is one step
        if !meta_prefix && ctx.rng.chance(8) {
            let pre = match ctx.rng.below(3) {
                0 => "late sq : cube dup sq * ; : sq dup * ; 3 cube 1 + cube drop",
                1 => "late lw : a1 lw lw + ; 5 var lw a1 drop 6 ! lw a1 drop",
                _ => "late k1 late k2 : both k1 k2 ; : k1 1 ; : k2 k1 k1 + ; both both + + drop",
            };
            src = format!("{} {}", pre, src);
            ctx.tag("kind:late-bound");
        }
        // a source rejected while the program is paused (a typo at the prompt) is forgotten completely: it changes
        // nothing, in particular not what reverse stepping can take back. Builds are outside the machine-level model,
        // so these histories go to the oracle only.
        let reject_at: Option<usize> = if !meta_prefix && ctx.rng.chance(12) { ctx.tag("kind:rejected-source-while-paused"); Some(ctx.rng.below(max_steps / 2)) } else { None };
        let mut xs = match prepare(&base, &src, true) {
            Some(xs) => xs,
            None => { ctx.tag("skipped:build-error"); continue; }
        };
        // some programs run under a small stack limit: a push that the limit refuses is a failed step like any other —
        // it leaves nothing in the log, and what came before can still be taken back
        let stack_limit: Option<usize> = if ctx.rng.chance(12) { ctx.tag("kind:stack-limit"); Some(1 + ctx.rng.below(5)) } else { None };
        if stack_limit.is_some() { xs.set_stack_limit(stack_limit).unwrap(); }
        // recording is asserted again in the middle (a host that makes sure it is on): that is not a restart
        let reassert_at: Option<usize> = if !meta_prefix && ctx.rng.chance(8) { ctx.tag("kind:recording-asserted-again"); Some(1 + ctx.rng.below(max_steps / 2)) } else { None };
        n_done += 1;
        for t in tags.iter() { ctx.tag(&format!("prog:{}", t)); }
        let setup = vmcanon::setup_str(&xs, (Some(INSN_LIMIT), stack_limit, None));
        // history of clean dumps: hist[i] = core dump after i successful steps
        let d0 = xs.verif_dump();
        let mut hist: Vec<String> = vec![vmcanon::core_dump(&d0)];
        let mut pos = 0usize;
        let mut clean = true; // false once a step failed (partial effects); the oracle stops there
        let mut script: Vec<&str> = Vec::new();
        let mut answers: Vec<String> = Vec::new();
        let total = ctx.rng.below(max_steps) + 1;
        let mut budget = total + ctx.rng.below(total + 1) * 2;
        let mut phase_forward = true;
        let mut oracle_done = false;
        let mut turn = 0usize;
        let full_rewind = ctx.rng.chance(35);
        let mut planned = false;
        let mut forced: Vec<bool> = Vec::new();
        while budget > 0 {
            budget -= 1;
            turn += 1;
            if reassert_at == Some(turn) {
                let before = (vmcanon::core_dump(&xs.verif_dump()), xs.verif_dump().reverse_log_len);
                xs.set_recording_enabled(true);
                let after = (vmcanon::core_dump(&xs.verif_dump()), xs.verif_dump().reverse_log_len);
                ctx.check(before == after, || format!("C02 set_recording_enabled(true) again after {} steps/rewinds of `{}`", turn - 1, src), || format!("{:?}", before), || format!("{:?}", after));
            }
            if reject_at == Some(turn) && clean {
                // (the instruction meter keeps what a rejected source's meta blocks executed — C14 — and is not compared)
                let before = vmcanon::core_dump(&xs.verif_dump());
                let log0 = xs.verif_dump().reverse_log_len;
                let bad = *ctx.rng.pick(&["1 nosuchword", "1 if 2", ": half 2 nosuchword ;", "#( 1 2 + nosuchword #)", "[ 1 2", "\"unterminated"]);
                let r = if ctx.rng.bool() { crate::guarded(|| xs.eval(bad)) } else { crate::guarded(|| xs.compile(bad)) };
                let after = vmcanon::core_dump(&xs.verif_dump());
                let log1 = xs.verif_dump().reverse_log_len;
                let ok = matches!(r, Some(Err(_))) && before == after && log0 == log1;
                ctx.check(ok, || format!("C02 `{}` rejected after {} steps/rewinds of `{}`", bad, turn - 1, src), || format!("rejected; log={:?} {}", log0, before), || format!("{:?}; log={:?} {}", r.map(|x| x.is_ok()), log1, after));
            }
            if !phase_forward && !planned && full_rewind {
                // all the way back to the start of the program and forward again, then the random walk goes on
                planned = true;
                forced = std::iter::repeat(false).take(pos).chain(std::iter::repeat(true).take(pos)).collect();
                forced.reverse();
                budget += 2 * pos;
                ctx.tag("walk:rewind-to-the-start-and-replay");
            }
            let fwd = if phase_forward { if pos >= total { phase_forward = false; false } else { true } }
                else if let Some(f) = forced.pop() { f } else { ctx.rng.chance(45) };
            if fwd {
                let r = match crate::guarded(|| xs.next()) { Some(r) => r, None => { script.push("n"); answers.push("panic@".into()); break; } };
                script.push("n");
                let full = vmcanon::full_dump(&mut xs);
                answers.push(format!("{}@{}", vmcanon::outcome(&r), full));
                let core = vmcanon::core_dump(&xs.verif_dump());
                if r.is_err() { clean = false; ctx.tag("step:error"); }
                if clean {
                    if !xs.is_running() && hist.last() == Some(&core) && pos + 1 >= hist.len() {
                        // finished: `next` is a no-op
                        ctx.tag("step:finished");
                        phase_forward = false;
                        if ctx.rng.chance(70) { continue; }
                    } else {
                        pos += 1;
                        if pos < hist.len() {
                            // replaying: must reproduce the recorded execution step for step
                            if !oracle_done {
                                let ok = hist[pos] == core;
                                if !ok { oracle_done = true; }
                                let (e, o) = (hist[pos].clone(), core.clone());
                                ctx.check(ok, || format!("C02 replay step {} of `{}`", pos, src), || e, || o);
                            }
                        } else {
                            hist.push(core);
                        }
                    }
                }
            } else {
                let r = match crate::guarded(|| xs.rnext()) { Some(r) => r, None => { script.push("r"); answers.push("panic@".into()); break; } };
                script.push("r");
                let full = vmcanon::full_dump(&mut xs);
                answers.push(format!("{}@{}", vmcanon::outcome(&r), full));
                if clean && pos > 0 {
                    pos -= 1;
                    let core = vmcanon::core_dump(&xs.verif_dump());
                    if !oracle_done {
                        let ok = r.is_ok() && hist[pos] == core;
                        if !ok { oracle_done = true; }
                        let (e, o) = (hist[pos].clone(), format!("{} {}", vmcanon::outcome(&r), core));
                        ctx.check(ok, || format!("C02 rewind to step {} of `{}`", pos, src), || e, || o);
                    }
                    ctx.tag("step:rnext");
                } else if !clean {
                    // after a failed step rnext semantics are compared with the model only
                    ctx.tag("step:rnext-after-error");
                    clean = false;
                }
            }
        }
        ctx.tag(&format!("steps:{}", (hist.len() - 1) / 10 * 10));
        if !meta_prefix && reject_at.is_none() && reassert_at.is_none() { ctx.case(format!("C02 vm {} view=full script={}", setup, script.join(",")), answers.join(" ; ")); }
    }
    from_files(ctx, &base);
}
