//! C03 — a cloned interpreter is an independent snapshot; re-running it is deterministic.
//! Exploration over histories: a pool of interpreter states; operations = evaluate a source on one
//! copy (programs, definitions, variable stores, vector/map updates, in-place-looking bit-string
//! operations on values shared between copies, late-bound words, stepping and reverse-stepping),
//! clone (also clone of clone), drop. After every operation the canonical dump of every *other*
//! copy must be unchanged; a snapshot and its origin given the same later sources must produce the
//! same results, dumps and output.
//! Correspondence: every evaluated source is also sent to the model as a `C01 eval` request on the
//! machine as it was before the operation (the model is a pure function of that machine: what it
//! answers for one copy cannot depend on any other copy).
use crate::canon;
use crate::progen::{gen_program, GenCfg};
use crate::props::c01::{dict_for, lex_all, LIMIT};
use crate::vmcanon;
use crate::Ctx;
use xeh::prelude::*;

pub fn snapshot(xs: &mut Xstate) -> String {
    let d = xs.verif_dump();
    // host objects (the d2 canvas) are observable only through their own words: read two pixels on a throw-away copy
    let host = if xs.word_list().iter().any(|w| w.as_str() == "d2-data") {
        let mut probe = xs.clone();
        let _ = probe.eval("0 0 d2-data 1 1 d2-data 2 collect");
        probe.get_data(0).map(canon::cell).unwrap_or_default()
    } else { String::new() };
    let vars: Vec<String> = xs.var_list().iter().map(|(n, c)| format!("{}={}", n, canon::cell(c))).collect();
    // captured output as the public `read_stdout` reports it, taken from a throw-away copy (reading drains the buffer)
    let cap = { let mut probe = xs.clone(); probe.read_stdout().map(|s| canon::hex(s.as_bytes())).unwrap_or("-".into()) };
    // the configured limits are not part of the dump: they are observed through what they refuse, on a throw-away copy
    let limits = {
        let mut probe = xs.clone();
        let a = crate::guarded(|| probe.eval("1 2 3 4 5 6 7 8 9 10 11 12 13 14")).map(|r| r.map_err(|e| canon::err(&e)));
        let b = crate::guarded(|| probe.eval("0 var lp1 0 var lp2 0 var lp3")).map(|r| r.map_err(|e| canon::err(&e)));
        format!("{:?}/{:?}", a, b)
    };
    format!("{} | limits={} cap={} host={} dict={} code={} dmap={} flows={} nested={} inputs={} mode={} marks={:?} | vars={}",
        vmcanon::full_dump(xs), limits, cap, host, d.dict_len, d.code_len, d.debug_map_len, d.flows, d.nested, d.pending_inputs, d.mode, d.marks, vars.join(","))
}

const SHARED_SETUP: &[&str] = &[
    "|ff 00 a5| var bs  [ 1 2 3 ] var vv  { 1 \"a\" 2 \"b\" } var mm  \"text\" var ss  0 var cnt",
    "|12 34 56| open-bitstr 4 bits var half  8 bits var mid",
    ": inc cnt 1 + ! cnt ; late later : uses-later later ;",
    // sub-byte slices whose buffers are referenced by nothing else inside one copy (stale bits behind their end)
    "[ 0xff ] >bitstr open-bitstr 4 bits close-bitstr var nib  [ 0xa7 0xff ] >bitstr open-bitstr 11 bits close-bitstr var eleven",
    // … and the same kind of value held by the data stack alone: after a clone the copies share the buffer, and the
    // last copy to use it owns it alone
    "[ 0xff ] >bitstr open-bitstr 4 bits close-bitstr  [ 0xa7 0xff ] >bitstr open-bitstr 11 bits close-bitstr  [ 0xff 0xff ] >bitstr open-bitstr 3 bits close-bitstr",
];

fn adversarial(r: &mut crate::rng::Rng) -> String {
    let pool = [
        "bs |0f| bitstr-append ! bs", "bs bitstr-not ! bs", "|01| bs bitstr-append drop", "bs bitstr-not drop",
        "half |f| bitstr-append ! half", "mid bitstr-not ! mid", "half mid bitstr-append ! bs",
        "bs open-bitstr 3 bits drop 5 bits ! half", "[ bs bs ] >bitstr ! bs", "bs |ff| bitstr-and ! bs",
        "9 vv push ! vv", "vv reverse ! vv", "vv 0 nth drop", "mm 7 3 insert ! mm", "mm 1 remove ! mm", "mm 2 get drop",
        "ss \"x\" 2 collect concat ! ss", "inc inc", "cnt 5 + ! cnt", ": later 42 ;", "uses-later drop", ": inc cnt 10 + ! cnt ;",
        "bs length drop", "vv length ! cnt", "7 var fresh", "bs", "drop", "[ 1 2 ] foreach I ! cnt loop", "3 0 do cnt 1 + ! cnt loop",
        "bs emit", "\"out\" print", "cnt println",
        // appends whose tail differs from the stale bits behind a sub-byte slice (in-place vs copy path)
        "half |0| bitstr-append ! half", "half |5| bitstr-append", "|0| half bitstr-append ! half", "mid |00| bitstr-append ! mid", "half |0| bitstr-append mid bitstr-append ! bs",
        "[ 0xff ] >bitstr open-bitstr 4 bits close-bitstr |0| bitstr-append ! half", "half half bitstr-append |0| bitstr-append ! mid",
        "nib |0| bitstr-append ! nib", "nib |0| bitstr-append ! half", "eleven |00| bitstr-append ! eleven", "nib |5| bitstr-append ! nib", "eleven nib bitstr-append ! eleven",
        "|0| bitstr-append", "|00| bitstr-append ! bs", "|0| bitstr-append |0| bitstr-append", "|5| swap bitstr-append", "|0| bitstr-append dup ! half",
        // the stack of suspended inputs belongs to one copy
        "|CC DD EE| open-bitstr", "close-bitstr", "u8 ! cnt", "offset ! cnt", "remain ! cnt", "|AA BB| open-bitstr u8 drop", "|01 02 03| open-bitstr u8 drop |04| open-bitstr", "close-bitstr close-bitstr",
        "input ! bs", "8 bits ! mid",
        // words that fail half-way through a nested value (whatever they keep outside the interpreter must not leak)
        "[ [ [ [ 300 ] ] ] ] >bitstr", "[ 1 [ 2 \"x\" nil ] ] >bitstr drop", "[ [ [ 256 ] ] ] base64", "[ [ -1 ] ] zero85", "[ 1 [ 2 3 ] ] >bitstr ! bs", "[ 10 20 30 ] 1 get ! cnt",
        // where a value starts inside its buffer must not show (open-bitstr takes `offset` from it)
        "mid |FF| bitstr-append open-bitstr offset ! cnt close-bitstr", "|FF| mid bitstr-append open-bitstr offset ! cnt close-bitstr",
        "mid |FF| swap bitstr-append open-bitstr offset remain + ! cnt close-bitstr", "half mid bitstr-append open-bitstr offset ! cnt u8 drop close-bitstr",
        "[ 1 2 3 ] >bitstr open-bitstr 8 bits drop 8 bits close-bitstr ! mid",
    ];
    let n = r.below(3) + 1;
    (0..n).map(|_| *r.pick(&pool)).collect::<Vec<_>>().join(" ")
}

/// a source that loads a library file: which files an interpreter has loaded belongs to that interpreter alone
fn file_source(ctx: &mut Ctx) -> String {
    let dir = crate::lib_files(&ctx.scratch);
    let f = *ctx.rng.pick(&["lib1", "lib2"]);
    let w = if f == "lib1" { "libword1" } else { "libword2" };
    match ctx.rng.below(4) {
        0 => format!("require \"{}/{}.xeh\" {} ! cnt", dir, f, w),
        1 => format!("include \"{}/{}.xeh\" {} ! cnt", dir, f, w),
        2 => format!("require \"{}/{}.xeh\" require \"{}/{}.xeh\" {} println", dir, f, dir, f, w),
        _ => format!("{} ! cnt", w),
    }
}

/// Every word of the dictionary on a freshly booted interpreter, after each of a few preloads: result, stack and
/// captured output. The answers are a function of the source alone — the same at the start of this process and after
/// everything the run has done to other interpreters (nothing an interpreter does may live outside it: no warn-once
/// flag, no depth counter, no cache shared by all interpreters).
fn sweep() -> Vec<(String, String)> {
    const SKIP: &[&str] = &["random", "random-bits", "write-all", "read-all", "exec-piped", "include", "require"];
    const PRELOADS: &[&str] = &["", "1", "1 2", "[ 1 [ 2 3 ] ]", "\"ab\" 1", "|A1 B2| 4", "[ 10 20 30 ] 1", "{ 1 2 } 1", "[ [ [ [ 300 ] ] ] ]",
        "[ [ [ [ [ [ [ [ 1 \"s\" nil ] ] ] ] ] ] ] ]", "2.5 -1", "\"IFBEG===\"", "1 2 3"];
    let words: Vec<String> = Xstate::boot().unwrap().word_list().iter().map(|w| w.to_string()).collect();
    let mut out = Vec::new();
    for w in &words {
        if SKIP.contains(&w.as_str()) { continue; }
        for p in PRELOADS {
            let mut xs = Xstate::boot().unwrap();
            xs.intercept_stdout(true);
            let _ = xs.intercept_output(true);
            let _ = xs.set_insn_limit(Some(2000));
            let _ = xs.set_binary_input(Xbitstr::from(vec![0x41u8, 0x00, 0x7f, 0xf8, 0, 0, 0, 0, 0, 1]));
            let _ = crate::guarded(|| xs.eval(p));
            let src = format!("{} 7 8", w);
            let r = crate::guarded(|| xs.eval(&src)).map(|r| r.map_err(|e| canon::err(&e)));
            let stack: Vec<String> = (0..xs.data_depth()).map(|i| xs.get_data(i).map(canon::cell).unwrap_or_default()).collect();
            let cap = xs.read_stdout().unwrap_or_default();
            out.push((format!("`{}` then `{}`", p, src), format!("{:?} [{}] out={:?}", r, stack.join(","), cap)));
        }
    }
    out
}

fn compare_sweeps(ctx: &mut Ctx, a: &[(String, String)], b: &[(String, String)], when: &str) {
    for ((ka, va), (_, vb)) in a.iter().zip(b.iter()) {
        ctx.check(va == vb, || format!("C03 fresh interpreter, {} — {}", ka, when), || va.clone(), || vb.clone());
    }
    ctx.tag("sweep-compared");
}

struct Copy_ {
    xs: Xstate,
    d2: bool,
    used_d2: bool,
    /// limits other than the ones every copy starts with (the correspondence request assumes those)
    custom_limits: bool,
}

/// The REPL's own snapshots (`/snapshot`, `/rollback`, trial mode — src/repl.rs, private to the binary): sessions of
/// lines are piped into the real `xeh` binary (`VERIF_XEH_BIN`, built by the orchestrator from the working tree) and
/// into a mirror of `ReplState` that keeps a stack of clones; what the binary prints must be what the mirror predicts.
/// A snapshot that is rolled back to is the interpreter as it was when the snapshot was taken, every time.
fn repl_snapshots(ctx: &mut Ctx) {
    let bin = match std::env::var("VERIF_XEH_BIN") { Ok(b) if !b.is_empty() => b, _ => { ctx.tag("repl-binary:not-built(skipped)"); return; } };
    let dir = format!("{}-repl", ctx.scratch);
    std::fs::create_dir_all(&dir).unwrap();
    const LINES: &[&str] = &["1", "2 3", "drop", "10 var a a", "a 1 + ! a a", ": sq dup * ; 4 sq", "\"x\" println", "[ 1 2 ]", "depth", "oops", "1 0 /", "|ff| open-bitstr u8"];
    let sessions = if ctx.thorough { 200 } else { 30 };
    // sessions that are always part of the run: snapshots taken in one mode and rolled back to in the other, with lines
    // frozen in between (a snapshot is untouched by whatever the live interpreter does afterwards, in either mode)
    const FIXED: &[&[&str]] = &[
        &["/repl", "1", "/snapshot", "/trial", "2", "/repl", "/rollback", "/rollback", "depth"],
        &["/repl", "1", "/snapshot", "2", "/snapshot", "/trial", "3", "4", "/repl", "/rollback", "/rollback", "/rollback", "depth"],
        &["1", "/snapshot", "2", "3", "/rollback", "/rollback", "depth"],
        &["/snapshot", "10 var a a", "/snapshot", "a 1 + ! a a", "/repl", "/rollback", "a", "/rollback", "a", "/rollback", "depth"],
        &["/repl", ": sq dup * ; 4 sq", "/snapshot", "/trial", "oops", "1 0 /", "/trial", "/repl", "/rollback", "4 sq", "/rollback", "4 sq", "depth"],
        &["/repl", "|ff 01| open-bitstr u8", "/snapshot", "u8", "/rollback", "u8", "/trial", "/trial", "drop", "/rollback", "/rollback", "depth"],
    ];
    for k in 0..(FIXED.len() + sessions) {
        let mut lines: Vec<String> = Vec::new();
        if k < FIXED.len() {
            lines.extend(FIXED[k].iter().map(|l| l.to_string()));
            ctx.tag("repl-binary:fixed-session");
        } else {
        if ctx.rng.chance(70) { lines.push("/repl".into()); }
        for _ in 0..(3 + ctx.rng.below(10)) {
            lines.push(match ctx.rng.below(10) {
                0 | 1 => "/snapshot".to_string(),
                2 | 3 | 4 => "/rollback".to_string(),
                5 if ctx.rng.chance(30) => "/trial".to_string(),
                5 => "/repl".to_string(),
                _ => (*ctx.rng.pick(LINES)).to_string(),
            });
        }
        lines.push("depth".into());
        }
        ctx.progress(&format!("xeh < {:?}", lines));
        // the binary
        let got = (|| -> Option<(String, String)> {
            use std::io::Write;
            let mut child = std::process::Command::new(&bin).current_dir(&dir).stdin(std::process::Stdio::piped()).stdout(std::process::Stdio::piped()).stderr(std::process::Stdio::piped()).spawn().ok()?;
            { let mut si = child.stdin.take()?; let _ = si.write_all((lines.join("\n") + "\n").as_bytes()); }
            let out = child.wait_with_output().ok()?;
            Some((String::from_utf8_lossy(&out.stdout).to_string(), String::from_utf8_lossy(&out.stderr).to_string()))
        })();
        // the mirror of ReplState
        let mut xs = Xstate::boot().unwrap();
        xeh::d2_plugin::load(&mut xs).unwrap();
        xs.intercept_stdout(true);
        let mut snaps: Vec<Xstate> = Vec::new();
        let mut trial;
        let banner = "# Trial and error mode!\n# Everyting is evaluating on-fly, hit Enter to freeze the changes.\n# Switch between modes using /repl and /trial commands.\n";
        let mut out = String::from(banner);
        let mut err = String::new();
        trial = true;
        snaps.push(xs.clone());
        for l in &lines {
            match l.trim() {
                "/trial" => { if !trial { out.push_str(banner); trial = true; snaps.push(xs.clone()); } }
                "/repl" => { if trial { out.push_str("# Read-Eval-Print-Loop mode!\n# Switch between modes using /repl and /trial commands.\n"); trial = false; } }
                "/snapshot" => { out.push_str("Taking snapshot...\n"); snaps.push(xs.clone()); out.push_str("OK\n"); }
                "/rollback" => { if let Some(mut old) = snaps.pop() { std::mem::swap(&mut xs, &mut old); out.push_str("OK\n"); } }
                _ => {
                    let res = match xs.compile(l) { Ok(()) => { let r = xs.run(); if r.is_err() { xs.abort_run(); } r } Err(e) => Err(e) };
                    // (what the line printed is taken out of the mirror's capture buffer before the copy is made: the
                    // binary prints straight to stdout, nothing of it is part of the interpreter)
                    out.push_str(&xs.read_stdout().unwrap_or_default());
                    if trial { let tmp = xs.clone(); snaps.pop(); snaps.push(tmp); }
                    let n = xs.data_depth();
                    for i in 0..n {
                        if i > 15 { out.push_str("...\n"); break; }
                        out.push_str(&xs.format_cell(xs.get_data(i).unwrap()).unwrap());
                        out.push('\n');
                    }
                    if let Err(e) = &res { err.push_str(&xs.pretty_error().unwrap_or_else(|| format!("{}", e))); err.push('\n'); }
                }
            }
        }
        err.push_str("CTRL-D\n");
        let shown = format!("C03 repl-binary xeh with the lines {:?}", lines);
        match got {
            None => ctx.oracle_fail(shown, "the binary runs".into(), "could not be started / did not finish".into()),
            Some((o, e)) => ctx.check(o == out && e == err, || shown.clone(), || format!("stdout {:?} stderr {:?}", out, err), || format!("stdout {:?} stderr {:?}", o, e)),
        }
        ctx.tag("repl-binary:snapshot-session");
    }
    let _ = std::fs::remove_dir_all(&dir);
}

/// Copies that are used in turn — a source on one, a source on another, a clone of a clone in between — against the
/// same copies used ALONE: every copy is an interpreter that was given its own sources and nothing else (the sources
/// of its origin up to the clone, then its own), so a fresh interpreter given exactly those, with no other interpreter
/// touched in between, shows the same result and the same state after every one of them. The sources are the ones whose
/// meaning depends on what the interpreter has been told before: names that are defined again, late-bound words,
/// variables, the byte order and the position in the input.
fn interleaved_vs_solo(ctx: &mut Ctx) {
    const POOL: &[&str] = &[
        ": f 1 ;", ": f 2 ;", ": f f 10 + ;", "f", "f f +", "5 var v", "7 var v", "v", "v 1 + ! v", "late g : callg g ;", ": g 3 ;", ": g 4 ;", "callg",
        "big", "little", "big?", "|00 01 00 02 00 03 00 04 3f 80 00 00| open-bitstr", "|ff fe| open-bitstr", "u16", "i16", "2 bytes", "16 uint", "f32", "9 int",
        "1 u16!", "258 16 uint!", "offset", "remain", "close-bitstr", "8 seek", "depth", "drop", "defined f", "[ 1 u16! 2 u16! ] >bitstr",
    ];
    let rounds = if ctx.thorough { 400 } else { 60 };
    let fresh = || { let mut xs = Xstate::boot().unwrap(); xs.intercept_stdout(true); xs.intercept_output(true).unwrap(); xs.set_insn_limit(Some(LIMIT)).unwrap(); xs };
    let sig = |xs: &mut Xstate, r: &Option<Xresult>| format!("{:?} {}", r.as_ref().map(|r| r.as_ref().map_err(canon::err).map(|_| ())), snapshot(xs));
    for round in 0..rounds {
        struct C { xs: Xstate, hist: Vec<(String, String)> }
        let mut copies: Vec<C> = vec![C { xs: fresh(), hist: vec![] }];
        // the first rounds are about one theme each, the others mix them
        let theme: Vec<&str> = match round % 4 {
            0 => POOL.iter().cloned().filter(|s| s.contains('f') && !s.contains("open") && !s.contains("f32") || *s == "depth").collect(),
            1 => POOL.iter().cloned().filter(|s| s.contains("big") || s.contains("little") || s.contains("u16") || s.contains("open") || s.contains("int") || s.contains("f32")).collect(),
            2 => POOL.iter().cloned().filter(|s| s.contains('v') || s.contains('g')).collect(),
            _ => POOL.to_vec(),
        };
        let nops = 6 + ctx.rng.below(16);
        for _ in 0..nops {
            let i = ctx.rng.below(copies.len());
            if copies.len() < 4 && ctx.rng.chance(22) {
                let c = C { xs: copies[i].xs.clone(), hist: copies[i].hist.clone() };
                copies.push(c);
                continue;
            }
            let src = *ctx.rng.pick(&theme);
            let c = &mut copies[i];
            let r = crate::guarded(|| c.xs.eval(src));
            let s = sig(&mut c.xs, &r);
            c.hist.push((src.to_string(), s));
        }
        // every copy alone
        for (i, c) in copies.iter().enumerate() {
            let mut solo = fresh();
            for (k, (src, seen)) in c.hist.iter().enumerate() {
                let r = crate::guarded(|| solo.eval(src));
                let s = sig(&mut solo, &r);
                if &s != seen {
                    let told: Vec<&str> = c.hist[..=k].iter().map(|(s, _)| s.as_str()).collect();
                    ctx.oracle_fail(format!("C03 copy {} of {} used in turn with the others; its own sources {:?}", i, copies.len(), told),
                        format!("after `{}`, as on an interpreter given these sources alone: {}", src, s), seen.clone());
                    break;
                }
                ctx.oracle_ok();
            }
        }
        ctx.tag("kind:interleaved-vs-solo");
    }
}

pub fn run(ctx: &mut Ctx) {
    repl_snapshots(ctx);
    interleaved_vs_solo(ctx);
    let cfg = GenCfg { endless: false, malformed_percent: 15, max_depth: 3, ..GenCfg::default() };
    let sweep0 = sweep();
    let sweep1 = sweep();
    compare_sweeps(ctx, &sweep0, &sweep1, "first and second time in this process");
    run_histories(ctx, &cfg);
    let sweep2 = sweep();
    compare_sweeps(ctx, &sweep0, &sweep2, "at the start of this process and after all its histories");
}

fn run_histories(ctx: &mut Ctx, cfg: &GenCfg) {
    let cfg = cfg.clone();
    for _ in 0..ctx.n {
        let with_d2 = ctx.rng.chance(15);
        let mut base = Xstate::boot().unwrap();
        if with_d2 { xeh::d2_plugin::load(&mut base).unwrap(); }
        base.intercept_stdout(true);
        base.intercept_output(true).unwrap();
        base.set_insn_limit(Some(LIMIT)).unwrap();
        for s in SHARED_SETUP { let _ = base.eval(s); }
        if with_d2 { let _ = base.eval("4 3 d2-resize"); }
        let mut pool: Vec<Copy_> = vec![Copy_ { xs: base, d2: with_d2, used_d2: false, custom_limits: false }];
        let nops = ctx.rng.below(if ctx.thorough { 20 } else { 12 }) + 2;
        let mut history: Vec<String> = Vec::new();
        for _ in 0..nops {
            let i = ctx.rng.below(pool.len());
            let before: Vec<String> = pool.iter_mut().map(|c| snapshot(&mut c.xs)).collect();
            let kind = ctx.rng.below(11);
            let mut touched_d2 = false;
            match kind {
                0 | 1 => { // clone (also clone of clone)
                    let c = Copy_ { xs: pool[i].xs.clone(), d2: pool[i].d2, used_d2: pool[i].used_d2, custom_limits: pool[i].custom_limits };
                    pool.push(c);
                    history.push(format!("clone {}", i));
                    ctx.tag("op:clone");
                    // the fresh snapshot renders exactly like its origin
                    let n = pool.len() - 1;
                    let a = snapshot(&mut pool[i].xs);
                    let b = snapshot(&mut pool[n].xs);
                    ctx.check(a == b, || format!("C03 {}", history.join("; ")), || a.clone(), || b.clone());
                }
                2 => { if pool.len() > 1 { pool.remove(i); history.push(format!("drop {}", i)); ctx.tag("op:drop"); continue; } }
                10 => { // the host configures limits on one copy: they bind that copy alone
                    let xs = &mut pool[i].xs;
                    let what = match ctx.rng.below(4) {
                        0 => { let n = xs.verif_dump().insn_meter + ctx.rng.below(40); let _ = xs.set_insn_limit(Some(n)); format!("insn {}", n) }
                        1 => { let n = ctx.rng.below(8); let _ = xs.set_stack_limit(Some(n)); format!("stack {}", n) }
                        2 => { let n = xs.verif_dump().heap.len() + ctx.rng.below(3); let _ = xs.set_heap_limit(Some(n)); format!("heap {}", n) }
                        _ => { let _ = xs.set_insn_limit(Some(LIMIT)); let _ = xs.set_stack_limit(None); let _ = xs.set_heap_limit(None); "back to the defaults".to_string() }
                    };
                    pool[i].custom_limits = true;
                    history.push(format!("limits of {}: {}", i, what));
                    ctx.tag("op:set-limits");
                }
                3 => { // step / reverse-step a compiled program on one copy
                    let (src, _) = gen_program(&mut ctx.rng, &cfg);
                    let xs = &mut pool[i].xs;
                    xs.set_recording_enabled(true);
                    if let Some(Ok(())) = crate::guarded(|| xs.compile(&src)) {
                        for _ in 0..ctx.rng.below(20) { if crate::guarded(|| xs.next()).map(|r| r.is_err()).unwrap_or(true) { break; } }
                        for _ in 0..ctx.rng.below(10) { let _ = crate::guarded(|| xs.rnext()); }
                        let _ = crate::guarded(|| xs.run());
                    }
                    xs.set_recording_enabled(false);
                    history.push(format!("step/rstep {} `{}`", i, src));
                    ctx.tag("op:step-rstep");
                }
                _ => { // evaluate a source on one copy
                    let src = if pool[i].d2 && ctx.rng.chance(40) {
                        touched_d2 = true;
                        (*ctx.rng.pick(&["1 2 d2-resize", "0 0 d2-data! ", "5 d2-color! 1 1 d2-data!", "2 5 d2-resize 0 1 d2-data drop"])).to_string()
                    } else if ctx.rng.chance(8) { ctx.tag("op:eval-file"); file_source(ctx) }
                    else if ctx.rng.chance(60) { adversarial(&mut ctx.rng) } else { gen_program(&mut ctx.rng, &cfg).0 };
                    // correspondence: the model evaluates the same source on the machine as it is now
                    if !pool[i].d2 && !pool[i].custom_limits {
                        if let Some(t) = lex_all(&src) {
                            let xs = &mut pool[i].xs;
                            let d = xs.verif_dump();
                            if d.mode == "eval" && d.nested == 0 && d.flows == 0 && d.pending_inputs == 0 && d.ip == d.code_len && d.frames.is_empty() && d.loops.is_empty() && d.special.is_empty() {
                                let setup = format!("toks={} dict={} code={} heap=v({}) ds=v({}) lim={}/-/- meter={} view=core",
                                    t.text.join("|"), dict_for(xs, &t.words), vmcanon::code_str(xs),
                                    d.heap.iter().map(canon::cell).collect::<Vec<_>>().join(","),
                                    d.data_visible.iter().map(canon::cell).collect::<Vec<_>>().join(","), LIMIT, d.insn_meter);
                                let mut probe = xs.clone();
                                let build_err = matches!(crate::guarded(|| probe.compile(&src)), Some(Err(_)));
                                let mut ys = xs.clone();
                                let r = crate::guarded(|| ys.eval(&src));
                                let ans = match r {
                                    None => "panic@".to_string(),
                                    Some(Ok(())) => format!("ok@{}", vmcanon::core_dump(&ys.verif_dump())),
                                    Some(Err(e)) => if build_err { format!("builderr {} tok=*", canon::err(&e)) } else { format!("err {} tok=*@{}", canon::err(&e), vmcanon::core_dump(&ys.verif_dump())) },
                                };
                                ctx.case(format!("C03 eval {}", setup), ans);
                            }
                        }
                    }
                    let xs = &mut pool[i].xs;
                    let _ = crate::guarded(|| xs.eval(&src));
                    if touched_d2 { pool[i].used_d2 = true; }
                    history.push(format!("eval {} `{}`", i, src));
                    ctx.tag(if touched_d2 { "op:eval-d2" } else { "op:eval" });
                }
            }
            // independence: no other copy changed
            let mut k = 0;
            for (j, b) in before.iter().enumerate() {
                if j >= pool.len() { break; }
                if j == i && kind > 2 || (kind == 3 && j == i) || (kind == 10 && j == i) { k += 1; continue; }
                if j == i { continue; }
                let now = snapshot(&mut pool[j].xs);
                let marker = if touched_d2 || pool.iter().any(|c| c.used_d2) { "[anyrc-shared] " } else { "" };
                let h = history.join("; ");
                ctx.check(*b == now, || format!("{}C03 copy {} changed by an operation on copy {}: {}", marker, j, i, h), || b.clone(), || now.clone());
                k += 1;
            }
            let _ = k;
        }
        // determinism: a snapshot and its origin, given the same later sources, behave identically
        let i = ctx.rng.below(pool.len());
        if !pool[i].d2 {
            let mut a = pool[i].xs.clone();
            let mut b = pool[i].xs.clone();
            let mut srcs = Vec::new();
            for _ in 0..3 { srcs.push(if ctx.rng.chance(15) { file_source(ctx) } else if ctx.rng.bool() { adversarial(&mut ctx.rng) } else { gen_program(&mut ctx.rng, &cfg).0 }); }
            let mut ra = Vec::new(); let mut rb = Vec::new();
            for s in &srcs { ra.push(format!("{:?}", crate::guarded(|| a.eval(s)).map(|r| r.map_err(|e| canon::err(&e))))); }
            // interleave unrelated activity on the origin before replaying on the second snapshot
            let _ = crate::guarded(|| pool[i].xs.eval("cnt 1000 + ! cnt bs bitstr-not ! bs"));
            for s in &srcs { rb.push(format!("{:?}", crate::guarded(|| b.eval(s)).map(|r| r.map_err(|e| canon::err(&e))))); }
            let (sa, sb) = (snapshot(&mut a), snapshot(&mut b));
            let h = history.join("; ");
            ctx.check(ra == rb && sa == sb, || format!("C03 replay after [{}] of {:?}", h, srcs), || format!("{:?} {}", ra, sa), || format!("{:?} {}", rb, sb));
            ctx.tag("determinism-check");
            // origin vs snapshot: the snapshot is taken, the same sources are given first to the origin and then to the
            // snapshot (by then the origin may have detached from shared buffers, so the snapshot owns them alone)
            let mut snap = pool[i].xs.clone();
            let mut srcs = Vec::new();
            for _ in 0..3 { srcs.push(if ctx.rng.chance(15) { file_source(ctx) } else { adversarial(&mut ctx.rng) }); }
            let mut ro = Vec::new(); let mut rs = Vec::new();
            for s in &srcs { ro.push(format!("{:?}", crate::guarded(|| pool[i].xs.eval(s)).map(|r| r.map_err(|e| canon::err(&e))))); }
            for s in &srcs { rs.push(format!("{:?}", crate::guarded(|| snap.eval(s)).map(|r| r.map_err(|e| canon::err(&e))))); }
            let (so, ss) = (snapshot(&mut pool[i].xs), snapshot(&mut snap));
            let h = history.join("; ");
            ctx.check(ro == rs && so == ss, || format!("C03 origin vs snapshot after [{}] of {:?}", h, srcs), || format!("{:?} {}", ro, so), || format!("{:?} {}", rs, ss));
            ctx.tag("origin-vs-snapshot-check");
            // the same probe on an interpreter and on two snapshots of it, one after the other: values held by the data
            // stack alone are shared by all three until the last one uses them (and then owns the buffer alone)
            {
                let seeder = *ctx.rng.pick(&["[ 0xff ] >bitstr open-bitstr 4 bits close-bitstr", "[ 0xa7 0xff ] >bitstr open-bitstr 11 bits close-bitstr",
                    "[ 1 2 3 ] >bitstr open-bitstr 8 bits drop 8 bits close-bitstr", "|ff ff| open-bitstr 3 bits drop 6 bits close-bitstr", "|12 34 56| 4 20 slice", "bs 3 9 slice"]);
                let probe = *ctx.rng.pick(&["|0| bitstr-append", "|0| swap bitstr-append", "|00| bitstr-append dup ! bs", "|FF| swap bitstr-append open-bitstr offset remain u8 close-bitstr",
                    "bitstr-not", "dup bitstr-not bitstr-append", "|0| bitstr-append |1| bitstr-append", "dup |5| bitstr-append swap |a| bitstr-append", "open-bitstr offset remain close-bitstr"]);
                let mut x = pool[i].xs.clone();
                let _ = crate::guarded(|| x.eval(seeder));
                let mut y = x.clone();
                let mut z = y.clone();
                let mut sigs = Vec::new();
                for c in [&mut x, &mut y, &mut z] {
                    let r = format!("{:?}", crate::guarded(|| c.eval(probe)).map(|r| r.map_err(|e| canon::err(&e))));
                    sigs.push(format!("{} {}", r, snapshot(c)));
                }
                ctx.check(sigs[0] == sigs[1] && sigs[1] == sigs[2], || format!("C03 `{}` then 2 snapshots, `{}` on each in turn", seeder, probe), || sigs[0].clone(), || format!("{} // {}", sigs[1], sigs[2]));
                ctx.tag("same-probe-on-three-copies");
            }
            // a snapshot taken while recording can be stepped back exactly like its origin
            let mut o = pool[i].xs.clone();
            o.set_recording_enabled(true);
            let (prog, _) = gen_program(&mut ctx.rng, &cfg);
            if let Some(Ok(())) = crate::guarded(|| o.compile(&prog)) {
                // the states on the way forward, recorded before any copy exists: both copies have to come back to THEM
                // (two copies that go wrong in the same way agree with each other)
                let core = |x: &mut Xstate| vmcanon::core_dump(&x.verif_dump());
                let mut trail: Vec<String> = vec![core(&mut o)];
                for _ in 0..(ctx.rng.below(25) + 3) {
                    if !o.is_running() { break; }
                    // (a step that FAILED is stepped back through first — it may have popped its operands: from there on
                    // the two copies are compared with each other only; false alarm of the thorough run, seed 1)
                    if crate::guarded(|| o.next()).map(|r| r.is_err()).unwrap_or(true) { trail.clear(); break; }
                    trail.push(core(&mut o));
                }
                let mut c = o.clone();
                let mut ok = true;
                let mut detail = String::new();
                // both go on for a few steps first (what is recorded after the snapshot is appended to a history the
                // two share up to that point), then both step back through those steps and beyond the snapshot point
                let fwd = ctx.rng.below(8);
                for k in 0..fwd {
                    let (r1, r2) = (crate::guarded(|| o.next()).map(|r| r.is_ok()), crate::guarded(|| c.next()).map(|r| r.is_ok()));
                    let (d1, d2) = (snapshot(&mut o), snapshot(&mut c));
                    if r1 != r2 || d1 != d2 { ok = false; detail = format!("after {} more forward steps: origin {:?} {} / snapshot {:?} {}", k + 1, r1, d1, r2, d2); break; }
                    if r1 == Some(true) && o.is_running() { trail.push(core(&mut o)); } else { trail.clear(); break; }
                }
                let back = ctx.rng.below(12) + 1 + fwd;
                for k in 0..back {
                    if !ok { break; }
                    let (r1, r2) = (crate::guarded(|| o.rnext()).map(|r| r.is_ok()), crate::guarded(|| c.rnext()).map(|r| r.is_ok()));
                    let (d1, d2) = (snapshot(&mut o), snapshot(&mut c));
                    if r1 != r2 || d1 != d2 { ok = false; detail = format!("after {} reverse steps: origin {:?} {} / snapshot {:?} {}", k + 1, r1, d1, r2, d2); break; }
                    if trail.len() >= k + 2 {
                        let want = &trail[trail.len() - 2 - k];
                        let got = core(&mut c);
                        if &got != want { ok = false; detail = format!("after {} reverse steps both copies are at {} but {} steps earlier the machine was at {}", k + 1, got, k + 1, want); break; }
                    }
                }
                ctx.check(ok, || format!("C03 reverse-stepping a snapshot of `{}`", prog), || "origin and snapshot step back identically".into(), || detail.clone());
                ctx.tag("recording-snapshot-check");
            }
            // a snapshot taken through the C API (`xeh_snapshot`, what an embedding host calls) while a program is paused
            // in the middle — inside a call, inside a counted loop, or stopped by a run-time error — is the same machine
            // and goes on exactly like its origin
            {
                let mut o = pool[i].xs.clone();
                let k = ctx.rng.below(5) + 2;
                let prog = match ctx.rng.below(3) {
                    0 => format!(": cf {} 0 do I drop loop 5 ; cf cf 7", k),
                    1 => format!(": cg 1 2 + ; {} 0 do cg drop loop cg", k),
                    _ => format!(": ch 3 4 * drop 1 0 / ; 9 ch 8"),
                };
                if let Some(Ok(())) = crate::guarded(|| o.compile(&prog)) {
                    for _ in 0..(ctx.rng.below(12) + 2) { if crate::guarded(|| o.next()).map(|r| r.is_err()).unwrap_or(true) { break; } }
                    let p = Box::into_raw(Box::new(o));
                    let (mut a, mut b) = unsafe {
                        let q = xeh::c_api::xeh_snapshot(p);
                        (*Box::from_raw(p), *Box::from_raw(q))
                    };
                    let (d1, d2) = (snapshot(&mut a), snapshot(&mut b));
                    ctx.check(d1 == d2, || format!("C03 xeh_snapshot of `{}` paused in the middle", prog), || d1.clone(), || d2.clone());
                    let (r1, r2) = (crate::guarded(|| a.run()).map(|r| format!("{:?}", r)), crate::guarded(|| b.run()).map(|r| format!("{:?}", r)));
                    let (e1, e2) = (snapshot(&mut a), snapshot(&mut b));
                    ctx.check(r1 == r2 && e1 == e2, || format!("C03 resuming `{}` on origin and on its xeh_snapshot", prog),
                        || format!("{:?} {}", r1, e1), || format!("{:?} {}", r2, e2));
                    ctx.tag("c-api-snapshot-of-a-paused-program");
                }
            }
        }
    }
}
