//! C04 — bit-string operations depend only on the bit sequence, never on how it is stored.
//!
//! Correspondence: one request line = one operation *sequence* over a pool of handles
//! (`C04 new 1234 ; read 0 8 ; drop 0 ; …`); the answer lists, after every operation, the operation's
//! result and `slot:start:len:bits(hex)` of every live handle (see lean/XehModel/Driver/C04.lean).
//!
//! Oracle (implementation only):
//!  (a) an independent `Vec<bool>` reference per handle, compared with the real API after every
//!      operation (result of the operation AND the content of every other live handle — operands and
//!      bystanders must not change);
//!  (b) representation independence directly: the same logical value built at 8 alignments × 6
//!      ownership situations must answer every query identically and combine identically.
use crate::Ctx;
use xeh::bitstr::*;

pub fn pack_hex(bits: &[bool]) -> String {
    let mut s = String::new();
    for ch in bits.chunks(4) {
        let mut v = 0u32;
        for i in 0..4 {
            v = (v << 1) | (*ch.get(i).unwrap_or(&false) as u32);
        }
        s.push(std::char::from_digit(v, 16).unwrap());
    }
    s
}

pub fn hex_bytes(b: &[u8]) -> String {
    if b.is_empty() {
        "-".into()
    } else {
        crate::canon::hex(b)
    }
}

pub fn bits_of_bytes(b: &[u8]) -> Vec<bool> {
    let mut v = Vec::with_capacity(b.len() * 8);
    for x in b {
        for i in (0..8).rev() {
            v.push((x >> i) & 1 == 1);
        }
    }
    v
}

pub fn impl_bits(bs: &Bitstr) -> Vec<bool> {
    bs.bits().map(|b| b == 1).collect()
}

// ---------- the reference: plain bit vectors ----------

pub fn ref_be(bits: &[bool]) -> u128 {
    let mut acc = 0u128;
    for b in bits {
        acc = (acc << 1) | (*b as u128);
    }
    acc
}

pub fn ref_le(bits: &[bool]) -> u128 {
    let mut acc = 0u128;
    for (k, ch) in bits.chunks(8).enumerate() {
        if 8 * k < 128 {
            acc |= ref_be(ch) << (8 * k);
        }
    }
    acc
}

pub fn ref_uint(bits: &[bool], big: bool) -> u128 {
    if big { ref_be(bits) } else { ref_le(bits) }
}

pub fn ref_int(bits: &[bool], big: bool) -> i128 {
    let u = ref_uint(bits, big);
    let n = bits.len();
    if n == 0 {
        0
    } else if n >= 128 {
        u as i128
    } else {
        ((u << (128 - n)) as i128) >> (128 - n)
    }
}

fn ref_groups(bits: &[bool]) -> Vec<(u8, usize)> {
    bits.chunks(8).map(|c| (ref_be(c) as u8, c.len())).collect()
}

fn ref_hex(bits: &[bool]) -> String {
    let mut s = String::new();
    for (v, n) in ref_groups(bits) {
        if n > 4 {
            s.push(std::char::from_digit((v >> 4) as u32, 16).unwrap());
        }
        s.push(std::char::from_digit((v & 15) as u32, 16).unwrap());
    }
    s
}

fn ref_pad(bits: &[bool]) -> Vec<u8> {
    ref_groups(bits).iter().map(|g| g.0).collect()
}

fn ref_float(bits: &[bool], k: usize, big: bool) -> u64 {
    let mut buf = ref_pad(bits);
    buf.resize(buf.len().max(k), 0);
    buf.truncate(k);
    if !big {
        buf.reverse();
    }
    buf.iter().fold(0u64, |a, b| (a << 8) | *b as u64)
}

fn opt_bytes(o: Option<Vec<u8>>) -> String {
    match o {
        None => "none".into(),
        Some(b) => hex_bytes(&b),
    }
}

/// every read-only query of the API on one value, as text
pub fn impl_query(q: &str, bs: &Bitstr, big: bool) -> String {
    let o = if big { BIG } else { LITTLE };
    match q {
        "uint" => bs.to_uint(o).to_string(),
        "int" => bs.to_int(o).to_string(),
        "hex" => format!("x{}", bs.to_hex_string()),
        "bytes" => opt_bytes(bs.to_bytes()),
        "bytestr" => opt_bytes(bs.bytestr().map(|c| c.into_owned())),
        "slice" => opt_bytes(bs.slice().map(|s| s.to_vec())),
        "pad" => hex_bytes(&bs.to_bytes_with_padding()),
        "iter8" => format!("i{}", bs.iter8().map(|(v, n)| format!("{}:{}", v, n)).collect::<Vec<_>>().join(",")),
        "bits" => format!("b{}", bs.bits().map(|b| if b == 1 { '1' } else if b == 0 { '0' } else { '?' }).collect::<String>()),
        "f32" => format!("{:08x}", bs.to_f32(o).to_bits()),
        "f64" => format!("{:016x}", bs.to_f64(o).to_bits()),
        "flags" => (if bs.is_bytestr() { "bytestr" } else { "bits" }).to_string(),
        _ => unreachable!(),
    }
}

/// the same queries on the reference bit vector (`aligned` = the handle starts on a byte boundary,
/// which `slice()` documents as its precondition)
pub fn ref_query(q: &str, bits: &[bool], big: bool, aligned: bool) -> String {
    match q {
        "uint" => ref_uint(bits, big).to_string(),
        "int" => ref_int(bits, big).to_string(),
        "hex" => format!("x{}", ref_hex(bits)),
        "bytes" | "bytestr" => opt_bytes(if bits.len() % 8 == 0 { Some(ref_pad(bits)) } else { None }),
        "slice" => opt_bytes(if bits.len() % 8 == 0 && aligned { Some(ref_pad(bits)) } else { None }),
        "pad" => hex_bytes(&ref_pad(bits)),
        "iter8" => format!("i{}", ref_groups(bits).iter().map(|(v, n)| format!("{}:{}", v, n)).collect::<Vec<_>>().join(",")),
        "bits" => format!("b{}", bits.iter().map(|b| if *b { '1' } else { '0' }).collect::<String>()),
        "f32" => format!("{:08x}", ref_float(bits, 4, big)),
        "f64" => format!("{:016x}", ref_float(bits, 8, big)),
        "flags" => (if bits.len() % 8 == 0 { "bytestr" } else { "bits" }).to_string(),
        _ => unreachable!(),
    }
}

pub const QUERIES: &[&str] = &["uint", "int", "hex", "bytes", "bytestr", "slice", "pad", "iter8", "bits", "f32", "f64", "flags"];
const ORDERED: &[&str] = &["uint", "int", "f32", "f64"];

struct Slot {
    bs: Bitstr,
    rf: Vec<bool>,
}

struct Seq {
    pool: Vec<Option<Slot>>,
    ops: Vec<String>,
    ans: Vec<String>,
    dead: bool,
}

impl Seq {
    fn live(&self) -> Vec<usize> {
        (0..self.pool.len()).filter(|i| self.pool[*i].is_some()).collect()
    }
    fn state(&self) -> String {
        self.pool
            .iter()
            .enumerate()
            .filter_map(|(k, s)| s.as_ref().map(|s| format!("{}:{}:{}:{}", k, s.bs.start(), s.bs.len(), pack_hex(&impl_bits(&s.bs)))))
            .collect::<Vec<_>>()
            .join(",")
    }
    fn push(&mut self, bs: Bitstr, rf: Vec<bool>) -> String {
        self.pool.push(Some(Slot { bs, rf }));
        format!("+{}", self.pool.len() - 1)
    }
    /// after every operation: every live handle still denotes its reference bits
    fn check_all(&mut self, ctx: &mut Ctx, op: &str) {
        for k in 0..self.pool.len() {
            if let Some(s) = &self.pool[k] {
                let got = impl_bits(&s.bs);
                let ok = got == s.rf && s.bs.len() == s.rf.len();
                let ops = &self.ops;
                ctx.check(
                    ok,
                    || format!("C04 {}   [after `{}`: content of handle {}]", ops.join(" ; "), op, k),
                    || format!("{}:{}", s.rf.len(), pack_hex(&s.rf)),
                    || format!("{}:{}", s.bs.len(), pack_hex(&got)),
                );
            }
        }
    }
    fn finish_op(&mut self, ctx: &mut Ctx, op: String, res: Option<String>, expect: Option<String>) {
        self.ops.push(op.clone());
        match res {
            None => {
                self.ans.push("panic".into());
                self.dead = true;
                let ops = &self.ops;
                ctx.oracle_fail(format!("C04 {}", ops.join(" ; ")), "no panic".into(), "panic".into());
            }
            Some(r) => {
                if let Some(e) = expect {
                    let ops = &self.ops;
                    ctx.check(r == e, || format!("C04 {}   [result of `{}`]", ops.join(" ; "), op), || e.clone(), || r.clone());
                }
                self.check_all(ctx, &op);
                self.ans.push(format!("{}|{}", r, self.state()));
            }
        }
    }
}

fn rand_bytes(ctx: &mut Ctx, n: usize) -> Vec<u8> {
    (0..n).map(|_| match ctx.rng.below(8) { 0 => 0, 1 => 0xff, _ => ctx.rng.next_u64() as u8 }).collect()
}

fn rand_len_bytes(ctx: &mut Ctx) -> usize {
    match ctx.rng.below(10) {
        0 => 0,
        1..=5 => 1 + ctx.rng.below(6),
        6..=7 => 17 + ctx.rng.below(3), // room for 127/128/129-bit slices at any alignment
        _ => ctx.rng.below(41),
    }
}

/// a sub-range [a,b) of [start,end]: alignments uniform, lengths small mostly, 127/128/129 when they fit
fn rand_range(ctx: &mut Ctx, start: usize, end: usize) -> (usize, usize) {
    let len = end - start;
    let want = match ctx.rng.below(10) {
        0 => 0,
        1 => *ctx.rng.pick(&[127usize, 128, 129]),
        2..=6 => ctx.rng.below(34),
        _ => ctx.rng.below(len + 1),
    }
    .min(len);
    let a = start + ctx.rng.below(len - want + 1);
    (a, a + want)
}

fn order(ctx: &mut Ctx) -> bool {
    ctx.rng.bool()
}

fn text_hex(s: &str) -> String {
    if s.is_empty() { "-".into() } else { crate::canon::hex(s.as_bytes()) }
}

fn apply(ctx: &mut Ctx, sq: &mut Seq, kind: &str) {
    let live = sq.live();
    let malformed = ctx.rng.chance(12);
    if malformed {
        ctx.tag("stream:malformed-args");
    }
    macro_rules! pick {
        () => {{
            if live.is_empty() {
                return;
            }
            *ctx.rng.pick(&live)
        }};
    }
    match kind {
        "new" | "static" => {
            let n = rand_len_bytes(ctx);
            let bytes = rand_bytes(ctx, n);
            let rf = bits_of_bytes(&bytes);
            let op = format!("{} {}", kind, hex_bytes(&bytes));
            let bs = if kind == "new" {
                Bitstr::from(bytes)
            } else {
                let st: &'static [u8] = Box::leak(bytes.into_boxed_slice());
                Bitstr::from(st)
            };
            let r = sq.push(bs, rf);
            sq.finish_op(ctx, op, Some(r), None);
        }
        "empty" => {
            let r = sq.push(Bitstr::new(), vec![]);
            sq.finish_op(ctx, "empty".into(), Some(r), None);
        }
        "hexstr" => {
            let digits = b"0123456789abcdefABCDEF";
            let n = ctx.rng.below(20);
            let mut s = String::new();
            for _ in 0..n {
                match ctx.rng.below(12) {
                    0 => s.push(*ctx.rng.pick(&[' ', '\t', '\n', '\r', '\x0c'])),
                    1 if malformed => s.push(*ctx.rng.pick(&['g', 'x', '-', 'é', '\x0b', '_'])),
                    _ => s.push(*ctx.rng.pick(digits) as char),
                }
            }
            let op = format!("hexstr {}", text_hex(&s));
            // reference: 4 bits per digit
            let mut rf = Vec::new();
            let mut err = None;
            for (pos, c) in s.chars().enumerate() {
                if matches!(c, ' ' | '\t' | '\n' | '\r' | '\x0c') {
                    continue;
                }
                match c.to_digit(16) {
                    Some(d) => (0..4).rev().for_each(|i| rf.push((d >> i) & 1 == 1)),
                    None => {
                        err = Some(pos);
                        break;
                    }
                }
            }
            let r = crate::guarded(|| Bitstr::from_hex_str(&s));
            let (res, exp) = match (r, err) {
                (None, _) => (None, None),
                (Some(Ok(bs)), e) => {
                    let r = sq.push(bs, rf);
                    (Some(r.clone()), Some(if let Some(p) = e { format!("err:{}", p) } else { r }))
                }
                (Some(Err(p)), e) => (Some(format!("err:{}", p)), Some(if let Some(q) = e { format!("err:{}", q) } else { "ok".into() })),
            };
            sq.finish_op(ctx, op, res, exp);
        }
        "binstr" => {
            let n = ctx.rng.below(30);
            let mut s = String::new();
            for _ in 0..n {
                match ctx.rng.below(12) {
                    0 => s.push(*ctx.rng.pick(&[' ', '\t', '\n'])),
                    1 if malformed => s.push(*ctx.rng.pick(&['2', 'x', '-'])),
                    _ => s.push(if ctx.rng.bool() { '1' } else { '0' }),
                }
            }
            let op = format!("binstr {}", text_hex(&s));
            let mut rf = Vec::new();
            let mut err = None;
            for (pos, c) in s.chars().enumerate() {
                match c {
                    ' ' | '\t' | '\n' => {}
                    '0' => rf.push(false),
                    '1' => rf.push(true),
                    _ => {
                        err = Some(pos);
                        break;
                    }
                }
            }
            let r = crate::guarded(|| BitvecBuilder::from_bin_str(&s));
            let (res, exp) = match (r, err) {
                (None, _) => (None, None),
                (Some(Ok(bs)), e) => {
                    let r = sq.push(bs, rf);
                    (Some(r.clone()), Some(if let Some(p) = e { format!("err:{}", p) } else { r }))
                }
                (Some(Err(p)), e) => (Some(format!("err:{}", p)), Some(if let Some(q) = e { format!("err:{}", q) } else { "ok".into() })),
            };
            sq.finish_op(ctx, op, res, exp);
        }
        "clone" => {
            let i = pick!();
            let s = sq.pool[i].as_ref().unwrap();
            let (bs, rf) = (s.bs.clone(), s.rf.clone());
            let r = sq.push(bs, rf);
            sq.finish_op(ctx, format!("clone {}", i), Some(r), None);
        }
        "drop" => {
            let i = pick!();
            sq.pool[i] = None;
            sq.finish_op(ctx, format!("drop {}", i), Some("ok".into()), None);
        }
        "read" | "peek" => {
            let i = pick!();
            let len = sq.pool[i].as_ref().unwrap().rf.len();
            let n = if malformed {
                *ctx.rng.pick(&[len + 1, len + 8, usize::MAX, usize::MAX - 3, 1usize << 63])
            } else {
                let (a, b) = rand_range(ctx, 0, len);
                b - a
            };
            let op = format!("{} {} {}", kind, i, n);
            let slot = sq.pool[i].as_mut().unwrap();
            let r = if kind == "read" { crate::guarded(|| slot.bs.read(n)) } else { crate::guarded(|| slot.bs.peek(n)) };
            let exp_some = n <= len;
            match r {
                None => sq.finish_op(ctx, op, None, None),
                Some(None) => sq.finish_op(ctx, op, Some("none".into()), Some(if exp_some { "some".into() } else { "none".into() })),
                Some(Some(bs)) => {
                    let rf: Vec<bool> = if exp_some { slot.rf[..n].to_vec() } else { vec![] };
                    if kind == "read" && exp_some {
                        slot.rf = slot.rf[n..].to_vec();
                    }
                    let r = sq.push(bs, rf);
                    sq.finish_op(ctx, op, Some(r.clone()), Some(if exp_some { r } else { "none".into() }));
                }
            }
        }
        "seek" | "substr" | "split" => {
            let i = pick!();
            let (start, end) = {
                let s = sq.pool[i].as_ref().unwrap();
                (s.bs.start(), s.bs.end())
            };
            let (a, b) = if malformed {
                match ctx.rng.below(5) {
                    0 => (end + 1, end + 1),
                    1 => (start.wrapping_sub(1), end),
                    2 => (end, start),
                    3 => (start, end + 1),
                    _ => (usize::MAX, usize::MAX),
                }
            } else {
                rand_range(ctx, start, end)
            };
            let slot = sq.pool[i].as_ref().unwrap();
            let rf = slot.rf.clone();
            match kind {
                "seek" => {
                    let op = format!("seek {} {}", i, a);
                    let r = crate::guarded(|| slot.bs.seek(a));
                    let valid = start <= a && a <= end;
                    match r {
                        None => sq.finish_op(ctx, op, None, None),
                        Some(None) => sq.finish_op(ctx, op, Some("none".into()), Some(if valid { "some".into() } else { "none".into() })),
                        Some(Some(bs)) => {
                            let nrf = if valid { rf[a - start..].to_vec() } else { vec![] };
                            let r = sq.push(bs, nrf);
                            sq.finish_op(ctx, op, Some(r.clone()), Some(if valid { r } else { "none".into() }));
                        }
                    }
                }
                "substr" => {
                    let op = format!("substr {} {} {}", i, a, b);
                    let r = crate::guarded(|| slot.bs.substr(a, b));
                    let valid = start <= a && a <= b && b <= end;
                    match r {
                        None => sq.finish_op(ctx, op, None, None),
                        Some(None) => sq.finish_op(ctx, op, Some("none".into()), Some(if valid { "some".into() } else { "none".into() })),
                        Some(Some(bs)) => {
                            let nrf = if valid { rf[a - start..b - start].to_vec() } else { vec![] };
                            let r = sq.push(bs, nrf);
                            sq.finish_op(ctx, op, Some(r.clone()), Some(if valid { r } else { "none".into() }));
                        }
                    }
                }
                _ => {
                    let k = if malformed { *ctx.rng.pick(&[end - start + 1, usize::MAX, usize::MAX - start]) } else { a - start };
                    let op = format!("split {} {}", i, k);
                    let r = crate::guarded(|| slot.bs.split_at(k));
                    let valid = k <= end - start;
                    match r {
                        None => sq.finish_op(ctx, op, None, None),
                        Some(None) => sq.finish_op(ctx, op, Some("none".into()), Some(if valid { "some".into() } else { "none".into() })),
                        Some(Some((l, rr))) => {
                            let (lf, rf2) = if valid { (rf[..k].to_vec(), rf[k..].to_vec()) } else { (vec![], vec![]) };
                            let r1 = sq.push(l, lf);
                            let r2 = sq.push(rr, rf2);
                            let r = format!("{}{}", r1, r2);
                            sq.finish_op(ctx, op, Some(r.clone()), Some(if valid { r } else { "none".into() }));
                        }
                    }
                }
            }
        }
        "detach" | "invert" => {
            let i = pick!();
            let Slot { bs, rf } = sq.pool[i].take().unwrap();
            let old_start = bs.start();
            let op = format!("{} {}", kind, i);
            let r = if kind == "detach" { crate::guarded(move || bs.detach()) } else { crate::guarded(move || bs.invert()) };
            match r {
                None => sq.finish_op(ctx, op, None, None),
                Some(nb) => {
                    ctx.tag(if nb.start() == old_start && old_start % 8 != 0 { "detach:in-place-unaligned" } else if nb.start() == old_start && old_start != 0 { "detach:in-place-offset" } else { "detach:start0" });
                    let nrf = if kind == "detach" { rf } else { rf.iter().map(|b| !b).collect() };
                    sq.pool[i] = Some(Slot { bs: nb, rf: nrf });
                    sq.finish_op(ctx, op, Some("ok".into()), None);
                }
            }
        }
        "append" => {
            let i = pick!();
            let others: Vec<usize> = live.iter().cloned().filter(|j| *j != i).collect();
            if others.is_empty() {
                return;
            }
            let j = *ctx.rng.pick(&others);
            let Slot { bs, rf } = sq.pool[i].take().unwrap();
            let tail = sq.pool[j].as_ref().unwrap();
            let fast = bs.is_u8_slice() && tail.bs.is_u8_slice();
            ctx.tag(if fast { "append:fast-path" } else { "append:slow-path" });
            let op = format!("append {} {}", i, j);
            let mut nrf = rf;
            nrf.extend_from_slice(&tail.rf);
            let tb = &tail.bs;
            let r = crate::guarded(move || bs.append(tb));
            match r {
                None => sq.finish_op(ctx, op, None, None),
                Some(nb) => {
                    sq.pool[i] = Some(Slot { bs: nb, rf: nrf });
                    sq.finish_op(ctx, op, Some("ok".into()), None);
                }
            }
        }
        "insert" => {
            let i = pick!();
            let others: Vec<usize> = live.iter().cloned().filter(|j| *j != i).collect();
            if others.is_empty() {
                return;
            }
            let j = *ctx.rng.pick(&others);
            let Slot { bs, rf } = sq.pool[i].take().unwrap();
            let len = rf.len();
            let k = if malformed { *ctx.rng.pick(&[len + 1, usize::MAX, usize::MAX - bs.start()]) } else { ctx.rng.below(len + 1) };
            let tail = sq.pool[j].as_ref().unwrap();
            let op = format!("insert {} {} {}", i, k, j);
            let tb = &tail.bs;
            let r = crate::guarded(move || bs.insert(k, tb));
            let valid = k <= len;
            match r {
                None => sq.finish_op(ctx, op, None, None),
                Some(None) => sq.finish_op(ctx, op, Some("none".into()), Some(if valid { "some".into() } else { "none".into() })),
                Some(Some(nb)) => {
                    let mut nrf = Vec::new();
                    if valid {
                        nrf.extend_from_slice(&rf[..k]);
                        nrf.extend_from_slice(&tail.rf);
                        nrf.extend_from_slice(&rf[k..]);
                    }
                    sq.pool[i] = Some(Slot { bs: nb, rf: nrf });
                    sq.finish_op(ctx, op, Some("some".into()), Some(if valid { "some".into() } else { "none".into() }));
                }
            }
        }
        "eq" => {
            let i = pick!();
            // mostly compare against something equal-by-content when one exists
            let same: Vec<usize> = live.iter().cloned().filter(|j| sq.pool[*j].as_ref().unwrap().rf == sq.pool[i].as_ref().unwrap().rf).collect();
            let j = if ctx.rng.bool() { *ctx.rng.pick(&same) } else { *ctx.rng.pick(&live) };
            let (a, b) = (sq.pool[i].as_ref().unwrap(), sq.pool[j].as_ref().unwrap());
            let exp = a.rf == b.rf;
            ctx.tag(if a.bs.is_u8_slice() && b.bs.is_u8_slice() { "eq:fast-path" } else { "eq:iter8-path" });
            let (x, y) = (&a.bs, &b.bs);
            // `==` (what `equal?`, `assert-eq`, `case` and map keys use) and `eq_with` are one relation
            let r = crate::guarded(|| { let (p, q) = (x.eq_with(y), x == y); if p != q { panic!("eq_with {} but == {}", p, q) } p });
            sq.finish_op(ctx, format!("eq {} {}", i, j), r.map(|b| (if b { "T" } else { "F" }).to_string()), Some((if exp { "T" } else { "F" }).to_string()));
        }
        q => {
            let i = pick!();
            let big = order(ctx);
            let s = sq.pool[i].as_ref().unwrap();
            let op = if ORDERED.contains(&q) { format!("{} {} {}", q, i, if big { "be" } else { "le" }) } else { format!("{} {}", q, i) };
            let bs = &s.bs;
            let r = crate::guarded(|| impl_query(q, bs, big));
            let exp = ref_query(q, &s.rf, big, s.bs.start() % 8 == 0);
            sq.finish_op(ctx, op, r, Some(exp));
        }
    }
}

const HISTORIES: &[&str] = &["fresh", "slice-parent-alive", "slice-parent-dropped", "static", "static-slice", "append-result", "invert-result", "hex", "bin"];

/// put one value into the pool through the named history
fn history(ctx: &mut Ctx, sq: &mut Seq, h: &str) {
    ctx.tag(&format!("history:{}", h));
    let slice_of_last = |ctx: &mut Ctx, sq: &mut Seq, drop_parent: bool| {
        let p = sq.pool.len() - 1;
        let (start, end) = {
            let s = sq.pool[p].as_ref().unwrap();
            (s.bs.start(), s.bs.end())
        };
        let (a, b) = rand_range(ctx, start, end);
        ctx.tag(&format!("align:start%8={},end%8={}", a % 8, b % 8));
        let slot = sq.pool[p].as_ref().unwrap();
        let bs = slot.bs.substr(a, b).unwrap();
        let rf = slot.rf[a - start..b - start].to_vec();
        let r = sq.push(bs, rf);
        sq.finish_op(ctx, format!("substr {} {} {}", p, a, b), Some(r.clone()), Some(r));
        if drop_parent {
            sq.pool[p] = None;
            sq.finish_op(ctx, format!("drop {}", p), Some("ok".into()), None);
        }
    };
    match h {
        "fresh" => apply(ctx, sq, "new"),
        "slice-parent-alive" => {
            apply(ctx, sq, "new");
            slice_of_last(ctx, sq, false);
        }
        "slice-parent-dropped" => {
            apply(ctx, sq, "new");
            slice_of_last(ctx, sq, true);
        }
        "static" => apply(ctx, sq, "static"),
        "static-slice" => {
            apply(ctx, sq, "static");
            let dp = ctx.rng.bool();
            slice_of_last(ctx, sq, dp);
        }
        "append-result" => {
            if sq.live().len() < 2 {
                apply(ctx, sq, "new");
                history(ctx, sq, "slice-parent-dropped");
            }
            apply(ctx, sq, "append");
        }
        "invert-result" => {
            if sq.live().is_empty() {
                history(ctx, sq, "slice-parent-dropped");
            }
            apply(ctx, sq, "invert");
        }
        "hex" => apply(ctx, sq, "hexstr"),
        _ => apply(ctx, sq, "binstr"),
    }
}

const OPS: &[&str] = &[
    "clone", "drop", "read", "peek", "seek", "substr", "split", "detach", "invert", "append", "append", "append", "insert", "eq", "uint", "int", "hex", "bytes", "bytestr", "slice", "pad", "iter8", "bits", "f32", "f64", "flags", "empty",
];

fn sequence(ctx: &mut Ctx, max_ops: usize) {
    let mut sq = Seq { pool: Vec::new(), ops: Vec::new(), ans: Vec::new(), dead: false };
    let nh = 1 + ctx.rng.below(3);
    for _ in 0..nh {
        let h = *ctx.rng.pick(HISTORIES);
        history(ctx, &mut sq, h);
        if sq.dead {
            break;
        }
    }
    let nops = 3 + ctx.rng.below(max_ops);
    while !sq.dead && sq.ops.len() < nops {
        if sq.live().len() > 6 {
            apply(ctx, &mut sq, "drop");
            continue;
        }
        if sq.live().is_empty() || ctx.rng.chance(8) {
            let h = *ctx.rng.pick(HISTORIES);
            history(ctx, &mut sq, h);
            continue;
        }
        let k = *ctx.rng.pick(OPS);
        ctx.tag(&format!("op:{}", k));
        apply(ctx, &mut sq, k);
    }
    ctx.tag(&format!("seq-len:{}", sq.ops.len().min(20)));
    ctx.case(format!("C04 {}", sq.ops.join(" ; ")), sq.ans.join(" ; "));
}

// ---------- (b) representation independence, directly ----------

const SITUATIONS: &[&str] = &["fresh-slack", "parent-alive", "parent-dropped", "static", "append-result", "invert-result"];

/// build a handle denoting exactly `bits`, starting at bit alignment `al`, in ownership situation `sit`
fn build(ctx: &mut Ctx, bits: &[bool], al: usize, sit: &str) -> (Bitstr, Vec<(Bitstr, Vec<bool>)>) {
    let pre: Vec<bool> = (0..al + 8 * ctx.rng.below(3)).map(|_| ctx.rng.bool()).collect();
    let post: Vec<bool> = (0..ctx.rng.below(20)).map(|_| ctx.rng.bool()).collect();
    let embed = |body: &[bool]| -> Vec<u8> {
        let mut all = pre.clone();
        all.extend_from_slice(body);
        all.extend_from_slice(&post);
        while all.len() % 8 != 0 {
            all.push(true); // stale bits after the end are ones on purpose
        }
        all.chunks(8).map(|c| ref_be(c) as u8).collect()
    };
    let a = pre.len();
    let b = a + bits.len();
    let mut keep = Vec::new();
    let v = match sit {
        "fresh-slack" => {
            // unique owner, buffer longer than the value, value reached by read()s on the only handle
            let mut p = Bitstr::from(embed(bits));
            let _ = p.read(a).unwrap();
            p.read(bits.len()).unwrap()
            // p dropped here: the result is the unique owner
        }
        "parent-alive" => {
            let p = Bitstr::from(embed(bits));
            let s = p.substr(a, b).unwrap();
            let pb = impl_bits(&p);
            keep.push((p, pb));
            s
        }
        "parent-dropped" => Bitstr::from(embed(bits)).substr(a, b).unwrap(),
        "static" => {
            let st: &'static [u8] = Box::leak(embed(bits).into_boxed_slice());
            Bitstr::from(st).substr(a, b).unwrap()
        }
        "append-result" => {
            let k = ctx.rng.below(bits.len() + 1);
            let p = Bitstr::from(embed(&bits[..k]));
            let head = p.substr(a, a + k).unwrap();
            drop(p);
            let al2 = ctx.rng.below(8);
            let (tb, _) = build(ctx, &bits[k..], al2, "parent-dropped");
            head.append(&tb)
        }
        _ => {
            let inv: Vec<bool> = bits.iter().map(|x| !x).collect();
            Bitstr::from(embed(&inv)).substr(a, b).unwrap().invert()
        }
    };
    (v, keep)
}

fn representation_independence(ctx: &mut Ctx, bits: &[bool], exhaustive: bool) {
    let mut variants: Vec<(String, Bitstr, Vec<(Bitstr, Vec<bool>)>)> = Vec::new();
    for al in 0..8 {
        for sit in SITUATIONS {
            if !exhaustive && !ctx.rng.chance(40) && !(al == 0 && *sit == "fresh-slack") {
                continue;
            }
            let r = crate::guarded(|| build(ctx, bits, al, sit));
            match r {
                Some((v, keep)) => variants.push((format!("{}@{}", sit, al), v, keep)),
                None => ctx.oracle_fail(format!("repr-indep build {}@{} bits={}", sit, al, pack_hex(bits)), "no panic".into(), "panic".into()),
            }
        }
    }
    ctx.tag("repr-indep:value");
    let desc = |name: &str| format!("repr-indep len={} bits={} variant={}", bits.len(), pack_hex(bits), name);
    // every query answers as the reference does (slice(): only its None/Some-ness may depend on alignment)
    for (name, v, _) in &variants {
        for q in QUERIES {
            for big in [false, true] {
                if !ORDERED.contains(q) && big {
                    continue;
                }
                let got = crate::guarded(|| impl_query(q, v, big)).unwrap_or_else(|| "panic".into());
                let exp = ref_query(q, bits, big, v.start() % 8 == 0);
                ctx.check(got == exp, || format!("{} query={} {}", desc(name), q, if big { "be" } else { "le" }), || exp.clone(), || got.clone());
            }
        }
    }
    // the byte export of the C API (what an embedding host reads off a value it popped, directly or out of a vector,
    // bare or tagged): the value's bytes when it is a whole number of bytes — wherever it lies in its buffer — and NULL
    // when it is not; the length in bits either way
    {
        let p = Box::into_raw(Box::new(xeh::prelude::Xstate::boot().unwrap()));
        for (k, (name, v, _)) in variants.iter().enumerate() {
            let got = crate::guarded(|| unsafe {
                use xeh::c_api::*;
                use xeh::prelude::Cell;
                let cell = match k % 3 { 0 => Cell::Bitstr(v.clone()), 1 => Cell::Bitstr(v.clone()).with_tags(xeh::xeh_map!["k" => 1]), _ => { let mut vv = xeh::prelude::Xvec::new(); vv.push_back_mut(Cell::Bitstr(v.clone())); Cell::Vector(vv) } };
                let _ = xeh_push(p, Box::into_raw(Box::new(cell)));
                let top = xeh_pop(p);
                let c = if k % 3 == 2 { let e = xeh_vector_at(top, 0); xeh_release(top); e } else { top };
                let (ptr, len) = (xeh_bitstr_bytes(c), xeh_bitstr_len(c));
                // (memory that was given back in between is used again by these)
                let junk: Vec<Vec<u8>> = (0..48).map(|i| vec![0x55u8 ^ (i as u8); 1 + len / 8]).collect();
                let out = if ptr.is_null() { format!("len={} bytes=NULL", len) } else { format!("len={} bytes={}", len, hex_bytes(std::slice::from_raw_parts(ptr, len / 8))) };
                drop(junk);
                xeh_release(c);
                out
            }).unwrap_or_else(|| "panic".into());
            let exp = if bits.len() % 8 == 0 { format!("len={} bytes={}", bits.len(), hex_bytes(&ref_pad(bits))) } else { format!("len={} bytes=NULL", bits.len()) };
            ctx.check(got == exp, || format!("{} C API xeh_bitstr_bytes / xeh_bitstr_len ({})", desc(name), ["popped", "popped, tagged", "element of a popped vector"][k % 3]), || exp.clone(), || got.clone());
        }
        unsafe { drop(Box::from_raw(p)); }
        ctx.tag("repr-indep:c-api-export");
    }
    // binary / transforming operations across variants
    let n = variants.len();
    for _ in 0..n.min(12) {
        let (i, j) = (ctx.rng.below(n), ctx.rng.below(n));
        let (ni, vi, _) = &variants[i];
        let (nj, vj, _) = &variants[j];
        let eq = crate::guarded(|| vi.eq_with(vj) && vj.eq_with(vi) && vi == vj && vj == vi);
        ctx.check(eq == Some(true), || format!("{} eq_with {}", desc(ni), nj), || "true".into(), || format!("{:?}", eq));
        let mut exp = bits.to_vec();
        exp.extend_from_slice(bits);
        let ap = crate::guarded(|| impl_bits(&vi.clone().append(vj)));
        ctx.check(ap.as_ref() == Some(&exp), || format!("{} append {}", desc(ni), nj), || pack_hex(&exp), || ap.clone().map(|x| pack_hex(&x)).unwrap_or("panic".into()));
        // the operands still denote the same bits
        let still = impl_bits(vi) == bits && impl_bits(vj) == bits;
        ctx.check(still, || format!("{} append {} (operands afterwards)", desc(ni), nj), || pack_hex(bits), || format!("{} / {}", pack_hex(&impl_bits(vi)), pack_hex(&impl_bits(vj))));
        let k = ctx.rng.below(bits.len() + 1);
        let ins = crate::guarded(|| vi.clone().insert(k, vj).map(|x| impl_bits(&x)));
        let mut e2 = bits[..k].to_vec();
        e2.extend_from_slice(bits);
        e2.extend_from_slice(&bits[k..]);
        ctx.check(ins == Some(Some(e2.clone())), || format!("{} insert {} {}", desc(ni), k, nj), || pack_hex(&e2), || format!("{:?}", ins.clone().map(|o| o.map(|x| pack_hex(&x)))));
        let inv = crate::guarded(|| impl_bits(&vi.clone().invert()));
        let e3: Vec<bool> = bits.iter().map(|x| !x).collect();
        ctx.check(inv.as_ref() == Some(&e3), || format!("{} invert (of a clone)", desc(ni)), || pack_hex(&e3), || format!("{:?}", inv.clone().map(|x| pack_hex(&x))));
        let det = crate::guarded(|| impl_bits(&vi.clone().detach()));
        ctx.check(det.as_deref() == Some(bits), || format!("{} detach (of a clone)", desc(ni)), || pack_hex(bits), || format!("{:?}", det.clone().map(|x| pack_hex(&x))));
        let sp = crate::guarded(|| vi.split_at(k).map(|(l, r)| (impl_bits(&l), impl_bits(&r))));
        ctx.check(sp == Some(Some((bits[..k].to_vec(), bits[k..].to_vec()))), || format!("{} split_at {}", desc(ni), k), || "prefix/suffix".into(), || format!("{:?}", sp.is_some()));
    }
    // two views of ONE buffer that denote the same bits at different places (and a third that differs in one bit):
    // equality looks at the bits, not at where in the shared buffer they are
    if !bits.is_empty() {
        let gap: Vec<bool> = (0..ctx.rng.below(11)).map(|_| ctx.rng.bool()).collect();
        let lead: Vec<bool> = (0..ctx.rng.below(9)).map(|_| ctx.rng.bool()).collect();
        let mut other = bits.to_vec();
        let flip = ctx.rng.below(other.len());
        other[flip] = !other[flip];
        let mut all = lead.clone();
        all.extend_from_slice(bits); all.extend_from_slice(&gap); all.extend_from_slice(bits); all.extend_from_slice(&other);
        let total = all.len();
        while all.len() % 8 != 0 { all.push(true); }
        let parent = Bitstr::from(all.chunks(8).map(|c| ref_be(c) as u8).collect::<Vec<u8>>());
        let n = bits.len();
        let (a0, b0, c0) = (lead.len(), lead.len() + n + gap.len(), lead.len() + 2 * n + gap.len());
        let r = crate::guarded(|| {
            let (a, b, c) = (parent.substr(a0, a0 + n).unwrap(), parent.substr(b0, b0 + n).unwrap(), parent.substr(c0, c0 + n).unwrap());
            let a2 = parent.substr(a0, a0 + n).unwrap();
            format!("a==b:{} b==a:{} a.eq_with(b):{} a==a':{} a==c:{} c==b:{} cell:{}", a == b, b == a, a.eq_with(&b), a == a2, a == c, c == b,
                xeh::cell::Cell::from(a.clone()) == xeh::cell::Cell::from(b.clone()))
        });
        let exp = "a==b:true b==a:true a.eq_with(b):true a==a':true a==c:false c==b:false cell:true".to_string();
        ctx.check(r.as_ref() == Some(&exp), || format!("repr-indep views of one buffer len={} bits={} at {}/{}/{} of {}", n, pack_hex(bits), a0, b0, c0, total), || exp.clone(), || format!("{:?}", r));
        ctx.tag("repr-indep:two-views-of-one-buffer");
    }
    // consuming operations on the variant itself (unique-owner paths), last
    for (name, v, keep) in variants {
        let which = ctx.rng.below(3);
        let tail_bits: Vec<bool> = (0..ctx.rng.below(20)).map(|_| ctx.rng.bool()).collect();
        let tail = super::gen::bitstr_from_bits(&tail_bits);
        let (got, exp): (Option<Vec<bool>>, Vec<bool>) = match which {
            0 => (crate::guarded(move || impl_bits(&v.append(&tail))), [bits, &tail_bits[..]].concat()),
            1 => (crate::guarded(move || impl_bits(&v.invert())), bits.iter().map(|x| !x).collect()),
            _ => (crate::guarded(move || impl_bits(&v.detach())), bits.to_vec()),
        };
        ctx.check(got.as_ref() == Some(&exp), || format!("{} consuming op #{} (0 append,1 invert,2 detach)", desc(&name), which), || pack_hex(&exp), || format!("{:?}", got.clone().map(|x| pack_hex(&x))));
        // a parent kept alive must be untouched by whatever happened to its slice
        for (p, pb) in keep {
            let now = impl_bits(&p);
            ctx.check(now == pb, || format!("{} parent after consuming op #{}", desc(&name), which), || pack_hex(&pb), || pack_hex(&now));
        }
    }
}

pub fn run(ctx: &mut Ctx) {
    let nseq = ctx.n;
    let max_ops = 14;
    for _ in 0..nseq {
        sequence(ctx, max_ops);
    }
    // representation independence
    let nvals = if ctx.thorough { nseq / 10 } else { nseq / 25 };
    for _ in 0..nvals {
        let len = match ctx.rng.below(10) {
            0 => *ctx.rng.pick(&[0usize, 1, 7, 8, 9, 127, 128, 129]),
            1..=6 => ctx.rng.below(40),
            _ => ctx.rng.below(301),
        };
        let bits: Vec<bool> = (0..len).map(|_| ctx.rng.bool()).collect();
        representation_independence(ctx, &bits, false);
    }
    if ctx.thorough {
        // exhaustive small scope: every length 0..24 × every alignment × every situation
        for len in 0..=24 {
            for _ in 0..4 {
                let bits: Vec<bool> = (0..len).map(|_| ctx.rng.bool()).collect();
                representation_independence(ctx, &bits, true);
            }
        }
    }
}
