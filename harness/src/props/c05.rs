//! C05 — number <-> bits codecs are exact inverses and independent of alignment.
//!
//! Correspondence (see lean/XehModel/Driver/C05.lean):
//!   `C05 api <w> <order> <val> p<pre> p<post>`       from_int → embed at |pre| → to_uint / to_int
//!   `C05 f32|f64 <order> <bits> p<pre> p<post>`      from_fNN → embed → to_fNN           (bit-exact, API level)
//!   `C05 word <cell> p<pre> p<post> | pack | read`   the language words through `eval`
//!
//! Oracle (implementation only): round trip (mod 2^w, two's complement), Rust's own
//! `to_le_bytes/to_be_bytes/from_le_bytes/from_be_bytes` for byte-multiple widths, and offset independence
//! (the same field decoded at all 8 bit offsets of a larger buffer with random / all-ones surroundings).
//! Through the words `f32!`/`f32` the conversions `f64 as f32` / `f32 as f64` may quiet a signalling NaN:
//! NaNs are compared as a class on that path only; `Bitstr::from_f32/to_f32/from_f64/to_f64` are bit-exact.
use super::c04::{impl_bits, pack_hex, ref_be};
use crate::canon;
use crate::Ctx;
use xeh::bitstr::*;
use xeh::prelude::*;

fn ord(big: bool) -> Byteorder {
    if big { BIG } else { LITTLE }
}
fn oname(big: bool) -> &'static str {
    if big { "be" } else { "le" }
}
fn pbits(b: &[bool]) -> String {
    format!("p{}", b.iter().map(|x| if *x { '1' } else { '0' }).collect::<String>())
}

/// surroundings for a field of `w` bits at bit offset `off`: random or all-ones, total length byte multiple
fn surround(ctx: &mut Ctx, off: usize, w: usize) -> (Vec<bool>, Vec<bool>) {
    let ones = ctx.rng.chance(30);
    let extra = 8 * ctx.rng.below(3);
    let pre: Vec<bool> = (0..off + extra).map(|_| ones || ctx.rng.bool()).collect();
    let mut post: Vec<bool> = (0..ctx.rng.below(12)).map(|_| ones || ctx.rng.bool()).collect();
    while (pre.len() + w + post.len()) % 8 != 0 {
        post.push(true);
    }
    (pre, post)
}

/// the field `bits` embedded after `pre`, addressed as a sub-range of a larger buffer
fn embed(pre: &[bool], bits: &[bool], post: &[bool]) -> Bitstr {
    let mut all = pre.to_vec();
    all.extend_from_slice(bits);
    all.extend_from_slice(post);
    assert!(all.len() % 8 == 0);
    let bytes: Vec<u8> = all.chunks(8).map(|c| ref_be(c) as u8).collect();
    Bitstr::from(bytes).substr(pre.len(), pre.len() + bits.len()).unwrap()
}

fn mask(w: usize) -> u128 {
    if w >= 128 { u128::MAX } else { (1u128 << w) - 1 }
}

fn sext(u: u128, w: usize) -> i128 {
    if w == 0 {
        0
    } else if w >= 128 {
        u as i128
    } else {
        ((u << (128 - w)) as i128) >> (128 - w)
    }
}

fn values(ctx: &mut Ctx, w: usize, nrand: usize, all_single_bits: bool) -> Vec<i128> {
    let mut v: Vec<i128> = vec![0, 1, -1];
    if w >= 1 && w <= 128 {
        let m = mask(w);
        v.push(m as i128); // 2^w - 1 (as i128 bit pattern)
        v.push((m >> 1) as i128); // max signed
        v.push(!((m >> 1) as i128)); // min signed
        v.push(((m >> 1) as i128).wrapping_add(1)); // 2^(w-1)
    }
    if all_single_bits {
        for k in 0..128 {
            v.push((1u128 << k) as i128);
        }
    } else {
        for _ in 0..2 {
            v.push((1u128 << ctx.rng.below(w.clamp(1, 128))) as i128);
        }
        v.push((1u128 << ctx.rng.below(128)) as i128);
    }
    for _ in 0..nrand {
        v.push(super::gen::gen_int(&mut ctx.rng));
    }
    v.push(ctx.rng.next_u128() as i128);
    v
}

/// one (width, order, value): oracle over all 8 offsets + correspondence line(s)
fn api_case(ctx: &mut Ctx, w: usize, big: bool, val: i128, offsets: &[usize]) {
    let o = ord(big);
    let desc = |what: &str| format!("C05 api w={} {} val={} {}", w, oname(big), val, what);
    let f = match crate::guarded(|| Bitstr::from_int(val, w, o)) {
        Some(f) => f,
        None => return ctx.oracle_fail(desc("from_int"), "no panic".into(), "panic".into()),
    };
    let fbits = impl_bits(&f);
    ctx.check(f.len() == w && fbits.len() == w, || desc("len"), || w.to_string(), || f.len().to_string());
    let in_scope = (1..=128).contains(&w);
    let want_u = (val as u128) & mask(w);
    let want_i = sext(want_u, w);
    if in_scope {
        ctx.tag("oracle:roundtrip");
        let u = f.to_uint(o);
        let i = f.to_int(o);
        ctx.check(u == want_u, || desc("to_uint(from_int)"), || want_u.to_string(), || u.to_string());
        ctx.check(i == want_i, || desc("to_int(from_int)"), || want_i.to_string(), || i.to_string());
        if w % 8 == 0 {
            ctx.tag("oracle:std-byte-layout");
            let k = w / 8;
            let std: Vec<u8> = if big { val.to_be_bytes()[16 - k..].to_vec() } else { val.to_le_bytes()[..k].to_vec() };
            let got = f.to_bytes();
            ctx.check(got.as_ref() == Some(&std), || desc("byte layout"), || canon::hex(&std), || format!("{:?}", got.as_ref().map(|b| canon::hex(b))));
            // decoding the platform's layout
            let mut full = [if want_i < 0 { 0xffu8 } else { 0 }; 16];
            if big { full[16 - k..].copy_from_slice(&std) } else { full[..k].copy_from_slice(&std) }
            let std_i = if big { i128::from_be_bytes(full) } else { i128::from_le_bytes(full) };
            let d = Bitstr::from(std.clone());
            ctx.check(d.to_int(o) == std_i && d.to_uint(o) == want_u, || desc("decode std bytes"), || format!("{} {}", want_u, std_i), || format!("{} {}", d.to_uint(o), d.to_int(o)));
        }
    }
    // offset independence: decode the same bits at every offset
    let base_u = f.to_uint(o);
    let base_i = f.to_int(o);
    for off in 0..8 {
        let (pre, post) = surround(ctx, off, w);
        let e = embed(&pre, &fbits, &post);
        let r = crate::guarded(|| (e.to_uint(o), e.to_int(o), e.to_uint(ord(!big)), f.to_uint(ord(!big))));
        match r {
            None => ctx.oracle_fail(desc(&format!("decode at offset {}", off)), "no panic".into(), "panic".into()),
            Some((u, i, ux, fx)) => {
                ctx.tag("oracle:offset-independence");
                ctx.check(u == base_u && i == base_i && ux == fx, || desc(&format!("decode at offset {} pre={} post={}", off, pbits(&pre), pbits(&post))), || format!("{} {} {}", base_u, base_i, fx), || format!("{} {} {}", u, i, ux));
                if offsets.contains(&off) {
                    ctx.tag(&format!("api:offset={}", off));
                    ctx.case(
                        format!("C05 api {} {} {} {} {}", w, oname(big), val, pbits(&pre), pbits(&post)),
                        format!("f{}:{} u{} i{}", pack_hex(&fbits), f.len(), u, i),
                    );
                }
            }
        }
    }
}

fn float_bits32(ctx: &mut Ctx) -> u32 {
    match ctx.rng.below(10) {
        0 => *ctx.rng.pick(&[0u32, 0x8000_0000, 0x3f80_0000, 0x7f80_0000, 0xff80_0000, 0x7fc0_0000, 0x7f80_0001, 0xffc0_1234, 1, 0x007f_ffff, 0x0080_0000, 0x7f7f_ffff]),
        1 => 0x7f80_0001 | (ctx.rng.next_u64() as u32 & 0x803f_ffff), // signalling NaN payloads
        2 => 0x7fc0_0000 | (ctx.rng.next_u64() as u32 & 0x803f_ffff), // quiet NaN payloads
        3 => ctx.rng.next_u64() as u32 & 0x807f_ffff,                 // subnormals
        _ => ctx.rng.next_u64() as u32,
    }
}

fn float_bits64(ctx: &mut Ctx) -> u64 {
    match ctx.rng.below(10) {
        0 => *ctx.rng.pick(&[0u64, 1 << 63, 0x3ff0_0000_0000_0000, 0x7ff0_0000_0000_0000, 0xfff0_0000_0000_0000, 0x7ff8_0000_0000_0000, 0x7ff0_0000_0000_0001, 1, 0x000f_ffff_ffff_ffff, 0x0010_0000_0000_0000, 0x7fef_ffff_ffff_ffff]),
        1 => 0x7ff0_0000_0000_0001 | (ctx.rng.next_u64() & 0x8007_ffff_ffff_ffff),
        2 => 0x7ff8_0000_0000_0000 | (ctx.rng.next_u64() & 0x8007_ffff_ffff_ffff),
        3 => ctx.rng.next_u64() & 0x800f_ffff_ffff_ffff,
        _ => ctx.rng.next_u64(),
    }
}

fn fclass(exp_all_ones: bool, exp_zero: bool, frac_zero: bool, quiet: bool) -> &'static str {
    if exp_all_ones {
        if frac_zero { "inf" } else if quiet { "qnan" } else { "snan" }
    } else if exp_zero {
        if frac_zero { "zero" } else { "subnormal" }
    } else {
        "normal"
    }
}

fn float_api_case(ctx: &mut Ctx, is64: bool, big: bool, x: u64) {
    let o = ord(big);
    let (w, name) = if is64 { (64, "f64") } else { (32, "f32") };
    let class = if is64 {
        fclass((x >> 52) & 0x7ff == 0x7ff, (x >> 52) & 0x7ff == 0, x & ((1 << 52) - 1) == 0, (x >> 51) & 1 == 1)
    } else {
        fclass((x >> 23) & 0xff == 0xff, (x >> 23) & 0xff == 0, x & ((1 << 23) - 1) == 0, (x >> 22) & 1 == 1)
    };
    ctx.tag(&format!("{}:class:{}", name, class));
    let desc = |what: &str| format!("C05 {} {} {:x} {}", name, oname(big), x, what);
    let f = if is64 { Bitstr::from_f64(f64::from_bits(x), o) } else { Bitstr::from_f32(f32::from_bits(x as u32), o) };
    let std: Vec<u8> = match (is64, big) {
        (true, true) => x.to_be_bytes().to_vec(),
        (true, false) => x.to_le_bytes().to_vec(),
        (false, true) => (x as u32).to_be_bytes().to_vec(),
        (false, false) => (x as u32).to_le_bytes().to_vec(),
    };
    let got = f.to_bytes();
    ctx.check(got.as_ref() == Some(&std), || desc("byte layout"), || canon::hex(&std), || format!("{:?}", got.as_ref().map(|b| canon::hex(b))));
    let fbits = impl_bits(&f);
    let line_off = ctx.rng.below(8);
    for off in 0..8 {
        let (pre, post) = surround(ctx, off, w);
        let e = embed(&pre, &fbits, &post);
        let back: u64 = if is64 { e.to_f64(o).to_bits() } else { e.to_f32(o).to_bits() as u64 };
        ctx.check(back == x, || desc(&format!("round trip at offset {}", off)), || format!("{:x}", x), || format!("{:x}", back));
        if off == line_off {
            let (xs, bs) = if is64 { (format!("{:016x}", x), format!("{:016x}", back)) } else { (format!("{:08x}", x), format!("{:08x}", back)) };
            ctx.case(format!("C05 {} {} {} {} {}", name, oname(big), xs, pbits(&pre), pbits(&post)), format!("f{}:{} r{}", pack_hex(&fbits), f.len(), bs));
        }
    }
}

fn show_real(r: f64) -> String {
    if r.is_nan() { "rNaN".into() } else { format!("r{:016x}", r.to_bits()) }
}

/// the language words through `eval`
fn word_case(ctx: &mut Ctx, base: &Xstate, val: Cell, pack: &str, read: &str, off: usize, expect: Option<String>) {
    let mut xs = base.clone();
    let packed = crate::guarded(|| {
        xs.push_data(val.clone()).unwrap();
        xs.eval(pack).map(|_| xs.pop_data())
    });
    let vtxt = match &val {
        Cell::Real(r) => format!("r{:016x}", r.to_bits()),
        c => canon::cell(c),
    };
    let nan_in = matches!(&val, Cell::Real(r) if r.is_nan());
    // pre/post are needed for the request line even when packing fails
    let field: Result<Bitstr, String> = match packed {
        None => Err("panic".into()),
        Some(Err(e)) => Err(format!("err {}", canon::err(&e))),
        Some(Ok(Err(e))) => Err(format!("err {}", canon::err(&e))),
        Some(Ok(Ok(c))) => match c.value() {
            Cell::Bitstr(b) => Ok(b.clone()),
            other => Err(format!("not-a-bitstr {}", canon::cell(other))),
        },
    };
    let w = field.as_ref().map(|f| f.len()).unwrap_or(0);
    let (pre, post) = surround(ctx, off, w);
    let req = format!("C05 word {} {} {} | {} | {}", vtxt, pbits(&pre), pbits(&post), pack, read);
    let f = match field {
        Err(e) => {
            ctx.tag("word:pack-error");
            ctx.case(req, e);
            return;
        }
        Ok(f) => f,
    };
    let fbits = impl_bits(&f);
    let e = embed(&pre, &fbits, &post);
    let mut xs = base.clone();
    let r = crate::guarded(|| {
        xs.push_data(Cell::from(e.clone())).unwrap();
        xs.eval(&format!("open-bitstr {}", read)).map(|_| xs.pop_data())
    });
    let out = match r {
        None => "panic".to_string(),
        Some(Err(e)) => format!("err {}", canon::err(&e)),
        Some(Ok(Err(e))) => format!("err {}", canon::err(&e)),
        Some(Ok(Ok(c))) => {
            // the `len` tag records the width that was read
            let len_tag = c.get_tag(&Cell::from("len")).cloned();
            ctx.check(len_tag == Some(Cell::from(w)), || format!("{} [len tag]", req), || format!("{}", w), || format!("{:?}", len_tag.as_ref().map(canon::cell)));
            match c.value() {
                Cell::Real(r) => format!("ok {}", show_real(*r)),
                v => format!("ok {}", canon::cell(v)),
            }
        }
    };
    if out == "panic" {
        ctx.oracle_fail(req.clone(), "no panic".into(), "panic".into());
    }
    if let Some(exp) = expect {
        ctx.check(out == exp, || req.clone(), || exp.clone(), || out.clone());
    }
    let ftxt = if nan_in { "fNaN".to_string() } else { format!("f{}:{}", pack_hex(&fbits), f.len()) };
    ctx.case(req, format!("{} {}", ftxt, out));
}

fn int_word_cases(ctx: &mut Ctx, base: &Xstate, w: usize, big: bool, signed: bool, val: i128) {
    let off = ctx.rng.below(8);
    let fixed = matches!(w, 8 | 16 | 32 | 64) && ctx.rng.chance(60);
    let bo = if big { "big" } else { "little" };
    let sfx = if big { "be" } else { "le" };
    let k = if signed { "i" } else { "u" };
    let (pack, read) = if fixed {
        match ctx.rng.below(3) {
            0 => (format!("{} {}{}!", bo, k, w), format!("{} {}{}", bo, k, w)),
            1 => (format!("{}{}{}!", k, w, sfx), format!("{}{}{}", k, w, sfx)),
            // the explicit-order words ignore the current default order
            _ => (format!("{} {}{}{}!", if big { "little" } else { "big" }, k, w, sfx), format!("{} {}{}{}", if big { "little" } else { "big" }, k, w, sfx)),
        }
    } else {
        (format!("{} {} {}int!", bo, w, if signed { "" } else { "u" }), format!("{} {} {}int", bo, w, if signed { "" } else { "u" }))
    };
    ctx.tag(if fixed { "word:fixed-width" } else { "word:generic-width" });
    let mask = if w >= 128 { u128::MAX } else { (1u128 << w) - 1 };
    let u = (val as u128) & mask;
    let expect = if w == 0 {
        None
    } else if signed {
        if w > 128 { Some("err IntegerOverflow".to_string()) } else { Some(format!("ok i{}", sext(u, w))) }
    } else if w > 127 {
        // an unsigned 128-bit value does not fit the language's i128 integer: the word refuses, it does not wrap
        Some("err IntegerOverflow".to_string())
    } else {
        Some(format!("ok i{}", u))
    };
    word_case(ctx, base, Cell::Int(val), &pack, &read, off, expect);
}

fn float_word_cases(ctx: &mut Ctx, base: &Xstate, is64: bool, big: bool) {
    let off = ctx.rng.below(8);
    let bo = if big { "big" } else { "little" };
    let sfx = if big { "be" } else { "le" };
    let n = if is64 { 64 } else { 32 };
    let (pack, read) = match ctx.rng.below(3) {
        0 => (format!("{} f{}!", bo, n), format!("{} f{}", bo, n)),
        1 => (format!("f{}{}!", n, sfx), format!("f{}{}", n, sfx)),
        _ => (format!("{} {} float!", bo, n), format!("{} {} float", bo, n)),
    };
    // the value pushed: any f64 for f64 words; for f32 words mostly f32-representable values, sometimes any f64 (rounding)
    let (x, expect): (f64, Option<String>) = if is64 {
        let x = f64::from_bits(float_bits64(ctx));
        (x, Some(format!("ok {}", show_real(x))))
    } else if ctx.rng.chance(75) {
        let x = f32::from_bits(float_bits32(ctx)) as f64;
        (x, Some(format!("ok {}", show_real(x))))
    } else {
        let x = super::gen::gen_real(&mut ctx.rng);
        (x, Some(format!("ok {}", show_real((x as f32) as f64))))
    };
    ctx.tag(&format!("word:f{}:{}", n, if x.is_nan() { "nan-class" } else if x.is_infinite() { "inf" } else if x == 0.0 { "zero" } else if x.is_subnormal() || (!is64 && (x as f32).is_subnormal()) { "subnormal" } else { "finite" }));
    word_case(ctx, base, Cell::Real(x), &pack, &read, off, expect);
}

pub fn run(ctx: &mut Ctx) {
    let base = Xstate::boot().unwrap();
    let nrand = if ctx.thorough { 40 } else { 3 };
    // every width × both orders × value set; each value is decoded at all 8 offsets (oracle) and
    // reported at some offsets (correspondence)
    for w in 1..=128usize {
        for big in [false, true] {
            let vals = values(ctx, w, nrand, ctx.thorough);
            for (n, v) in vals.iter().enumerate() {
                let offs: Vec<usize> = if ctx.thorough || n < 3 { (0..8).collect() } else { vec![ctx.rng.below(8), ctx.rng.below(8)] };
                api_case(ctx, w, big, *v, &offs);
            }
            for signed in [false, true] {
                let vals = values(ctx, w, 1, false);
                for v in vals {
                    int_word_cases(ctx, &base, w, big, signed, v);
                }
            }
        }
    }
    // outside the property's width range (faithfulness of the model only; the oracle is silent there)
    for w in [0usize, 129, 130, 135, 136, 137, 200, 256, 300] {
        for big in [false, true] {
            for v in values(ctx, w, 2, false) {
                ctx.tag("api:width-outside-1..128");
                let o1 = ctx.rng.below(8);
                api_case(ctx, w, big, v, &[o1]);
            }
            let v = super::gen::gen_int(&mut ctx.rng);
            let sg = ctx.rng.bool();
            int_word_cases(ctx, &base, w, big, sg, v);
        }
    }
    // floats
    let nf = (ctx.n / 20).max(200);
    for _ in 0..nf {
        let big = ctx.rng.bool();
        let x32 = float_bits32(ctx) as u64;
        float_api_case(ctx, false, big, x32);
        let x64 = float_bits64(ctx);
        float_api_case(ctx, true, big, x64);
        float_word_cases(ctx, &base, false, big);
        float_word_cases(ctx, &base, true, big);
    }
    // unsupported float widths, short inputs
    for n in [0usize, 16, 31, 33, 63, 65, 128] {
        let off = ctx.rng.below(8);
        word_case(ctx, &base, Cell::Real(1.5), &format!("{} float!", n), "64 float", off, None);
        word_case(ctx, &base, Cell::Real(1.5), "f64!", &format!("{} float", n), off, None);
        word_case(ctx, &base, Cell::Int(5), "16 uint!", "32 uint", off, Some("err ReadError:16:32".into()));
    }
    // the words that name their byte order (`u16le!`, `i64be`, `f32le!` …) mean that order whatever order is currently
    // selected — every width, both namings, under both selections, packing under one and reading under the other
    for w in [8usize, 16, 32, 64] {
        for signed in [false, true] {
            for sfx in ["le", "be"] {
                for (mode_pack, mode_read) in [("big", "big"), ("little", "little"), ("big", "little"), ("little", "big")] {
                    let k = if signed { "i" } else { "u" };
                    let val: i128 = if signed { -2 - (w as i128) } else { (0x0102030405060708u64 as u128 & ((1u128 << (w - 1)) - 1)) as i128 };
                    let expect = Some(format!("ok i{}", val));
                    word_case(ctx, &base, Cell::Int(val), &format!("{} {}{}{}!", mode_pack, k, w, sfx), &format!("{} {}{}{}", mode_read, k, w, sfx), (w / 8) % 8, expect);
                    ctx.tag("word:explicit-order-under-both-selections");
                }
            }
        }
    }
    for (w, x) in [(32usize, 1.5f64), (64, -2.25)] {
        for sfx in ["le", "be"] {
            for (mode_pack, mode_read) in [("big", "little"), ("little", "big"), ("big", "big")] {
                word_case(ctx, &base, Cell::Real(x), &format!("{} f{}{}!", mode_pack, w, sfx), &format!("{} f{}{}", mode_read, w, sfx), 3, Some(format!("ok {}", show_real(x))));
                ctx.tag("word:explicit-order-under-both-selections");
            }
        }
    }
}
