//! C06 — parsing cursor.
//! Correspondence: one request line per sequence (`C06 <tok>*`, see lean/XehModel/Driver/C06.lean);
//! every word is run with its own `Xstate::eval` on one booted interpreter, arguments go in through
//! `push_data`; after every word the relative offset, `remain`, the input bits and the visible data
//! stack are reported.
//! Oracle (implementation only): an independent `(Vec<bool>, pos, stash)` reference cursor; the
//! property's statements are checked directly after every word (see `oracle_step`).
use super::gen::*;
use crate::canon;
use crate::Ctx;
use xeh::prelude::*;

pub const READ_FIXED: &[&str] = &[
    "u8", "u8le", "u8be", "u16", "u16le", "u16be", "u32", "u32le", "u32be", "u64", "u64le", "u64be",
    "i8", "i8le", "i8be", "i16", "i16le", "i16be", "i32", "i32le", "i32be", "i64", "i64le", "i64be",
    "f32", "f32le", "f32be", "f64", "f64le", "f64be",
];

/// what is visible of the cursor after a word
#[derive(Clone)]
pub struct Obs {
    pub bits: Vec<bool>,
    pub start: usize,
    pub end: usize,
    pub offset: i128,
    pub remain: Option<i128>,
    pub stack: Vec<Cell>,
}

impl Obs {
    pub fn rel(&self) -> i128 {
        self.offset - self.start as i128
    }
}

pub fn bits_vec(b: &Xbitstr) -> Vec<bool> {
    b.bits().map(|x| x == 1).collect()
}

pub fn observe(xs: &mut Xstate) -> Option<Obs> {
    crate::guarded(|| {
        let (bits, start, end) = match xs.get_var_value("input").unwrap().value() {
            Cell::Bitstr(b) => (bits_vec(b), b.start(), b.end()),
            _ => (vec![], 0, 0),
        };
        let offset = match xs.get_var_value("offset").unwrap().value() {
            Cell::Int(i) => *i,
            _ => -1,
        };
        let depth = xs.data_depth();
        let remain = match xs.eval("remain") {
            Ok(()) => match xs.pop_data() {
                Ok(c) => match c.value() {
                    Cell::Int(i) => Some(*i),
                    _ => None,
                },
                _ => None,
            },
            Err(_) => None,
        };
        while xs.data_depth() > depth {
            let _ = xs.pop_data();
        }
        Obs { bits, start, end, offset, remain, stack: canon::stack(xs) }
    })
}

pub fn bits_str(b: &[bool]) -> String {
    let mut s = String::with_capacity(b.len() + 1);
    s.push('b');
    s.extend(b.iter().map(|x| if *x { '1' } else { '0' }));
    s
}

/// build a bit-string whose value is `body` but which lives at bit `pre` of a longer buffer
pub fn embed(r: &mut crate::rng::Rng, body: &[bool], pre: usize, post: usize) -> Xbitstr {
    let mut all: Vec<bool> = (0..pre).map(|_| r.bool()).collect();
    all.extend_from_slice(body);
    all.extend((0..post).map(|_| r.bool()));
    let whole = bitstr_from_bits(&all);
    whole.substr(pre, pre + body.len()).unwrap()
}

fn gen_body(r: &mut crate::rng::Rng) -> Vec<bool> {
    let nbits = match r.below(12) {
        0 => 0,
        1 => r.below(8),
        2 => *r.pick(&[127usize, 128, 129, 64, 65, 63, 32, 33]),
        3 => 130 + r.below(200),
        4..=8 => 8 * r.below(24),
        _ => r.below(120),
    };
    let mut v = Vec::with_capacity(nbits);
    // bytes from a small alphabet so that NUL bytes and repeated patterns occur
    while v.len() < nbits {
        let byte: u8 = match r.below(8) {
            0 | 1 => 0,
            2 => b'A',
            3 => b'B',
            4 => 0xff,
            5 => 0x80,
            _ => r.next_u64() as u8,
        };
        for k in (0..8).rev() {
            if v.len() < nbits {
                v.push((byte >> k) & 1 == 1);
            }
        }
    }
    v
}

pub fn gen_input(r: &mut crate::rng::Rng) -> Xbitstr {
    let body = gen_body(r);
    let pre = match r.below(6) {
        0 => 0,
        1 => 8 * r.below(3),
        _ => r.below(19),
    };
    let post = if r.bool() { 0 } else { r.below(10) };
    embed(r, &body, pre, post)
}

fn huge(r: &mut crate::rng::Rng) -> i128 {
    *r.pick(&[
        1i128 << 31,
        (1i128 << 31) - 1,
        1i128 << 32,
        1i128 << 61,
        (1i128 << 61) - 1,
        (1i128 << 61) + 1,
        1i128 << 63,
        (1i128 << 63) - 1,
        (1i128 << 64) - 1,
        (1i128 << 64) - 8,
        1i128 << 64,
        (1i128 << 64) + 1,
        1i128 << 127 - 1,
        i128::MAX,
        -1,
        -8,
        -(1i128 << 63),
        i128::MIN,
    ])
}

fn wrong_type(r: &mut crate::rng::Rng) -> Cell {
    match r.below(5) {
        0 => Cell::Real(gen_real(r)),
        1 => Cell::from(gen_str(r)),
        2 => Cell::Nil,
        _ => gen_other(r),
    }
}

/// size argument for a read of `unit`-bit units with `remain` bits left
fn gen_size(r: &mut crate::rng::Rng, remain: usize, unit: usize) -> Cell {
    let units = remain / unit;
    let v: i128 = match r.below(20) {
        0..=7 => r.below(units + 1) as i128,
        8 | 9 => r.below(units.min(16) + 1) as i128,
        10 | 11 => units as i128,
        12 | 13 => units as i128 + 1,
        14 => units as i128 + 1 + r.below(9) as i128,
        15 => 0,
        _ => huge(r),
    };
    let c = Cell::Int(v);
    if r.chance(5) {
        tag_it(r, c)
    } else {
        c
    }
}

fn gen_width(r: &mut crate::rng::Rng, remain: usize) -> Cell {
    let v: i128 = match r.below(10) {
        0..=3 => *r.pick(&[0i128, 1, 2, 7, 8, 9, 12, 15, 16, 17, 31, 32, 33, 63, 64, 65, 100, 126, 127, 128, 129, 130]),
        4 | 5 => r.below(remain.min(130) + 1) as i128,
        6 => remain as i128,
        7 => remain as i128 + 1,
        8 => r.below(140) as i128,
        _ => huge(r),
    };
    Cell::Int(v)
}

fn gen_float_width(r: &mut crate::rng::Rng) -> Cell {
    Cell::Int(match r.below(10) {
        0..=3 => 32,
        4..=6 => 64,
        7 => *r.pick(&[0i128, 1, 8, 16, 31, 33, 63, 65, 128]),
        8 => r.below(70) as i128,
        _ => huge(r),
    })
}

/// independent decoders over a plain bit vector
pub fn ref_be(bits: &[bool]) -> u128 {
    bits.iter().fold(0u128, |a, b| (a << 1) | (*b as u128))
}

pub fn ref_le(bits: &[bool]) -> u128 {
    let mut acc = 0u128;
    for (k, ch) in bits.chunks(8).enumerate() {
        acc |= ref_be(ch) << (8 * k);
    }
    acc
}

pub fn ref_uint(bits: &[bool], big: bool) -> u128 {
    if big {
        ref_be(bits)
    } else {
        ref_le(bits)
    }
}

pub fn ref_sint(bits: &[bool], big: bool) -> i128 {
    let n = bits.len();
    let u = ref_uint(bits, big);
    if n == 0 {
        0
    } else if n >= 128 {
        u as i128
    } else if u >> (n - 1) & 1 == 1 {
        -(((1u128 << n) - u) as i128)
    } else {
        u as i128
    }
}

fn ref_bytes(bits: &[bool]) -> Vec<u8> {
    bits.chunks(8).map(|c| ref_be(c) as u8).collect()
}

/// reference cursor: what the property says the state must be
pub struct RefCur {
    pub stash: Vec<(Vec<bool>, i128)>,
    pub big: bool,
}

fn cells_eq(a: &[Cell], b: &[Cell]) -> bool {
    a.len() == b.len() && a.iter().zip(b).all(|(x, y)| canon::cell(x) == canon::cell(y))
}

fn arity(word: &str) -> usize {
    match word {
        "bits" | "bytes" | "uint" | "int" | "float" | "magic" | "seek" | "find" | "open-bitstr" => 1,
        ">bitstr" | "emit" => 1,
        "bitstr-append" | "int!" | "uint!" | "float!" => 2,
        w if w.ends_with('!') => 1,
        _ => 0,
    }
}

fn as_usize(c: &Cell) -> Option<usize> {
    match c.value() {
        Cell::Int(i) if *i >= 0 && *i <= usize::MAX as i128 => Some(*i as usize),
        _ => None,
    }
}

fn tag_len(c: &Cell) -> Option<i128> {
    match c.get_tag(&Cell::from("len")) {
        Some(Cell::Int(i)) => Some(*i),
        _ => None,
    }
}

/// the property, stated on one step. `res` = Ok/Err text of the word, `b`/`a` = observation before/after.
fn oracle_step(ctx: &mut Ctx, rc: &mut RefCur, word: &str, res: &Result<(), Xerr>, b: &Obs, a: &Obs, case: &str) {
    let mut bad: Vec<String> = Vec::new();
    let len_a = a.bits.len() as i128;
    // offset inside the input, remain = end − offset — always
    if !(0 <= a.rel() && a.rel() <= len_a) {
        bad.push(format!("offset inside the input: rel={} len={}", a.rel(), len_a));
    }
    if a.remain != Some(len_a - a.rel()) {
        bad.push(format!("remain = end - offset: remain={:?} len={} rel={}", a.remain, len_a, a.rel()));
    }
    if a.end < a.start || a.end - a.start != a.bits.len() {
        bad.push("input length".into());
    }
    let ar = arity(word);
    let nb = b.stack.len();
    let top = b.stack.last();
    let below = &b.stack[..nb.saturating_sub(ar)];
    let rest_bits: &[bool] = if b.rel() >= 0 && (b.rel() as usize) <= b.bits.len() { &b.bits[b.rel() as usize..] } else { &[] };
    let remain = rest_bits.len();
    let is_open_close = matches!(word, "open-bitstr" | "close-bitstr");
    match res {
        Err(_) => {
            // a failing word leaves input, offset and the rest of the data stack untouched
            if a.bits != b.bits || a.start != b.start {
                bad.push("failed word changed the input".into());
            }
            if a.offset != b.offset {
                bad.push(format!("failed word moved the offset {} -> {}", b.offset, a.offset));
            }
            let ok_stack = (0..=ar.min(nb)).any(|j| cells_eq(&a.stack, &b.stack[..nb - j]));
            if !ok_stack {
                bad.push("failed word changed the stack below its own arguments".into());
            }
        }
        Ok(()) => {
            if !is_open_close && (a.bits != b.bits || a.start != b.start) {
                bad.push("a word other than open/close changed the input".into());
            }
        }
    }
    // expectation whether the word must succeed, and what it must deliver
    let mut must_ok: Option<bool> = None;
    // (bits consumed, check on the pushed value)
    let mut read: Option<(usize, Box<dyn Fn(&Cell) -> bool>)> = None;
    let cur_big = rc.big;
    let order_of = |w: &str| if w.ends_with("be") { true } else if w.ends_with("le") { false } else { cur_big };
    match word {
        "bits" | "bytes" => {
            if ar > nb {
                must_ok = Some(false)
            } else if let Some(n) = as_usize(top.unwrap()) {
                let nbits = if word == "bytes" { n.checked_mul(8) } else { Some(n) };
                match nbits {
                    Some(nbits) if nbits <= remain => {
                        must_ok = Some(true);
                        let want = rest_bits[..nbits].to_vec();
                        read = Some((nbits, Box::new(move |c| matches!(c, Cell::Bitstr(s) if bits_vec(s) == want))));
                    }
                    _ => must_ok = Some(false),
                }
            } else {
                must_ok = Some(false)
            }
        }
        "uint" | "int" | "float" => {
            if ar > nb {
                must_ok = Some(false)
            } else if let Some(n) = as_usize(top.unwrap()) {
                let lim_ok = match word { "uint" => n <= 127, "int" => n <= 128, _ => n == 32 || n == 64 };
                if n <= remain && lim_ok {
                    must_ok = Some(true);
                    let want = rest_bits[..n].to_vec();
                    let big = cur_big;
                    let w = word.to_string();
                    read = Some((n, Box::new(move |c| value_ok(c, &w[..1], &want, big))));
                } else {
                    must_ok = Some(false)
                }
            } else {
                must_ok = Some(false)
            }
        }
        w if READ_FIXED.contains(&w) => {
            let n: usize = w[1..].trim_end_matches(|c: char| c.is_alphabetic()).parse().unwrap();
            if n <= remain {
                must_ok = Some(true);
                let want = rest_bits[..n].to_vec();
                let big = order_of(w);
                let k = match &w[..1] { "u" => "uint", "i" => "int", _ => "float" }.to_string();
                read = Some((n, Box::new(move |c| value_ok(c, &k[..1], &want, big))));
            } else {
                must_ok = Some(false)
            }
        }
        "magic" => {
            if ar > nb {
                must_ok = Some(false)
            } else if let Cell::Bitstr(p) = top.unwrap().value() {
                let pat = bits_vec(p);
                if pat.len() <= remain && rest_bits[..pat.len()] == pat[..] {
                    must_ok = Some(true);
                    let n = pat.len();
                    read = Some((n, Box::new(move |c| matches!(c, Cell::Bitstr(s) if bits_vec(s) == pat))));
                } else {
                    must_ok = Some(false)
                }
            } else {
                must_ok = Some(false)
            }
        }
        "seek" => {
            if ar > nb {
                must_ok = Some(false)
            } else if let Some(p) = as_usize(top.unwrap()) {
                let inside = b.start <= p && p <= b.end;
                must_ok = Some(inside);
                if inside && res.is_ok() {
                    if a.offset != p as i128 {
                        bad.push(format!("seek {} landed at {}", p, a.offset));
                    }
                    if !cells_eq(&a.stack, below) {
                        bad.push("seek: stack".into());
                    }
                }
            } else {
                must_ok = Some(false)
            }
        }
        "find" => {
            if ar > nb || !matches!(top.unwrap().value(), Cell::Bitstr(_)) {
                must_ok = Some(false)
            } else if res.is_ok() {
                let pat = match top.unwrap().value() { Cell::Bitstr(p) => bits_vec(p), _ => unreachable!() };
                if a.offset != b.offset {
                    bad.push("find moved the offset".into());
                }
                let occurs_at = |byte: usize| -> bool { let o = byte * 8; o + pat.len() <= remain && rest_bits[o..o + pat.len()] == pat[..] };
                let first = (0..=remain / 8).find(|k| occurs_at(*k));
                let want = match first { Some(k) => Cell::Int(b.offset + 8 * k as i128), None => Cell::Nil };
                let mut exp = below.to_vec();
                exp.push(want);
                if !cells_eq(&a.stack, &exp) {
                    bad.push(format!("find: expected {} on top", canon::cell(exp.last().unwrap())));
                }
                if pat.len() % 8 != 0 || remain % 8 != 0 {
                    bad.push("find succeeded on a pattern/rest that is not a whole number of bytes".into());
                }
            }
        }
        "nulbytestr" | "cstr" => {
            if remain % 8 != 0 {
                must_ok = Some(false)
            } else {
                must_ok = Some(true);
                let bytes = ref_bytes(rest_bits);
                let n = match bytes.iter().position(|x| *x == 0) { Some(i) => i + 1, None => bytes.len() };
                let want_bits = rest_bits[..8 * n].to_vec();
                let text: String = bytes.iter().take_while(|x| **x != 0).map(|x| *x as char).collect();
                let is_c = word == "cstr";
                read = Some((8 * n, Box::new(move |c| if is_c { matches!(c, Cell::Str(s) if s.as_str() == text) } else { matches!(c, Cell::Bitstr(s) if bits_vec(s) == want_bits) })));
            }
        }
        "remain" | "offset" | "input" => {
            must_ok = Some(true);
            if res.is_ok() {
                let want = match word {
                    "remain" => Cell::Int(remain as i128),
                    "offset" => Cell::Int(b.offset),
                    _ => Cell::Bitstr(bitstr_from_bits(&b.bits)),
                };
                let mut exp = below.to_vec();
                exp.push(want);
                if !cells_eq(&a.stack, &exp) || a.offset != b.offset {
                    bad.push(format!("{}: wrong value or moved", word));
                }
            }
        }
        "big" | "little" => {
            must_ok = Some(true);
            if res.is_ok() {
                rc.big = word == "big";
                if !cells_eq(&a.stack, &b.stack) || a.offset != b.offset {
                    bad.push("byte-order word changed cursor or stack".into());
                }
            }
        }
        "open-bitstr" => {
            if ar > nb || !matches!(top.unwrap().value(), Cell::Bitstr(_)) {
                must_ok = Some(false)
            } else {
                must_ok = Some(true);
                if res.is_ok() {
                    let newb = match top.unwrap().value() { Cell::Bitstr(p) => bits_vec(p), _ => unreachable!() };
                    if a.bits != newb || a.rel() != 0 || !cells_eq(&a.stack, below) {
                        bad.push("open-bitstr: new input / offset / stack".into());
                    }
                    rc.stash.push((b.bits.clone(), b.rel()));
                }
            }
        }
        ">bitstr" | "emit" | "bitstr-append" | "output" | "output-length" | "int!" | "uint!" | "float!" => {
            if a.offset != b.offset {
                bad.push("a construction word moved the offset".into());
            }
            if res.is_ok() && word == "bitstr-append" {
                // `a b bitstr-append` = b ++ a
                if let (Some(Cell::Bitstr(x)), Some(Cell::Bitstr(y))) = (b.stack.get(nb.wrapping_sub(2)).map(|c| c.value().clone()), top.map(|c| c.value().clone())) {
                    let mut want = bits_vec(&y);
                    want.extend(bits_vec(&x));
                    let mut exp = below.to_vec();
                    exp.push(Cell::Bitstr(bitstr_from_bits(&want)));
                    if !cells_eq(&a.stack, &exp) {
                        bad.push("bitstr-append: result is not top ++ second".into());
                    }
                }
            }
        }
        w if w.ends_with('!') => {
            if a.offset != b.offset {
                bad.push("a construction word moved the offset".into());
            }
        }
        "close-bitstr" => {
            must_ok = Some(!rc.stash.is_empty());
            if res.is_ok() {
                match rc.stash.pop() {
                    Some((bits, rel)) => {
                        if a.bits != bits || a.rel() != rel || !cells_eq(&a.stack, &b.stack) {
                            bad.push(format!("close-bitstr did not restore the previous input/offset (LIFO): want len {} rel {}, got len {} rel {}", bits.len(), rel, a.bits.len(), a.rel()));
                        }
                    }
                    None => bad.push("close-bitstr succeeded on an empty stash".into()),
                }
            }
        }
        _ => {}
    }
    if let Some(m) = must_ok {
        if m != res.is_ok() {
            bad.push(format!("word must {} here but it {}", if m { "succeed" } else { "fail" }, if res.is_ok() { "succeeded".to_string() } else { format!("failed with {}", canon::err(res.as_ref().unwrap_err())) }));
        }
    }
    if let (Some((n, chk)), Ok(())) = (&read, res) {
        // a successful read of n bits returns bits [offset, offset+n) and moves the offset by exactly n
        if a.offset != b.offset + *n as i128 {
            bad.push(format!("read of {} bits moved the offset by {}", n, a.offset - b.offset));
        }
        if a.stack.len() != below.len() + 1 || !cells_eq(&a.stack[..below.len()], below) {
            bad.push("read: rest of the stack changed".into());
        } else if !chk(a.stack.last().unwrap()) {
            bad.push(format!("read returned {} which is not the value of bits [offset, offset+{})", canon::cell(a.stack.last().unwrap()), n));
        }
    }
    if bad.is_empty() {
        ctx.oracle_ok();
    } else {
        ctx.oracle_fail(case.to_string(), bad.join("; "), format!("{} -> {}", word, match res { Ok(()) => "ok".to_string(), Err(e) => canon::err(e) }));
    }
}

/// value pushed by a numeric read against the reference decoders
fn value_ok(c: &Cell, kind: &str, want: &[bool], big: bool) -> bool {
    if tag_len(c) != Some(want.len() as i128) {
        return false;
    }
    let big_tag = c.get_tag(&Cell::from("big")).is_some();
    if big_tag != big {
        return false;
    }
    match (kind, c.value()) {
        ("u", Cell::Int(i)) => *i >= 0 && *i as u128 == ref_uint(want, big),
        ("i", Cell::Int(i)) => *i == ref_sint(want, big),
        ("f", Cell::Real(r)) => {
            let by = ref_bytes(want);
            let exp: f64 = if want.len() == 32 {
                let a = [by[0], by[1], by[2], by[3]];
                (if big { f32::from_be_bytes(a) } else { f32::from_le_bytes(a) }) as f64
            } else {
                let a = [by[0], by[1], by[2], by[3], by[4], by[5], by[6], by[7]];
                if big { f64::from_be_bytes(a) } else { f64::from_le_bytes(a) }
            };
            (exp.is_nan() && r.is_nan()) || exp.to_bits() == r.to_bits()
        }
        _ => false,
    }
}

pub struct Runner {
    pub xs: Xstate,
    pub toks: Vec<String>,
    pub reports: Vec<String>,
    prev_in: Vec<bool>,
    prev_ds: Vec<String>,
    pub dead: bool,
}

impl Runner {
    pub fn new(base: &Xstate) -> Runner {
        Runner { xs: base.clone(), toks: vec![], reports: vec![], prev_in: vec![], prev_ds: vec![], dead: false }
    }

    pub fn push(&mut self, c: Cell) {
        self.toks.push(format!("p:{}", canon::cell(&c)));
        self.xs.push_data(c).unwrap();
    }

    /// run one word; returns (result, observation after) — None when the implementation panicked
    pub fn word(&mut self, word: &str, tok: String) -> Option<(Result<(), Xerr>, Obs)> {
        self.toks.push(tok);
        let xs = &mut self.xs;
        let res = crate::guarded(|| xs.eval(word));
        let obs = match &res { Some(_) => observe(&mut self.xs), None => None };
        match (res, obs) {
            (Some(res), Some(obs)) => {
                let st = match &res { Ok(()) => "ok".to_string(), Err(e) => format!("err:{}", canon::err(e)) };
                self.report(&st, &obs);
                Some((res, obs))
            }
            _ => {
                self.reports.push("panic".into());
                self.dead = true;
                None
            }
        }
    }

    /// `open-bitstr` done by the host: the bit-string on top of the stack is taken off and given to
    /// `Xstate::set_binary_input` (for the model and the oracle this is the word `open-bitstr`)
    pub fn open_api(&mut self, tok: String) -> Option<(Result<(), Xerr>, Obs)> {
        self.toks.push(tok);
        let xs = &mut self.xs;
        let res = crate::guarded(|| { let bs = xs.pop_data()?.to_bitstr()?; xs.set_binary_input(bs) });
        let obs = match &res { Some(_) => observe(&mut self.xs), None => None };
        match (res, obs) {
            (Some(res), Some(obs)) => {
                let st = match &res { Ok(()) => "ok".to_string(), Err(e) => format!("err:{}", canon::err(e)) };
                self.report(&st, &obs);
                Some((res, obs))
            }
            _ => { self.reports.push("panic".into()); self.dead = true; None }
        }
    }

    /// one word run with the stack limit set to `lim` (`Xstate::set_stack_limit`) and the limit taken off again: three
    /// tokens `L=<lim>`, the word, `L=-` and three reports (the limit itself changes nothing that is reported)
    pub fn word_limited(&mut self, word: &str, tok: String, lim: usize, prev: &Obs) -> Option<(Result<(), Xerr>, Obs)> {
        self.toks.push(format!("L={}", lim));
        self.report("ok", prev);
        self.toks.push(tok);
        let xs = &mut self.xs;
        let res = crate::guarded(|| { xs.set_stack_limit(Some(lim))?; let r = xs.eval(word); xs.set_stack_limit(None)?; Ok::<_, Xerr>(r) });
        let res = match res { Some(Ok(r)) => Some(r), Some(Err(e)) => Some(Err(e)), None => None };
        let obs = match &res { Some(_) => observe(&mut self.xs), None => None };
        match (res, obs) {
            (Some(res), Some(obs)) => {
                let st = match &res { Ok(()) => "ok".to_string(), Err(e) => format!("err:{}", canon::err(e)) };
                self.report(&st, &obs);
                self.toks.push("L=-".into());
                self.report("ok", &obs);
                Some((res, obs))
            }
            _ => { self.reports.push("panic".into()); self.dead = true; None }
        }
    }

    /// `Xstate::intercept_output`
    pub fn intercept(&mut self, yes: bool) {
        self.toks.push(if yes { "I+" } else { "I-" }.into());
        self.xs.intercept_output(yes).unwrap();
        match observe(&mut self.xs) {
            Some(obs) => self.report("ok", &obs),
            None => { self.reports.push("panic".into()); self.dead = true; }
        }
    }

    pub fn report(&mut self, st: &str, obs: &Obs) {
        let ds: Vec<String> = obs.stack.iter().map(|c| canon::cell(c)).collect();
        let k = self.prev_ds.iter().zip(ds.iter()).take_while(|(a, b)| a == b).count();
        let mut line = format!(
            "{} {} {} {} k{}",
            st,
            obs.rel(),
            obs.remain.map(|r| r.to_string()).unwrap_or("?".into()),
            if obs.bits == self.prev_in { "=".to_string() } else { bits_str(&obs.bits) },
            k
        );
        for c in &ds[k..] {
            line.push(' ');
            line.push_str(c);
        }
        self.reports.push(line);
        self.prev_in = obs.bits.clone();
        self.prev_ds = ds;
    }
}

fn tag_of_result(res: &Result<(), Xerr>) -> String {
    match res {
        Ok(()) => "ok".into(),
        Err(e) => canon::err(e).split(':').next().unwrap().to_string(),
    }
}

fn one_sequence(ctx: &mut Ctx, base: &Xstate, nops: usize) {
    let mut rn = Runner::new(base);
    let mut rc = RefCur { stash: vec![], big: false };
    // construction words are mixed in with interception on (emit must not write to the real stdout)
    rn.intercept(true);
    let mut obs = observe(&mut rn.xs).unwrap();
    // open a generated input first (90 %), otherwise start on the empty boot input
    let mut pending_open = ctx.rng.chance(92);
    let mut steps = 0;
    while steps < nops && !rn.dead {
        steps += 1;
        if ctx.rng.chance(2) {
            // interception off and on again: `output` is nil in between, a fresh empty bit-string afterwards,
            // output-length keeps counting (no emit while it is off: that would write to the real stdout)
            rn.intercept(false);
            if let Some((_, o)) = rn.word("output", "output".into()) {
                ctx.check(matches!(o.stack.last(), Some(Cell::Nil)), || format!("C06 {}", rn.toks.join(" ")), || "output is nil while interception is off".into(), || "something else".into());
            }
            rn.intercept(true);
            ctx.tag("api:intercept-off-on");
            if let Some(o) = observe(&mut rn.xs) {
                obs = o;
            }
            continue;
        }
        let r = &mut ctx.rng;
        let remain = (obs.bits.len() as i128 - obs.rel()).max(0) as usize;
        let rest: Vec<bool> = obs.bits[obs.bits.len() - remain..].to_vec();
        let malformed = r.chance(12);
        let word: String = if pending_open {
            pending_open = false;
            "open-bitstr".into()
        } else if remain == 0 && r.chance(55) {
            // nothing left to read: move back, open something else, or close
            match r.below(10) {
                0..=4 => "seek".into(),
                5..=7 => "open-bitstr".into(),
                _ => "close-bitstr".into(),
            }
        } else if r.chance(10) {
            match r.below(12) {
                0 | 1 => "bitstr-append".into(),
                2 | 3 => ">bitstr".into(),
                4 | 5 => "emit".into(),
                6 => "output".into(),
                7 => "output-length".into(),
                8 => format!("{}{}{}!", r.pick(&["u", "i"]), r.pick(&[8, 16, 32, 64]), r.pick(&["", "le", "be"])),
                9 => "int!".into(),
                10 => format!("f{}{}!", r.pick(&[32, 64]), r.pick(&["", "le", "be"])),
                _ => "float!".into(),
            }
        } else {
            match r.below(100) {
                0..=11 => "bits".into(),
                12..=17 => "bytes".into(),
                18..=31 => {
                    // mostly a width that still fits
                    let fits: Vec<&&str> = READ_FIXED.iter().filter(|w| w[1..].trim_end_matches(|c: char| c.is_alphabetic()).parse::<usize>().unwrap() <= remain).collect();
                    if !fits.is_empty() && r.chance(75) { r.pick(&fits).to_string() } else { r.pick(READ_FIXED).to_string() }
                }
                32..=37 => "uint".into(),
                38..=43 => "int".into(),
                44..=47 => "float".into(),
                48..=55 => "magic".into(),
                56..=65 => "seek".into(),
                66..=72 => "find".into(),
                73..=75 => "remain".into(),
                76..=78 => "nulbytestr".into(),
                79..=82 => "cstr".into(),
                83..=87 => "open-bitstr".into(),
                88..=92 => "close-bitstr".into(),
                93..=94 => "big".into(),
                95..=96 => "little".into(),
                97 => "offset".into(),
                98 => "input".into(),
                _ => "bits".into(),
            }
        };
        // argument
        let top_is_int = matches!(obs.stack.last().map(|c| c.value().clone()), Some(Cell::Int(_)));
        let top_is_bitstr = matches!(obs.stack.last().map(|c| c.value().clone()), Some(Cell::Bitstr(_)));
        let mut argkind = "none";
        if word.ends_with('!') || matches!(word.as_str(), "bitstr-append" | ">bitstr" | "emit") {
            argkind = "construction";
            let bs = |r: &mut crate::rng::Rng| { let b = gen_bits(r, 20); let pre = r.below(9); Cell::Bitstr(embed(r, &b, pre, 0)) };
            match word.as_str() {
                _ if malformed => { if r.bool() { let c = wrong_type(r); rn.push(c); } }
                "bitstr-append" => { let a = bs(r); rn.push(a); let b = bs(r); rn.push(b); }
                "emit" => { let a = bs(r); rn.push(a); }
                ">bitstr" => {
                    let mut v = Xvec::new();
                    for _ in 0..r.below(5) {
                        let c = match r.below(6) {
                            0 => Cell::Int(r.below(256) as i128),
                            1 => Cell::from(gen_str(r)),
                            2 => bs(r),
                            3 => { let mut w = Xvec::new(); w.push_back_mut(Cell::Int(r.below(256) as i128)); w.push_back_mut(bs(r)); Cell::Vector(w) }
                            4 => Cell::Int(*r.pick(&[256i128, -1, 255, 0])),
                            _ => { let c = Cell::Int(r.below(256) as i128); tag_it(r, c) }
                        };
                        v.push_back_mut(c);
                    }
                    let c = match r.below(8) { 0 => Cell::from(gen_str(r)), 1 => bs(r), 2 => gen_other(r), _ => Cell::Vector(v) };
                    rn.push(c);
                }
                "int!" | "uint!" => { rn.push(Cell::Int(gen_int(r))); rn.push(Cell::Int(*r.pick(&[0i128, 1, 7, 8, 9, 16, 33, 64, 127, 128, 129, 200, -1, 1 << 64]))); }
                "float!" => { rn.push(Cell::Real(gen_real(r))); rn.push(Cell::Int(*r.pick(&[32i128, 64, 16, 0, -1, 1 << 64]))); }
                w if w.starts_with('f') => { rn.push(Cell::Real(gen_real(r))); }
                _ => { rn.push(Cell::Int(gen_int(r))); }
            }
        } else if arity(&word) == 1 {
            if malformed {
                if r.chance(35) {
                    argkind = "as-is"; // whatever is (or is not) on the stack
                } else {
                    argkind = "wrong-type";
                    let c = wrong_type(r);
                    rn.push(c);
                }
            } else {
                match word.as_str() {
                    "bits" | "bytes" => {
                        if top_is_int && r.chance(15) {
                            argkind = "from-stack";
                        } else {
                            let c = gen_size(r, remain, if word == "bytes" { 8 } else { 1 });
                            argkind = size_class(&c, remain, if word == "bytes" { 8 } else { 1 });
                            rn.push(c);
                        }
                    }
                    "uint" | "int" => {
                        let c = gen_width(r, remain);
                        argkind = size_class(&c, remain, 1);
                        rn.push(c);
                    }
                    "float" => {
                        let c = gen_float_width(r);
                        argkind = size_class(&c, remain, 1);
                        rn.push(c);
                    }
                    "magic" => {
                        let pat: Vec<bool> = match r.below(10) {
                            0..=4 => { argkind = "match"; rest[..r.below(remain.min(40) + 1)].to_vec() }
                            5 | 6 => {
                                argkind = "mismatch";
                                let mut p = rest[..r.below(remain.min(40) + 1)].to_vec();
                                if p.is_empty() { p.push(r.bool()); } else { let i = r.below(p.len()); p[i] = !p[i]; }
                                p
                            }
                            7 => { argkind = "longer-than-rest"; let mut p = rest.clone(); for _ in 0..1 + r.below(9) { p.push(r.bool()); } p }
                            8 => { argkind = "whole-rest"; rest.clone() }
                            _ => { argkind = "random"; gen_bits(r, 20) }
                        };
                        let pre = r.below(9);
                        let c = Cell::Bitstr(embed(r, &pat, pre, 0));
                        rn.push(c);
                    }
                    "seek" => {
                        let len = obs.bits.len();
                        let v: i128 = match r.below(14) {
                            0..=5 => { argkind = "in-range"; (obs.start + r.below(len + 1)) as i128 }
                            6 => { argkind = "end-exact"; obs.end as i128 }
                            7 => { argkind = "end+1"; obs.end as i128 + 1 }
                            8 => { argkind = "start"; obs.start as i128 }
                            9 => { argkind = "start-1"; obs.start as i128 - 1 }
                            10 => { argkind = "byte-aligned"; ((obs.start + r.below(len + 1)) / 8 * 8) as i128 }
                            11 => { argkind = "beyond"; obs.end as i128 + 2 + r.below(100) as i128 }
                            _ => { argkind = "huge/negative"; huge(r) }
                        };
                        rn.push(Cell::Int(v));
                    }
                    "find" => {
                        let nb = remain / 8;
                        let pat: Vec<bool> = match r.below(10) {
                            0..=4 if nb > 0 => {
                                argkind = "present";
                                let at = r.below(nb);
                                let l = 1 + r.below((nb - at).min(3));
                                rest[8 * at..8 * (at + l)].to_vec()
                            }
                            5 => { argkind = "empty"; vec![] }
                            6 => { argkind = "not-bytes"; gen_bits(r, 20) }
                            7 if remain >= 12 => { argkind = "present-unaligned"; rest[4..12].to_vec() }
                            _ => { argkind = "random-bytes"; (0..8 * (1 + r.below(2))).map(|_| r.bool()).collect() }
                        };
                        let pre = r.below(9);
                        let c = Cell::Bitstr(embed(r, &pat, pre, 0));
                        rn.push(c);
                    }
                    "open-bitstr" => {
                        if top_is_bitstr && r.chance(50) {
                            argkind = "from-stack";
                        } else {
                            argkind = "fresh";
                            let c = Cell::Bitstr(gen_input(r));
                            rn.push(c);
                        }
                    }
                    _ => {}
                }
            }
        }
        let before = observe(&mut rn.xs).unwrap();
        // `int!`/`uint!` with a width beyond a few thousand bits allocates width/8 bytes up front and aborts
        // the process on failure (reported defect) — such a width is never fed to them
        let word = if matches!(word.as_str(), "int!" | "uint!") && matches!(before.stack.last().map(|c| c.value().clone()), Some(Cell::Int(i)) if i > 4096 && i <= usize::MAX as i128) {
            ctx.tag("skipped:int!-huge-width");
            "output-length".to_string()
        } else {
            word
        };
        let tok = if word == "open-bitstr" {
            let st = match before.stack.last().map(|c| c.value().clone()) { Some(Cell::Bitstr(b)) => b.start(), _ => 0 };
            format!("open-bitstr@{}", st)
        } else {
            word.clone()
        };
        let case = format!("C06 {} {}", rn.toks.join(" "), tok);
        let wclass = if READ_FIXED.contains(&word.as_str()) { format!("{}N", &word[..1]) } else if word.ends_with('!') && word != "int!" && word != "uint!" && word != "float!" { format!("{}N!", &word[..1]) } else { word.clone() };
        ctx.tag(&format!("word:{}", wclass));
        if argkind != "none" {
            ctx.tag(&format!("arg:{}:{}", wclass, argkind));
        }
        ctx.tag(&format!("align:start%8={}", before.start % 8));
        // a host opens inputs through the API (`set_binary_input`): the same operation as the word
        let via_api = word == "open-bitstr" && matches!(before.stack.last(), Some(Cell::Bitstr(_))) && ctx.rng.chance(30);
        if via_api { ctx.tag("api:set_binary_input"); }
        // sometimes the word runs with the stack limit just at, or just above, what the stack holds once the word has
        // taken its arguments: the push of its result is refused, or just fits (decided by the model; the reference
        // cursor of `oracle_step` knows no limit and is not consulted for these)
        let limited: Option<usize> = if !via_api && ctx.rng.chance(6) {
            let d = before.stack.len().saturating_sub(arity(&word));
            Some(if ctx.rng.chance(65) { d } else { d + 1 })
        } else { None };
        if let Some(lim) = limited {
            ctx.tag("api:set_stack_limit");
            match rn.word_limited(&word, tok, lim, &before) {
                Some((res, after)) => {
                    ctx.tag(&format!("outcome-under-limit:{}:{}", wclass, tag_of_result(&res)));
                    if res.is_err() {
                        // whatever the reason, a word that failed moved nothing
                        let same = after.bits == before.bits && after.start == before.start && after.offset == before.offset;
                        ctx.check(same, || format!("{} (stack limit {})", case, lim), || format!("input and offset {} untouched", before.offset), || format!("offset {}", after.offset));
                    }
                    // the reference cursor follows what happened
                    if res.is_ok() { oracle_step(ctx, &mut rc, &word, &res, &before, &after, &case); }
                    obs = after;
                }
                None => { ctx.tag("outcome:panic"); ctx.oracle_fail(case, "a result or an error value, never a panic".into(), "panic".into()); }
            }
            continue;
        }
        match if via_api { rn.open_api(tok) } else { rn.word(&word, tok) } {
            Some((res, after)) => {
                ctx.tag(&format!("outcome:{}:{}", wclass, tag_of_result(&res)));
                oracle_step(ctx, &mut rc, &word, &res, &before, &after, &case);
                obs = after;
            }
            None => {
                ctx.tag("outcome:panic");
                ctx.oracle_fail(case, "a result or an error value, never a panic".into(), "panic".into());
            }
        }
    }
    // drain the stash: close must restore every suspended input in LIFO order, then fail
    let mut guard = 0;
    while !rn.dead && guard < 64 {
        guard += 1;
        let before = observe(&mut rn.xs).unwrap();
        let case = format!("C06 {} close-bitstr", rn.toks.join(" "));
        match rn.word("close-bitstr", "close-bitstr".into()) {
            Some((res, after)) => {
                let stop = res.is_err();
                oracle_step(ctx, &mut rc, "close-bitstr", &res, &before, &after, &case);
                if stop {
                    break;
                }
            }
            None => ctx.oracle_fail(case, "no panic".into(), "panic".into()),
        }
    }
    ctx.tag(&format!("seq-len:{}", (rn.reports.len() / 5) * 5));
    ctx.case(format!("C06 {}", rn.toks.join(" ")), rn.reports.join(" | "));
}

fn size_class(c: &Cell, remain: usize, unit: usize) -> &'static str {
    match c.value() {
        Cell::Int(i) if *i < 0 => "negative",
        Cell::Int(i) if *i > usize::MAX as i128 => ">usize",
        Cell::Int(i) if *i >= 1 << 31 => "huge",
        Cell::Int(i) => {
            let n = *i as usize;
            let units = remain / unit;
            if n == units { "end-exact" } else if n == units + 1 { "end+1" } else if n < units { "in-range" } else { "beyond" }
        }
        _ => "wrong-type",
    }
}

/// A read refused by the stack limit is a failing read like any other: input, offset and the stack stay as they were
/// (repair afd22d3: the words that take no argument used to move the offset before the refused push). The cursor
/// model has no stack limit, so this is an oracle on the implementation only.
fn refused_by_the_stack_limit(ctx: &mut Ctx, base: &Xstate) {
    let mut xs = base.clone();
    let r = &mut ctx.rng;
    let mut body: Vec<bool> = (0..8 * (2 + r.below(20))).map(|_| r.bool()).collect();
    // a zero byte somewhere, so that nulbytestr / cstr have something to find
    let z = (r.below(body.len() / 8)) * 8;
    for b in body[z..z + 8].iter_mut() { *b = false; }
    let pre = if r.chance(60) { 0 } else { 8 * r.below(3) };
    let input = embed(r, &body, pre, 0);
    xs.set_binary_input(input).unwrap();
    for _ in 0..r.below(4) { let _ = xs.eval(*r.pick(&["u8 drop", "8 bits", "u16", "1 bytes drop"])); }
    let depth = xs.data_depth();
    let word = if r.chance(70) { r.pick(READ_FIXED).to_string() } else { r.pick(&["nulbytestr", "cstr", "remain", "offset", "input"]).to_string() };
    let sig = |xs: &Xstate| format!("offset={} input={} stack=[{}]", canon::cell(xs.get_var_value("offset").unwrap()), canon::cell(xs.get_var_value("input").unwrap()),
        canon::stack(xs).iter().map(canon::cell).collect::<Vec<_>>().join(","));
    // what the word does with room on the stack
    let mut free = xs.clone();
    let rfree = crate::guarded(|| free.eval(&word));
    xs.set_stack_limit(Some(depth)).unwrap();
    let before = sig(&xs);
    let res = crate::guarded(|| xs.eval(&word));
    let after = sig(&xs);
    let case = format!("C06 stack limit {} = depth, then `{}` on input {} at {}", depth, word, canon::cell(xs.get_var_value("input").unwrap()), before);
    match (&rfree, &res) {
        (Some(Ok(())), Some(Err(_))) => {
            ctx.check(before == after, || case.clone(), || format!("refused, nothing moved: {}", before), || after.clone());
            // once the limit is raised the same read succeeds exactly as it would have
            xs.set_stack_limit(None).unwrap();
            let again = crate::guarded(|| xs.eval(&word));
            let (a, b) = (sig(&xs), sig(&free));
            ctx.check(matches!(again, Some(Ok(()))) && a == b, || format!("{} — and again with the limit raised", case), || b.clone(), || format!("{:?} {}", again.map(|r| r.is_ok()), a));
            ctx.tag("stack-limit:read-refused");
        }
        (Some(Err(_)), Some(Err(_))) => {
            ctx.check(before == after, || case.clone(), || format!("fails either way, nothing moved: {}", before), || after.clone());
            ctx.tag("stack-limit:read-fails-anyway");
        }
        (_, None) | (None, _) => ctx.oracle_fail(case, "a result or an error value, never a panic".into(), "panic".into()),
        (_, Some(Ok(()))) => ctx.oracle_fail(case, "the push is refused: the stack is at its limit".into(), format!("Ok, {}", after)),
    }
}

/// magics longer than any machine integer (file signatures of 17 bytes and more, not always whole bytes): the match
/// is decided on every bit — a difference in the first bit counts like one in the last — and a mismatch moves nothing
fn long_magic(ctx: &mut Ctx, base: &Xstate, round: usize) {
    let mut rn = Runner::new(base);
    let mut rc = RefCur { stash: vec![], big: false };
    rn.intercept(true);
    let r = &mut ctx.rng;
    let nbits = 136 + r.below(300);
    let body: Vec<bool> = (0..nbits).map(|_| if round % 3 == 0 { false } else { r.bool() }).collect();
    let pre = r.below(9);
    let post = r.below(9);
    let input = embed(r, &body, pre, post);
    let open_tok = format!("open-bitstr@{}", input.start());
    rn.push(Cell::Bitstr(input));
    let before = observe(&mut rn.xs).unwrap();
    let case0 = format!("C06 {} open-bitstr", rn.toks.join(" "));
    let mut obs = match rn.word("open-bitstr", open_tok) { Some((res, o)) => { oracle_step(ctx, &mut rc, "open-bitstr", &res, &before, &o, &case0); o } None => return };
    // a few bits read first, so that the magic does not start on a byte boundary every time
    if ctx.rng.bool() {
        let k = ctx.rng.below(6);
        rn.push(Cell::Int(k as i128));
        let before = observe(&mut rn.xs).unwrap();
        let case = format!("C06 {} bits", rn.toks.join(" "));
        match rn.word("bits", "bits".into()) { Some((res, o)) => { oracle_step(ctx, &mut rc, "bits", &res, &before, &o, &case); obs = o; } None => return }
    }
    let remain = (obs.bits.len() as i128 - obs.rel()).max(0) as usize;
    let rest: Vec<bool> = obs.bits[obs.bits.len() - remain..].to_vec();
    if remain < 130 { return; }
    let len = 129 + ctx.rng.below(remain - 128);
    let mut pat = rest[..len].to_vec();
    let flip: Option<usize> = match round % 6 {
        0 => Some(0),
        1 => Some(len - 129),
        2 => Some(len - 128),
        3 => Some(ctx.rng.below(len - 128)),
        4 => Some(len - 1),
        _ => None,
    };
    if let Some(i) = flip { pat[i] = !pat[i]; }
    let ppre = ctx.rng.below(9);
    let c = Cell::Bitstr(embed(&mut ctx.rng, &pat, ppre, 0));
    rn.push(c);
    let before = observe(&mut rn.xs).unwrap();
    let case = format!("C06 {} magic", rn.toks.join(" "));
    match rn.word("magic", "magic".into()) {
        Some((res, after)) => {
            match flip {
                Some(i) => {
                    let same = after.bits == before.bits && after.start == before.start && after.offset == before.offset && after.stack.len() + 1 == before.stack.len();
                    ctx.check(res.is_err() && same, || format!("{} (a pattern of {} bits that differs from the input in bit {})", case, len, i),
                        || format!("a mismatch: error, input and offset {} untouched, the pattern taken off the stack", before.offset), || format!("{:?} offset {} depth {}", res.as_ref().map_err(canon::err), after.offset, after.stack.len()));
                    ctx.tag("long-magic:mismatch");
                }
                None => {
                    ctx.check(res.is_ok() && after.offset == before.offset + len as i128, || format!("{} (a pattern of {} bits equal to the input)", case, len),
                        || format!("a match: offset {}", before.offset + len as i128), || format!("{:?} offset {}", res.as_ref().map_err(canon::err), after.offset));
                    ctx.tag("long-magic:match");
                }
            }
            oracle_step(ctx, &mut rc, "magic", &res, &before, &after, &case);
        }
        None => { ctx.oracle_fail(case, "a result or an error value, never a panic".into(), "panic".into()); return; }
    }
    for w in ["remain", "u8"] {
        let before = observe(&mut rn.xs).unwrap();
        let case = format!("C06 {} {}", rn.toks.join(" "), w);
        match rn.word(w, w.into()) { Some((res, after)) => oracle_step(ctx, &mut rc, w, &res, &before, &after, &case), None => return }
    }
    ctx.case(format!("C06 {}", rn.toks.join(" ")), rn.reports.join(" | "));
}

/// a magic of whole bytes that is itself a slice (a marker read earlier with `bits`) starting at bit k of its buffer,
/// matched at a cursor that is at bit k of a byte too — every k, lengths of 1..3 bytes, equal and different: the
/// comparison is of the bits, wherever the two values lie in their buffers
fn magic_aligned_alike(ctx: &mut Ctx, base: &Xstate, k: usize, nbytes: usize, differ: bool) {
    let mut rn = Runner::new(base);
    let mut rc = RefCur { stash: vec![], big: false };
    rn.intercept(true);
    let body: Vec<bool> = (0..8 * (nbytes + 2)).map(|_| ctx.rng.bool()).collect();
    let input = embed(&mut ctx.rng, &body, 0, 0);
    let open_tok = format!("open-bitstr@{}", input.start());
    rn.push(Cell::Bitstr(input));
    let before = observe(&mut rn.xs).unwrap();
    let case0 = format!("C06 {} open-bitstr", rn.toks.join(" "));
    match rn.word("open-bitstr", open_tok) { Some((res, o)) => oracle_step(ctx, &mut rc, "open-bitstr", &res, &before, &o, &case0), None => return };
    rn.push(Cell::Int(k as i128));
    let before = observe(&mut rn.xs).unwrap();
    let case1 = format!("C06 {} bits", rn.toks.join(" "));
    match rn.word("bits", "bits".into()) { Some((res, o)) => oracle_step(ctx, &mut rc, "bits", &res, &before, &o, &case1), None => return };
    let mut pat: Vec<bool> = body[k..k + 8 * nbytes].to_vec();
    if differ { let i = ctx.rng.below(pat.len()); pat[i] = !pat[i]; }
    // the pattern starts at bit k of its own buffer (k bits of something else before it)
    let c = Cell::Bitstr(embed(&mut ctx.rng, &pat, k, 0));
    rn.push(c);
    let before = observe(&mut rn.xs).unwrap();
    let case = format!("C06 {} magic", rn.toks.join(" "));
    match rn.word("magic", "magic".into()) {
        Some((res, after)) => {
            if differ {
                let same = after.bits == before.bits && after.offset == before.offset;
                ctx.check(res.is_err() && same, || format!("{} (cursor and pattern both at bit {} of a byte, {} bytes, one bit differs)", case, k, nbytes), || format!("a mismatch: error, offset {} untouched", before.offset),
                    || format!("{:?} offset {}", res.as_ref().map_err(canon::err), after.offset));
            } else {
                ctx.check(res.is_ok() && after.offset == before.offset + 8 * nbytes as i128, || format!("{} (cursor and pattern both at bit {} of a byte, {} bytes, equal)", case, k, nbytes), || format!("a match: offset {}", before.offset + 8 * nbytes as i128),
                    || format!("{:?} offset {}", res.as_ref().map_err(canon::err), after.offset));
            }
            oracle_step(ctx, &mut rc, "magic", &res, &before, &after, &case);
        }
        None => { ctx.oracle_fail(case, "a result or an error value, never a panic".into(), "panic".into()); return; }
    }
    ctx.tag("magic:aligned-alike");
    ctx.case(format!("C06 {}", rn.toks.join(" ")), rn.reports.join(" | "));
}

pub fn run(ctx: &mut Ctx) {
    let base = Xstate::boot().unwrap();
    for _ in 0..ctx.n {
        let nops = 3 + ctx.rng.below(18);
        one_sequence(ctx, &base, nops);
    }
    for _ in 0..(ctx.n / 4).max(100) {
        refused_by_the_stack_limit(ctx, &base);
    }
    for round in 0..(ctx.n / 40).max(48) {
        long_magic(ctx, &base, round);
    }
    for k in 0..8 {
        for nbytes in 1..=3 {
            for differ in [true, false] { magic_aligned_alike(ctx, &base, k, nbytes, differ); }
        }
    }
}
