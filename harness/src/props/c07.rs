//! C07 — binary construction is the inverse of binary parsing.
//! Correspondence: `C07 <field>* / <group size>* @<base>` (see lean/XehModel/Driver/C07.lean): a record is
//! packed with the construction words (pieces collected in a vector, `>bitstr`), parsed back with the
//! matching read words through `Xstate::eval`, and — on a fresh interpreter with output interception on —
//! emitted group by group for a split of the field list.
//! Oracle (implementation only, fields inside the claimed domain): length = Σ widths, parsed values =
//! original values reduced to the width (computed with Rust integer/float primitives), remain = 0,
//! output = the same bits, output-length = their number, for every split position.
use super::c06::{bits_str, bits_vec, embed, observe};
use super::gen::*;
use crate::canon;
use crate::Ctx;
use xeh::prelude::*;

#[derive(Clone, Copy, PartialEq)]
enum Form {
    Generic,
    FixedBo,
    FixedCur,
}

#[derive(Clone)]
enum Field {
    Int { w: usize, signed: bool, big: bool, form: Form, v: i128 },
    Flt { w: usize, big: bool, form: Form, x: f64 },
    Raw(Vec<bool>, usize),
    Str(String),
    Bytes(Vec<i128>),
    Cstr(Vec<u8>),
}

enum Step {
    Push(Cell),
    Word(String),
}

fn bo(big: bool) -> Step {
    Step::Word(if big { "big" } else { "little" }.into())
}

fn int_vec(l: impl Iterator<Item = i128>) -> Cell {
    let mut v = Xvec::new();
    for b in l {
        v.push_back_mut(Cell::Int(b));
    }
    Cell::Vector(v)
}

impl Field {
    fn token(&self) -> String {
        let fm = |f: &Form| match f { Form::Generic => "g", Form::FixedBo => "f", Form::FixedCur => "c" };
        match self {
            Field::Int { w, signed, big, form, v } => format!("i:{}:{}:{}:{}:{}", w, if *signed { "s" } else { "u" }, if *big { "b" } else { "l" }, fm(form), v),
            Field::Flt { w, big, form, x } => format!("r:{}:{}:{}:{:016x}", w, if *big { "b" } else { "l" }, fm(form), x.to_bits()),
            Field::Raw(b, _) => format!("b:{}", &bits_str(b)[1..]),
            Field::Str(s) => format!("s:{}", canon::hex(s.as_bytes())),
            Field::Bytes(l) => format!("y:{}", l.iter().map(|b| b.to_string()).collect::<Vec<_>>().join(",")),
            Field::Cstr(l) => format!("z:{}", canon::hex(l)),
        }
    }

    fn pack(&self, r: &mut crate::rng::Rng) -> Vec<Step> {
        match self {
            Field::Int { w, signed, big, form, v } => {
                let p = if *signed { "i" } else { "u" };
                match form {
                    Form::Generic => vec![bo(*big), Step::Push(Cell::Int(*v)), Step::Push(Cell::Int(*w as i128)), Step::Word(format!("{}!", if *signed { "int" } else { "uint" }))],
                    Form::FixedBo => vec![Step::Push(Cell::Int(*v)), Step::Word(format!("{}{}{}!", p, w, if *big { "be" } else { "le" }))],
                    Form::FixedCur => vec![bo(*big), Step::Push(Cell::Int(*v)), Step::Word(format!("{}{}!", p, w))],
                }
            }
            Field::Flt { w, big, form, x } => match form {
                Form::Generic => vec![bo(*big), Step::Push(Cell::Real(*x)), Step::Push(Cell::Int(*w as i128)), Step::Word("float!".into())],
                Form::FixedBo => vec![Step::Push(Cell::Real(*x)), Step::Word(format!("f{}{}!", w, if *big { "be" } else { "le" }))],
                Form::FixedCur => vec![bo(*big), Step::Push(Cell::Real(*x)), Step::Word(format!("f{}!", w))],
            },
            Field::Raw(b, pre) => vec![Step::Push(Cell::Bitstr(embed(r, b, *pre, 0)))],
            Field::Str(s) => vec![Step::Push(Cell::from(s.clone()))],
            Field::Bytes(l) => {
                // byte lists whose elements carry tags (what `u8` / `uint` hand back when a list is parsed and re-packed,
                // constants written with `^hex`): tags never change what a value does (C13), the bits are the same
                if !l.is_empty() && l.iter().all(|b| (0..256).contains(b)) && r.chance(35) {
                    let items: Vec<String> = l.iter().enumerate().map(|(i, b)| match (i + *b as usize) % 3 {
                        0 => format!("{} ^hex", b),
                        1 => format!("|{:02X}| open-bitstr u8 close-bitstr", b),
                        _ => format!("{}", b),
                    }).collect();
                    vec![Step::Word(format!("[ {} ]", items.join(" ")))]
                } else {
                    vec![Step::Push(int_vec(l.iter().cloned()))]
                }
            }
            Field::Cstr(l) => vec![Step::Push(int_vec(l.iter().map(|b| *b as i128).chain(std::iter::once(0))))],
        }
    }

    fn parse(&self) -> Vec<Step> {
        match self {
            Field::Int { w, signed, big, form, .. } => {
                let p = if *signed { "i" } else { "u" };
                match form {
                    Form::Generic => vec![bo(*big), Step::Push(Cell::Int(*w as i128)), Step::Word(if *signed { "int" } else { "uint" }.into())],
                    Form::FixedBo => vec![Step::Word(format!("{}{}{}", p, w, if *big { "be" } else { "le" }))],
                    Form::FixedCur => vec![bo(*big), Step::Word(format!("{}{}", p, w))],
                }
            }
            Field::Flt { w, big, form, .. } => match form {
                Form::Generic => vec![bo(*big), Step::Push(Cell::Int(*w as i128)), Step::Word("float".into())],
                Form::FixedBo => vec![Step::Word(format!("f{}{}", w, if *big { "be" } else { "le" }))],
                Form::FixedCur => vec![bo(*big), Step::Word(format!("f{}", w))],
            },
            Field::Raw(b, _) => vec![Step::Push(Cell::Int(b.len() as i128)), Step::Word("bits".into())],
            Field::Str(s) => vec![Step::Push(Cell::Int(s.len() as i128)), Step::Word("bytes".into())],
            Field::Bytes(l) => vec![Step::Push(Cell::Int(l.len() as i128)), Step::Word("bytes".into())],
            Field::Cstr(_) => vec![Step::Word("cstr".into())],
        }
    }

    /// inside the domain of the round-trip claim
    fn in_domain(&self) -> bool {
        match self {
            Field::Int { w, signed, .. } => *w >= 1 && *w <= if *signed { 128 } else { 127 },
            Field::Flt { w, .. } => *w == 32 || *w == 64,
            Field::Bytes(l) => l.iter().all(|b| (0..256).contains(b)),
            Field::Cstr(l) => l.iter().all(|b| *b != 0),
            _ => true,
        }
    }

    fn width(&self) -> usize {
        match self {
            Field::Int { w, .. } => *w,
            Field::Flt { w, .. } => *w,
            Field::Raw(b, _) => b.len(),
            Field::Str(s) => 8 * s.len(),
            Field::Bytes(l) => 8 * l.len(),
            Field::Cstr(l) => 8 * (l.len() + 1),
        }
    }

    /// the value the read word must return — computed with Rust primitives only
    fn expected(&self) -> Cell {
        let tags = |w: usize, big: bool| {
            let mut m = Xmap::new();
            m.insert_mut(Cell::from("len"), Cell::Int(w as i128));
            if big {
                m.insert_mut(Cell::from("big"), Cell::Flag(true));
            }
            m
        };
        match self {
            Field::Int { w, signed, big, v, .. } => {
                let mask = if *w >= 128 { u128::MAX } else { (1u128 << w) - 1 };
                let u = (*v as u128) & mask;
                let x = if *signed && *w < 128 && (u >> (w - 1)) & 1 == 1 { (u | !mask) as i128 } else { u as i128 };
                Cell::Int(x).with_tags(tags(*w, *big))
            }
            Field::Flt { w, big, x, .. } => Cell::Real(if *w == 32 { (*x as f32) as f64 } else { *x }).with_tags(tags(*w, *big)),
            Field::Raw(b, _) => Cell::Bitstr(bitstr_from_bits(b)),
            Field::Str(s) => Cell::Bitstr(Xbitstr::from(s.clone().into_bytes())),
            Field::Bytes(l) => Cell::Bitstr(Xbitstr::from(l.iter().map(|b| *b as u8).collect::<Vec<u8>>())),
            Field::Cstr(l) => Cell::from(l.iter().map(|b| *b as char).collect::<String>()),
        }
    }

    /// the bits the field must occupy, from Rust's own byte layouts where one exists
    fn expected_bits(&self) -> Option<Vec<bool>> {
        let bytes_bits = |by: &[u8]| by.iter().flat_map(|b| (0..8).rev().map(move |k| (b >> k) & 1 == 1)).collect::<Vec<bool>>();
        match self {
            Field::Int { w, big, v, .. } if *w % 8 == 0 && *w > 0 && *w <= 128 => {
                let n = w / 8;
                Some(if *big { bytes_bits(&v.to_be_bytes()[16 - n..]) } else { bytes_bits(&v.to_le_bytes()[..n]) })
            }
            Field::Flt { w: 64, big, x, .. } => Some(bytes_bits(&if *big { x.to_be_bytes() } else { x.to_le_bytes() })),
            Field::Flt { w: 32, big, x, .. } => Some(bytes_bits(&if *big { (*x as f32).to_be_bytes() } else { (*x as f32).to_le_bytes() })),
            Field::Raw(b, _) => Some(b.clone()),
            Field::Str(s) => Some(bytes_bits(s.as_bytes())),
            _ => None,
        }
    }
}

fn exec(xs: &mut Xstate, steps: Vec<Step>) -> Result<(), String> {
    for s in steps {
        match s {
            Step::Push(c) => xs.push_data(c).map_err(|e| format!("err:{}", canon::err(&e)))?,
            Step::Word(w) => match crate::guarded(|| xs.eval(&w)) {
                None => return Err("panic".into()),
                Some(Err(e)) => return Err(format!("err:{}", canon::err(&e))),
                Some(Ok(())) => {}
            },
        }
    }
    Ok(())
}

/// pieces of the fields, left to right, on one interpreter
fn pieces(xs: &mut Xstate, r: &mut crate::rng::Rng, fs: &[Field]) -> Result<Xvec, String> {
    let mut v = Xvec::new();
    for f in fs {
        exec(xs, f.pack(r))?;
        let c = xs.pop_data().map_err(|e| format!("err:{}", canon::err(&e)))?;
        v.push_back_mut(c);
    }
    Ok(v)
}

fn cells_str(cells: &[Cell]) -> String {
    cells.iter().map(|c| canon::cell(c)).collect::<Vec<_>>().join(" ")
}

struct PackParse {
    p: String,
    v: String,
    base: usize,
    packed: Option<Vec<bool>>,
    values: Option<(Vec<Cell>, i128, i128)>,
}

fn pack_parse(base_xs: &Xstate, r: &mut crate::rng::Rng, fs: &[Field], nest: Option<(usize, usize)>) -> PackParse {
    let mut xs = base_xs.clone();
    let packed: Result<Xbitstr, String> = (|| {
        let mut v = pieces(&mut xs, r, fs)?;
        if let Some((i, j)) = nest {
            // [ a [ b c ] d ]: pieces i..j wrapped into a nested vector
            let all: Vec<Cell> = v.iter().cloned().collect();
            let mut inner = Xvec::new();
            for c in &all[i..j] {
                inner.push_back_mut(c.clone());
            }
            let mut outer = Xvec::new();
            for c in &all[..i] {
                outer.push_back_mut(c.clone());
            }
            outer.push_back_mut(Cell::Vector(inner));
            for c in &all[j..] {
                outer.push_back_mut(c.clone());
            }
            v = outer;
        }
        exec(&mut xs, vec![Step::Push(Cell::Vector(v)), Step::Word(">bitstr".into())])?;
        match xs.pop_data() {
            Ok(Cell::Bitstr(b)) => Ok(b),
            _ => Err("err:InternalError".into()),
        }
    })();
    match packed {
        Err(e) => PackParse { p: format!("P {}", e), v: "V -".into(), base: 0, packed: None, values: None },
        Ok(b) => {
            // every third record is parsed as a slice of a longer input (what `bits` / `bytes` hand out for a nested
            // record): the same bits, starting somewhere inside a buffer that has other bits before and behind them
            // (which records: decided by their length, not by the random stream)
            let b = if b.len() % 3 == 1 {
                let (k, len) = (1 + b.len() % 13, b.len());
                let whole = b.clone();
                let _ = xs.push_data(Cell::Bitstr(b));
                let cut = exec(&mut xs, vec![Step::Word(format!("[ 0x5a 0xc3 ] >bitstr open-bitstr {} bits close-bitstr swap |a5| 3 collect >bitstr open-bitstr {} bits drop {} bits close-bitstr", k, k, len))]);
                match (cut, xs.pop_data()) { (Ok(()), Ok(Cell::Bitstr(s))) if s.len() == len => s, _ => whole }
            } else { b };
            let bits = bits_vec(&b);
            let base = b.start();
            while xs.data_depth() > 0 {
                let _ = xs.pop_data();
            }
            // the byte order is a setting of the interpreter, not of the input: the order the first read relies on is
            // selected BEFORE the input is opened, and an order word is only given where the order changes
            let mut parse_steps: Vec<Step> = Vec::new();
            for f in fs {
                parse_steps.extend(f.parse());
            }
            let mut steps: Vec<Step> = Vec::new();
            let mut cur: Option<String> = None;
            let first_order = parse_steps.iter().find_map(|st| match st { Step::Word(w) if w == "big" || w == "little" => Some(w.clone()), _ => None });
            if let Some(w) = &first_order { steps.push(Step::Word(w.clone())); cur = Some(w.clone()); }
            steps.push(Step::Push(Cell::Bitstr(b)));
            steps.push(Step::Word("open-bitstr".into()));
            for st in parse_steps {
                if let Step::Word(w) = &st {
                    if w == "big" || w == "little" {
                        if cur.as_deref() == Some(w.as_str()) { continue; }
                        cur = Some(w.clone());
                    }
                }
                steps.push(st);
            }
            let res = exec(&mut xs, steps);
            let (v, values) = match observe(&mut xs) {
                Some(o) => {
                    let cells = cells_str(&o.stack);
                    let st = match &res { Ok(()) => "ok".to_string(), Err(e) => e.clone() };
                    let line = format!("V {}{} R{} @{}", st, if cells.is_empty() { "".to_string() } else { format!(" {}", cells) }, o.remain.map(|x| x.to_string()).unwrap_or("?".into()), o.rel());
                    let vals = if res.is_ok() { Some((o.stack.clone(), o.remain.unwrap_or(-1), o.rel())) } else { None };
                    (line, vals)
                }
                None => ("V panic".to_string(), None),
            };
            PackParse { p: format!("P ok {}", bits_str(&bits)), v, base, packed: Some(bits), values }
        }
    }
}

fn emit_split(base_xs: &Xstate, r: &mut crate::rng::Rng, fs: &[Field], sizes: &[usize]) -> (String, Option<(Cell, Cell)>) {
    let mut xs = base_xs.clone();
    xs.intercept_output(true).unwrap();
    let mut groups: Vec<&[Field]> = vec![];
    let mut rest = fs;
    for n in sizes {
        let k = (*n).min(rest.len());
        groups.push(&rest[..k]);
        rest = &rest[k..];
    }
    groups.push(rest);
    let res: Result<(), String> = (|| {
        for g in groups {
            let v = pieces(&mut xs, r, g)?;
            exec(&mut xs, vec![Step::Push(Cell::Vector(v)), Step::Word(">bitstr".into())])?;
            if r.chance(40) {
                // emit the group as a *slice*: the same bits cut out of a longer input, so the value does not start at
                // bit 0 of its buffer (what `bits`/`bytes`/`magic` hand out)
                let len = match xs.get_data(0).map(|c| c.value().clone()) { Some(Cell::Bitstr(b)) => b.len(), _ => 0 };
                let k = r.below(13) + 1;
                let junk = format!("[ {} ] >bitstr open-bitstr {} bits close-bitstr", if r.bool() { "0xff 0xff" } else { "0x5a 0xc3" }, k);
                exec(&mut xs, vec![Step::Word(junk), Step::Word("swap 2 collect >bitstr open-bitstr".into()), Step::Word(format!("{} bits drop {} bits close-bitstr", k, len))])?;
            }
            exec(&mut xs, vec![Step::Word("emit".into())])?;
            // switching interception on while it is on changes nothing: what has been emitted stays in `output`
            if r.chance(20) { xs.intercept_output(true).map_err(|e| format!("{:?}", e))?; }
        }
        Ok(())
    })();
    match res {
        Err(e) => (format!("O {}", e), None),
        Ok(()) => {
            let _ = crate::guarded(|| {
                let _ = xs.eval("output");
                let _ = xs.eval("output-length");
            });
            let st = canon::stack(&xs);
            let n = st.len();
            let top2: Vec<Cell> = st[n.saturating_sub(2)..].to_vec();
            let pair = if top2.len() == 2 { Some((top2[0].clone(), top2[1].clone())) } else { None };
            (format!("O ok {}", cells_str(&top2)), pair)
        }
    }
}

fn gen_field(r: &mut crate::rng::Rng, malformed: bool) -> Field {
    let form_for = |r: &mut crate::rng::Rng, w: usize| if matches!(w, 8 | 16 | 32 | 64) { *r.pick(&[Form::Generic, Form::FixedBo, Form::FixedCur]) } else { Form::Generic };
    match r.below(100) {
        0..=54 => {
            let signed = r.bool();
            let mut w = if r.bool() { *r.pick(&[1usize, 2, 3, 4, 7, 8, 8, 9, 12, 15, 16, 16, 17, 24, 31, 32, 32, 33, 48, 63, 64, 64, 65, 96, 120, 126, 127, 128]) } else { 1 + r.below(128) };
            if !signed && w == 128 {
                w = 127;
            }
            if malformed {
                w = *r.pick(&[0usize, 128, 129, 130, 136, 200, 256, 300]);
            }
            let v = if r.chance(30) {
                // values that fit the width exactly, near its boundaries
                let m = if w >= 127 { i128::MAX } else { (1i128 << w) - 1 };
                *r.pick(&[0, 1, m, m >> 1, (m >> 1) + 1, -1, -(m >> 1) - 1])
            } else {
                gen_int(r)
            };
            Field::Int { w, signed, big: r.bool(), form: form_for(r, w), v }
        }
        55..=66 => {
            let w = if malformed { *r.pick(&[0usize, 16, 31, 33, 128]) } else if r.bool() { 32 } else { 64 };
            Field::Flt { w, big: r.bool(), form: if w == 32 || w == 64 { form_for(r, w) } else { Form::Generic }, x: gen_real(r) }
        }
        67..=78 => {
            let max = if r.chance(20) { 140 } else { 19 };
            let b = gen_bits(r, max);
            Field::Raw(b, r.below(9))
        }
        79..=85 => Field::Str(gen_str(r)),
        86..=92 => {
            let mut l: Vec<i128> = (0..r.below(6)).map(|_| (r.next_u64() & 0xff) as i128).collect();
            if malformed {
                l.push(*r.pick(&[256i128, 257, 1000, i128::MAX]));
            }
            Field::Bytes(l)
        }
        _ => {
            let mut l: Vec<u8> = (0..r.below(6)).map(|_| 1 + (r.next_u64() % 255) as u8).collect();
            if malformed {
                let i = r.below(l.len() + 1);
                l.insert(i, 0);
            }
            Field::Cstr(l)
        }
    }
}

fn same_cell(a: &Cell, b: &Cell) -> bool {
    canon::cell(a) == canon::cell(b)
}

fn one_record(ctx: &mut Ctx, base: &Xstate, fs: Vec<Field>, all_splits: bool, only_whole: bool) {
    let nf = fs.len();
    // cstr/nulbytestr read only when the rest of the input is a whole number of bytes
    let cstr_ok = (0..fs.len()).all(|i| !matches!(fs[i], Field::Cstr(_)) || fs[i..].iter().map(|f| f.width()).sum::<usize>() % 8 == 0);
    let in_domain = fs.iter().all(|f| f.in_domain()) && cstr_ok;
    if !cstr_ok {
        ctx.tag("record:cstr-with-non-byte-rest");
    }
    let toks: Vec<String> = fs.iter().map(|f| f.token()).collect();
    let mut rr = ctx.rng.fork();
    let nest = if nf >= 1 && ctx.rng.chance(35) {
        let i = ctx.rng.below(nf);
        let j = i + ctx.rng.below(nf - i + 1);
        ctx.tag("record:nested-vector");
        Some((i, j))
    } else {
        None
    };
    let nest_tok = nest.map(|(i, j)| format!(" ^{},{}", i, j)).unwrap_or_default();
    let pp = pack_parse(base, &mut rr, &fs, nest);
    for f in &fs {
        ctx.tag(match f {
            Field::Int { w, signed, .. } => if *w % 8 == 0 { if *signed { "field:int:signed:byte-multiple" } else { "field:int:unsigned:byte-multiple" } } else if *signed { "field:int:signed:odd-width" } else { "field:int:unsigned:odd-width" },
            Field::Flt { w: 32, .. } => "field:f32",
            Field::Flt { .. } => "field:f64",
            Field::Raw(..) => "field:raw",
            Field::Str(_) => "field:str",
            Field::Bytes(_) => "field:bytes",
            Field::Cstr(_) => "field:cstr",
        });
        if let Field::Int { form, .. } | Field::Flt { form, .. } = f {
            ctx.tag(match form { Form::Generic => "form:generic", Form::FixedBo => "form:fixed-le/be", Form::FixedCur => "form:fixed-current-order" });
        }
    }
    ctx.tag(&format!("record:fields:{}", nf));
    ctx.tag(if in_domain { "record:in-domain" } else { "record:malformed" });
    // field start alignments actually exercised
    let mut at = 0usize;
    for f in &fs {
        ctx.tag(&format!("field-start%8={}", at % 8));
        at += f.width();
    }
    // splits: every single split position, plus one random multi-split
    let mut splits: Vec<Vec<usize>> = (0..=nf).map(|j| vec![j]).collect();
    let mut multi = vec![];
    let mut left = nf;
    while left > 0 && multi.len() < 5 {
        let k = ctx.rng.below(left + 1);
        multi.push(k);
        left -= k;
    }
    splits.push(multi);
    splits.push(vec![]);
    if only_whole {
        splits = vec![vec![]];
    } else if !all_splits && nf > 6 {
        // quick tier: a sample of the single split positions
        let keep: Vec<usize> = (0..3).map(|_| ctx.rng.below(nf + 1)).collect();
        splits = splits.into_iter().enumerate().filter(|(i, _)| *i > nf || keep.contains(i) || *i == 0 || *i == nf).map(|(_, s)| s).collect();
    }
    let total: usize = fs.iter().map(|f| f.width()).sum();
    let case0 = format!("C07 {} /{}", toks.join(" "), nest_tok);
    // oracle on pack + parse
    if in_domain {
        match (&pp.packed, &pp.values) {
            (Some(bits), Some((vals, remain, rel))) => {
                let mut bad = vec![];
                if bits.len() != total {
                    bad.push(format!("length {} is not the sum of the field widths {}", bits.len(), total));
                }
                let mut at = 0usize;
                for f in &fs {
                    if let Some(eb) = f.expected_bits() {
                        if at + eb.len() > bits.len() || bits[at..at + eb.len()] != eb[..] {
                            bad.push(format!("field {} at bit {} is not laid out as {}", f.token(), at, &bits_str(&eb)[1..]));
                        }
                    }
                    at += f.width();
                }
                let exp: Vec<Cell> = fs.iter().map(|f| f.expected()).collect();
                if exp.len() != vals.len() || !exp.iter().zip(vals).all(|(a, b)| same_cell(a, b)) {
                    bad.push(format!("parsed values differ from the packed ones: expected {}", cells_str(&exp)));
                }
                // f64 fields must come back bit-exact, NaN payloads included
                for (f, v) in fs.iter().zip(vals) {
                    if let (Field::Flt { w: 64, x, .. }, Cell::Real(y)) = (f, v.value()) {
                        if x.to_bits() != y.to_bits() {
                            bad.push(format!("f64 {:016x} came back as {:016x}", x.to_bits(), y.to_bits()));
                        }
                    }
                }
                if *remain != 0 || *rel != total as i128 {
                    bad.push(format!("remain = {} (offset {}) after parsing the whole record", remain, rel));
                }
                ctx.check(bad.is_empty(), || case0.clone(), || bad.join("; "), || format!("{} | {}", pp.p, pp.v));
            }
            _ => ctx.oracle_fail(case0.clone(), "an in-domain record packs and parses back without error".into(), format!("{} | {}", pp.p, pp.v)),
        }
    }
    for sizes in splits {
        let (o, pair) = emit_split(base, &mut rr, &fs, &sizes);
        let case = format!("C07 {} / {} @{}{}", toks.join(" "), sizes.iter().map(|n| n.to_string()).collect::<Vec<_>>().join(" "), pp.base, nest_tok);
        let case = case.replace("  ", " ");
        ctx.tag(&format!("split:groups:{}", sizes.len() + 1));
        if in_domain {
            match (&pp.packed, &pair) {
                (Some(bits), Some((out, len))) => {
                    let ok = matches!(out, Cell::Bitstr(b) if bits_vec(b) == *bits) && matches!(len, Cell::Int(n) if *n == bits.len() as i128);
                    ctx.check(ok, || case.clone(), || format!("output = the record's bits, output-length = {}", bits.len()), || o.clone());
                }
                _ => ctx.oracle_fail(case.clone(), "emit of an in-domain record succeeds".into(), o.clone()),
            }
        }
        ctx.case(case, format!("{} | {} | {}", pp.p, pp.v, o));
    }
}

pub fn run(ctx: &mut Ctx) {
    let base = Xstate::boot().unwrap();
    // 1. exhaustive small scope: every width 1..128 × signedness × byte order × start alignment 0..7
    //    (quick: one boundary value per cell, rotating; thorough: all of them)
    let mut rot = 0usize;
    for w in 1usize..=128 {
        for signed in [false, true] {
            if !signed && w == 128 {
                continue;
            }
            for big in [false, true] {
                for pre in 0usize..8 {
                    let m: i128 = if w >= 127 { i128::MAX } else { (1i128 << w) - 1 };
                    let vals = [0i128, 1, -1, m, m >> 1, (m >> 1) + 1, -(m >> 1) - 1, 0x5555_5555_5555_5555_5555_5555_5555_5555, i128::MIN, ctx.rng.next_u128() as i128];
                    let picks: Vec<i128> = if ctx.thorough { vals.to_vec() } else { rot += 1; vec![vals[rot % vals.len()]] };
                    for v in picks {
                        let form = if matches!(w, 8 | 16 | 32 | 64) { [Form::Generic, Form::FixedBo, Form::FixedCur][rot % 3] } else { Form::Generic };
                        let fs = vec![Field::Raw(gen_bits_exact(&mut ctx.rng, pre), ctx.rng.below(9)), Field::Int { w, signed, big, form, v }];
                        ctx.tag("sweep:width×sign×order×alignment");
                        one_record(ctx, &base, fs, false, true);
                    }
                }
            }
        }
    }
    // 2. random records
    for _ in 0..ctx.n {
        let nf = match ctx.rng.below(10) { 0 => 0, 1 => 1, _ => 1 + ctx.rng.below(12) };
        let bad_record = ctx.rng.chance(15);
        let bad_at = ctx.rng.below(nf.max(1));
        let fs: Vec<Field> = (0..nf).map(|i| gen_field(&mut ctx.rng, bad_record && i == bad_at)).collect();
        let thorough = ctx.thorough;
        one_record(ctx, &base, fs, thorough, false);
    }
}

fn gen_bits_exact(r: &mut crate::rng::Rng, n: usize) -> Vec<bool> {
    (0..n).map(|_| r.bool()).collect()
}
