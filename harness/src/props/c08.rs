//! C08 — no source text, input or API call sequence can crash the interpreter.
//!
//! THIS IS SEARCH, NOT PROOF. The theorems of this property (lean/XehModel/Props/C08.lean) cover only
//! the modelled functions; everything else — host stack exhaustion, allocator aborts, panics inside
//! dependencies, every unmodelled word — is reached only by the exploration below:
//!
//! 1. word × arguments: for every word of `word_list()` (read at run time, d2 plugin included) all
//!    combinations of argument values up to arity 3 (sampled in the quick tier, see `plan_words`),
//!    pushed with `push_data`, the word evaluated with `eval`, recording on and off, fresh and
//!    prepared interpreter state, followed by the error-formatting / stepping API;
//! 2. texts: token soups over the complete dictionary, structured programs with mutations, the `let`
//!    pattern grammar, `enum`, meta-evaluation, deep nesting, unterminated literals, arbitrary UTF-8,
//!    driven through `eval`, `compile`+`run`, `compile`+`next`*, `rnext`*, interleaved with
//!    `pretty_error`, `last_err_location`, `format_cell(_safe)`, `fmt_opcode`, `set_binary_input`;
//! 3. every batch of cases runs in a child process (this binary re-executed with the tier argument
//!    `child:<batch file>`), so a stack overflow or an allocator abort kills only the child; the parent
//!    identifies the in-flight case from the child's progress log, confirms it alone (bisecting the
//!    batch prefix when it does not reproduce alone) and records it as an oracle failure;
//! 4. correspondence (small): `C08 arith <word> <cells>` → outcome class `ok|err|panic`.
//!
//! Excluded (and counted in the histogram): `write-all` / `exec-piped` (outside world; shadowed by
//! harmless definitions in the children), allocation-size arguments above ~10^6 (`skipped:alloc`),
//! allocator aborts of looping programs that grow a value without bound (`skipped:alloc-growth`).
use super::gen::*;
use crate::canon;
use crate::rng::Rng;
use crate::Ctx;
use std::collections::BTreeMap;
use std::io::Write;
use xeh::prelude::*;

const INSN_LIMIT: usize = 20_000;
const STACK_LIMIT: usize = 1000;
const HEAP_LIMIT: usize = 5000;
const ALLOC_MAX: i128 = 1_000_000;
const DESTRUCTIVE: &[&str] = &["write-all", "exec-piped"];

// ------------------------------------------------------------------------------------------------
// escaping of case lines (one case per line, fields separated by TAB)
// ------------------------------------------------------------------------------------------------
fn esc(s: &str) -> String {
    let mut o = String::with_capacity(s.len());
    for c in s.chars() {
        match c {
            '\\' => o.push_str("\\\\"),
            '\t' => o.push_str("\\t"),
            '\n' => o.push_str("\\n"),
            '\r' => o.push_str("\\r"),
            c => o.push(c),
        }
    }
    o
}

fn unesc(s: &str) -> String {
    let mut o = String::with_capacity(s.len());
    let mut it = s.chars();
    while let Some(c) = it.next() {
        if c == '\\' {
            match it.next() {
                Some('t') => o.push('\t'),
                Some('n') => o.push('\n'),
                Some('r') => o.push('\r'),
                Some(c) => o.push(c),
                None => (),
            }
        } else {
            o.push(c);
        }
    }
    o
}

// ------------------------------------------------------------------------------------------------
// argument values: (class, name, cell, xeh source that builds it — for witnesses)
// ------------------------------------------------------------------------------------------------
pub struct Val {
    class: &'static str,
    name: String,
    cell: Cell,
    src: String,
}

fn bits_from(bytes: Vec<u8>, start: usize, len: usize) -> Xbitstr {
    let bs = Xbitstr::from(bytes);
    let mut s = bs.seek(start).unwrap();
    s.read(len).unwrap()
}

fn fmt_tagged(c: Cell, v: Cell) -> Cell {
    c.insert_tag(Cell::from("#fmt"), v)
}

pub fn values() -> Vec<Val> {
    let mut v: Vec<Val> = Vec::new();
    let mut add = |class: &'static str, name: &str, cell: Cell, src: &str| v.push(Val { class, name: format!("{}:{}", class, name), cell, src: src.to_string() });
    add("nil", "nil", Cell::Nil, "nil");
    add("flag", "true", Cell::Flag(true), "true");
    add("flag", "false", Cell::Flag(false), "false");
    for i in [0i128, 1, 2, 7, 8, 10, 32, 64, 255] {
        add("int-small", &i.to_string(), Cell::Int(i), &i.to_string());
    }
    for i in [-1i128, -2, -8, -129] {
        add("int-neg", &i.to_string(), Cell::Int(i), &i.to_string());
    }
    let huge: &[(&str, i128)] = &[
        ("65535", 65535),
        ("65536", 65536),
        ("10^6", 1_000_000),
        ("2^31", 1 << 31),
        ("2^32", 1 << 32),
        ("isize-max", isize::MAX as i128),
        ("2^63", 1 << 63),
        ("usize-max", usize::MAX as i128),
        ("2^64", 1 << 64),
        ("2^127-1", i128::MAX),
    ];
    for (n, i) in huge {
        add("int-huge", n, Cell::Int(*i), &i.to_string());
    }
    let hneg: &[(&str, i128)] = &[("isize-min", isize::MIN as i128), ("-2^63-1", -(1i128 << 63) - 1), ("i128-min", i128::MIN), ("-65536", -65536)];
    for (n, i) in hneg {
        add("int-hugeneg", n, Cell::Int(*i), &if *i == i128::MIN { "-170141183460469231731687303715884105727 1 -".to_string() } else { i.to_string() });
    }
    let reals: &[(&str, f64, &str)] = &[
        ("0", 0.0, "0.0"),
        ("-0", -0.0, "-0.0"),
        ("nan", f64::NAN, "0.0 0.0 /"),
        ("inf", f64::INFINITY, "1e999 (unparsable: push via API)"),
        ("-inf", f64::NEG_INFINITY, "(push via API)"),
        ("subnormal", 5e-324, "(push via API)"),
        ("1e300", 1e300, "1e300 (push via API)"),
        ("1.5", 1.5, "1.5"),
        ("-2.5", -2.5, "-2.5"),
        ("2^64", 18446744073709551616.0, "18446744073709551616.0"),
    ];
    for (n, r, s) in reals {
        add("real", n, Cell::Real(*r), s);
    }
    let long_mb: String = std::iter::repeat('é').take(40).collect();
    let long_ascii: String = (0..100).map(|i| (b'a' + (i % 26) as u8) as char).collect();
    let strs: Vec<(&str, String)> = vec![
        ("empty", "".into()),
        ("a", "a".into()),
        ("abc", "abc".into()),
        ("e-acute", "é".into()),
        ("cjk-emoji", "日本語😀".into()),
        ("40xe-acute", long_mb.clone()),
        ("12", "12".into()),
        ("ff", "ff".into()),
        ("0x1f", "0x1f".into()),
        ("1.5", "1.5".into()),
        ("newline", "a\nb".into()),
        ("ascii100", long_ascii.clone()),
        ("nul", "a\0b".into()),
        ("base64", "QTE=".into()),
        ("z85", "HelloWorld".into()),
    ];
    for (n, s) in &strs {
        add("str", n, Cell::from(s.clone()), &format!("{:?}", s));
    }
    let bss: Vec<(&str, Xbitstr, &str)> = vec![
        ("empty", Xbitstr::new(), "| |"),
        ("ff", Xbitstr::from(vec![0xffu8]), "|ff|"),
        ("8bytes", Xbitstr::from(vec![1u8, 2, 3, 4, 5, 6, 7, 0]), "|0102030405060700|"),
        ("3bits", bits_from(vec![0xa0], 0, 3), "|x.x|"),
        ("13bits@3", bits_from(vec![0xde, 0xad, 0xbe], 3, 13), "|deadbe| open-bitstr 3 bits drop 13 bits"),
        ("128bits", Xbitstr::from(vec![0x80u8; 16]), "(16 bytes 0x80)"),
        ("129bits", bits_from(vec![0xff; 17], 0, 129), "(129 one bits)"),
        ("4096bits", Xbitstr::from((0..512).map(|i| i as u8).collect::<Vec<u8>>()), "(512 bytes)"),
        ("1000bits@3", bits_from((0..200).map(|i| (i * 7) as u8).collect(), 3, 1000), "(1000 bits starting at bit 3)"),
        ("utf8", Xbitstr::from("héllo".as_bytes().to_vec()), "\"héllo\" >bitstr"),
        ("bad-utf8", Xbitstr::from(vec![0x61, 0xff, 0xfe, 0x62]), "|61fffe62|"),
        ("8bits@4", bits_from(vec![0x12, 0x34], 4, 8), "|1234| open-bitstr 4 bits drop 8 bits"),
    ];
    for (n, b, s) in bss {
        add("bitstr", n, Cell::Bitstr(b), s);
    }
    let ints = |xs: &[i128]| {
        let mut v = Xvec::new();
        for x in xs {
            v.push_back_mut(Cell::Int(*x));
        }
        v
    };
    let mut nested = Xvec::new();
    nested.push_back_mut(Cell::Vector(ints(&[1])));
    {
        let mut inner = Xvec::new();
        inner.push_back_mut(Cell::Vector(ints(&[2])));
        nested.push_back_mut(Cell::Vector(inner));
    }
    let mut mixed = Xvec::new();
    for c in [Cell::Int(1), Cell::from("a"), Cell::Real(2.0), Cell::Nil, Cell::Bitstr(Xbitstr::from(vec![0xffu8])), Cell::Flag(true)] {
        mixed.push_back_mut(c);
    }
    let mut strsv = Xvec::new();
    for s in ["b", "a", "é", ""] {
        strsv.push_back_mut(Cell::from(s));
    }
    let mut mixed30 = Xvec::new();
    let mut mixed30_src = String::from("[ ");
    {
        let mut r = Rng::new(0xC08);
        for _ in 0..34 {
            match r.below(3) {
                0 => {
                    let x = r.below(10) as i128;
                    mixed30.push_back_mut(Cell::Int(x));
                    mixed30_src.push_str(&format!("{} ", x));
                }
                1 => {
                    let c = ((b'a' + r.below(6) as u8) as char).to_string();
                    mixed30_src.push_str(&format!("\"{}\" ", c));
                    mixed30.push_back_mut(Cell::from(c));
                }
                _ => {
                    let x = r.below(5) as f64 + 0.5;
                    mixed30.push_back_mut(Cell::Real(x));
                    mixed30_src.push_str(&format!("{:?} ", x));
                }
            }
        }
    }
    mixed30_src.push(']');
    let mut reals_v = Xvec::new();
    for r in [1.0, f64::NAN, -1.0, f64::NAN, 0.0, -0.0, f64::INFINITY] {
        reals_v.push_back_mut(Cell::Real(r));
    }
    let vecs: Vec<(&str, Xvec, String)> = vec![
        ("empty", Xvec::new(), "[ ]".into()),
        ("123", ints(&[1, 2, 3]), "[ 1 2 3 ]".into()),
        ("nested", nested, "[ [ 1 ] [ [ 2 ] ] ]".into()),
        ("mixed", mixed, "[ 1 \"a\" 2.0 nil |ff| true ]".into()),
        ("bytes", ints(&[0, 255, 65]), "[ 0 255 65 ]".into()),
        ("strs", strsv, "[ \"b\" \"a\" \"é\" \"\" ]".into()),
        ("100ints", ints(&(0..100).map(|i| (i * 37) % 101 - 50).collect::<Vec<i128>>()), "(100 ints)".into()),
        ("mixed34", mixed30, mixed30_src),
        ("reals-nan", reals_v, "(reals with NaNs)".into()),
        ("huge-ints", ints(&[i128::MIN, i128::MAX, usize::MAX as i128, -1]), "(boundary ints)".into()),
    ];
    for (n, x, s) in vecs {
        add("vec", n, Cell::Vector(x), &s);
    }
    let mut m1 = Xmap::new();
    m1.insert_mut(Cell::from("a"), Cell::Int(1));
    let mut m2 = Xmap::new();
    m2.insert_mut(Cell::from("k"), Cell::Int(1));
    m2.insert_mut(Cell::from("j"), Cell::Int(2));
    let mut m3 = Xmap::new();
    for (i, k) in [Cell::Int(3), Cell::from("x"), Cell::Int(1), Cell::from("b"), Cell::Nil, Cell::Real(1.0), Cell::Int(2), Cell::from("a")].into_iter().enumerate() {
        m3.insert_mut(k, Cell::Int(i as i128));
    }
    let mut m4 = Xmap::new();
    m4.insert_mut(Cell::Int(0), Cell::Map(m1.clone()));
    m4.insert_mut(Cell::Int(1), Cell::Vector(ints(&[1, 2])));
    let mut m5 = Xmap::new();
    for i in 0..40i128 {
        m5.insert_mut(Cell::Int(i), Cell::Int(i * i));
    }
    let maps: Vec<(&str, Xmap, &str)> = vec![
        ("empty", Xmap::new(), "{ }"),
        ("a1", m1, "{ 1 \"a\" }"),
        ("kj", m2, "{ 1 \"k\" 2 \"j\" }"),
        ("mixed-keys", m3, "{ 0 3 1 \"x\" 2 1 3 \"b\" 4 nil 5 1.0 6 2 7 \"a\" }"),
        ("nested", m4, "{ { 1 \"a\" } 0 [ 1 2 ] 1 }"),
        ("40", m5, "(40 int keys)"),
    ];
    for (n, m, s) in maps {
        add("map", n, Cell::Map(m), s);
    }
    let tg: Vec<(&str, Cell, &str)> = vec![
        ("int-fmt16", fmt_tagged(Cell::Int(255), Cell::Int(16)), "255 ^hex"),
        ("str-fmt99", fmt_tagged(Cell::from("zz"), Cell::Int(99)), "\"zz\" ^{ 99 \"#fmt\" ^}"),
        ("int-fmt2^64", fmt_tagged(Cell::Int(255), Cell::Int(1 << 64)), "255 ^{ 18446744073709551616 \"#fmt\" ^}"),
        ("int-fmt65536", fmt_tagged(Cell::Int(255), Cell::Int(65536)), "255 ^{ 65536 \"#fmt\" ^}"),
        ("int-fmt-usize-max", fmt_tagged(Cell::Int(255), Cell::Int(usize::MAX as i128)), "255 ^{ 18446744073709551615 \"#fmt\" ^}"),
        ("int-fmt0x7ff", fmt_tagged(Cell::Int(-255), Cell::Int(0x7ff)), "-255 ^{ 2047 \"#fmt\" ^}"),
        ("int-fmt-neg", fmt_tagged(Cell::Int(5), Cell::Int(-1)), "5 ^{ -1 \"#fmt\" ^}"),
        ("int-fmt-str", fmt_tagged(Cell::Int(5), Cell::from("x")), "5 ^{ \"x\" \"#fmt\" ^}"),
        ("str-fmt0", fmt_tagged(Cell::from("10"), Cell::Int(0)), "\"10\" ^{ 0 \"#fmt\" ^}"),
        ("str-fmt1", fmt_tagged(Cell::from("10"), Cell::Int(1)), "\"10\" ^{ 1 \"#fmt\" ^}"),
        ("str-fmt37", fmt_tagged(Cell::from("10"), Cell::Int(37)), "\"10\" ^{ 37 \"#fmt\" ^}"),
        ("vec-k", Cell::Vector(ints(&[1, 2])).insert_tag(Cell::from("k"), Cell::Int(1)), "[ 1 2 ] ^{ 1 \"k\" ^}"),
        ("vec-fmt-tags", fmt_tagged(Cell::Vector(ints(&[10, 11])), Cell::Int(0x310)), "[ 10 11 ] ^{ 784 \"#fmt\" ^}"),
        ("nil-t", Cell::Nil.insert_tag(Cell::from("t"), Cell::Flag(true)), "nil ^{ true \"t\" ^}"),
        ("flag-t", Cell::Flag(true).insert_tag(Cell::Int(1), Cell::Nil), "true ^{ nil 1 ^}"),
        ("str-assertmsg", Cell::from("s").insert_tag(Cell::from("assert.msg"), Cell::from(long_mb.clone())), "\"s\" ^{ \"éé…\" \"assert.msg\" ^}"),
        ("int-assertmsg-int", Cell::Int(1).insert_tag(Cell::from("assert.msg"), Cell::Int(7)), "1 ^{ 7 \"assert.msg\" ^}"),
        ("bitstr-offset", Cell::Bitstr(Xbitstr::from(vec![1u8, 2])).insert_tag(Cell::from("offset"), Cell::Int(usize::MAX as i128)), "|0102| ^{ 18446744073709551615 \"offset\" ^}"),
        ("bitstr-offset-str", Cell::Bitstr(Xbitstr::from(vec![1u8, 2])).insert_tag(Cell::from("offset"), Cell::from("x")), "|0102| ^{ \"x\" \"offset\" ^}"),
        ("real-len", Cell::Real(1.0).insert_tag(Cell::from("len"), Cell::Int(-5)), "1.0 ^{ -5 \"len\" ^}"),
        ("map-mixed-tagkeys", Cell::Int(1).insert_tag(Cell::Int(1), Cell::Int(1)).insert_tag(Cell::from("a"), Cell::Int(2)).insert_tag(Cell::Nil, Cell::Int(3)), "1 ^{ 1 1 2 \"a\" 3 nil ^}"),
    ];
    for (n, c, s) in tg {
        add("tagged", n, c, s);
    }
    add("fun", "interp-max", Cell::Fun(Xfn::Interp(usize::MAX)), "(Cell::Fun(Interp(usize::MAX)) via push_data)");
    add("fun", "interp-0", Cell::Fun(Xfn::Interp(0)), "(Cell::Fun(Interp(0)) via push_data)");
    add("any", "u8", Cell::from_any(5u8), "(Cell::AnyRc(5u8) via push_data)");
    v
}

// ------------------------------------------------------------------------------------------------
// child side: run cases in this process, one line of progress log per event
// ------------------------------------------------------------------------------------------------
thread_local! {
    static LAST_PANIC: std::cell::RefCell<String> = std::cell::RefCell::new(String::new());
    static STAGE: std::cell::RefCell<String> = std::cell::RefCell::new(String::new());
    static RO_PANICS: std::cell::RefCell<Vec<(String, String)>> = std::cell::RefCell::new(Vec::new());
}

fn stage(s: &str) {
    if std::env::var("C08_TRACE").is_ok() {
        eprintln!("[{:?}] stage {}", std::time::SystemTime::now().duration_since(std::time::UNIX_EPOCH).map(|d| d.as_millis() % 1_000_000).unwrap_or(0), s);
    }
    STAGE.with(|x| {
        let mut x = x.borrow_mut();
        x.clear();
        x.push_str(s);
    });
}

fn fresh(prelude: u8, guard_alloc: bool) -> Xstate {
    let mut xs = Xstate::boot().unwrap();
    xeh::d2_plugin::load(&mut xs).unwrap();
    // the outside world is off limits: these two words are shadowed even for accidental spellings
    xs.eval(": write-all drop drop ; : exec-piped drop drop ;").unwrap();
    xs.intercept_stdout(true);
    if guard_alloc {
        // texts compute their arguments, so the property's precondition "requested allocation sizes are
        // modest" is enforced where the request is made: the four allocating words clamp an integer
        // size argument to 10^6 (2000 per side for the canvas) and otherwise call the real word
        xs.eval(
            ": c08-rb random-bits ; : random-bits dup int? if dup 1000000 > if drop 1000000 then then c08-rb ;
             : c08-i! int! ; : int! dup int? if dup 1000000 > if drop 1000000 then then c08-i! ;
             : c08-u! uint! ; : uint! dup int? if dup 1000000 > if drop 1000000 then then c08-u! ;
             : c08-d2r d2-resize ; : d2-resize depth 1 > if over int? over int? and if dup 2000 > if drop 2000 then swap dup 2000 > if drop 2000 then swap then then c08-d2r ;",
        )
        .unwrap();
    }
    if prelude == 1 {
        xs.set_binary_input(bits_from((0..64).map(|i| (i * 37 + 11) as u8).collect(), 3, 411)).unwrap();
        xs.intercept_output(true).unwrap();
        xs.eval("3 2 d2-resize [ 1 2 3 ] d2-palette! 1 d2-color! big").unwrap();
    }
    xs.set_insn_limit(Some(INSN_LIMIT)).unwrap();
    xs.set_stack_limit(Some(STACK_LIMIT)).unwrap();
    xs.set_heap_limit(Some(HEAP_LIMIT)).unwrap();
    xs
}

fn err_class(e: &Xerr) -> String {
    let d = format!("{:?}", e);
    let name: String = d.chars().take_while(|c| c.is_ascii_alphanumeric()).collect();
    format!("err:{}", name)
}

fn note(first: &mut Option<String>, r: Xresult) {
    if let Err(e) = r {
        if first.is_none() {
            *first = Some(err_class(&e));
        }
    }
}

/// a read-only (`&self`) API call: a panic in it is recorded and the case goes on, so that one
/// formatting defect does not hide the others
fn ro<T>(st: &str, f: impl FnOnce() -> T) -> Option<T> {
    stage(st);
    match std::panic::catch_unwind(std::panic::AssertUnwindSafe(f)) {
        Ok(v) => Some(v),
        Err(_) => {
            let msg = LAST_PANIC.with(|p| p.borrow().clone());
            RO_PANICS.with(|v| {
                let mut v = v.borrow_mut();
                if !v.iter().any(|(s, m)| s == st && *m == msg) {
                    v.push((st.to_string(), msg));
                }
            });
            None
        }
    }
}

fn observe(xs: &mut Xstate, deep: bool) {
    ro("pretty_error", || xs.pretty_error());
    ro("last_err_location", || xs.last_err_location().map(|l| format!("{:?}", l)));
    ro("last_error", || xs.last_error().map(|e| format!("{} {:?}", e, e)));
    ro("location_from_current_ip", || xs.location_from_current_ip().map(|l| format!("{:?}", l)));
    let n = if deep { 20 } else { 3 };
    for i in 0..n {
        if let Some(c) = xs.get_data(i) {
            let c = c.clone();
            ro("format_cell", || xs.format_cell(&c));
            ro("format_cell_safe", || xs.format_cell_safe(&c));
        } else {
            break;
        }
    }
    stage("read_stdout");
    let _ = xs.read_stdout();
}

fn fmt_ops(xs: &Xstate) {
    let n = xs.bytecode().len();
    for (ip, op) in xs.bytecode().iter().enumerate() {
        ro("fmt_opcode", || xs.fmt_opcode(ip, op));
        if ip + 40 > n || ip < 40 {
            // also with other addresses inside 0..=len (fmt_opcode's contract: ip is an address of the code;
            // addresses beyond the code are not probed)
            ro("fmt_opcode(ip=0)", || xs.fmt_opcode(0, op));
            ro("fmt_opcode(ip=len)", || xs.fmt_opcode(n, op));
        }
    }
}

fn run_word_case(f: &[&str], vals: &BTreeMap<String, Cell>) -> String {
    // W rec prelude wrap word args...
    let rec = f[1] == "1";
    let prelude: u8 = f[2].parse().unwrap_or(0);
    let wrap = f[3];
    let word = unesc(f[4]);
    let mut xs = fresh(prelude, false);
    xs.set_recording_enabled(rec);
    let mut first = None;
    stage("push_data");
    for a in &f[5..] {
        if let Some(c) = vals.get(*a) {
            note(&mut first, xs.push_data(c.clone()));
        }
    }
    let src = match wrap {
        "1" => format!("2 0 do {} loop", word),
        "2" => format!(": t-wrap {} ; t-wrap", word),
        _ => word.clone(),
    };
    stage("eval");
    let r = xs.eval(&src);
    let cls = match &r {
        Ok(()) => "ok".to_string(),
        Err(e) => err_class(e),
    };
    observe(&mut xs, false);
    if rec {
        stage("rnext");
        for _ in 0..6 {
            let _ = xs.rnext();
        }
        stage("next");
        for _ in 0..6 {
            let _ = xs.next();
        }
        observe(&mut xs, false);
    }
    stage("clone+drop");
    let ys = xs.clone();
    drop(xs);
    drop(ys);
    cls
}

fn parse_bits(s: &str) -> Xbitstr {
    // start:len:hex
    let p: Vec<&str> = s.splitn(3, ':').collect();
    let start: usize = p.get(0).and_then(|x| x.parse().ok()).unwrap_or(0);
    let len: usize = p.get(1).and_then(|x| x.parse().ok()).unwrap_or(0);
    let hex = p.get(2).copied().unwrap_or("");
    let mut bytes = Vec::new();
    let hb = hex.as_bytes();
    let mut i = 0;
    while i + 1 < hb.len() {
        bytes.push(u8::from_str_radix(&hex[i..i + 2], 16).unwrap_or(0));
        i += 2;
    }
    let total = bytes.len() * 8;
    let start = start.min(total);
    let len = len.min(total - start);
    bits_from(bytes, start, len)
}

fn run_text_case(f: &[&str], vals: &BTreeMap<String, Cell>) -> String {
    // T prelude step...
    let prelude: u8 = f[1].parse().unwrap_or(0);
    let mut xs = fresh(prelude, true);
    let mut first = None;
    for st in &f[2..] {
        let (op, arg) = match st.find('=') {
            Some(i) => (&st[..i], unesc(&st[i + 1..])),
            None => (*st, String::new()),
        };
        stage(op);
        match op {
            "rec+" => xs.set_recording_enabled(true),
            "rec-" => xs.set_recording_enabled(false),
            "insn" => note(&mut first, xs.set_insn_limit(arg.parse().ok())),
            "stack" => note(&mut first, xs.set_stack_limit(arg.parse().ok())),
            "heap" => note(&mut first, xs.set_heap_limit(arg.parse().ok())),
            "mkfile" => {
                // a harmless file in the child's scratch working directory (relative name only)
                if let Some((name, content)) = arg.split_once(':') {
                    if !name.contains('/') && !name.contains("..") {
                        let _ = std::fs::write(name, content);
                    }
                }
            }
            "evalfile" => note(&mut first, xs.eval_file(Xstr::from(arg.as_str()))),
            "compilefile" => note(&mut first, xs.compile_file(Xstr::from(arg.as_str()))),
            "eval" => note(&mut first, xs.eval(&arg)),
            "compile" => note(&mut first, xs.compile(&arg)),
            "run" => note(&mut first, xs.run()),
            "next" => {
                for _ in 0..arg.parse::<usize>().unwrap_or(1) {
                    let r = xs.next();
                    let stop = r.is_err();
                    note(&mut first, r);
                    if stop || !xs.is_running() {
                        break;
                    }
                }
            }
            "rnext" => {
                for _ in 0..arg.parse::<usize>().unwrap_or(1) {
                    note(&mut first, xs.rnext());
                }
            }
            "perr" => observe(&mut xs, false),
            "fmt" => {
                observe(&mut xs, true);
                stage("var_list");
                let vars: Vec<Cell> = xs.var_list().into_iter().rev().take(12).map(|(_, c)| c.clone()).collect();
                for c in vars {
                    ro("format_cell", || xs.format_cell(&c));
                    ro("format_cell_safe", || xs.format_cell_safe(&c));
                }
                let _ = xs.word_list().len();
            }
            "ops" => fmt_ops(&xs),
            "bin" => note(&mut first, xs.set_binary_input(parse_bits(&arg))),
            "icept+" => note(&mut first, xs.intercept_output(true)),
            "icept-" => note(&mut first, xs.intercept_output(false)),
            "clone" => {
                let ys = xs.clone();
                drop(std::mem::replace(&mut xs, ys));
            }
            "abort" => xs.abort_run(),
            "cpush" => {
                // what a C host does: `xeh_push` on the interpreter it holds by pointer (with the stack at its limit the
                // push is refused — repair a0b17ea: the entry point used to unwrap the refusal and abort the process)
                let n: usize = arg.parse().unwrap_or(1);
                let p = Box::into_raw(Box::new(std::mem::replace(&mut xs, fresh(0, false))));
                unsafe {
                    for i in 0..n {
                        let _ = xeh::c_api::xeh_push(p, Box::into_raw(Box::new(Cell::Int(i as i128))));
                    }
                    let _ = xeh::c_api::xeh_top_len(p);
                    let v = xeh::c_api::xeh_pop(p);
                    xeh::c_api::xeh_release(v);
                    xs = *Box::from_raw(p);
                }
            }
            "capi" => {
                // what a C host does with a value it has popped: every predicate and accessor, the vector accessor also
                // at and behind the end (NULL), the bytes of a bit-string read through the pointer that is handed out
                let p = Box::into_raw(Box::new(std::mem::replace(&mut xs, fresh(0, false))));
                unsafe {
                    use xeh::c_api::*;
                    while xeh_top_len(p) > 0 {
                        let v = xeh_pop(p);
                        if v.is_null() { break; }
                        stage("c_api predicates");
                        let _ = (xeh_is_nil(v), xeh_is_int(v), xeh_is_real(v), xeh_is_string(v), xeh_is_vector(v), xeh_is_bitstr(v));
                        stage("c_api xeh_bitstr_bytes");
                        let (bp, bl) = (xeh_bitstr_bytes(v), xeh_bitstr_len(v));
                        if !bp.is_null() { let mut sum = 0u32; for i in 0..bl / 8 { sum = sum.wrapping_add(*bp.add(i) as u32); } let _ = sum; }
                        let n = xeh_vector_len(v);
                        for idx in [0usize, n.wrapping_sub(1), n, n + 1, n + 1000, usize::MAX] {
                            stage("c_api xeh_vector_at");
                            let c = xeh_vector_at(v, idx);
                            if !c.is_null() { let _ = xeh_is_int(c); let _ = xeh_vector_len(c); xeh_release(c); }
                        }
                        xeh_release(v);
                    }
                    xs = *Box::from_raw(p);
                }
            }
            "pop" => {
                let r = xs.pop_data();
                if let Ok(c) = &r {
                    ro("format_cell_safe", || xs.format_cell_safe(c));
                }
                note(&mut first, r.map(|_| ()));
            }
            "push" => {
                if let Some(c) = vals.get(arg.as_str()) {
                    note(&mut first, xs.push_data(c.clone()));
                }
            }
            _ => (),
        }
    }
    stage("final-observe");
    observe(&mut xs, true);
    stage("drop");
    drop(xs);
    first.unwrap_or_else(|| "ok".to_string())
}

fn child_main(batch: &str) {
    std::panic::set_hook(Box::new(|info| {
        let msg = if let Some(s) = info.payload().downcast_ref::<&str>() {
            s.to_string()
        } else if let Some(s) = info.payload().downcast_ref::<String>() {
            s.clone()
        } else {
            "?".to_string()
        };
        let loc = info.location().map(|l| format!("{}:{}", l.file(), l.line())).unwrap_or_default();
        LAST_PANIC.with(|p| *p.borrow_mut() = format!("{} @ {}", msg, loc));
    }));
    let text = std::fs::read_to_string(batch).expect("batch file");
    let mut log = std::fs::File::create(format!("{}.log", batch)).expect("log file");
    let vals: BTreeMap<String, Cell> = values().into_iter().map(|v| (v.name, v.cell)).collect();
    for (i, line) in text.lines().enumerate() {
        let f: Vec<&str> = line.split('\t').collect();
        let _ = log.write_all(format!("S {}\n", i).as_bytes());
        stage("setup");
        RO_PANICS.with(|v| v.borrow_mut().clear());
        let t0 = std::time::Instant::now();
        let r = std::panic::catch_unwind(std::panic::AssertUnwindSafe(|| match f[0] {
            "W" => run_word_case(&f, &vals),
            "T" => run_text_case(&f, &vals),
            _ => "ok".to_string(),
        }));
        let mut res = match r {
            Ok(s) => s,
            Err(_) => {
                let st = STAGE.with(|s| s.borrow().clone());
                let msg = LAST_PANIC.with(|p| p.borrow().clone());
                format!("panic\x01{}\x01{}", st, esc(&msg))
            }
        };
        RO_PANICS.with(|v| {
            for (st, msg) in v.borrow().iter() {
                res.push_str(&format!("\x01{}\x01{}", st, esc(msg)));
            }
        });
        let _ = log.write_all(format!("R {} {} {}\n", i, t0.elapsed().as_millis(), res).as_bytes());
    }
}

// ------------------------------------------------------------------------------------------------
// parent side: batches in child processes
// ------------------------------------------------------------------------------------------------
#[derive(Clone, Debug)]
enum Res {
    Done(String),
    /// the child died while this case was in flight: (kind, detail)
    Died(String, String),
}

struct ChildRun {
    results: Vec<Option<String>>,
    in_flight: Option<usize>,
    died: Option<(String, String)>,
}

fn run_child(dir: &str, tag: &str, cases: &[String]) -> ChildRun {
    let batch = format!("{}/{}.batch", dir, tag);
    std::fs::write(&batch, cases.join("\n") + "\n").unwrap();
    let exe = std::env::current_exe().unwrap();
    let sub = format!("{}/{}.out", dir, tag);
    let errp = format!("{}/{}.stderr", dir, tag);
    let errf = std::fs::File::create(&errp).unwrap();
    let cwd = format!("{}/cwd", dir);
    let _ = std::fs::create_dir_all(&cwd);
    let mut cmd = std::process::Command::new("sh");
    cmd.arg("-c")
        .arg("ulimit -v 3000000 2>/dev/null; ulimit -c 0 2>/dev/null; exec \"$0\" \"$@\"")
        .arg(&exe)
        .args(["emit", "C08", "0", "0", &sub, &format!("child:{}", batch)])
        .current_dir(&cwd)
        .env("RUST_BACKTRACE", "0")
        .stdin(std::process::Stdio::null())
        .stdout(std::process::Stdio::null())
        .stderr(errf);
    let mut child = cmd.spawn().expect("spawn child");
    let t0 = std::time::Instant::now();
    // the code under test is built without optimisation (like its own test suite): very long sources compile slowly
    let budget = std::time::Duration::from_millis(420_000 + cases.len() as u64 * 200);
    let mut hang = false;
    let status = loop {
        match child.try_wait() {
            Ok(Some(st)) => break Some(st),
            Ok(None) => {
                if t0.elapsed() > budget {
                    let _ = child.kill();
                    let _ = child.wait();
                    hang = true;
                    break None;
                }
                std::thread::sleep(std::time::Duration::from_millis(5));
            }
            Err(_) => break None,
        }
    };
    let log = std::fs::read_to_string(format!("{}.log", batch)).unwrap_or_default();
    let mut results: Vec<Option<String>> = vec![None; cases.len()];
    let mut started: Option<usize> = None;
    for l in log.lines() {
        if let Some(r) = l.strip_prefix("S ") {
            started = r.parse().ok();
        } else if let Some(r) = l.strip_prefix("R ") {
            let mut p = r.splitn(3, ' ');
            if let (Some(i), Some(ms), Some(res)) = (p.next().and_then(|x| x.parse::<usize>().ok()), p.next(), p.next()) {
                if i < results.len() {
                    results[i] = Some(format!("{} {}", ms, res));
                    if started == Some(i) {
                        started = None;
                    }
                }
            }
        }
    }
    let ok_exit = status.map(|s| s.success()).unwrap_or(false);
    let mut died = None;
    let mut in_flight = None;
    if !ok_exit || results.iter().any(|r| r.is_none()) {
        let stderr = std::fs::read_to_string(&errp).unwrap_or_default();
        let tail: String = stderr.lines().rev().take(6).collect::<Vec<_>>().into_iter().rev().collect::<Vec<_>>().join(" | ");
        let kind = if hang {
            "hang".to_string()
        } else if stderr.contains("overflowed its stack") {
            "stack-overflow".to_string()
        } else if stderr.contains("memory allocation of") {
            "alloc-abort".to_string()
        } else {
            use std::os::unix::process::ExitStatusExt;
            match status {
                Some(s) => match s.signal() {
                    Some(sig) => format!("signal-{}", sig),
                    None => format!("exit-{}", s.code().unwrap_or(-1)),
                },
                None => "wait-failed".to_string(),
            }
        };
        in_flight = started.or_else(|| results.iter().position(|r| r.is_none()));
        died = Some((kind, tail));
    }
    if std::env::var("C08_KEEP").is_err() {
        let _ = std::fs::remove_file(&batch);
        let _ = std::fs::remove_file(format!("{}.log", batch));
        let _ = std::fs::remove_file(&errp);
        let _ = std::fs::remove_dir_all(&sub);
    }
    ChildRun { results, in_flight, died }
}

/// run one batch to completion: every case gets a result; a dying child is restarted after the culprit
fn run_batch(dir: &str, tag: &str, cases: &[String]) -> Vec<Res> {
    let mut out: Vec<Option<Res>> = vec![None; cases.len()];
    let mut start = 0usize;
    let mut round = 0;
    while start < cases.len() {
        round += 1;
        let cr = run_child(dir, &format!("{}r{}", tag, round), &cases[start..]);
        for (i, r) in cr.results.iter().enumerate() {
            if let Some(r) = r {
                out[start + i] = Some(Res::Done(r.clone()));
            }
        }
        match (cr.died, cr.in_flight) {
            (Some((kind, detail)), Some(k)) => {
                let k = start + k;
                // confirm alone
                let alone = run_child(dir, &format!("{}r{}c", tag, round), &cases[k..k + 1]);
                if let Some((kind2, detail2)) = alone.died {
                    out[k] = Some(Res::Died(kind2, detail2));
                } else {
                    // not reproducible alone: bisect the start of the shortest batch suffix ending at k that still dies
                    let (mut lo, mut hi) = (start, k); // dies from lo; survives from hi(=k alone)
                    let mut step = 0;
                    while hi - lo > 1 && step < 12 {
                        step += 1;
                        let mid = (lo + hi) / 2;
                        let r = run_child(dir, &format!("{}r{}b{}", tag, round, step), &cases[mid..k + 1]);
                        if r.died.is_some() {
                            lo = mid;
                        } else {
                            hi = mid;
                        }
                    }
                    out[k] = Some(Res::Died(format!("{} (only after {} preceding case(s) of the batch, first of them: {})", kind, k - lo, cases[lo]), detail));
                }
                start = k + 1;
            }
            (Some((kind, detail)), None) => {
                // died without a case in flight (start-up or shutdown): charge the first unresolved one
                let k = (start..cases.len()).find(|i| out[*i].is_none()).unwrap_or(cases.len() - 1);
                out[k] = Some(Res::Died(kind, detail));
                start = k + 1;
            }
            (None, _) => break,
        }
    }
    out.into_iter().map(|r| r.unwrap_or(Res::Died("lost".into(), String::new()))).collect()
}

fn run_all(dir: &str, cases: &[String], batch_size: usize, workers: usize) -> Vec<Res> {
    let batches: Vec<(usize, &[String])> = cases.chunks(batch_size).enumerate().collect();
    let next = std::sync::atomic::AtomicUsize::new(0);
    let results: std::sync::Mutex<Vec<Option<Vec<Res>>>> = std::sync::Mutex::new(vec![None; batches.len()]);
    std::thread::scope(|sc| {
        for w in 0..workers.max(1) {
            let batches = &batches;
            let next = &next;
            let results = &results;
            sc.spawn(move || loop {
                let i = next.fetch_add(1, std::sync::atomic::Ordering::SeqCst);
                if i >= batches.len() {
                    break;
                }
                let r = run_batch(dir, &format!("w{}b{}", w, i), batches[i].1);
                results.lock().unwrap()[i] = Some(r);
            });
        }
    });
    results.into_inner().unwrap().into_iter().flat_map(|r| r.unwrap()).collect()
}

// ------------------------------------------------------------------------------------------------
// case plans
// ------------------------------------------------------------------------------------------------
/// is the (word, argument tuple) a request for an immodest allocation? (`n random-bits`, `v n int!`,
/// `v n uint!`, `w h d2-resize`): the property excludes those
fn alloc_excluded(word: &str, args: &[&Val]) -> bool {
    let int_of = |v: &Val| if let Cell::Int(i) = v.cell.value() { Some(*i) } else { None };
    let top = |k: usize| if args.len() > k { int_of(args[args.len() - 1 - k]) } else { None };
    match word {
        "random-bits" | "int!" | "uint!" => top(0).map(|n| n > ALLOC_MAX).unwrap_or(false),
        "d2-resize" => {
            let h = top(0).unwrap_or(1);
            let w = top(1).unwrap_or(1);
            // a canvas whose cell count does not even fit the address space is not an allocation request the word could
            // try to honour: it has to be refused with an error (repair 666ffa0: `w * h` overflowed)
            let um = usize::MAX as i128;
            if h > 0 && w > 0 && h <= um && w <= um && h.checked_mul(w).map(|p| p > um).unwrap_or(true) { return false; }
            h > ALLOC_MAX || w > ALLOC_MAX || (h > 0 && w > 0 && h.saturating_mul(w) > 4 * ALLOC_MAX)
        }
        _ => false,
    }
}

#[derive(Default)]
struct Plan {
    lines: Vec<String>,
    shown: Vec<String>,
    /// for word×argument cases: (word index, argument value indices)
    meta: Vec<Option<(usize, Vec<usize>)>>,
}

impl Plan {
    fn push(&mut self, line: String, shown: String) {
        self.lines.push(line);
        self.shown.push(shown);
        self.meta.push(None);
    }
    fn len(&self) -> usize {
        self.lines.len()
    }
}

fn show_word_case(word: &str, args: &[&Val], rec: bool, prelude: u8, wrap: u8) -> String {
    let names: Vec<&str> = args.iter().map(|a| a.name.as_str()).collect();
    let srcs: Vec<&str> = args.iter().map(|a| a.src.as_str()).collect();
    let w = match wrap {
        1 => format!("2 0 do {} loop", word),
        2 => format!(": t-wrap {} ; t-wrap", word),
        _ => word.to_string(),
    };
    format!(
        "word×args: push_data[{}] then eval({:?}) recording={} state={} ~ source `{} {}`",
        names.join(", "),
        w,
        if rec { "on" } else { "off" },
        if prelude == 1 { "prepared(binary input, d2 3x2, big-endian, output intercepted)" } else { "fresh" },
        srcs.join(" "),
        w
    )
}

/// plans one word×argument case (None when the property excludes it)
fn emit_word(ctx: &mut Ctx, plan: &mut Plan, words: &[String], vals: &[Val], w: usize, args: &[usize], rec: bool, prelude: u8, wrap: u8) {
    let word = words[w].as_str();
    let argv: Vec<&Val> = args.iter().map(|i| &vals[*i]).collect();
    if DESTRUCTIVE.contains(&word) {
        ctx.tag("skipped:destructive");
        return;
    }
    if alloc_excluded(word, &argv) {
        ctx.tag("skipped:alloc");
        return;
    }
    ctx.tag(&format!("arity:{}", args.len()));
    for a in &argv {
        ctx.tag(&format!("class:{}", a.class));
    }
    ctx.tag(if rec { "recording:on" } else { "recording:off" });
    ctx.tag(if prelude == 1 { "state:prepared" } else { "state:fresh" });
    let mut l = format!("W\t{}\t{}\t{}\t{}", rec as u8, prelude, wrap, esc(word));
    for a in &argv {
        l.push('\t');
        l.push_str(&a.name);
    }
    plan.push(l, show_word_case(word, &argv, rec, prelude, wrap));
    *plan.meta.last_mut().unwrap() = Some((w, args.to_vec()));
}

/// arity 0 and 1: every word × every value
fn plan_arity01(ctx: &mut Ctx, words: &[String], vals: &[Val], plan: &mut Plan) {
    let thorough = ctx.thorough;
    for w in 0..words.len() {
        for rec in [false, true] {
            for prelude in [0u8, 1] {
                emit_word(ctx, plan, words, vals, w, &[], rec, prelude, 0);
            }
        }
        emit_word(ctx, plan, words, vals, w, &[], false, 1, 1);
        emit_word(ctx, plan, words, vals, w, &[], true, 0, 2);
        for i in 0..vals.len() {
            let rec = (i % 2 == 0) ^ (words[w].len() % 2 == 0);
            emit_word(ctx, plan, words, vals, w, &[i], rec, 1, 0);
            if thorough {
                emit_word(ctx, plan, words, vals, w, &[i], !rec, 0, 0);
                emit_word(ctx, plan, words, vals, w, &[i], rec, 1, 1);
            }
        }
    }
}

/// deeper cases for the argument tuples that made the word ask for more (`StackUnderflow`): the new
/// argument goes underneath. `cap` bounds the cases per word (sampled when the candidates exceed it).
fn plan_guided(ctx: &mut Ctx, words: &[String], vals: &[Val], hungry: &BTreeMap<usize, Vec<Vec<usize>>>, cap: usize, plan: &mut Plan) {
    for (w, tuples) in hungry {
        let total = tuples.len() * vals.len();
        if total <= cap {
            for t in tuples {
                for x in 0..vals.len() {
                    let mut a = vec![x];
                    a.extend_from_slice(t);
                    let rec = ctx.rng.bool();
                    emit_word(ctx, plan, words, vals, *w, &a, rec, 1, 0);
                }
            }
        } else {
            for _ in 0..cap {
                let t = &tuples[ctx.rng.below(tuples.len())];
                let mut a = vec![ctx.rng.below(vals.len())];
                a.extend_from_slice(t);
                let rec = ctx.rng.bool();
                let prelude = if ctx.rng.chance(85) { 1 } else { 0 };
                let wrap = if ctx.rng.chance(5) { 1 + ctx.rng.below(2) as u8 } else { 0 };
                emit_word(ctx, plan, words, vals, *w, &a, rec, prelude, wrap);
            }
        }
    }
}

/// uniformly random arity 2 and 3 (class chosen first so small classes are not starved): does not depend
/// on the guidance heuristic
fn plan_random(ctx: &mut Ctx, words: &[String], vals: &[Val], n: usize, plan: &mut Plan) {
    let mut classes: Vec<&'static str> = Vec::new();
    for v in vals {
        if !classes.contains(&v.class) {
            classes.push(v.class);
        }
    }
    let by_class: BTreeMap<&str, Vec<usize>> = classes.iter().map(|c| (*c, (0..vals.len()).filter(|i| vals[*i].class == *c).collect())).collect();
    for _ in 0..n {
        let w = ctx.rng.below(words.len());
        let ar = if ctx.rng.chance(55) { 2 } else { 3 };
        let mut args = Vec::new();
        for _ in 0..ar {
            let c = *ctx.rng.pick(&classes);
            args.push(*ctx.rng.pick(&by_class[c]));
        }
        let rec = ctx.rng.bool();
        let prelude = if ctx.rng.chance(60) { 1 } else { 0 };
        let wrap = if ctx.rng.chance(8) { 1 + ctx.rng.below(2) as u8 } else { 0 };
        emit_word(ctx, plan, words, vals, w, &args, rec, prelude, wrap);
    }
}

/// thorough tier: the full arity-2 product over values for the words `ws`
fn plan_full2(ctx: &mut Ctx, words: &[String], vals: &[Val], ws: std::ops::Range<usize>, plan: &mut Plan) {
    for w in ws {
        for a in 0..vals.len() {
            for b in 0..vals.len() {
                let rec = ctx.rng.bool();
                let prelude = if ctx.rng.chance(75) { 1 } else { 0 };
                emit_word(ctx, plan, words, vals, w, &[a, b], rec, prelude, 0);
            }
        }
    }
}

/// thorough tier: the full arity-3 product over argument classes (a representative drawn per position)
fn plan_full3_classes(ctx: &mut Ctx, words: &[String], vals: &[Val], ws: std::ops::Range<usize>, plan: &mut Plan) {
    let mut classes: Vec<&'static str> = Vec::new();
    for v in vals {
        if !classes.contains(&v.class) {
            classes.push(v.class);
        }
    }
    let by_class: BTreeMap<&str, Vec<usize>> = classes.iter().map(|c| (*c, (0..vals.len()).filter(|i| vals[*i].class == *c).collect())).collect();
    for w in ws {
        for ca in &classes {
            for cb in &classes {
                for cc in &classes {
                    let a = *ctx.rng.pick(&by_class[ca]);
                    let b = *ctx.rng.pick(&by_class[cb]);
                    let c = *ctx.rng.pick(&by_class[cc]);
                    let rec = ctx.rng.bool();
                    let prelude = if ctx.rng.chance(75) { 1 } else { 0 };
                    emit_word(ctx, plan, words, vals, w, &[a, b, c], rec, prelude, 0);
                }
            }
        }
    }
}

// ------------------------------------------------------------------------------------------------
// text generators
// ------------------------------------------------------------------------------------------------
const LITERALS: &[&str] = &[
    "0", "1", "2", "3", "-1", "7", "8", "10", "64", "128", "255", "0xff", "0b101", "-0x10", "1_000", "65535", "65536", "1000000",
    "9223372036854775807", "9223372036854775808", "-9223372036854775808", "18446744073709551615", "18446744073709551616",
    "170141183460469231731687303715884105727", "-170141183460469231731687303715884105727", "170141183460469231731687303715884105728",
    "0.0", "-0.0", "1.5", "-2.5", "1e300", "1.0e-320", "1.", "0x1.5", "1e", "--1", "+5", "1+", "0b2", "0x", "0b",
    "\"\"", "\"a\"", "\"abc\"", "\"é\"", "\"日本語😀\"", "\"a b\"", "\"\\n\\t\\\\\\\"\"", "\"12\"", "\"ff\"", "\"1.5\"", "“q”", "\"#fmt\"", "\"offset\"", "\"len\"", "\"assert.msg\"",
    "| |", "|ff|", "|x.x|", "|1234 5678|", "|f|", "|....x|", "|0102030405060708090a0b0c0d0e0f1011|",
    "nil", "true", "false",
];

const GARBAGE: &[&str] = &["\"", "\"abc", "|", "|12", "|zz|", "\"\\q\"", "\"a\"b", "\\", "\\ comment\n", "\\( multi \\)", "\\( open", "\u{feff}", "\u{0}", "\r\n", "\t", "é", "“", "”", "“abc", "😀", "\u{202e}", "\u{ffff}", ")", "(", "#", "^", "&", "~", "\u{85}", "\u{a0}"];

const STRUCT_WORDS: &[&str] = &[
    "if", "else", "then", "case", "of", "endof", "endcase", "begin", "while", "until", "break", "repeat", "[", "]", "{", "}", "^{", "^}", ":", ";", "late", "immediate", "local", "var", "!", "#(", "#)",
    "~)", "const", "do", "loop", "foreach", "defined", "let", "see", "enum", "endenum", "=", "&", "^", "include", "require", "<name>", "I", "J", "K",
];

const NAMES: &[&str] = &["a", "b", "x", "y", "f", "g", "t-wrap", "aa", "X", "input", "offset", "big?", "output", "output-length", "d2-context", "true", "false", "dup", "+", ":", "=", "[", "]", "é", "0x", "nil"];

fn soup_word(r: &mut Rng, words: &[String]) -> String {
    match r.below(100) {
        0..=44 => {
            let w = &words[r.below(words.len())];
            w.clone()
        }
        45..=69 => r.pick(LITERALS).to_string(),
        70..=86 => r.pick(STRUCT_WORDS).to_string(),
        87..=94 => r.pick(NAMES).to_string(),
        _ => r.pick(GARBAGE).to_string(),
    }
}

fn gen_soup(r: &mut Rng, words: &[String]) -> String {
    let long = r.chance(10);
    let n = 1 + r.below(if long { 120 } else { 30 });
    let mut s = String::new();
    for i in 0..n {
        if i > 0 {
            s.push_str(*r.pick(&[" ", " ", " ", "\n", "  ", "\t"]));
        }
        s.push_str(&soup_word(r, words));
    }
    s
}

fn gen_value_src(r: &mut Rng, depth: usize) -> String {
    match r.below(if depth > 2 { 6 } else { 10 }) {
        0..=3 => r.pick(LITERALS).to_string(),
        4 => r.pick(&["1", "2", "3", "\"k\"", "\"a\"", "nil"]).to_string(),
        5 => format!("{} ^{{ {} {} ^}}", gen_value_src(r, depth + 1), gen_value_src(r, depth + 1), r.pick(&["\"#fmt\"", "\"k\"", "1", "\"len\"", "\"offset\"", "\"assert.msg\""])),
        6 | 7 => {
            let n = r.below(4);
            let mut s = String::from("[ ");
            for _ in 0..n {
                s.push_str(&gen_value_src(r, depth + 1));
                s.push(' ');
            }
            s.push(']');
            s
        }
        _ => {
            let n = r.below(3);
            let mut s = String::from("{ ");
            for _ in 0..n {
                s.push_str(&gen_value_src(r, depth + 1));
                s.push(' ');
                s.push_str(&gen_value_src(r, depth + 2));
                s.push(' ');
            }
            s.push('}');
            s
        }
    }
}

/// a `let` pattern from the grammar (mostly valid), optionally with junk
fn gen_let_pattern(r: &mut Rng, depth: usize) -> String {
    let name = |r: &mut Rng| r.pick(&["a", "b", "c", "xs", "v", "t", "x1", "dup", "é", "I"]).to_string();
    match r.below(if depth > 3 { 4 } else { 12 }) {
        0 | 1 => name(r),
        2 => r.pick(LITERALS).to_string(),
        3 => r.pick(&["&", "]", "}", "^", "[", "{", "", "\\ c\n", "\\( c \\)", ";", ":"]).to_string(),
        4..=6 => {
            let n = r.below(4);
            let mut s = String::from("[ ");
            for _ in 0..n {
                s.push_str(&gen_let_pattern(r, depth + 1));
                s.push(' ');
            }
            if r.chance(35) {
                s.push_str("& ");
                s.push_str(&gen_let_pattern(r, depth + 1));
                s.push(' ');
                if r.chance(15) {
                    s.push_str(&gen_let_pattern(r, depth + 1));
                    s.push(' ');
                }
            }
            if !r.chance(5) {
                s.push(']');
            }
            s
        }
        7 | 8 => {
            let n = r.below(3);
            let mut s = String::from("{ ");
            for _ in 0..n {
                s.push_str(*r.pick(&["\"k\"", "1", "\"a\"", "nil", "0x10", "x", "|ff|", "1.5"]));
                s.push(' ');
                s.push_str(&gen_let_pattern(r, depth + 1));
                s.push(' ');
            }
            if !r.chance(5) {
                s.push('}');
            }
            s
        }
        9 | 10 => format!("^ {} {}", gen_let_pattern(r, depth + 1), gen_let_pattern(r, depth + 1)),
        _ => format!("\\ comment\n {}", gen_let_pattern(r, depth + 1)),
    }
}

fn gen_let(r: &mut Rng) -> String {
    let v = gen_value_src(r, 0);
    let p = gen_let_pattern(r, 0);
    let tail = *r.pick(&["", " a", " a b", " depth", " xs length", " t"]);
    match r.below(5) {
        0 => format!(": f {} let {} {} ; f", v, p, tail),
        1 => format!(": f let {} {} ; {} f", p, tail, v),
        2 => format!("{} let {} let {}{}", v, p, gen_let_pattern(r, 0), tail),
        _ => format!("{} let {}{}", v, p, tail),
    }
}

fn gen_enum(r: &mut Rng) -> String {
    let mut s = String::from("enum ");
    s.push_str(*r.pick(&["E", "Test", "", "1", "[", ":"]));
    s.push(' ');
    for i in 0..r.below(6) {
        match r.below(10) {
            0..=3 => s.push_str(&format!(": F{} ", i)),
            4..=6 => s.push_str(&format!("{} = G{} ", r.pick(LITERALS), i)),
            7 => s.push_str(&format!("F0 {} + = H{} ", r.pick(LITERALS), i)),
            8 => s.push_str(*r.pick(&[": ", "= ", "1 2 = B ", "1 : A ", "#) ", "#( ", "endenum ", "enum N ", "[ ", "if ", ": : ", "= = ", "1 var v ", "; "])),
            _ => s.push_str(&format!("{} ", r.pick(LITERALS))),
        }
    }
    if !r.chance(10) {
        s.push_str("endenum ");
    }
    s.push_str(*r.pick(&["", "F0", "F1 G2 +", ": t F0 ; t", "endenum", "E"]));
    s
}

fn gen_meta(r: &mut Rng, words: &[String]) -> String {
    let body = |r: &mut Rng| {
        let n = r.below(6);
        (0..n).map(|_| if r.chance(60) { r.pick(LITERALS).to_string() } else { soup_word(r, words) }).collect::<Vec<_>>().join(" ")
    };
    match r.below(9) {
        0 => format!("#( {} #)", body(r)),
        1 => format!("#( {} const C #) C", body(r)),
        2 => format!("#( {} ~) {}", body(r), body(r)),
        3 => format!("#( \"{}\" ~)", body(r).replace('"', "")),
        4 => format!(": f #( {} #) {} ; f", body(r), body(r)),
        5 => format!("#( #( {} #) {} #) {}", body(r), body(r), body(r)),
        6 => format!("{} #( {} ~) #)", body(r), body(r)),
        7 => format!("#( [ \"1\" \"2\" [ \"+\" ] ] ~) {}", body(r)),
        _ => format!("{} const K {} ~) {} #)", body(r), body(r), body(r)),
    }
}

/// a mostly valid program: definitions, locals, control flow, loops, collections
fn gen_program(r: &mut Rng, words: &[String], depth: usize) -> String {
    let mut parts: Vec<String> = Vec::new();
    let n = 1 + r.below(if depth == 0 { 8 } else { 4 });
    for _ in 0..n {
        let p = match r.below(if depth > 2 { 8 } else { 20 }) {
            0..=3 => r.pick(LITERALS).to_string(),
            4..=7 => words[r.below(words.len())].clone(),
            8 => format!("{} if {} else {} then", r.pick(&["true", "false", "nil", "1", "dup"]), gen_program(r, words, depth + 1), gen_program(r, words, depth + 1)),
            9 => format!("{} {} do {} loop", r.pick(&["3", "0", "-2", "10", "1000000", "9223372036854775807"]), r.pick(&["0", "1", "-5", "9223372036854775800"]), gen_program(r, words, depth + 1)),
            10 => format!("begin {} {} until", gen_program(r, words, depth + 1), r.pick(&["true", "false", "nil", "depth 5 >"])),
            11 => format!("begin {} while {} repeat", r.pick(&["true", "false", "depth 9 <"]), gen_program(r, words, depth + 1)),
            12 => format!(": {} {} ; {}", r.pick(&["f", "g", "h", "dup", "+"]), gen_program(r, words, depth + 1), r.pick(&["f", "g", "h", ""])),
            13 => format!("{} foreach {} loop", gen_value_src(r, 1), gen_program(r, words, depth + 1)),
            14 => format!("{} case {} of {} endof {} of {} endof {} endcase", r.pick(LITERALS), r.pick(LITERALS), gen_program(r, words, depth + 1), r.pick(LITERALS), r.pick(&["break", "1", ""]), r.pick(&["drop", "", "0"])),
            15 => format!("{} var {} {} ! {}", r.pick(LITERALS), r.pick(NAMES), r.pick(LITERALS), r.pick(NAMES)),
            16 => format!(": f {} local x {} x ; {} f", r.pick(LITERALS), gen_program(r, words, depth + 1), r.pick(LITERALS)),
            17 => gen_value_src(r, 0),
            18 => format!("late {} : u {} ; {}", r.pick(NAMES), r.pick(NAMES), r.pick(&["u", ": a 1 ; u", "#( 3 const a #) u", "1 var a u"])),
            _ => format!(": f {} immediate ; {} f {}", gen_program(r, words, depth + 1), r.pick(&["", ": g", "["]), r.pick(&["", ";", "]"])),
        };
        parts.push(p);
    }
    parts.join(" ")
}

/// programs over the binary-input words: reads of every kind, seeks, searches, dumps, nested inputs, output
fn gen_bitprog(r: &mut Rng) -> String {
    const SRC: &[&str] = &[
        "|0102030405060708090a0b0c0d0e0f10| open-bitstr", "|ff| open-bitstr", "| | open-bitstr", "|x.x..x| open-bitstr", "\"héllo\\n\" >bitstr open-bitstr", "[ 0 255 [ 65 \"b\" ] ] >bitstr open-bitstr",
        "1000 random-bits open-bitstr", "input open-bitstr", "3 bits open-bitstr", "close-bitstr", "close-bitstr close-bitstr", "|00 61 62 00 63| open-bitstr",
    ];
    const RD: &[&str] = &[
        "u8", "i8", "u16", "u16le", "u16be", "i16", "u32", "i32be", "u64", "i64le", "f32", "f64", "f32be", "f64le", "8 bits", "3 bits", "0 bits", "1 bytes", "16 bytes", "7 uint", "7 int", "127 uint", "128 uint",
        "128 int", "129 int", "0 int", "0 uint", "32 float", "64 float", "16 float", "0 float", "nulbytestr", "cstr", "remain", "remain bits", "offset", "input", "dump", "0 dump-at", "3 dump-at", "offset dump-at",
        "1000 dump-at", "|ff| find", "|0a| find", "| | find", "|x| find", "|01| magic", "| | magic", "|x.| magic", "0 seek", "3 seek", "remain seek", "offset 1 + seek", "offset 8 + seek", "1000 seek", "-1 seek",
        "big", "little", "big?", "drop", "dup", "emit", "dup emit", "output", "output-length", ".s", "print", "bitstr-len", "bitstr>hex", "bitstr>utf8", "bitstr-not", "dup bitstr-append", "dup bitstr-xor",
        "swap bitstr-and", "over bitstr-or", ">bitstr", "8 uint!", "3 int!", "0 int!", "129 uint!", "64 float!", "32 float!", "u8!", "i16le!", "u32be!", "f64!", "f32le!", ">b", ">kb", ">mb",
        "5 ! offset", "-1 ! offset", "\"x\" ! offset", "nil ! input", "| | ! input", "2 ! big?", "nil ! output", "|f| ! output", "\"x\" ! output", "nil ! output-length", "-5 ! output-length",
        "18446744073709551615 ! offset", "18446744073709551615 ! output-length", "base64", "base32", "zero85", "base32hex", "base64>", "zero85>",
    ];
    let mut s = String::new();
    s.push_str(*r.pick(SRC));
    if r.chance(12) {
        // a `magic` that does not match, tried after some reads (so that the mismatch is reported at a position that is
        // not the start of the input), possibly inside a slice of the input: the error and its rendering
        for _ in 0..r.below(4) { s.push(' '); s.push_str(*r.pick(&["u8 drop", "3 bits drop", "u16 drop", "1 bytes open-bitstr"])); }
        s.push(' ');
        s.push_str(*r.pick(&["|03| magic", "|ffff| magic", "|x.| magic", "|00 61 63| magic", "|0a0b0c0d0e| magic"]));
        return s;
    }
    for _ in 0..1 + r.below(14) {
        s.push(' ');
        if r.chance(12) {
            s.push_str(*r.pick(SRC));
        } else if r.chance(8) {
            s.push_str(*r.pick(LITERALS));
        } else {
            s.push_str(*r.pick(RD));
        }
    }
    s
}

/// formatting programs: values with format flags through every printing / joining / parsing word
fn gen_fmtprog(r: &mut Rng) -> String {
    const FL: &[&str] = &[
        "^hex", "^dec", "^oct", "^bin", "true fmt/prefix", "false fmt/prefix", "true fmt/tags", "false fmt/tags", "true fmt/upcase", "false fmt/upcase", "nil fmt/upcase", "1 fmt/tags",
        "^{ 99 \"#fmt\" ^}", "^{ 65536 \"#fmt\" ^}", "^{ 18446744073709551615 \"#fmt\" ^}", "^{ 18446744073709551616 \"#fmt\" ^}", "^{ -1 \"#fmt\" ^}", "^{ \"x\" \"#fmt\" ^}", "^{ 2047 \"#fmt\" ^}",
        "^{ 1024 \"#fmt\" ^}", "^{ 0 \"#fmt\" ^}", "^{ 1 \"#fmt\" ^}", "^{ 36 \"#fmt\" ^}", "^{ 37 \"#fmt\" ^}", "^{ 255 \"#fmt\" ^}", "^{ 256 \"#fmt\" ^}", "99 \"#fmt\" insert-tag", "nil \"#fmt\" insert-tag",
        "\"#fmt\" remove-tag", "tags", "{ } with-tags", "dup tags with-tags", "\"#fmt\" get-tag",
    ];
    const USE: &[&str] = &[
        "print", "println", ".s", "dup print", "1 collect concat", "1 collect \",\" join", "2 collect \"é\" join", "str>number", "dup error", "error", "dup dup assert-eq", "1 assert-eq", "assert", "[ swap ] concat",
        "{ swap 1 } .s", "nil swap insert-tag print", "length", "see dup", "newline", "1 collect dup concat str>number", "\"12\" swap drop", "dup 1 collect swap 1 collect concat print",
    ];
    let mut s = gen_value_src(r, 0);
    for _ in 0..1 + r.below(6) {
        s.push(' ');
        s.push_str(*r.pick(FL));
    }
    for _ in 0..1 + r.below(3) {
        s.push(' ');
        s.push_str(*r.pick(USE));
        if r.chance(40) {
            s.push(' ');
            s.push_str(*r.pick(FL));
        }
    }
    s
}

/// canvas programs (d2 plugin)
fn gen_d2prog(r: &mut Rng) -> String {
    const N: &[&str] = &["0", "1", "2", "3", "7", "100", "1000", "-1", "65536", "4294967295", "4294967296", "9223372036854775807", "18446744073709551615", "18446744073709551616", "nil", "\"a\"", "1.5"];
    const W: &[&str] = &[
        "d2-resize", "d2-clear", "d2-width", "d2-height", "d2-color!", "d2-data!", "d2-data", "d2-capture-rgba", "d2-palette!", "[ 1 2 3 ] d2-palette!", "[ ] d2-palette!", "[ -1 ] d2-palette!", "[ \"a\" ] d2-palette!",
        "[ 18446744073709551615 ] d2-palette!", "d2-context", "nil ! d2-context", "1 ! d2-context", "d2-context ! d2-context", "d2-context print", "d2-context dup assert-eq", "length", "drop", "dup", "swap", ".s",
        "d2-width d2-height *", "d2-capture-rgba open-bitstr u32",
    ];
    let mut s = String::new();
    for i in 0..2 + r.below(14) {
        if i > 0 {
            s.push(' ');
        }
        if r.chance(55) {
            s.push_str(*r.pick(N));
        } else {
            s.push_str(*r.pick(W));
        }
    }
    s
}

fn mutate(r: &mut Rng, s: &str, words: &[String]) -> String {
    let mut toks: Vec<String> = s.split(' ').map(|x| x.to_string()).collect();
    for _ in 0..1 + r.below(3) {
        if toks.is_empty() {
            break;
        }
        let i = r.below(toks.len());
        match r.below(6) {
            0 => {
                toks.remove(i);
            }
            1 => {
                let t = toks[i].clone();
                toks.insert(i, t);
            }
            2 => {
                let j = r.below(toks.len());
                toks.swap(i, j);
            }
            3 => toks.truncate(i),
            4 => toks.insert(i, soup_word(r, words)),
            _ => toks[i] = r.pick(GARBAGE).to_string(),
        }
    }
    toks.join(" ")
}

fn gen_utf8(r: &mut Rng) -> String {
    let n = r.below(60);
    let mut s = String::new();
    for _ in 0..n {
        let c = match r.below(12) {
            0..=3 => (0x20 + r.below(0x5f) as u32) as u8 as char,
            4 => *r.pick(&['"', '|', '\\', '“', '”', '(', ')', '.', 'x', '_', '-', '+']),
            5 => *r.pick(&[' ', '\n', '\r', '\t', '\u{b}', '\u{c}']),
            6 => char::from_u32(r.below(0x20) as u32).unwrap_or(' '),
            7 => char::from_u32(0x80 + r.below(0x780) as u32).unwrap_or('é'),
            8 => char::from_u32(0x800 + r.below(0xf000) as u32).unwrap_or('語'),
            9 => char::from_u32(0x10000 + r.below(0xffff) as u32).unwrap_or('😀'),
            10 => *r.pick(&['0', '1', '9', 'a', 'f', 'e', 'b']),
            _ => *r.pick(&['\u{feff}', '\u{2028}', '\u{85}', '\u{a0}', '\u{10ffff}', '\u{d7ff}', '\u{e000}']),
        };
        s.push(c);
    }
    s
}

/// literals the lexer has to take apart character by character: strings with valid and invalid escapes in front of
/// characters of every UTF-8 width, both kinds of quotes, bit-string literals with stray characters, numerals with
/// odd digits, signs, radix prefixes and separators; terminated or not, alone or in the middle of a program
fn gen_literal_fuzz(r: &mut Rng) -> String {
    let wide = |r: &mut Rng| -> char { *r.pick(&['a', 'n', 't', 'r', '"', '\\', '0', 'x', 'u', ' ', '\n', 'é', 'ß', '語', '€', '😀', '\u{10ffff}', '\u{a0}', '”', '“', '|', '\u{0}']) };
    let mut parts: Vec<String> = Vec::new();
    for _ in 0..(r.below(4) + 1) {
        let lit = match r.below(6) {
            0 | 1 => {
                let (open, close) = *r.pick(&[("\"", "\""), ("“", "”"), ("\"", "”"), ("“", "\"")]);
                let mut body = String::new();
                for _ in 0..r.below(8) {
                    if r.chance(45) { body.push('\\'); }
                    body.push(wide(r));
                }
                if r.chance(20) { body.push('\\'); }
                format!("{}{}{}", open, body, if r.chance(80) { close } else { "" })
            }
            2 => {
                let mut body = String::new();
                for _ in 0..r.below(10) { body.push(*r.pick(&['0', '1', 'f', 'F', 'x', '.', ' ', '_', 'g', 'é', '😀', '\\', '"', '-', '\n'])); }
                format!("|{}{}", body, if r.chance(80) { "|" } else { "" })
            }
            3 => {
                let mut body = String::new();
                body.push_str(*r.pick(&["", "-", "+", "--", "0x", "-0x", "0b", "0o", "0x-", "1e", "."]));
                for _ in 0..(r.below(12) + 1) { body.push(*r.pick(&['0', '1', '7', '9', 'a', 'f', 'z', '_', '.', 'e', '-', '+', 'é', 'x'])); }
                body
            }
            4 => format!("\\{}", wide(r)),
            _ => { let c = wide(r); format!("\"a\\{}b\" print", c) }
        };
        parts.push(lit);
        if r.chance(40) { parts.push((*r.pick(&["dup", "drop", "print", "length", ": f", ";", "[", "]", "let x", "1 +"])).to_string()); }
    }
    parts.join(if r.chance(85) { " " } else { "" })
}

/// one very long token (number, word, string, bit-string, comment), terminated or not
fn gen_long_token(r: &mut Rng, big: bool) -> String {
    let n = if big { *r.pick(&[70_000usize, 300_000]) } else { *r.pick(&[100usize, 1000, 5000]) };
    let unit = *r.pick(&["9", "f", "0", "a", "é", "x.", "1_", "\\\\", "\\n", "😀", ".", "-", "ab "]);
    let body: String = unit.repeat(n / unit.len().max(1) + 1);
    match r.below(10) {
        0 => body,
        1 => format!("0x{}", body),
        2 => format!("0b{}", body),
        3 => format!("\"{}\"", body),
        4 => format!("\"{}", body),
        5 => format!("|{}|", body),
        6 => format!("|{}", body),
        7 => format!("\\( {} \\)", body),
        8 => format!(": {} 1 ; {}", body.replace(' ', ""), body.replace(' ', "")),
        _ => format!("\"{}\" dup error", body),
    }
}

fn gen_nesting(r: &mut Rng, big: bool) -> (String, &'static str) {
    let depth = if big { *r.pick(&[2_000usize, 10_000, 100_000]) } else { *r.pick(&[5usize, 50, 300, 1200]) };
    let close = r.chance(60);
    let (open, cl, tag): (&str, &str, &'static str) = match r.below(14) {
        0 => ("[ ", "] ", "nest:["),
        1 => ("{ ", "} ", "nest:{"),
        2 => ("#( ", "#) ", "nest:#("),
        3 => (": f ", "; ", "nest::"),
        4 => ("1 if ", "then ", "nest:if"),
        5 => ("begin ", "1 until ", "nest:begin"),
        6 => ("1 0 do ", "loop ", "nest:do"),
        7 => ("1 ^{ ", "^} ", "nest:^{"),
        8 => ("1 case 1 of ", "endof endcase ", "nest:case"),
        9 => ("[ ] let [ ", "] ", "nest:let["),
        10 => ("1 let ^ a ", "", "nest:let^"),
        11 => ("{ } let { 1 ", "} ", "nest:let{"),
        12 => ("\\( ", "\\) ", "nest:comment"),
        _ => ("enum E ", "endenum ", "nest:enum"),
    };
    // definitions and enum fields grow the dictionary: every later lookup scans it (quadratic time, no crash)
    let depth = if matches!(tag, "nest::" | "nest:enum" | "nest:if" | "nest:case") { depth.min(3000) } else { depth };
    let mut s = String::with_capacity(depth * (open.len() + cl.len()) + 16);
    if tag == "nest:let[" || tag == "nest:let{" {
        // one `let`, the pattern itself nested
        s.push_str(if tag == "nest:let[" { "[ ] let " } else { "{ } let " });
        for _ in 0..depth {
            s.push_str(if tag == "nest:let[" { "[ " } else { "{ 1 " });
        }
        if close {
            for _ in 0..depth {
                s.push_str(cl);
            }
        }
        return (s, tag);
    }
    if tag == "nest:let^" {
        s.push_str("1 let ");
        for _ in 0..depth {
            s.push_str("^ a ");
        }
        s.push('b');
        return (s, tag);
    }
    for _ in 0..depth {
        s.push_str(open);
    }
    if close {
        for _ in 0..depth {
            s.push_str(cl);
        }
    }
    (s, tag)
}

fn gen_bin_arg(r: &mut Rng) -> String {
    let nbytes = *r.pick(&[0usize, 1, 2, 3, 8, 16, 17, 64, 300]);
    let bytes: Vec<u8> = (0..nbytes).map(|_| r.next_u64() as u8).collect();
    let total = nbytes * 8;
    let start = if total == 0 { 0 } else { r.below(total.min(17)) };
    let len = if total - start == 0 { 0 } else { (total - start) - r.below((total - start).min(9)) };
    format!("{}:{}:{}", start, len, canon::hex(&bytes))
}

fn text_case(r: &mut Rng, text: &str, long_limits: bool) -> (String, String) {
    // choose how the text is driven
    let mut steps: Vec<String> = Vec::new();
    if long_limits {
        steps.push("insn=400000".into());
    }
    let rec = r.chance(45);
    if rec {
        steps.push("rec+".into());
    }
    if r.chance(25) {
        steps.push(format!("bin={}", gen_bin_arg(r)));
    }
    if r.chance(15) {
        steps.push("icept+".into());
    }
    if r.chance(6) {
        steps.push(format!("{}={}", r.pick(&["insn", "stack", "heap"]), r.pick(&["0", "1", "2", "7", "50"])));
    }
    if r.chance(4) {
        steps.push(format!("{}={}", r.pick(&["evalfile", "compilefile"]), r.pick(&["no-such-file.xeh", ".", "", "/", "é/\u{0}x", "../cwd"])));
    }
    match r.below(10) {
        0..=3 => {
            steps.push(format!("eval={}", esc(text)));
        }
        4 | 5 => {
            steps.push(format!("compile={}", esc(text)));
            steps.push("ops".into());
            steps.push("run".into());
        }
        6 | 7 => {
            steps.push(format!("compile={}", esc(text)));
            for _ in 0..1 + r.below(4) {
                steps.push(format!("next={}", 1 + r.below(60)));
                if r.chance(50) {
                    steps.push("perr".into());
                }
                if r.chance(25) {
                    // a probe typed while the program is paused (inside its calls, loops, builders): one that fails at
                    // run time stays open on top of the paused program, one that is rejected is forgotten
                    let probe = *r.pick(&["1 0 /", "nosuch", "2 0 do I loop 1 0 /", "[ 1 0 / ]", "drop drop drop drop drop drop", ": pw 1 0 / ; pw", "I J K", "1 if", "nil 1 +", "{ 1 nil 1 + }",
                        "3 0 do I 1 = if nil 1 + then loop", "[ 1 2 ] foreach I 0 / loop", "\"x\" error", "1 2 3", "depth 0 do drop loop"]);
                    steps.push(format!("{}={}", if r.chance(80) { "eval" } else { "compile" }, esc(probe)));
                    if r.chance(30) { steps.push("perr".into()); }
                }
                if r.chance(60) {
                    steps.push(format!("rnext={}", 1 + r.below(40)));
                }
                if r.chance(20) {
                    steps.push("fmt".into());
                }
                if r.chance(10) {
                    steps.push("clone".into());
                }
            }
            steps.push("run".into());
        }
        8 => {
            // split the text over two sources
            let toks: Vec<&str> = text.split(' ').collect();
            let k = r.below(toks.len() + 1);
            steps.push(format!("eval={}", esc(&toks[..k].join(" "))));
            steps.push("perr".into());
            steps.push(format!("eval={}", esc(&toks[k..].join(" "))));
        }
        _ => {
            steps.push(format!("eval={}", esc(text)));
            steps.push("rnext=30".into());
            steps.push("next=30".into());
            steps.push("abort".into());
            steps.push(format!("compile={}", esc(text)));
            steps.push("rnext=10".into());
            steps.push("run".into());
        }
    }
    steps.push("perr".into());
    if r.chance(6) {
        // a C host pushes values, also past a small stack limit
        if r.chance(70) { steps.push(format!("stack={}", r.pick(&["0", "1", "2", "5"]))); }
        steps.push(format!("cpush={}", 1 + r.below(8)));
        steps.push("perr".into());
    }
    if r.chance(50) {
        steps.push("fmt".into());
    }
    if r.chance(30) {
        steps.push("ops".into());
    }
    if rec && r.chance(50) {
        steps.push(format!("rnext={}", 1 + r.below(100)));
        steps.push(format!("next={}", 1 + r.below(100)));
        steps.push("perr".into());
    }
    let prelude = if r.chance(30) { 1 } else { 0 };
    let line = format!("T\t{}\t{}", prelude, steps.join("\t"));
    let shown = format!("text: state={} steps: {}", if prelude == 1 { "prepared" } else { "fresh" }, steps.iter().map(|s| unesc_shown(s)).collect::<Vec<_>>().join(" ; "));
    (line, shown)
}

fn unesc_shown(s: &str) -> String {
    // keep the escaped form (single line) but cut very long texts in the middle for the report
    if s.chars().count() > 600 {
        let head: String = s.chars().take(300).collect();
        let tail: String = s.chars().rev().take(120).collect::<Vec<_>>().into_iter().rev().collect();
        format!("{} …[{} chars]… {}", head, s.chars().count(), tail)
    } else {
        s.to_string()
    }
}

fn plan_fixed_texts(plan: &mut Plan, ctx: &mut Ctx) {
    // deterministic texts: the two known findings plus regression witnesses of the repaired defects
    let mut fixed: Vec<(String, Vec<String>)> = Vec::new();
    let t = |s: &str| format!("eval={}", esc(s));
    let mixed_sort = "[ 0.5 2 1 3.5 \"f\" \"a\" \"d\" \"d\" 0.5 2 \"a\" 1.5 6 4 1.5 \"b\" 1.5 \"a\" 3.5 8 1 4 4.5 4.5 7 2.5 2.5 8 \"f\" 5 \"e\" 0 8 \"c\" ] sort".to_string();
    fixed.push(("fixed:incomparable-sort".into(), vec![t(&mixed_sort)]));
    fixed.push(("fixed:deep-nesting-drop".into(), vec!["insn=400000".into(), t("[ ] 50000 0 do 1 collect loop var deep")]));
    fixed.push(("fixed:deep-nesting-print".into(), vec!["insn=400000".into(), t("[ ] 50000 0 do 1 collect loop"), "fmt".into()]));
    for (name, src) in [
        ("fixed:rem0", "1 0 rem"),
        ("fixed:divmin", "-170141183460469231731687303715884105727 1 - -1 /"),
        ("fixed:absmin", "-170141183460469231731687303715884105727 1 - abs"),
        ("fixed:int0", "|ff| open-bitstr 0 int"),
        ("fixed:nth-min", "[ 1 ] -9223372036854775808 nth"),
        ("fixed:slice-min", "[ 1 ] -9223372036854775808 0 slice"),
        ("fixed:let-comment", ": f let \\ c\n x ; "),
        ("fixed:radix99", "\"zz\" ^{ 99 \"#fmt\" ^} str>number"),
        ("fixed:bytes-huge", "|ff| open-bitstr 2305843009213693952 bytes"),
        ("fixed:seek-huge", "18446744073709551616 seek"),
    ] {
        fixed.push((name.into(), vec![t(src), "perr".into(), "fmt".into()]));
    }
    let long_line: String = format!("{}foo", "1 ".repeat(33_000));
    for (name, steps) in [
        ("fixed:fmt-width", vec![t("1 ^{ 65536 \"#fmt\" ^} dup print"), "fmt".to_string()]),
        ("fixed:fmt-width-max", vec![t("[ 1 ] ^{ 18446744073709551615 \"#fmt\" ^} dup println [ swap ] \",\" join"), "fmt".to_string()]),
        ("fixed:caret-col", vec![t(&long_line), "perr".to_string()]),
        ("fixed:enum-max", vec![t("enum E 170141183460469231731687303715884105727 = A : B endenum"), "perr".to_string()]),
        ("fixed:d2-data-mul", vec![t("3 2 d2-resize 0 18446744073709551615 d2-data"), "perr".to_string()]),
        ("fixed:d2-data-add", vec![t("1 1 d2-resize 18446744073709551615 1 d2-data"), "perr".to_string()]),
        ("fixed:d2-data!-mul", vec![t("3 2 d2-resize 1 18446744073709551615 d2-data!"), "perr".to_string()]),
        ("fixed:emit-len", vec![t("18446744073709551615 ! output-length |ff| emit output-length"), "fmt".to_string()]),
        ("fixed:include-cycle", vec![format!("mkfile={}", esc("c08-self.xeh:include \"c08-self.xeh\"\n")), t("include \"c08-self.xeh\""), "perr".to_string(), t("require \"c08-self.xeh\" 1"), "perr".to_string()]),
        ("fixed:include-cycle-2", vec![format!("mkfile={}", esc("c08-a.xeh:1 include \"c08-b.xeh\" 2\n")), format!("mkfile={}", esc("c08-b.xeh:3 include \"c08-a.xeh\" 4\n")), format!("compile={}", esc("include \"c08-a.xeh\"")), "run".to_string(), "perr".to_string()]),
        ("fixed:z85-tail", vec![t("\"#####\" zero85>"), t("\"HelloWorld#####\" zero85>"), "fmt".to_string()]),
        ("fixed:foreach-empty", vec![t("[ ] foreach I loop { } foreach I loop depth"), "fmt".to_string()]),
        ("fixed:empty-source-error", vec![t(""), "perr".to_string(), "compile=".to_string(), "run".to_string(), "perr".to_string()]),
        ("fixed:deep-let-pattern", vec![t(&format!("[ ] let {}", "[ ".repeat(40_000)))]),
    ] {
        fixed.push((name.into(), steps));
    }
    // a C host looks at what it popped: vectors (also empty, also tagged, also nested) indexed at and behind their end,
    // bit-strings wherever they lie in their buffers, everything else
    fixed.push(("fixed:c-api-accessors".into(), vec![t("[ 10 20 30 ] [ ] [ 1 [ 2 ] ] ^hex 5 nil 1.5 \"s\" |ab cd| |ab cd| open-bitstr 4 bits drop 8 bits close-bitstr { 1 2 } [ 7 ] 1 \"k\" insert-tag"), "capi".into()]));
    // widths beyond the 128 bits of an integer, in both byte orders, with every variable-width packing word
    for (i, w) in [127usize, 128, 129, 135, 136, 137, 144, 200, 256, 1000].iter().enumerate() {
        let src = format!("big -2 {w} uint! drop big 1 {w} int! drop little -2 {w} uint! drop little 1 {w} int! drop big -1 {w} int! little 170141183460469231731687303715884105727 {w} uint!", w = w);
        fixed.push((format!("fixed:wide-pack-{}", i), vec![t(&src), "perr".into(), "fmt".into()]));
    }
    // `input` and `offset` are ordinary variables: a position behind the end of the input is a failed read (an error
    // value with "0 remain"), whichever word reads
    for (i, src) in ["|FFFF| open-bitstr 16 bits drop |FF| ! input u8", "|FF| open-bitstr 16 ! offset 4 bits", "5 ! offset u8", "|FF| open-bitstr 100 ! offset 1 bytes", "|FFFF| open-bitstr 17 ! offset 3 int",
        "|FF| open-bitstr 9 ! offset 32 float", "|FF| open-bitstr 9 ! offset |00| magic", "|FF| open-bitstr 9 ! offset remain offset", "|FF| open-bitstr 64 ! offset cstr", "|FF| open-bitstr 64 ! offset |FF| find",
        "|FFFF| open-bitstr u8 drop | | ! input u16be", "|FF| open-bitstr 18446744073709551615 ! offset u8", "|FF| open-bitstr 9 ! offset i64le", "|FF| open-bitstr 9 ! offset nulbytestr"].iter().enumerate() {
        fixed.push((format!("fixed:offset-behind-the-end-{}", i), vec![t(src), "perr".into(), "fmt".into()]));
    }
    let long_e: String = std::iter::repeat('é').take(38).collect();
    fixed.push(("fixed:split75".into(), vec![t(&format!("\"{}\" error", long_e)), "perr".into(), t(&format!("\"{}\"", long_e)), "fmt".into()]));
    for (name, steps) in fixed {
        ctx.tag(&format!("text:{}", name.split(':').next().unwrap()));
        let line = format!("T\t0\t{}", steps.join("\t"));
        let shown = format!("text: {} state=fresh steps: {}", name, steps.iter().map(|s| unesc_shown(s)).collect::<Vec<_>>().join(" ; "));
        plan.push(line, shown);
    }
}

/// A structured program paused in the middle (inside nested loops, calls, builders, a `case`), then sources typed at
/// the prompt while it is paused — failing at run time (they stay open on top of the paused program), rejected, or
/// fine — interleaved with stepping back over the point of the pause and forward again.
fn paused_probe_case(r: &mut Rng) -> (String, String) {
    const PROGS: &[&str] = &[
        "2 0 do I 2 0 do I loop loop", ": f 3 0 do I drop loop 5 ; f f 7", "[ 1 2 [ 3 4 ] 5 ] drop { 1 2 3 4 } drop 9", "3 0 do [ I I ] drop loop 1",
        ": g local a a 2 0 do a I + drop loop a ; 5 g 6 g", "[ 7 8 9 ] foreach I 2 0 do J drop loop loop 4", "2 case 1 of 10 endof 2 of 3 0 do I drop loop 20 endof drop 0 endcase",
        "begin depth 3 < while 2 0 do I loop repeat", ": h 1 2 + ; : k h h * ; 2 0 do k drop loop k", "0 var v 4 0 do v I + ! v loop v", "[ 1 2 ] foreach [ I ] foreach I drop loop loop 3",
        "|01 02 03 04| open-bitstr 2 0 do u8 drop loop u16 close-bitstr",
    ];
    const PROBES: &[&str] = &["1 0 /", "nosuch", "2 0 do I loop 1 0 /", "[ 1 0 / ]", "drop drop drop drop drop drop", ": pw 1 0 / ; pw", "I J K", "1 if", "nil 1 +", "{ 1 nil 1 + }",
        "3 0 do I 1 = if nil 1 + then loop", "[ 1 2 ] foreach I 0 / loop", "\"x\" error", "1 2 3", "depth 0 do drop loop", "2 0 do 2 0 do 1 0 / loop loop", ": q 2 0 do I 0 / loop ; q", "u8 u8 u8 u8 u8 u8"];
    let mut steps: Vec<String> = Vec::new();
    if r.chance(80) { steps.push("rec+".into()); }
    if r.chance(20) { steps.push(format!("bin={}", gen_bin_arg(r))); }
    steps.push(format!("compile={}", esc(*r.pick(PROGS))));
    for _ in 0..1 + r.below(3) {
        steps.push(format!("next={}", 1 + r.below(25)));
        for _ in 0..1 + r.below(2) {
            steps.push(format!("{}={}", if r.chance(85) { "eval" } else { "compile" }, esc(*r.pick(PROBES))));
        }
        if r.chance(30) { steps.push("perr".into()); }
        steps.push(format!("rnext={}", 1 + r.below(30)));
        steps.push(format!("next={}", 1 + r.below(30)));
        if r.chance(15) { steps.push("abort".into()); }
        if r.chance(15) { steps.push("clone".into()); }
    }
    steps.push("run".into());
    steps.push("perr".into());
    steps.push("fmt".into());
    let line = format!("T\t0\t{}", steps.join("\t"));
    let shown = format!("text: state=fresh steps: {}", steps.iter().map(|s| unesc_shown(s)).collect::<Vec<_>>().join(" ; "));
    (line, shown)
}

fn plan_texts(ctx: &mut Ctx, words: &[String], n: usize, plan: &mut Plan) {
    // the soups never name the shadowed words' originals — they are shadowed in the child anyway
    let soup_words: Vec<String> = words.iter().filter(|w| !DESTRUCTIVE.contains(&w.as_str())).cloned().collect();
    // builders whose contents reach below their own mark (`{`, `[`, `^{` opened on a stack that the body then eats into):
    // every one of them is an error value, in every drive mode — always part of the plan, whatever the random stream does
    for text in ["1 { drop }", "1 2 ^{ drop drop ^}", "1 [ drop drop ]", "1 2 3 { drop drop 7 }", "{ drop }", "[ drop ]", "5 ^{ drop ^}", "1 { [ drop drop ] }", "1 2 { swap drop drop 3 4 }",
        ": b { drop } ; 1 b", "1 [ { drop drop } ]", "1 2 [ rot ]", "9 { 1 2 rot }", "1 { over }", "1 #( { drop } #)", "1 2 [ drop { drop ]"] {
        for _ in 0..2 {
            let mut r = ctx.rng.fork();
            let (line, shown) = text_case(&mut r, text, false);
            ctx.tag("text:builder-underflow");
            plan.push(line, shown);
        }
    }
    for i in 0..n {
        let mut r = ctx.rng.fork();
        let kind = r.below(100);
        let mut long_limits = false;
        if kind >= 17 && kind <= 19 {
            let (line, shown) = paused_probe_case(&mut r);
            ctx.tag("text:paused-program-and-probes");
            plan.push(line, shown);
            continue;
        }
        let (text, tag): (String, &str) = match kind {
            // the rare shapes of the structured-program generator (a local whose `local` was skipped, names that change
            // their meaning, definitions inside definitions, recursion): what must be an error value there must not panic
            15..=16 => (crate::progen::shape(&mut r), "rare-shape"),
            0..=19 => (gen_soup(&mut r, &soup_words), "soup"),
            20..=24 => {
                let k = r.below(3);
                let p = match k { 0 => gen_bitprog(&mut r), 1 => gen_fmtprog(&mut r), _ => gen_d2prog(&mut r) };
                (mutate(&mut r, &p, &soup_words), "focused-mutated")
            }
            25..=44 => {
                let p = gen_program(&mut r, &soup_words, 0);
                if r.chance(15) { (mutate(&mut r, &p, &soup_words), "program-mutated") } else { (p, "program") }
            }
            45..=59 => {
                let p = gen_let(&mut r);
                if r.chance(15) { (mutate(&mut r, &p, &soup_words), "let-mutated") } else { (p, "let") }
            }
            60..=67 => (gen_enum(&mut r), "enum"),
            68..=77 => (gen_meta(&mut r, &soup_words), "meta"),
            78 => (gen_utf8(&mut r), "utf8"),
            79..=80 => (gen_literal_fuzz(&mut r), "literal-fuzz"),
            81 => {
                let big = if ctx.thorough { r.chance(5) } else { i % 5 == 0 };
                (gen_long_token(&mut r, big), "long-token")
            }
            82..=83 => (gen_bitprog(&mut r), "bitprog"),
            84..=85 => (gen_fmtprog(&mut r), "fmtprog"),
            86..=87 => (gen_d2prog(&mut r), "d2prog"),
            88..=93 => {
                // guarded allocation words inside loops / with computed sizes
                let p = format!(
                    "{} {}",
                    r.pick(&[
                        "1000 random-bits", "999999 random-bits length", "0 random-bits", "5 1000000 int!", "-1 999 uint!", "5 0 int!", "30 40 d2-resize d2-capture-rgba length",
                        "1000 1 d2-resize 0 0 d2-data", "0 0 d2-resize d2-capture-rgba", "1000 random-bits open-bitstr 3 bits 64 uint", "7 random-bits open-bitstr 7 int",
                        "100 8 * random-bits open-bitstr 5 bits drop nulbytestr cstr",
                    ]),
                    gen_soup(&mut r, &soup_words)
                );
                (p, "alloc-modest")
            }
            _ => {
                let big = if ctx.thorough { r.chance(3) } else { i % 7 == 0 };
                let (s, t) = gen_nesting(&mut r, big);
                long_limits = r.chance(40);
                (s, t)
            }
        };
        ctx.tag(&format!("text:{}", tag));
        let (line, shown) = text_case(&mut r, &text, long_limits);
        plan.push(line, shown);
    }
}

// ------------------------------------------------------------------------------------------------
// classification of crashes
// ------------------------------------------------------------------------------------------------
fn has_loop_or_def(shown: &str) -> bool {
    [" do ", "begin", " : ", "=: ", "foreach", "~)"].iter().any(|p| shown.contains(p))
}

fn nesting_tokens(shown: &str) -> usize {
    shown.split(|c: char| c == ' ' || c == '\\' || c == '\t').filter(|t| matches!(*t, "[" | "{" | "^{" | "eval=[" | "eval={" | "compile=[" | "compile={")).count()
}

/// nesting depth of the pattern that follows a `let` in the (full, unabridged) case text
fn let_pattern_depth(text: &str) -> Option<usize> {
    let toks: Vec<&str> = text.split(|c: char| c == ' ' || c == '\\' || c == '\t').collect();
    let mut best = None;
    let mut i = 0;
    while i < toks.len() {
        if toks[i] == "let" || toks[i].ends_with("=let") {
            let (mut d, mut m) = (0usize, 0usize);
            for t in &toks[i + 1..] {
                match *t {
                    "[" | "{" => {
                        d += 1;
                        m = m.max(d);
                    }
                    "]" | "}" => {
                        if d == 0 {
                            break;
                        }
                        d -= 1;
                    }
                    "^" => m = m.max(d + 1),
                    _ => {}
                }
            }
            best = Some(best.unwrap_or(0).max(m));
        }
        i += 1;
    }
    best
}

/// prefix decided from the input and the crash kind (known_findings.json matches on these)
fn finding_prefix(shown: &str, kind: &str, msg: &str) -> &'static str {
    if kind == "panic" && msg.contains("total order") {
        return "[incomparable-sort] ";
    }
    if kind.starts_with("stack-overflow") {
        if let Some(d) = let_pattern_depth(shown) {
            if d > 1000 {
                return "[deep-let-pattern] ";
            }
        }
        let builds = ["collect", "push", "insert", "with-tags", "]", "}"].iter().any(|w| shown.contains(w));
        if (has_loop_or_def(shown) && builds) || nesting_tokens(shown) >= 5000 {
            return "[deep-nesting] ";
        }
    }
    ""
}

// ------------------------------------------------------------------------------------------------
// the small correspondence part: outcome class of the modelled arithmetic words
// ------------------------------------------------------------------------------------------------
const ARITH: &[(&str, usize)] = &[
    ("+", 2), ("-", 2), ("*", 2), ("/", 2), ("rem", 2), ("min", 2), ("max", 2), ("<", 2), ("<=", 2), (">", 2), (">=", 2), ("==", 2), ("<>", 2), ("band", 2), ("bor", 2), ("bxor", 2),
    ("bsl", 2), ("bsr", 2), ("and", 2), ("or", 2), ("xor", 2), ("neg", 1), ("abs", 1), ("bnot", 1), ("popcnt", 1), ("round", 1), (">int", 1), (">real", 1), ("zero?", 1), ("positive?", 1),
    ("negative?", 1), ("not", 1),
];

fn arith_class(base: &Xstate, word: &str, args: &[Cell]) -> String {
    let mut xs = base.clone();
    let r = crate::guarded(|| {
        for a in args {
            xs.push_data(a.clone()).unwrap();
        }
        xs.eval(word)
    });
    match r {
        None => "panic".into(),
        Some(Ok(())) => "ok".into(),
        Some(Err(_)) => "err".into(),
    }
}

fn arith_correspondence(ctx: &mut Ctx) {
    let base = Xstate::boot().unwrap();
    let bi = boundary_ints();
    let br = boundary_reals();
    let mut emit = |ctx: &mut Ctx, w: &str, args: Vec<Cell>| {
        let out = arith_class(&base, w, &args);
        ctx.tag(&format!("arith:{}", out));
        let case = format!("C08 arith {} {}", w, canon::stack_str(&args)).trim_end().to_string();
        if out == "panic" {
            ctx.oracle_fail(case.clone(), "a result or an error value, never a panic".into(), "panic".into());
        } else {
            ctx.oracle_ok();
        }
        ctx.case(case, out);
    };
    // every word on the operands that used to panic and on the extremes
    let ext = [0i128, 1, -1, i128::MIN, i128::MAX, 127, 128, -128, 1 << 64];
    for (w, ar) in ARITH {
        if *ar == 2 {
            for a in ext {
                for b in ext {
                    emit(ctx, w, vec![Cell::Int(a), Cell::Int(b)]);
                }
            }
            for a in [0.0, -0.0, f64::NAN, f64::INFINITY, 1e300, 5e-324] {
                for b in [0.0, f64::NAN, f64::NEG_INFINITY, -1e300] {
                    emit(ctx, w, vec![Cell::Real(a), Cell::Real(b)]);
                }
            }
        } else {
            for a in bi.iter() {
                emit(ctx, w, vec![Cell::Int(*a)]);
            }
            for a in br.iter() {
                emit(ctx, w, vec![Cell::Real(*a)]);
            }
        }
    }
    let n = if ctx.thorough { 60_000 } else { 3_000 };
    for _ in 0..n {
        let (w, ar) = *ctx.rng.pick(ARITH);
        let ar = if ctx.rng.chance(5) { ctx.rng.below(3) } else { ar };
        let mut args = Vec::new();
        for _ in 0..ar {
            let r = &mut ctx.rng;
            let c = match r.below(8) {
                0..=2 => Cell::Int(gen_int(r)),
                3 | 4 => Cell::Real(gen_real(r)),
                5 => {
                    let c = Cell::Int(gen_int(r));
                    tag_it(r, c)
                }
                6 => Cell::Flag(r.bool()),
                _ => gen_other(r),
            };
            args.push(c);
        }
        emit(ctx, w, args);
    }
}

// ------------------------------------------------------------------------------------------------
// entry point
// ------------------------------------------------------------------------------------------------
fn immediate_words(words: &[String]) -> Vec<String> {
    let mut xs = Xstate::boot().unwrap();
    let _ = xeh::d2_plugin::load(&mut xs);
    xs.intercept_stdout(true);
    let mut v = Vec::new();
    for w in words {
        let _ = xs.read_stdout();
        if xs.eval(&format!("see {}", w)).is_ok() {
            if xs.read_stdout().unwrap_or_default().contains("#immediate") {
                v.push(w.clone());
            }
        }
    }
    v
}

#[derive(Default)]
struct Agg {
    /// crash signature → (count, smallest witness, observed)
    sigs: BTreeMap<String, (u64, String, String)>,
    slowest: (u64, String),
    per_word: BTreeMap<String, u64>,
    cases: u64,
}

/// run a plan in child processes and fold the results into the evidence; returns, per word, the
/// argument tuples on which the word reported `StackUnderflow` (it wants more arguments)
fn execute(ctx: &mut Ctx, dir: &str, plan: Plan, agg: &mut Agg, workers: usize, batch: usize) -> BTreeMap<usize, Vec<Vec<usize>>> {
    let mut hungry: BTreeMap<usize, Vec<Vec<usize>>> = BTreeMap::new();
    if plan.len() == 0 {
        return hungry;
    }
    let res = run_all(dir, &plan.lines, batch, workers);
    for (i, r) in res.iter().enumerate() {
        let shown = &plan.shown[i];
        agg.cases += 1;
        if let Some((_, _)) = &plan.meta[i] {
            let word = plan.lines[i].split('\t').nth(4).map(unesc).unwrap_or_default();
            *agg.per_word.entry(word).or_insert(0) += 1;
        }
        match r {
            Res::Done(s) => {
                let (ms, s) = s.split_once(' ').unwrap_or(("0", s.as_str()));
                let ms: u64 = ms.parse().unwrap_or(0);
                if ms > agg.slowest.0 {
                    agg.slowest = (ms, shown.chars().take(300).collect());
                }
                if ms >= 1000 {
                    ctx.tag("slow:>=1s");
                }
                let parts: Vec<&str> = s.split('\x01').collect();
                // parts[0] = outcome class (or "panic"), then (stage, message) pairs
                ctx.tag(&format!("outcome:{}", parts[0]));
                if parts[0] == "err:StackUnderflow" {
                    if let Some((w, a)) = &plan.meta[i] {
                        hungry.entry(*w).or_default().push(a.clone());
                    }
                }
                if shown.contains(" fixed:include-cycle") && !parts[0].starts_with("err") {
                    // the repaired include recursion must be refused with an error value
                    ctx.oracle_fail(shown.clone(), "an error value (include nesting too deep)".into(), parts[0].to_string());
                    continue;
                }
                if parts.len() == 1 {
                    ctx.oracle_ok();
                    continue;
                }
                for pm in parts[1..].chunks(2) {
                    let stage_ = pm[0];
                    let msg = unesc(pm.get(1).copied().unwrap_or(""));
                    if alloc_escape(&plan.lines[i]) && (msg.contains("capacity overflow") || (msg.contains("d2_plugin.rs") && msg.contains("multiply"))) {
                        ctx.tag("skipped:alloc");
                        continue;
                    }
                    ctx.tag(&format!("panic-in:{}", stage_));
                    let prefix = finding_prefix(&plan.lines[i], "panic", &msg);
                    let sig = format!("{}panic: {}", prefix, msg);
                    let e = agg.sigs.entry(sig).or_insert((0, String::new(), String::new()));
                    e.0 += 1;
                    if e.1.is_empty() || shown.len() < e.1.len() {
                        e.1 = format!("{}{}", prefix, shown);
                        e.2 = format!("panic in `{}`: {}", stage_, msg);
                    }
                }
            }
            Res::Died(kind, detail) => {
                if kind.starts_with("alloc-abort") && shown.starts_with("text:") && has_loop_or_def(&plan.lines[i]) {
                    // a looping program that grows a value until the allocator gives up: outside the
                    // property's precondition (allocation sizes are not modest)
                    ctx.tag("skipped:alloc-growth");
                    continue;
                }
                let k0 = kind.split(' ').next().unwrap_or("");
                if alloc_escape(&plan.lines[i]) && (k0 == "alloc-abort" || k0 == "hang") {
                    ctx.tag("skipped:alloc");
                    continue;
                }
                ctx.tag(&format!("outcome:process-died:{}", k0));
                let prefix = finding_prefix(&plan.lines[i], kind, detail);
                let what = if prefix.is_empty() { died_class(shown) } else { String::new() };
                let sig = format!("{}died: {} {}", prefix, k0, what);
                let e = agg.sigs.entry(sig).or_insert((0, String::new(), String::new()));
                e.0 += 1;
                if e.1.is_empty() || shown.len() < e.1.len() {
                    e.1 = format!("{}{}", prefix, shown);
                    e.2 = format!("process died ({}): {}", kind, detail);
                }
            }
        }
    }
    hungry
}

/// a text that names one of the four allocating words can still reach the real word with a huge size
/// (the clamping wrapper is bypassed when a failed call is re-executed by `next`/`run` on the cells
/// underneath): an allocator abort, a time-out or a size-overflow panic of such a text is the excluded
/// "immodest allocation request", not a failure
fn alloc_escape(line: &str) -> bool {
    line.starts_with("T\t") && ["random-bits", "int!", "uint!", "d2-resize"].iter().any(|w| line.contains(w))
}

/// coarse class of a case whose process died, so that one mechanism gives one signature
fn died_class(shown: &str) -> String {
    if let Some(r) = shown.strip_prefix("word×args: ") {
        // the word
        return r.split("eval(").nth(1).map(|x| x.chars().take_while(|c| *c != ')').collect()).unwrap_or_default();
    }
    for k in ["let [", "let {", "let ^", "let"] {
        if shown.contains(k) {
            return format!("text with `{}`", k);
        }
    }
    shown.chars().take(60).collect()
}

pub fn run(ctx: &mut Ctx) {
    let args: Vec<String> = std::env::args().collect();
    if let Some(b) = args.get(6).and_then(|a| a.strip_prefix("child:")) {
        child_main(b);
        return;
    }
    let outdir = args.get(5).cloned().unwrap_or_else(|| ".".into());
    let dir = format!("{}/c08tmp.{}{}", outdir, std::process::id(), if ctx.release { ".release" } else { "" });
    std::fs::create_dir_all(&dir).unwrap();
    let dir = std::fs::canonicalize(&dir).unwrap().to_string_lossy().to_string();

    // the dictionary is read at run time: new words are covered without touching this file
    let mut words: Vec<String> = {
        let mut xs = Xstate::boot().unwrap();
        xeh::d2_plugin::load(&mut xs).unwrap();
        xs.word_list().iter().map(|w| w.to_string()).collect()
    };
    words.sort();
    words.dedup();
    let imm = immediate_words(&words);
    ctx.note(format!("dictionary: {} distinct words ({} immediate), {} argument values in {} classes", words.len(), imm.len(), values().len(), {
        let mut c: Vec<&str> = values().iter().map(|v| v.class).collect();
        c.sort();
        c.dedup();
        c.len()
    }));
    ctx.note("C08 exploration is search, not proof: a clean run shows that no crash was found among the cases counted here, nothing more".into());
    let vals = values();
    let workers = std::env::var("C08_WORKERS").ok().and_then(|s| s.parse().ok()).unwrap_or(if ctx.thorough { 10 } else { 6 });
    let mut agg = Agg::default();
    let nw = words.len();

    // round 0: fixed texts (known findings, regression witnesses of repaired defects)
    let mut plan = Plan::default();
    plan_fixed_texts(&mut plan, ctx);
    execute(ctx, &dir, plan, &mut agg, workers, 2000);

    // round 1: arity 0 and 1, complete
    let mut plan = Plan::default();
    plan_arity01(ctx, &words, &vals, &mut plan);
    let hungry1 = execute(ctx, &dir, plan, &mut agg, workers, 2000);

    if ctx.thorough {
        // rounds 2/3 (thorough): full arity-2 product, arity 3 guided by it plus the full class product
        let mut hungry2: BTreeMap<usize, Vec<Vec<usize>>> = BTreeMap::new();
        let step = 12;
        let mut w0 = 0;
        while w0 < nw {
            let w1 = (w0 + step).min(nw);
            let mut plan = Plan::default();
            plan_full2(ctx, &words, &vals, w0..w1, &mut plan);
            plan_full3_classes(ctx, &words, &vals, w0..w1, &mut plan);
            for (w, t) in execute(ctx, &dir, plan, &mut agg, workers, 2000) {
                hungry2.entry(w).or_default().extend(t.into_iter().filter(|t| t.len() == 2));
            }
            w0 = w1;
        }
        let mut plan = Plan::default();
        plan_guided(ctx, &words, &vals, &hungry2, 40_000, &mut plan);
        execute(ctx, &dir, plan, &mut agg, workers, 2000);
    } else {
        // rounds 2/3 (quick): sampled, guided by which argument tuples left the word asking for more
        let cap2 = (ctx.n / 2 / hungry1.len().max(1)).max(10);
        let cap3 = (ctx.n / 5 / nw.max(1)).max(5);
        let mut plan = Plan::default();
        let hungry1: BTreeMap<usize, Vec<Vec<usize>>> = hungry1.into_iter().map(|(w, t)| (w, t.into_iter().filter(|t| t.len() == 1).collect::<Vec<_>>())).filter(|(_, t)| !t.is_empty()).collect();
        plan_guided(ctx, &words, &vals, &hungry1, cap2, &mut plan);
        let hungry2 = execute(ctx, &dir, plan, &mut agg, workers, 2000);
        let hungry2: BTreeMap<usize, Vec<Vec<usize>>> = hungry2.into_iter().map(|(w, t)| (w, t.into_iter().filter(|t| t.len() == 2).collect::<Vec<_>>())).filter(|(_, t)| !t.is_empty()).collect();
        let mut plan = Plan::default();
        plan_guided(ctx, &words, &vals, &hungry2, cap3, &mut plan);
        execute(ctx, &dir, plan, &mut agg, workers, 2000);
    }
    let mut plan = Plan::default();
    let n_rand = if ctx.thorough { 400_000 } else { ctx.n / 12 };
    plan_random(ctx, &words, &vals, n_rand, &mut plan);
    execute(ctx, &dir, plan, &mut agg, workers, 2000);
    let n_word_cases = agg.cases;

    // texts, in chunks (a chunk of deep-nesting texts can be large)
    let n_texts = if ctx.thorough { 500_000 } else { (ctx.n / 8).max(200) };
    let mut done = 0;
    while done < n_texts {
        let k = (n_texts - done).min(50_000);
        let mut plan = Plan::default();
        plan_texts(ctx, &words, k, &mut plan);
        execute(ctx, &dir, plan, &mut agg, workers, 250);
        if ctx.thorough {
            eprintln!("C08: {} of {} texts done", done + k, n_texts);
        }
        done += k;
    }
    ctx.note(format!("ran: {} word×argument cases (incl. fixed texts), {} generated texts", n_word_cases, n_texts));
    let min_cov = agg.per_word.values().min().copied().unwrap_or(0);
    let uncovered: Vec<&String> = words.iter().filter(|w| !agg.per_word.contains_key(*w) && !DESTRUCTIVE.contains(&w.as_str())).collect();
    ctx.note(format!("word coverage: {} of {} words exercised by word×argument cases (min {} cases per word); not exercised: {:?}; excluded: {:?}", agg.per_word.len(), nw, min_cov, uncovered, DESTRUCTIVE));
    if std::env::var("C08_KEEP").is_err() {
        let _ = std::fs::remove_dir_all(&dir);
    }
    ctx.note(format!("slowest case: {} ms: {}", agg.slowest.0, agg.slowest.1));
    let profile = if ctx.release { "release" } else { "debug" };
    for (_sig, (count, case, observed)) in std::mem::take(&mut agg.sigs) {
        ctx.oracle_fail(case, "every call returns a result or an error value; the process never panics, aborts or traps".into(), format!("{} [{} case(s) with this signature, {} profile]", observed, count, profile));
    }
    arith_correspondence(ctx);
}
