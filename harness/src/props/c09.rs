//! C09 — arithmetic, comparison and bitwise words.
//! Correspondence: `C09 <word> <operands bottom-first>` → canonical outcome.
//! Oracle (implementation only): exactness against Rust's checked i128 arithmetic / hardware f64,
//! overflow ⇒ wrapped-or-overflow-error, zero divisors ⇒ DivisionByZero, type errors report an operand.
use super::gen::*;
use crate::canon;
use crate::Ctx;
use xeh::prelude::*;

const BIN: &[&str] = &["+", "-", "*", "/", "rem", "min", "max", "<", "<=", ">", ">=", "==", "<>", "band", "bor", "bxor", "bsl", "bsr", "and", "or", "xor"];
const UN: &[&str] = &["neg", "abs", "bnot", "popcnt", "round", ">int", ">real", "zero?", "positive?", "negative?", "not"];

fn run_word(base: &Xstate, word: &str, args: &[Cell]) -> String {
    let mut xs = base.clone();
    let r = crate::guarded(|| {
        for a in args {
            xs.push_data(a.clone()).unwrap();
        }
        let res = xs.eval(word);
        (res, canon::stack(&xs))
    });
    match r {
        None => "panic".into(),
        Some((Ok(()), st)) => {
            let st: Vec<Cell> = st.iter().map(canon::canon_nan).collect();
            canon::ok_stack(&st)
        }
        Some((Err(e), _)) => {
            let e = match e {
                Xerr::TypeErrorMsg { val, msg } => Xerr::TypeErrorMsg { val: canon::canon_nan(&val), msg },
                e => e,
            };
            format!("err {}", canon::err(&e))
        }
    }
}

fn is_num(c: &Cell) -> bool {
    matches!(c.value(), Cell::Int(_) | Cell::Real(_))
}

fn same_f(a: f64, b: f64) -> bool {
    (a.is_nan() && b.is_nan()) || a.to_bits() == b.to_bits()
}

fn zero_insensitive(a: f64, b: f64) -> bool {
    same_f(a, b) || (a == 0.0 && b == 0.0)
}

/// implementation-side statement of the property for one case
fn oracle(ctx: &mut Ctx, word: &str, args: &[Cell], out: &str) {
    let case = || format!("C09 {} {}", word, canon::stack_str(args));
    let fail = |ctx: &mut Ctx, exp: String| ctx.oracle_fail(case(), exp, out.to_string());
    if out == "panic" {
        return fail(ctx, "a result or an error value, never a panic".into());
    }
    let ints: Vec<Option<i128>> = args.iter().map(|c| if let Cell::Int(i) = c.value() { Some(*i) } else { None }).collect();
    let reals: Vec<Option<f64>> = args.iter().map(|c| if let Cell::Real(r) = c.value() { Some(*r) } else { None }).collect();
    let okv = |c: Cell| canon::ok_stack(&[canon::canon_nan(&c)]);
    // type errors must quote one of the actual operands
    if out.starts_with("err TypeErrorMsg:") {
        let quoted = out["err TypeErrorMsg:".len()..].rsplitn(2, ':').last().unwrap().to_string();
        let ok = args.iter().any(|a| canon::cell(&canon::canon_nan(a)) == quoted || canon::cell(&canon::canon_nan(a.value())) == quoted);
        // a type error is legitimate only when the operands are not a homogeneous numeric pair
        let homogeneous = ints.iter().all(|x| x.is_some()) || reals.iter().all(|x| x.is_some());
        let int_only = matches!(word, "band" | "bor" | "bxor" | "bsl" | "bsr" | "bnot" | "popcnt");
        let real_only = word == "round";
        let logic = matches!(word, "and" | "or" | "xor" | "not");
        let legit = logic || !homogeneous || (int_only && ints.iter().any(|x| x.is_none())) || (real_only && reals.iter().any(|x| x.is_none()));
        if !ok {
            return fail(ctx, "type error quoting one of the operands".into());
        }
        if !legit && !matches!(word, ">int" | ">real") {
            return fail(ctx, "no type error on homogeneous numeric operands".into());
        }
        return ctx.oracle_ok();
    }
    if args.len() == 2 {
        if let (Some(a), Some(b)) = (ints[0], ints[1]) {
            let exact: Option<Option<i128>> = match word {
                "+" => Some(a.checked_add(b)),
                "-" => Some(a.checked_sub(b)),
                "*" => Some(a.checked_mul(b)),
                "/" => if b == 0 { None } else { Some(a.checked_div(b)) },
                "rem" => if b == 0 { None } else { Some(Some(a.wrapping_rem(b))) },
                "min" => Some(Some(a.min(b))),
                "max" => Some(Some(a.max(b))),
                "band" => Some(Some(a & b)),
                "bor" => Some(Some(a | b)),
                "bxor" => Some(Some(a ^ b)),
                "bsl" if (0..=127).contains(&b) => Some(if (a.wrapping_shl(b as u32) >> (b as u32)) == a { Some(a.wrapping_shl(b as u32)) } else { None }),
                "bsr" if (0..=127).contains(&b) => Some(Some(a >> b)),
                _ => None,
            };
            let wrapped: Option<i128> = match word {
                "+" => Some(a.wrapping_add(b)),
                "-" => Some(a.wrapping_sub(b)),
                "*" => Some(a.wrapping_mul(b)),
                "/" if b != 0 => Some(a.wrapping_div(b)),
                "bsl" if (0..=127).contains(&b) => Some(a.wrapping_shl(b as u32)),
                _ => None,
            };
            if matches!(word, "/" | "rem") && b == 0 {
                return ctx.check(out == "err DivisionByZero", case, || "err DivisionByZero".into(), || out.into());
            }
            match exact {
                Some(Some(v)) => return ctx.check(out == okv(Cell::Int(v)), case, || okv(Cell::Int(v)), || out.into()),
                Some(None) => {
                    let w = wrapped.map(|w| okv(Cell::Int(w)));
                    let ok = out == "err IntegerOverflow" || Some(out.to_string()) == w;
                    return ctx.check(ok, case, || "wrapped value or IntegerOverflow".into(), || out.into());
                }
                None => {}
            }
            let cmp: Option<bool> = match word {
                "<" => Some(a < b), "<=" => Some(a <= b), ">" => Some(a > b), ">=" => Some(a >= b), "==" => Some(a == b), "<>" => Some(a != b),
                _ => None,
            };
            if let Some(f) = cmp {
                return ctx.check(out == okv(Cell::Flag(f)), case, || okv(Cell::Flag(f)), || out.into());
            }
        }
        if let (Some(a), Some(b)) = (reals[0], reals[1]) {
            if word == "/" && b == 0.0 {
                return ctx.check(out == "err DivisionByZero", case, || "err DivisionByZero".into(), || out.into());
            }
            let v: Option<f64> = match word {
                "+" => Some(a + b), "-" => Some(a - b), "*" => Some(a * b), "/" => Some(a / b), "rem" => Some(a % b),
                "min" => Some(a.min(b)), "max" => Some(a.max(b)),
                _ => None,
            };
            if let Some(v) = v {
                let exp = okv(Cell::Real(v));
                let ok = out == exp || (matches!(word, "min" | "max") && a == 0.0 && b == 0.0 && (out == okv(Cell::Real(0.0)) || out == okv(Cell::Real(-0.0))));
                return ctx.check(ok, case, || exp.clone(), || out.into());
            }
            if !a.is_nan() && !b.is_nan() {
                let cmp: Option<bool> = match word {
                    "<" => Some(a < b), "<=" => Some(a <= b), ">" => Some(a > b), ">=" => Some(a >= b), "==" => Some(a == b), "<>" => Some(a != b),
                    _ => None,
                };
                if let Some(f) = cmp {
                    return ctx.check(out == okv(Cell::Flag(f)), case, || okv(Cell::Flag(f)), || out.into());
                }
            }
        }
    }
    if args.len() == 1 {
        if let Some(a) = ints[0] {
            let exp: Option<String> = match word {
                "neg" => Some(a.checked_neg().map(|v| okv(Cell::Int(v))).unwrap_or("err IntegerOverflow".into())),
                "abs" => Some(a.checked_abs().map(|v| okv(Cell::Int(v))).unwrap_or("err IntegerOverflow".into())),
                "bnot" => Some(okv(Cell::Int(!a))),
                "popcnt" => Some(okv(Cell::Int(a.count_ones() as i128))),
                "zero?" => Some(okv(Cell::Flag(a == 0))),
                "positive?" => Some(okv(Cell::Flag(a > 0))),
                "negative?" => Some(okv(Cell::Flag(a < 0))),
                ">real" => Some(okv(Cell::Real(a as f64))),
                _ => None,
            };
            if let Some(exp) = exp {
                let ok = out == exp || (matches!(word, "neg" | "abs") && a == i128::MIN && out == okv(Cell::Int(i128::MIN)));
                return ctx.check(ok, case, || exp.clone(), || out.into());
            }
        }
        if let Some(a) = reals[0] {
            let exp: Option<String> = match word {
                "neg" => Some(okv(Cell::Real(-a))),
                "abs" => Some(okv(Cell::Real(a.abs()))),
                "round" => Some(okv(Cell::Real(a.round()))),
                "zero?" if !a.is_nan() => Some(okv(Cell::Flag(a == 0.0))),
                "positive?" if !a.is_nan() => Some(okv(Cell::Flag(a > 0.0))),
                "negative?" if !a.is_nan() => Some(okv(Cell::Flag(a < 0.0))),
                // inside the i128 range: truncation toward zero, exactly
                ">int" if a.is_finite() && a.abs() < 1.7e38 => Some(okv(Cell::Int(a.trunc() as i128))),
                _ => None,
            };
            if let Some(exp) = exp {
                return ctx.check(out == exp, case, || exp.clone(), || out.into());
            }
        }
    }
    // mixed int/real operands to a binary arithmetic word: must be a type error (handled above) — anything else is wrong
    if args.len() == 2 && is_num(&args[0]) && is_num(&args[1]) && ints[0].is_some() != ints[1].is_some() && !matches!(word, "and" | "or" | "xor") {
        return fail(ctx, "type error for mixed int/real operands".into());
    }
    let _ = (same_f, zero_insensitive);
}

fn gen_operand(ctx: &mut Ctx, kind: usize) -> Cell {
    let r = &mut ctx.rng;
    match kind {
        0 => Cell::Int(gen_int(r)),
        1 => Cell::Real(gen_real(r)),
        2 => { let c = Cell::Int(gen_int(r)); tag_it(r, c) }
        3 => { let c = Cell::Real(gen_real(r)); tag_it(r, c) }
        4 => Cell::Flag(r.bool()),
        _ => gen_other(r),
    }
}

pub fn run(ctx: &mut Ctx) {
    let base = Xstate::boot().unwrap();
    let mut emit2 = |ctx: &mut Ctx, word: &str, args: Vec<Cell>, under: bool| {
        let mut full = args.clone();
        if under { full.insert(0, Cell::Int(42)); }
        let out = run_word(&base, word, &full);
        let kind = |c: &Cell| match c { Cell::WithTag(_) => "tagged", _ => match c.value() { Cell::Int(_) => "int", Cell::Real(_) => "real", Cell::Flag(_) => "flag", _ => "other" } };
        let shape = args.iter().map(kind).collect::<Vec<_>>().join(",");
        ctx.tag(&format!("word:{}", word));
        ctx.tag(&format!("operands:{}", shape));
        ctx.tag(&format!("outcome:{}", out.split(|c| c == ' ' || c == ':').take(2).collect::<Vec<_>>().join(" ").replace(" i-", " int").split(' ').take(if out.starts_with("err") { 2 } else { 1 }).collect::<Vec<_>>().join(":")));
        if under {
            // the cell underneath the operands must be left alone
            if out.starts_with("ok") {
                if let Some(rest) = out.strip_prefix("ok i42") {
                    let o = format!("ok{}", rest);
                    oracle(ctx, word, &args, &o);
                } else {
                    ctx.oracle_fail(format!("C09 {} {}", word, canon::stack_str(&full)), "cell under the operands untouched".into(), out.clone());
                }
            } else {
                oracle(ctx, word, &args, &out);
            }
        } else {
            oracle(ctx, word, &args, &out);
        }
        ctx.case(format!("C09 {} {}", word, canon::stack_str(&full)).trim_end().to_string(), out);
    };
    let mut emit = |ctx: &mut Ctx, word: &str, args: Vec<Cell>| emit2(ctx, word, args, false);
    // 1. boundary x boundary integers for every binary word (thorough: full product; quick: sampled rows)
    let bi = boundary_ints();
    let step = if ctx.thorough { 1 } else { 5 };
    for w in BIN {
        if matches!(*w, "and" | "or" | "xor") { continue; }
        for (i, a) in bi.iter().enumerate() {
            for (j, b) in bi.iter().enumerate() {
                if (i + 2 * j) % step != 0 { continue; }
                emit(ctx, w, vec![Cell::Int(*a), Cell::Int(*b)]);
            }
        }
    }
    // 2. shift counts 0..127 (and a few outside) against boundary values
    for w in ["bsl", "bsr"] {
        for k in -2i128..=130 {
            for a in [1i128, -1, 3, i128::MAX, i128::MIN, 0x5555_5555_5555_5555, -0x1234_5678_9abc_def0] {
                emit(ctx, w, vec![Cell::Int(a), Cell::Int(k)]);
            }
        }
    }
    // 3. unary words on all boundary ints and reals
    for w in UN {
        for a in bi.iter() { emit(ctx, w, vec![Cell::Int(*a)]); }
        for a in boundary_reals() { emit(ctx, w, vec![Cell::Real(a)]); }
    }
    // 4. boundary reals x boundary reals
    let br = boundary_reals();
    for w in ["+", "-", "*", "/", "rem", "min", "max", "<", "<=", ">", ">=", "==", "<>"] {
        for (i, a) in br.iter().enumerate() {
            for (j, b) in br.iter().enumerate() {
                if !ctx.thorough && (i + j) % 3 != 0 { continue; }
                emit(ctx, w, vec![Cell::Real(*a), Cell::Real(*b)]);
            }
        }
    }
    // 5. random, every operand-type combination, stack underflow included
    for _ in 0..ctx.n {
        let binary = ctx.rng.chance(65);
        let w = if binary { *ctx.rng.pick(BIN) } else { *ctx.rng.pick(UN) };
        let arity = if ctx.rng.chance(4) { ctx.rng.below(2) } else if binary { 2 } else { 1 };
        let homog = ctx.rng.below(10);
        let mut args = Vec::new();
        let k0 = match homog { 0..=3 => 0, 4..=6 => 1, _ => ctx.rng.below(6) };
        for i in 0..arity {
            let k = if homog <= 6 || i == 0 { k0 } else { ctx.rng.below(6) };
            let k = if matches!(w, "and" | "or" | "xor" | "not") && ctx.rng.chance(70) { 4 } else { k };
            args.push(gen_operand(ctx, k));
        }
        let under = arity == (if binary { 2 } else { 1 }) && ctx.rng.chance(20);
        emit2(ctx, w, args, under);
    }
}
