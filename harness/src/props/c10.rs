//! C10 — a source that fails to build has no effect on anything submitted afterwards; a line that
//! fails at run time is not re-executed by later lines.
//!
//! A case is a *history* on one interpreter: good sources (definitions, variables, pushes), then a
//! rejected source (a well-formed prefix that leaves any combination of open control structures,
//! definitions, builders and meta blocks; a failing token; trailing text), then probe sources.
//! Correspondence: the whole history is one `C10 sess` request — the session model must give the same
//! result and the same interpreter state after every source, and the same final bytecode.
//! Oracle (implementation only, the property's own statement): the history with the rejected source
//! and the history without it are run on two copies; after the rejected source and after every probe
//! the two interpreters must be in the same state and every probe must give the same result and
//! output. For a line that fails while running (REPL style: compile, run, abort_run on failure) the
//! later lines must all succeed and must not print the failed line's marker again.
use crate::canon;
use crate::progen::{gen_program, GenCfg};
use crate::props::c01::{dict_for, lex_all};
use crate::rng::Rng;
use crate::vmcanon;
use crate::Ctx;
use xeh::prelude::*;

pub const LIMIT: usize = 30000;

pub fn rel_di(dict0: usize, n: usize) -> String {
    if n >= dict0 && n != 0 { format!("+{}", n - dict0) } else { format!("abs{}", n) }
}

/// twin of `Driver/Sess.lean digest`
pub fn digest(xs: &mut Xstate, dict0: usize) -> String {
    let d = xs.verif_dump();
    format!("{},mode={},nested={},flows={},code={},dmap={},dict={},marks={}/{}/{}/{}/{}/{}/{}",
        vmcanon::full_dump(xs), d.mode, d.nested, d.flows, d.code_len, d.debug_map_len, format!("+{}", d.dict_len - dict0),
        d.marks[0], d.marks[1], d.marks[2], d.marks[3], d.marks[4], d.marks[5], rel_di(dict0, d.marks[6]))
}

/// everything observable except the instruction meter and accumulated output (the count of interned sources is
/// part of it since repair 46ce09e: a rejected source is no longer kept in that list)
fn state_sig(xs: &mut Xstate) -> String {
    let d = xs.verif_dump();
    let vars: Vec<String> = xs.var_list().iter().map(|(n, c)| format!("{}={}", n, canon::cell(c))).collect();
    format!("{} mode={} nested={} flows={} inputs={} sources={} code={} dmap={} dict={} marks={:?} log={:?} stop={} words={} vars={} code=[{}]",
        vmcanon::core_dump(&d), d.mode, d.nested, d.flows, d.pending_inputs, d.sources, d.code_len, d.debug_map_len, d.dict_len, d.marks,
        d.reverse_log_len, d.about_to_stop, xs.word_list().len(), vars.join(","), vmcanon::code_str(xs))
}

#[derive(Clone)]
pub enum Op { Eval(String), Compile(String), Run, Abort, Line(String) }

impl Op {
    pub fn text(&self) -> String {
        match self { Op::Eval(s) => format!("eval `{}`", s), Op::Compile(s) => format!("compile `{}`", s), Op::Run => "run".into(), Op::Abort => "abort_run".into(), Op::Line(s) => format!("line `{}`", s) }
    }
    fn src(&self) -> Option<&str> {
        match self { Op::Eval(s) | Op::Compile(s) | Op::Line(s) => Some(s), _ => None }
    }
}

/// apply one operation; the answer in the protocol's vocabulary (`ok` / `rej e` / `fail e` / `panic`)
pub fn apply(xs: &mut Xstate, op: &Op) -> String {
    let res = |r: Option<Xresult>, rejected: bool| match r {
        None => "panic".to_string(),
        Some(Ok(())) => "ok".to_string(),
        Some(Err(e)) => format!("{} {}", if rejected { "rej" } else { "fail" }, canon::err(&e)),
    };
    match op {
        Op::Eval(s) => {
            let mut probe = xs.clone();
            let rejected = matches!(crate::guarded(|| probe.compile(s)), Some(Err(_)));
            res(crate::guarded(|| xs.eval(s)), rejected)
        }
        Op::Compile(s) => res(crate::guarded(|| xs.compile(s)), true),
        Op::Run => res(crate::guarded(|| xs.run()), false),
        Op::Abort => { xs.abort_run(); "ok".into() }
        Op::Line(s) => {
            // what src/repl.rs run_line does
            let r = crate::guarded(|| xs.compile(s));
            match r {
                Some(Ok(())) => {
                    let r2 = crate::guarded(|| xs.run());
                    if !matches!(r2, Some(Ok(()))) { xs.abort_run(); }
                    res(r2, false)
                }
                other => { xs.abort_run(); res(other, true) }
            }
        }
    }
}

fn fresh() -> Xstate { fresh_lim(LIMIT) }

pub fn fresh_lim(limit: usize) -> Xstate {
    let mut xs = Xstate::boot().unwrap();
    xs.intercept_stdout(true);
    xs.set_insn_limit(Some(limit)).unwrap();
    xs
}

const GOOD: &[&str] = &[
    "1 2 3", "10 var a", "a 1 + ! a", ": sq dup * ;", ": add3 3 + ;", "4 sq", "[ 1 2 3 ] var vv", "7 add3", "\"s\" var str",
    ": fact dup 1 > if dup 1 - fact * then ;", "3 fact", "late lw : uses-lw lw ;", ": lw 5 ;", "#( 2 3 * #)", "#( 7 const seven #) seven",
    "drop", "depth", "5 0 do I loop", ": loc local x x x + ;", "21 loc", "{ 1 2 }", "1 if 2 else 3 then", "nil",
];

/// well-formed prefixes that leave something open: (text, opens a meta block?)
const OPENERS: &[&str] = &[
    "1 if", "1 if 2 else", "begin 1", "begin 0 while", "5 0 do I", "[ 1 2", "{ 1", ": half 2", ": q local z z", "1 case 1 of 5",
    "#( 1 2", "#( : mf 1 ;", "#( 3 const c3", "#( #( 1", "#( [ 1", "#( 1 if", ": w #( 2", "[ #( 1 2 + #)", "9 8", "",
];

const FAILING: &[&str] = &[
    "foo-unknown", "then", ";", "]", "}", "#)", "endcase", "loop", "repeat", "until", "else", "endof", "break", "9 var inside", "4 const k4",
    "! nosuch", "local lx", ":", "var", "const", "late", "#( 1 0 / #)", "#( drop #)", "#( a #)", "#( 5 ! a #)", "#( 1 var mv #)", "#( nosuch #)",
    "#( 1 2 + ) #)", "#( \"str\" 1 + #)", "#( : g 1 0 / ; g #)", "#( begin #)",
];

const TRAILING: &[&str] = &["", "2 3", "\"tail\" print", ": never 1 ;", "99 var never-var", "drop drop drop", "then ; ]", "#( 1 #)", "1 0 /"];

const PROBES: &[&str] = &[
    "4", "depth", "5 var pv pv", ": pg 1 2 + ; pg", "1 if 2 else 3 then", "3 0 do I loop", "[ 1 2 ]", "#( 1 2 + #)", "#( 6 const six #) six",
    "begin 1 until", "0 case 0 of 7 endof endcase", ": ploc local y y ; 8 ploc", "late pl : upl pl ; : pl 3 ; upl", "depth drop", "nil nil?",
    "a", "sq", "vv", "lw", "seven", "half", "mf", "c3", "never", "never-var", "inside", "k4", "mv", "g", "\"p\" print", "I", "drop",
];

fn gen_rejected(r: &mut Rng) -> String {
    let mut parts: Vec<&str> = Vec::new();
    for _ in 0..r.below(3) { parts.push(*r.pick(OPENERS)); }
    parts.push(*r.pick(FAILING));
    parts.push(*r.pick(TRAILING));
    parts.into_iter().filter(|s| !s.is_empty()).collect::<Vec<_>>().join(" ")
}

fn gen_good(r: &mut Rng, cfg: &GenCfg) -> String {
    if r.chance(25) { gen_program(r, cfg).0 } else { (*r.pick(GOOD)).to_string() }
}

fn op_code(op: &Op) -> Option<String> {
    let enc = |k: &str, s: &str| lex_all(s).map(|t| format!("{}:{}", k, t.text.join("|")));
    match op {
        Op::Eval(s) => enc("e", s),
        Op::Compile(s) => enc("c", s),
        Op::Line(s) => enc("l", s),
        Op::Run => Some("r".into()),
        Op::Abort => Some("a".into()),
    }
}

/// the whole history as one request for the session model
pub fn correspondence(ctx: &mut Ctx, pid: &str, ops: &[Op]) { correspondence_lim(ctx, pid, ops, LIMIT) }

/// the same under an instruction limit of the caller's choice
pub fn correspondence_lim(ctx: &mut Ctx, pid: &str, ops: &[Op], limit: usize) {
    // the model's dictionary is never empty, so that a context mark of 0 (absolute) and a mark at the boot
    // dictionary's size (relative +0) cannot be confused
    let mut words: Vec<String> = vec!["dup".to_string()];
    let mut codes: Vec<String> = Vec::new();
    for op in ops {
        match op_code(op) {
            Some(c) => codes.push(c),
            None => { ctx.tag("corr:skipped-lex-error"); return; }
        }
        if let Some(s) = op.src() { if let Some(t) = lex_all(s) { words.extend(t.words); } }
    }
    let mut xs = fresh_lim(limit);
    let d = xs.verif_dump();
    let dict0 = d.dict_len;
    let req = format!("{} sess dict={} heap=v({}) lim={}/-/- ops={}", pid, dict_for(&xs, &words),
        d.heap.iter().map(canon::cell).collect::<Vec<_>>().join(","), limit, codes.join(";"));
    let mut answers: Vec<String> = Vec::new();
    for op in ops {
        let a = apply(&mut xs, op);
        if a == "panic" { answers.push("panic@".into()); break; }
        answers.push(format!("{}@{}", a, digest(&mut xs, dict0)));
    }
    ctx.case(req, format!("{}#code={}", answers.join(";"), vmcanon::code_str(&xs)));
}

fn styled(r: &mut Rng, style: usize, s: String) -> Vec<Op> {
    match style {
        0 => vec![Op::Eval(s)],
        1 => vec![Op::Line(s)],
        _ => if r.bool() { vec![Op::Compile(s), Op::Run] } else { vec![Op::Eval(s)] },
    }
}

pub fn run(ctx: &mut Ctx) {
    let cfg = GenCfg { endless: false, malformed_percent: 0, max_depth: 2, max_stmts: 3, ..GenCfg::default() };
    for _ in 0..ctx.n {
        let style = ctx.rng.below(3);
        ctx.tag(["style:eval", "style:repl-line", "style:mixed"][style]);
        let mut pre: Vec<Op> = Vec::new();
        for _ in 0..ctx.rng.below(4) { let g = gen_good(&mut ctx.rng, &cfg); pre.extend(styled(&mut ctx.rng, style, g)); }
        let runtime_failure = ctx.rng.chance(25);
        if runtime_failure {
            // --- a line that fails while it runs
            ctx.tag("kind:runtime-failure");
            let marker = format!("MARK{}", ctx.rng.below(1000));
            let body = *ctx.rng.pick(&["1 0 /", "drop drop drop drop drop drop drop drop drop", "\"x\" 1 +", ": boom 1 0 / ; boom 5", "3 0 do 1 0 / loop", "[ 1 0 / ]", "nosuchvar-at-all"]);
            let line = format!("\"{}\" print 11 {} 22", marker, body);
            let bad = if style == 0 { Op::Eval(line.clone()) } else { Op::Line(line.clone()) };
            let mut ops = pre.clone();
            ops.push(bad.clone());
            let nprobes = ctx.rng.below(3) + 1;
            let probes: Vec<Op> = (0..nprobes).map(|_| {
                let p = (*ctx.rng.pick(&["depth drop 7 8 +", "5 var rv rv", ": rp 1 ; rp", "#( 2 2 * #)", "[ 1 ]", "3 0 do I loop"])).to_string();
                if style == 0 { Op::Eval(p) } else { Op::Line(p) }
            }).collect();
            ops.extend(probes.iter().cloned());
            correspondence(ctx, "C10", &ops);
            let mut xs = fresh();
            for op in &pre { apply(&mut xs, op); }
            let r = apply(&mut xs, &bad);
            let hist = || ops.iter().map(|o| o.text()).collect::<Vec<_>>().join("; ");
            if r == "ok" || r.starts_with("rej") { ctx.tag("runtime-failure:did-not-fail"); }
            for p in &probes {
                let out0 = xs.stdout().map(|s| s.len()).unwrap_or(0);
                let r = apply(&mut xs, p);
                let out = xs.stdout().map(|s| s[out0..].to_string()).unwrap_or_default();
                ctx.check(r == "ok" && !out.contains(&marker), || format!("C10 runtime-failure {}", hist()),
                    || "every later line succeeds and prints nothing of the failed line".into(), || format!("{} -> {} out={:?}", p.text(), r, out));
            }
            continue;
        }
        // --- a rejected source
        let mut rejected_src = gen_rejected(&mut ctx.rng);
        let mut extra_probe: Option<String> = None;
        let mut file_probes: Vec<String> = Vec::new();
        if ctx.rng.chance(12) {
            // the rejected source pulls in files (`require` / `include`, also a file that itself fails to build, also a
            // file that requires another one): afterwards the files are as unloaded as their definitions are gone
            ctx.tag("kind:files");
            let dir = crate::lib_files(&ctx.scratch);
            let file = *ctx.rng.pick(&["lib1", "lib2", "broken"]);
            let word = *ctx.rng.pick(&["require", "include"]);
            let usew = match file { "lib1" => "libword1", "lib2" => "libword2", _ => "libbroken" };
            if ctx.rng.chance(30) {
                // the good prefix has loaded one of the files already
                let f0 = *ctx.rng.pick(&["lib1", "lib2"]);
                pre.extend(styled(&mut ctx.rng, style, format!("require \"{}/{}.xeh\"", dir, f0)));
            }
            rejected_src = format!("{} \"{}/{}.xeh\" {} {}", word, dir, file, usew, rejected_src);
            for _ in 0..(ctx.rng.below(3) + 1) {
                let f = *ctx.rng.pick(&["lib1", "lib2", "lib1", "lib2", "broken"]);
                let w = match f { "lib1" => "libword1", "lib2" => "libword2 libword1", _ => "libbroken" };
                file_probes.push(match ctx.rng.below(4) {
                    0 => format!("require \"{}/{}.xeh\" {}", dir, f, w),
                    1 => format!("include \"{}/{}.xeh\" {}", dir, f, w),
                    2 => w.to_string(),
                    _ => format!("require \"{}/{}.xeh\" require \"{}/{}.xeh\" {}", dir, f, dir, f, w),
                });
            }
        }
        if ctx.rng.chance(15) {
            // a constant that exists already is overwritten (more than once) by the rejected source: it must come back
            ctx.tag("kind:constant-overwritten");
            let k = ctx.rng.range(0, 99);
            pre.extend(styled(&mut ctx.rng, style, format!("#( {} const kk #)", k)));
            let n = ctx.rng.below(3) + 1;
            let over: Vec<String> = (0..n).map(|j| format!("#( {} const kk #)", k + 1 + j as i64)).collect();
            rejected_src = format!("{} {}", over.join(" "), rejected_src);
            extra_probe = Some("kk".to_string());
        }
        if ctx.rng.chance(8) {
            // a late-bound word of an EARLIER source is called inside a meta block of the rejected one and fails there (it
            // reads a variable): the code of the earlier source must come out of it unchanged — a later re-declaration of the
            // variable is what the word sees
            ctx.tag("kind:late-in-meta");
            let k = ctx.rng.range(1, 50);
            pre.extend(styled(&mut ctx.rng, style, "late LV : LQ LV 10 + ;".to_string()));
            pre.extend(styled(&mut ctx.rng, style, format!("{} var LV", k)));
            rejected_src = match ctx.rng.below(3) {
                0 => format!("5 #( LQ #) 6 {}", rejected_src),
                1 => format!("#( LQ #)"),
                _ => format!("{} var LV #( LQ #) {}", k + 100, rejected_src),
            };
            extra_probe = Some(format!("{} var LV LQ LV", k + 1));
        }
        let mut finding_tag = "";
        if ctx.rng.chance(6) {
            // a user-defined immediate word runs while the source is read, in the source's own (not a meta) context: what
            // it writes to variables is not undone when the source is rejected afterwards (known finding, see DESIGN R4)
            ctx.tag("kind:user-immediate");
            finding_tag = "[user-immediate-writes] ";
            let k = ctx.rng.range(0, 50);
            pre.extend(styled(&mut ctx.rng, style, format!("{} var uv : bump uv 1 + ! uv immediate ;", k)));
            let n = ctx.rng.below(3) + 1;
            rejected_src = format!("{} {}", vec!["bump"; n].join(" "), rejected_src);
            extra_probe = Some("uv".to_string());
        }
        let bad = match style { 0 => Op::Eval(rejected_src.clone()), 1 => Op::Line(rejected_src.clone()), _ => if ctx.rng.bool() { Op::Compile(rejected_src.clone()) } else { Op::Eval(rejected_src.clone()) } };
        let nprobes = ctx.rng.below(4) + 1;
        let mut probes: Vec<Op> = Vec::new();
        for _ in 0..nprobes {
            let p = if ctx.rng.chance(15) { gen_program(&mut ctx.rng, &cfg).0 } else { (*ctx.rng.pick(PROBES)).to_string() };
            probes.extend(styled(&mut ctx.rng, style, p));
        }
        if let Some(p) = extra_probe { probes.insert(0, if style == 1 { Op::Line(p) } else { Op::Eval(p) }); }
        let with_files = !file_probes.is_empty();
        for p in file_probes.into_iter().rev() { probes.insert(0, if style == 1 { Op::Line(p) } else { Op::Eval(p) }); }
        let mut ops = pre.clone();
        ops.push(bad.clone());
        ops.extend(probes.iter().cloned());
        // files are outside the session model: these histories go to the with/without oracle only
        // (so are user-defined immediate words)
        if !with_files && finding_tag.is_empty() { correspondence(ctx, "C10", &ops); }
        // oracle: with vs without the rejected source
        let mut with = fresh();
        let mut without = fresh();
        for op in &pre { apply(&mut with, op); apply(&mut without, op); }
        let r = apply(&mut with, &bad);
        let hist = || ops.iter().map(|o| o.text()).collect::<Vec<_>>().join("; ");
        if !r.starts_with("rej") {
            ctx.tag(if r == "ok" { "rejected:built-after-all" } else { "rejected:failed-at-run-time" });
            continue;
        }
        if r.contains("insn_limit_reached") {
            // the instruction budget is a resource like time: what a rejected source's meta blocks consumed is
            // not given back, so a history that exhausts it is outside what the oracle can compare
            ctx.tag("rejected:exhausted-the-instruction-budget");
            continue;
        }
        ctx.tag("kind:rejected");
        for o in OPENERS { if !o.is_empty() && rejected_src.contains(o) { ctx.tag(&format!("open:{}", o)); } }
        if style == 1 { without.abort_run(); }
        let (a, b) = (state_sig(&mut with), state_sig(&mut without));
        ctx.check(a == b, || format!("{}C10 after-rejected {}", finding_tag, hist()), || b.clone(), || a.clone());
        for p in &probes {
            let (o1, o2) = (with.stdout().map(|s| s.len()).unwrap_or(0), without.stdout().map(|s| s.len()).unwrap_or(0));
            let r1 = apply(&mut with, p);
            let r2 = apply(&mut without, p);
            if r1.contains("insn_limit_reached") || r2.contains("insn_limit_reached") { ctx.tag("probe:exhausted-the-instruction-budget"); break; }
            let out1 = with.stdout().map(|s| s[o1..].to_string()).unwrap_or_default();
            let out2 = without.stdout().map(|s| s[o2..].to_string()).unwrap_or_default();
            let (a, b) = (state_sig(&mut with), state_sig(&mut without));
            ctx.check(r1 == r2 && out1 == out2 && a == b, || format!("{}C10 probe {} after {}", finding_tag, p.text(), hist()),
                || format!("{} out={:?} {}", r2, out2, b), || format!("{} out={:?} {}", r1, out1, a));
        }
    }
}
