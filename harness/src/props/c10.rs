//! C10 — a source that fails to build has no effect on anything submitted afterwards; a line that
//! fails at run time is not re-executed by later lines.
//!
//! A case is a *history* on one interpreter: good sources (definitions, variables, pushes), then a
//! rejected source (a well-formed prefix that leaves any combination of open control structures,
//! definitions, builders and meta blocks; a failing token; trailing text), then probe sources.
//! Correspondence: the whole history is one `C10 sess` request — the session model must give the same
//! result and the same interpreter state after every source, and the same final bytecode.
//! Oracle (implementation only, the property's own statement): the history with the rejected source
//! and the history without it are run on two copies; after the rejected source and after every probe
//! the two interpreters must be in the same state and every probe must give the same result and
//! output. For a line that fails while running (REPL style: compile, run, abort_run when run fails) the
//! later lines must all succeed and must not print the failed line's marker again.
use crate::canon;
use crate::progen::{gen_program, GenCfg};
use crate::props::c01::{dict_for, lex_all};
use crate::rng::Rng;
use crate::vmcanon;
use crate::Ctx;
use xeh::prelude::*;

pub const LIMIT: usize = 30000;

pub fn rel_di(dict0: usize, n: usize) -> String {
    if n >= dict0 && n != 0 { format!("+{}", n - dict0) } else { format!("abs{}", n) }
}

/// twin of `Driver/Sess.lean digest`
pub fn digest(xs: &mut Xstate, dict0: usize) -> String {
    let d = xs.verif_dump();
    format!("{},mode={},nested={},flows={},code={},dmap={},dict={},marks={}/{}/{}/{}/{}/{}/{}",
        vmcanon::full_dump(xs), d.mode, d.nested, d.flows, d.code_len, d.debug_map_len, format!("+{}", d.dict_len - dict0),
        d.marks[0], d.marks[1], d.marks[2], d.marks[3], d.marks[4], d.marks[5], rel_di(dict0, d.marks[6]))
}

/// everything observable except the instruction meter and accumulated output (the count of interned sources is
/// part of it since repair 46ce09e: a rejected source is no longer kept in that list)
fn state_sig(xs: &mut Xstate) -> String {
    let d = xs.verif_dump();
    let vars: Vec<String> = xs.var_list().iter().map(|(n, c)| format!("{}={}", n, canon::cell(c))).collect();
    format!("{} mode={} nested={} flows={} inputs={} sources={} code={} dmap={} dict={} marks={:?} log={:?} stop={} words={} vars={} code=[{}]",
        vmcanon::core_dump(&d), d.mode, d.nested, d.flows, d.pending_inputs, d.sources, d.code_len, d.debug_map_len, d.dict_len, d.marks,
        d.reverse_log_len, d.about_to_stop, xs.word_list().len(), vars.join(","), vmcanon::code_str(xs))
}

#[derive(Clone)]
pub enum Op { Eval(String), Compile(String), Run, Abort, Line(String), /// `set_recording_enabled(true)` (the REPL's -r)
    Rec, /// k reverse steps (the REPL's /rnext)
    Rnext(usize) }

impl Op {
    pub fn text(&self) -> String {
        match self { Op::Eval(s) => format!("eval `{}`", s), Op::Compile(s) => format!("compile `{}`", s), Op::Run => "run".into(), Op::Abort => "abort_run".into(), Op::Line(s) => format!("line `{}`", s),
            Op::Rec => "recording on".into(), Op::Rnext(k) => format!("rnext x{}", k) }
    }
    fn src(&self) -> Option<&str> {
        match self { Op::Eval(s) | Op::Compile(s) | Op::Line(s) => Some(s), _ => None }
    }
}

/// apply one operation; the answer in the protocol's vocabulary (`ok` / `rej e` / `fail e` / `panic`)
pub fn apply(xs: &mut Xstate, op: &Op) -> String {
    let res = |r: Option<Xresult>, rejected: bool| match r {
        None => "panic".to_string(),
        Some(Ok(())) => "ok".to_string(),
        Some(Err(e)) => format!("{} {}", if rejected { "rej" } else { "fail" }, canon::err(&e)),
    };
    match op {
        Op::Eval(s) => {
            let mut probe = xs.clone();
            let rejected = matches!(crate::guarded(|| probe.compile(s)), Some(Err(_)));
            res(crate::guarded(|| xs.eval(s)), rejected)
        }
        Op::Compile(s) => res(crate::guarded(|| xs.compile(s)), true),
        Op::Run => res(crate::guarded(|| xs.run()), false),
        Op::Abort => { xs.abort_run(); "ok".into() }
        Op::Rec => { xs.set_recording_enabled(true); "ok".into() }
        Op::Rnext(k) => { for _ in 0..*k { let _ = crate::guarded(|| xs.rnext()); } "ok".into() }
        Op::Line(s) => {
            // what src/repl.rs run_line does
            let r = crate::guarded(|| xs.compile(s));
            match r {
                Some(Ok(())) => {
                    let r2 = crate::guarded(|| xs.run());
                    if !matches!(r2, Some(Ok(()))) { xs.abort_run(); }
                    res(r2, false)
                }
                // a rejected line has been forgotten already: nothing is aborted (repair 1568e86)
                other => res(other, true),
            }
        }
    }
}

fn fresh() -> Xstate { fresh_lim(LIMIT) }

pub fn fresh_lim(limit: usize) -> Xstate {
    let mut xs = Xstate::boot().unwrap();
    xs.intercept_stdout(true);
    xs.set_insn_limit(Some(limit)).unwrap();
    xs
}

const GOOD: &[&str] = &[
    "1 2 3", "10 var a", "a 1 + ! a", ": sq dup * ;", ": add3 3 + ;", "4 sq", "[ 1 2 3 ] var vv", "7 add3", "\"s\" var str",
    ": fact dup 1 > if dup 1 - fact * then ;", "3 fact", "late lw : uses-lw lw ;", ": lw 5 ;", "#( 2 3 * #)", "#( 7 const seven #) seven",
    "drop", "depth", "5 0 do I loop", ": loc local x x x + ;", "21 loc", "{ 1 2 }", "1 if 2 else 3 then", "nil",
];

/// well-formed prefixes that leave something open: (text, opens a meta block?)
const OPENERS: &[&str] = &[
    "1 if", "1 if 2 else", "begin 1", "begin 0 while", "5 0 do I", "[ 1 2", "{ 1", ": half 2", ": q local z z", "1 case 1 of 5",
    "#( 1 2", "#( : mf 1 ;", "#( 3 const c3", "#( #( 1", "#( [ 1", "#( 1 if", ": w #( 2", "[ #( 1 2 + #)", "9 8", "",
];

const FAILING: &[&str] = &[
    "foo-unknown", "then", ";", "]", "}", "#)", "endcase", "loop", "repeat", "until", "else", "endof", "break", "9 var inside", "4 const k4",
    "! nosuch", "local lx", ":", "var", "const", "late", "#( 1 0 / #)", "#( drop #)", "#( a #)", "#( 5 ! a #)", "#( 1 var mv #)", "#( nosuch #)",
    "#( 1 2 + ) #)", "#( \"str\" 1 + #)", "#( : g 1 0 / ; g #)", "#( begin #)",
    // `exit` run by a meta block stops the build like any other error (the stop request itself stays: see `unstop`)
    "#( 7 exit #)", "#( 1 2 0 exit 3 #)", "#( : bye 3 exit ; bye #)",
];

/// `exit` raises the interpreter's stop request, which a host polls; it is not part of what a rejected source must
/// take back (the session model's `Twin` leaves it out as well), so it is masked where a rejected source says `exit`
fn unstop(sig: String, src: &str) -> String {
    if src.contains("exit") { sig.replace(" stop=true", " stop=false").replace(" stop=1", " stop=0") } else { sig }
}

const TRAILING: &[&str] = &["", "2 3", "\"tail\" print", ": never 1 ;", "99 var never-var", "drop drop drop", "then ; ]", "#( 1 #)", "1 0 /"];

const PROBES: &[&str] = &[
    "4", "depth", "5 var pv pv", ": pg 1 2 + ; pg", "1 if 2 else 3 then", "3 0 do I loop", "[ 1 2 ]", "#( 1 2 + #)", "#( 6 const six #) six",
    "begin 1 until", "0 case 0 of 7 endof endcase", ": ploc local y y ; 8 ploc", "late pl : upl pl ; : pl 3 ; upl", "depth drop", "nil nil?",
    "a", "sq", "vv", "lw", "seven", "half", "mf", "c3", "never", "never-var", "inside", "k4", "mv", "g", "\"p\" print", "I", "drop",
];

fn gen_rejected(r: &mut Rng) -> String {
    let mut parts: Vec<&str> = Vec::new();
    for _ in 0..r.below(3) { parts.push(*r.pick(OPENERS)); }
    parts.push(*r.pick(FAILING));
    parts.push(*r.pick(TRAILING));
    parts.into_iter().filter(|s| !s.is_empty()).collect::<Vec<_>>().join(" ")
}

fn gen_good(r: &mut Rng, cfg: &GenCfg) -> String {
    if r.chance(25) { gen_program(r, cfg).0 } else { (*r.pick(GOOD)).to_string() }
}

fn op_code(op: &Op) -> Option<String> {
    let enc = |k: &str, s: &str| lex_all(s).map(|t| format!("{}:{}", k, t.text.join("|")));
    match op {
        Op::Eval(s) => enc("e", s),
        Op::Compile(s) => enc("c", s),
        Op::Line(s) => enc("l", s),
        Op::Run => Some("r".into()),
        Op::Abort => Some("a".into()),
        // recording and reverse steps are not part of the session protocol: such a history goes to the oracle only
        Op::Rec | Op::Rnext(_) => None,
    }
}

/// the whole history as one request for the session model
pub fn correspondence(ctx: &mut Ctx, pid: &str, ops: &[Op]) { correspondence_lim(ctx, pid, ops, LIMIT) }

/// the same under an instruction limit of the caller's choice
pub fn correspondence_lim(ctx: &mut Ctx, pid: &str, ops: &[Op], limit: usize) {
    // the model's dictionary is never empty, so that a context mark of 0 (absolute) and a mark at the boot
    // dictionary's size (relative +0) cannot be confused
    let mut words: Vec<String> = vec!["dup".to_string()];
    let mut codes: Vec<String> = Vec::new();
    for op in ops {
        match op_code(op) {
            Some(c) => codes.push(c),
            None => { ctx.tag("corr:skipped-lex-error"); return; }
        }
        if let Some(s) = op.src() { if let Some(t) = lex_all(s) { words.extend(t.words); } }
    }
    let mut xs = fresh_lim(limit);
    let d = xs.verif_dump();
    let dict0 = d.dict_len;
    let req = format!("{} sess dict={} heap=v({}) lim={}/-/- ops={}", pid, dict_for(&xs, &words),
        d.heap.iter().map(canon::cell).collect::<Vec<_>>().join(","), limit, codes.join(";"));
    let mut answers: Vec<String> = Vec::new();
    for op in ops {
        let a = apply(&mut xs, op);
        if a == "panic" { answers.push("panic@".into()); break; }
        answers.push(format!("{}@{}", a, digest(&mut xs, dict0)));
    }
    ctx.case(req, format!("{}#code={}", answers.join(";"), vmcanon::code_str(&xs)));
}

fn styled(r: &mut Rng, style: usize, s: String) -> Vec<Op> {
    match style {
        0 => vec![Op::Eval(s)],
        1 => vec![Op::Line(s)],
        // a host that drives compile + run itself abandons a program that failed while running, as the REPL does
        // (`run` continues a paused program: without `abort_run` the next `run` would resume the failed one)
        // (so it does after an `eval` that failed while running, when it goes on with compile + run: the failed
        // source's context stays current, and the `run` after a later `compile` would continue it — DESIGN R8)
        _ => if r.bool() { vec![Op::Compile(s), Op::Run, Op::Abort] } else { vec![Op::Eval(s), Op::Abort] },
    }
}

/// The REPL itself (src/repl.rs `run_line`, private to the binary): sessions of lines are piped into the real `xeh`
/// binary built from the current tree (`VERIF_XEH_BIN`, set by the orchestrator) and into this file's mirror of
/// `run_line` (`Op::Line`, `/next`, `/rnext` — the mirror is what the session model and the with/without oracle are
/// run against); what the binary prints on stdout (program output, then the stack after every line) and the
/// messages on stderr must be what the mirror predicts. A session with a rejected line must also print what the
/// session without it prints, apart from that line's own error message and stack listing.
fn repl_binary(ctx: &mut Ctx) {
    let bin = match std::env::var("VERIF_XEH_BIN") { Ok(b) if !b.is_empty() => b, _ => { ctx.tag("repl-binary:not-built(skipped)"); return; } };
    let dir = format!("{}-repl", ctx.scratch);
    std::fs::create_dir_all(&dir).unwrap();
    let sessions = if ctx.thorough { 300 } else { 40 };
    const GOODL: &[&str] = &["1 2 3", "\"a\" println \"b\" println", ": sq dup * ; 4 sq", "10 var a a 1 + ! a a", "drop", "[ 1 2 ] { 3 4 }", "3 0 do I println loop", "depth",
        "\"x\" print 5 6 + println", "#( 2 3 * #)", "|ff 01| 0xff ^hex", "1.5 nil true"];
    const BADL: &[&str] = &["oops", "1 if 2", ": half 2 oops ;", "[ 1 2", "#( 1 0 / #)", "\"unterminated", "then", "1 2 nosuch 3 println"];
    const FAILL: &[&str] = &["1 0 / \"never\" println", "nil 1 +", "drop drop drop drop drop drop drop drop drop drop drop drop drop drop drop drop drop drop drop drop", ": bad 1 0 / ; \"pre\" println bad \"post\" println", "3 0 do I 1 = if nil 1 + then I println loop"];
    let run_bin = |lines: &[String], rec: bool| -> Option<(String, String)> {
        use std::io::Write;
        let mut cmd = std::process::Command::new(&bin);
        if rec { cmd.arg("-r"); }
        let mut child = cmd.current_dir(&dir).stdin(std::process::Stdio::piped()).stdout(std::process::Stdio::piped()).stderr(std::process::Stdio::piped()).spawn().ok()?;
        {
            let mut si = child.stdin.take()?;
            let _ = si.write_all((lines.join("\n") + "\n").as_bytes());
        }
        let out = child.wait_with_output().ok()?;
        Some((String::from_utf8_lossy(&out.stdout).to_string(), String::from_utf8_lossy(&out.stderr).to_string()))
    };
    // the mirror: what the binary is expected to print
    let mirror = |lines: &[String], rec: bool| -> (String, String) {
        let mut xs = Xstate::boot().unwrap();
        xeh::d2_plugin::load(&mut xs).unwrap();
        xs.intercept_stdout(true);
        if rec { xs.set_recording_enabled(true); }
        let mut out = String::from("# Trial and error mode!\n# Everyting is evaluating on-fly, hit Enter to freeze the changes.\n# Switch between modes using /repl and /trial commands.\n");
        let mut err = String::new();
        for l in lines {
            let cmd = l.trim();
            let res: Xresult = if cmd == "/next" { xs.next() } else if cmd == "/rnext" { xs.rnext() } else {
                match xs.compile(l) {
                    Ok(()) => { let r = xs.run(); if r.is_err() { xs.abort_run(); } r }
                    Err(e) => Err(e),
                }
            };
            out.push_str(&xs.read_stdout().unwrap_or_default());
            if cmd != "/next" && cmd != "/rnext" {
                let n = xs.data_depth();
                for i in 0..n {
                    if i > 15 { out.push_str("...\n"); break; }
                    out.push_str(&xs.format_cell(xs.get_data(i).unwrap()).unwrap());
                    out.push('\n');
                }
            }
            if let Err(e) = &res {
                err.push_str(&xs.pretty_error().unwrap_or_else(|| format!("{}", e)));
                err.push('\n');
            }
            if xs.verif_dump().about_to_stop { err.push_str("BYE!\n"); return (out, err); }
        }
        err.push_str("CTRL-D\n");
        (out, err)
    };
    // an `exit` that has no exit code to take is a failed word like any other — in a meta block of a line that is then
    // rejected, or at run time: the session goes on, the lines behind it are read (repair: the stop request used to be
    // raised before the word looked for its code, and the REPL said BYE!). Always part of the run.
    for (k, fixed) in [vec!["#( exit #)", "1 2", "depth"], vec!["exit", "7"], vec!["\"x\" exit", "7 8"], vec!["1 2", "#( 1.5 exit #)", "depth"], vec!["3", "#( 170141183460469231731687303715884105727 exit #) 4", "5"],
        vec![": bye exit ;", "bye", "6"], vec!["1", "nil exit", "/rnext", "2"]].iter().enumerate() {
        let lines: Vec<String> = fixed.iter().map(|l| l.to_string()).collect();
        let rec = k % 2 == 1;
        let shown = format!("C10 repl-binary xeh{} with the lines {:?} (an exit without an exit code)", if rec { " -r" } else { "" }, lines);
        match run_bin(&lines, rec) {
            None => ctx.oracle_fail(shown, "the binary runs".into(), "could not be started / did not finish".into()),
            Some((o, e)) => {
                let (mo, me) = mirror(&lines, rec);
                ctx.check(o == mo && e == me && e.ends_with("CTRL-D\n") && !e.contains("BYE!"), || shown.clone(), || format!("every line is read (the session ends with the input: CTRL-D); stdout {:?} stderr {:?}", mo, me), || format!("stdout {:?} stderr {:?}", o, e));
            }
        }
        ctx.tag("repl-binary:exit-without-a-code");
    }
    for _ in 0..sessions {
        let rec = ctx.rng.chance(60);
        let mut lines: Vec<String> = Vec::new();
        for _ in 0..(1 + ctx.rng.below(4)) { lines.push((*ctx.rng.pick(GOODL)).to_string()); }
        if rec && ctx.rng.chance(70) { for _ in 0..(1 + ctx.rng.below(5)) { lines.push("/rnext".into()); } if ctx.rng.chance(30) { lines.push("/next".into()); } }
        let at = lines.len();
        let bad = if ctx.rng.chance(70) { (*ctx.rng.pick(BADL)).to_string() } else { (*ctx.rng.pick(FAILL)).to_string() };
        let is_rejected = BADL.contains(&bad.as_str());
        lines.push(bad.clone());
        for _ in 0..(1 + ctx.rng.below(3)) {
            lines.push(if ctx.rng.chance(20) && rec { "/rnext".to_string() } else { (*ctx.rng.pick(GOODL)).to_string() });
        }
        ctx.progress(&format!("xeh{} < {:?}", if rec { " -r" } else { "" }, lines));
        let shown = format!("C10 repl-binary xeh{} with the lines {:?}", if rec { " -r" } else { "" }, lines);
        match run_bin(&lines, rec) {
            None => { ctx.oracle_fail(shown, "the binary runs".into(), "could not be started / did not finish".into()); continue; }
            Some((o, e)) => {
                let (mo, me) = mirror(&lines, rec);
                ctx.check(o == mo && e == me, || shown.clone(), || format!("stdout {:?} stderr {:?}", mo, me), || format!("stdout {:?} stderr {:?}", o, e));
                if is_rejected {
                    // the same session without the rejected line: stdout is the same once that line's own stack listing
                    // is taken out (it lists the stack as it was, nothing else)
                    let mut without = lines.clone();
                    without.remove(at);
                    if let Some((o2, _)) = run_bin(&without, rec) {
                        let (before, _) = mirror(&lines[..at].to_vec(), rec);
                        let (upto, _) = mirror(&lines[..at + 1].to_vec(), rec);
                        let listing = upto[before.len().min(upto.len())..].to_string();
                        let expect = format!("{}{}{}", &o2[..before.len().min(o2.len())], listing, &o2[before.len().min(o2.len())..]);
                        ctx.check(o == expect, || format!("{} — against the session without line {}", shown, at + 1), || format!("{:?}", expect), || format!("{:?}", o));
                    }
                    ctx.tag("repl-binary:rejected-line");
                } else {
                    ctx.tag("repl-binary:failing-line");
                }
            }
        }
    }
    let _ = std::fs::remove_dir_all(&dir);
}

pub fn run(ctx: &mut Ctx) {
    repl_binary(ctx);
    let cfg = GenCfg { endless: false, malformed_percent: 0, max_depth: 2, max_stmts: 3, ..GenCfg::default() };
    for _ in 0..ctx.n {
        let style = ctx.rng.below(3);
        ctx.tag(["style:eval", "style:repl-line", "style:mixed"][style]);
        let mut pre: Vec<Op> = Vec::new();
        for _ in 0..ctx.rng.below(4) { let g = gen_good(&mut ctx.rng, &cfg); pre.extend(styled(&mut ctx.rng, style, g)); }
        let runtime_failure = ctx.rng.chance(25);
        if runtime_failure {
            // --- a line that fails while it runs
            ctx.tag("kind:runtime-failure");
            let marker = format!("MARK{}", ctx.rng.below(1000));
            let body = *ctx.rng.pick(&["1 0 /", "drop drop drop drop drop drop drop drop drop", "\"x\" 1 +", ": boom 1 0 / ; boom 5", "3 0 do 1 0 / loop", "[ 1 0 / ]", "nosuchvar-at-all"]);
            let line = format!("\"{}\" print 11 {} 22", marker, body);
            let bad = if style == 0 { Op::Eval(line.clone()) } else { Op::Line(line.clone()) };
            let mut ops = pre.clone();
            ops.push(bad.clone());
            let nprobes = ctx.rng.below(3) + 1;
            let probes: Vec<Op> = (0..nprobes).map(|_| {
                let p = (*ctx.rng.pick(&["depth drop 7 8 +", "5 var rv rv", ": rp 1 ; rp", "#( 2 2 * #)", "[ 1 ]", "3 0 do I loop"])).to_string();
                if style == 0 { Op::Eval(p) } else { Op::Line(p) }
            }).collect();
            ops.extend(probes.iter().cloned());
            correspondence(ctx, "C10", &ops);
            let mut xs = fresh();
            for op in &pre { apply(&mut xs, op); }
            let r = apply(&mut xs, &bad);
            let hist = || ops.iter().map(|o| o.text()).collect::<Vec<_>>().join("; ");
            if r == "ok" || r.starts_with("rej") { ctx.tag("runtime-failure:did-not-fail"); }
            for p in &probes {
                let out0 = xs.stdout().map(|s| s.len()).unwrap_or(0);
                let r = apply(&mut xs, p);
                let out = xs.stdout().map(|s| s[out0..].to_string()).unwrap_or_default();
                ctx.check(r == "ok" && !out.contains(&marker), || format!("C10 runtime-failure {}", hist()),
                    || "every later line succeeds and prints nothing of the failed line".into(), || format!("{} -> {} out={:?}", p.text(), r, out));
            }
            continue;
        }
        // --- a rejected source
        let mut rejected_src = gen_rejected(&mut ctx.rng);
        let mut extra_probe: Option<String> = None;
        let mut file_probes: Vec<String> = Vec::new();
        if ctx.rng.chance(12) {
            // the rejected source pulls in files (`require` / `include`, also a file that itself fails to build, also a
            // file that requires another one): afterwards the files are as unloaded as their definitions are gone
            ctx.tag("kind:files");
            let dir = crate::lib_files(&ctx.scratch);
            let file = *ctx.rng.pick(&["lib1", "lib2", "broken"]);
            let word = *ctx.rng.pick(&["require", "include"]);
            let usew = match file { "lib1" => "libword1", "lib2" => "libword2", _ => "libbroken" };
            if ctx.rng.chance(30) {
                // the good prefix has loaded one of the files already
                let f0 = *ctx.rng.pick(&["lib1", "lib2"]);
                pre.extend(styled(&mut ctx.rng, style, format!("require \"{}/{}.xeh\"", dir, f0)));
            }
            rejected_src = format!("{} \"{}/{}.xeh\" {} {}", word, dir, file, usew, rejected_src);
            for _ in 0..(ctx.rng.below(3) + 1) {
                let f = *ctx.rng.pick(&["lib1", "lib2", "lib1", "lib2", "broken"]);
                let w = match f { "lib1" => "libword1", "lib2" => "libword2 libword1", _ => "libbroken" };
                file_probes.push(match ctx.rng.below(4) {
                    0 => format!("require \"{}/{}.xeh\" {}", dir, f, w),
                    1 => format!("include \"{}/{}.xeh\" {}", dir, f, w),
                    2 => w.to_string(),
                    _ => format!("require \"{}/{}.xeh\" require \"{}/{}.xeh\" {}", dir, f, dir, f, w),
                });
            }
        }
        if ctx.rng.chance(15) {
            // a constant that exists already is overwritten (more than once) by the rejected source: it must come back
            ctx.tag("kind:constant-overwritten");
            let k = ctx.rng.range(0, 99);
            pre.extend(styled(&mut ctx.rng, style, format!("#( {} const kk #)", k)));
            let n = ctx.rng.below(3) + 1;
            let over: Vec<String> = (0..n).map(|j| format!("#( {} const kk #)", k + 1 + j as i64)).collect();
            rejected_src = format!("{} {}", over.join(" "), rejected_src);
            extra_probe = Some("kk".to_string());
        }
        if ctx.rng.chance(8) {
            // a late-bound word of an EARLIER source is called inside a meta block of the rejected one and fails there (it
            // reads a variable): the code of the earlier source must come out of it unchanged — a later re-declaration of the
            // variable is what the word sees
            ctx.tag("kind:late-in-meta");
            let k = ctx.rng.range(1, 50);
            pre.extend(styled(&mut ctx.rng, style, "late LV : LQ LV 10 + ;".to_string()));
            pre.extend(styled(&mut ctx.rng, style, format!("{} var LV", k)));
            rejected_src = match ctx.rng.below(3) {
                0 => format!("5 #( LQ #) 6 {}", rejected_src),
                1 => format!("#( LQ #)"),
                _ => format!("{} var LV #( LQ #) {}", k + 100, rejected_src),
            };
            extra_probe = Some(format!("{} var LV LQ LV", k + 1));
        }
        let mut finding_tag = "";
        if ctx.rng.chance(6) {
            // a user-defined immediate word runs while the source is read, in the source's own (not a meta) context: what
            // it writes to variables is not undone when the source is rejected afterwards (known finding, see DESIGN R4)
            ctx.tag("kind:user-immediate");
            finding_tag = "[user-immediate-writes] ";
            let k = ctx.rng.range(0, 50);
            pre.extend(styled(&mut ctx.rng, style, format!("{} var uv : bump uv 1 + ! uv immediate ;", k)));
            let n = ctx.rng.below(3) + 1;
            rejected_src = format!("{} {}", vec!["bump"; n].join(" "), rejected_src);
            extra_probe = Some("uv".to_string());
        }
        let mut skip_corr = false;
        if finding_tag.is_empty() && ctx.rng.chance(5) {
            // a late-bound word that a user-defined immediate word resolves while a source is read: the definition it
            // finds may belong to a source that is rejected afterwards, so the binding is for that execution only
            // (repair 50bcb7c; user-defined immediate words are outside the session model: oracle only)
            ctx.tag("kind:late-bound-through-immediate");
            skip_corr = true;
            pre.extend(styled(&mut ctx.rng, style, "late helper : imm helper immediate ;".to_string()));
            let k = ctx.rng.range(10, 99);
            rejected_src = format!(": helper {} ; imm {}", k, rejected_src);
            extra_probe = Some(format!("1 2 3 : helper {} ; imm helper", k + 1));
        } else if finding_tag.is_empty() && ctx.rng.chance(4) {
            // the same root cause as [user-immediate-writes]: the immediate word runs on the source's own stack floor
            ctx.tag("kind:user-immediate-pops");
            finding_tag = "[user-immediate-writes] ";
            pre.extend(styled(&mut ctx.rng, style, "11 22 : dd drop immediate ;".to_string()));
            rejected_src = format!("dd dd {}", rejected_src);
            extra_probe = Some("depth".to_string());
        }
        if ctx.rng.chance(8) {
            // the REPL with -r: a program that printed something is stepped back with /rnext and is paused in the middle
            // when the rejected source arrives; forgetting that source must leave the paused program where it is (repair
            // 1568e86: run_line used to abort after a rejected line too, skipping the instructions not yet re-run)
            ctx.tag("kind:rejected-while-stepped-back");
            skip_corr = true;
            pre.insert(0, Op::Rec);
            let m = ctx.rng.range(1, 4);
            let prog = format!("\"pa{}\" println \"pb{}\" println \"pc{}\" println", m, m, m);
            pre.extend(styled(&mut ctx.rng, style, prog));
            pre.push(Op::Rnext(1 + ctx.rng.below(6)));
        }
        let bad = match style { 0 => Op::Eval(rejected_src.clone()), 1 => Op::Line(rejected_src.clone()), _ => if ctx.rng.bool() { Op::Compile(rejected_src.clone()) } else { Op::Eval(rejected_src.clone()) } };
        let nprobes = ctx.rng.below(4) + 1;
        let mut probes: Vec<Op> = Vec::new();
        for _ in 0..nprobes {
            let p = if ctx.rng.chance(15) { gen_program(&mut ctx.rng, &cfg).0 } else { (*ctx.rng.pick(PROBES)).to_string() };
            probes.extend(styled(&mut ctx.rng, style, p));
        }
        if let Some(p) = extra_probe { probes.insert(0, if style == 1 { Op::Line(p) } else { Op::Eval(p) }); }
        let with_files = !file_probes.is_empty();
        for p in file_probes.into_iter().rev() { probes.insert(0, if style == 1 { Op::Line(p) } else { Op::Eval(p) }); }
        let mut ops = pre.clone();
        ops.push(bad.clone());
        ops.extend(probes.iter().cloned());
        // files are outside the session model: these histories go to the with/without oracle only
        // (so are user-defined immediate words)
        if !with_files && finding_tag.is_empty() && !skip_corr { correspondence(ctx, "C10", &ops); }
        // oracle: with vs without the rejected source
        let mut with = fresh();
        let mut without = fresh();
        for op in &pre { apply(&mut with, op); apply(&mut without, op); }
        let r = apply(&mut with, &bad);
        let hist = || ops.iter().map(|o| o.text()).collect::<Vec<_>>().join("; ");
        if !r.starts_with("rej") {
            ctx.tag(if r == "ok" { "rejected:built-after-all" } else { "rejected:failed-at-run-time" });
            continue;
        }
        if r.contains("insn_limit_reached") {
            // the instruction budget is a resource like time: what a rejected source's meta blocks consumed is
            // not given back, so a history that exhausts it is outside what the oracle can compare
            ctx.tag("rejected:exhausted-the-instruction-budget");
            continue;
        }
        ctx.tag("kind:rejected");
        for o in OPENERS { if !o.is_empty() && rejected_src.contains(o) { ctx.tag(&format!("open:{}", o)); } }
        let (a, b) = (unstop(state_sig(&mut with), &rejected_src), unstop(state_sig(&mut without), &rejected_src));
        ctx.check(a == b, || format!("{}C10 after-rejected {}", finding_tag, hist()), || b.clone(), || a.clone());
        for p in &probes {
            let (o1, o2) = (with.stdout().map(|s| s.len()).unwrap_or(0), without.stdout().map(|s| s.len()).unwrap_or(0));
            let r1 = apply(&mut with, p);
            let r2 = apply(&mut without, p);
            if r1.contains("insn_limit_reached") || r2.contains("insn_limit_reached") { ctx.tag("probe:exhausted-the-instruction-budget"); break; }
            let out1 = with.stdout().map(|s| s[o1..].to_string()).unwrap_or_default();
            let out2 = without.stdout().map(|s| s[o2..].to_string()).unwrap_or_default();
            let (a, b) = (unstop(state_sig(&mut with), &rejected_src), unstop(state_sig(&mut without), &rejected_src));
            ctx.check(r1 == r2 && out1 == out2 && a == b, || format!("{}C10 probe {} after {}", finding_tag, p.text(), hist()),
                || format!("{} out={:?} {}", r2, out2, b), || format!("{} out={:?} {}", r1, out1, a));
        }
    }
    // the rejected source is a FILE (`compile_file` / `eval_file`, what the binary does with its script arguments): none
    // of its text is ever read again, it does not count as loaded, and later sources — also the corrected file — behave
    // as if it had never been submitted
    for round in 0..(ctx.n / 10).max(30) {
        let dir = crate::lib_files(&ctx.scratch);
        let path = format!("{}/rejected-{}.xeh", dir, round);
        let marker = format!("TAIL{}", round);
        let bad_text = format!("{} 2 3 \"{}\" println : quad{} 4 * ;\n", gen_rejected(&mut ctx.rng), marker, round);
        std::fs::write(&path, &bad_text).unwrap();
        let mut with = fresh();
        let mut without = fresh();
        let mut pre: Vec<Op> = Vec::new();
        for _ in 0..ctx.rng.below(3) { let g = gen_good(&mut ctx.rng, &cfg); pre.push(Op::Eval(g)); }
        for op in &pre { apply(&mut with, op); apply(&mut without, op); }
        let via = round % 3;
        let r = match via {
            0 => crate::guarded(|| with.compile_file(Xstr::from(path.as_str()))),
            1 => crate::guarded(|| with.eval_file(Xstr::from(path.as_str()))),
            _ => crate::guarded(|| with.eval(&format!("include \"{}\"", path))),
        };
        let hist = format!("{}; {} {:?} containing `{}`", pre.iter().map(|o| o.text()).collect::<Vec<_>>().join("; "), ["compile_file", "eval_file", "eval of include"][via], path, bad_text.escape_debug());
        if !matches!(r, Some(Err(_))) { ctx.tag("rejected-file:built-after-all"); continue; }
        ctx.tag("kind:rejected-file");
        let (a, b) = (unstop(state_sig(&mut with), &bad_text), unstop(state_sig(&mut without), &bad_text));
        ctx.check(a == b, || format!("C10 after-rejected-file {}", hist), || b.clone(), || a.clone());
        // the file is corrected
        std::fs::write(&path, format!(": quad{} 4 * ;\n", round)).unwrap();
        let probes = [(*ctx.rng.pick(PROBES)).to_string(), "20".to_string(), format!("require \"{}\" 2 quad{}", path, round), (*ctx.rng.pick(PROBES)).to_string()];
        for p in probes.iter() {
            let (o1, o2) = (with.stdout().map(|s| s.len()).unwrap_or(0), without.stdout().map(|s| s.len()).unwrap_or(0));
            let (r1, r2) = (apply(&mut with, &Op::Eval(p.clone())), apply(&mut without, &Op::Eval(p.clone())));
            if r1.contains("insn_limit_reached") || r2.contains("insn_limit_reached") { break; }
            let out1 = with.stdout().map(|s| s[o1..].to_string()).unwrap_or_default();
            let out2 = without.stdout().map(|s| s[o2..].to_string()).unwrap_or_default();
            let (a, b) = (unstop(state_sig(&mut with), &bad_text), unstop(state_sig(&mut without), &bad_text));
            ctx.check(r1 == r2 && out1 == out2 && !out1.contains(&marker) && a == b, || format!("C10 probe eval `{}` after {}", p, hist),
                || format!("{} out={:?} {}", r2, out2, b), || format!("{} out={:?} {}", r1, out1, a));
        }
    }
    // the same at the API: a source whose `exit` fails (rejected in a meta block, or failing at run time) raises no stop
    // request — a host that polls it does not shut down
    for src in ["#( exit #)", "#( \"x\" exit #)", "exit", "nil exit", "1 2 #( 9223372036854775808 exit #)", ": bye exit ; bye", "[ exit ]"] {
        for compile in [false, true] {
            let mut xs = fresh();
            let r = if compile { match crate::guarded(|| xs.compile(src)) { Some(Ok(())) => crate::guarded(|| xs.run()), other => other } } else { crate::guarded(|| xs.eval(src)) };
            let stop = xs.verif_dump().about_to_stop;
            ctx.check(matches!(r, Some(Err(_))) && !stop, || format!("C10 {} `{}` (an exit without an exit code)", if compile { "compile + run" } else { "eval" }, src), || "an error, and no stop request".into(), || format!("{:?}, stop request {}", r.map(|r| r.map_err(|e| canon::err(&e))), stop));
        }
        ctx.tag("kind:exit-without-a-code");
    }
}
