//! C11 — meta-evaluation is sealed and equivalent to inlining its result; compiling executes nothing
//! outside meta blocks; eval = compile followed by run.
//!
//! Correspondence: every generated history (sources with meta blocks at every position, evaluated or
//! compiled-then-run) is a `C11 sess` request: the session model must agree on every result, every
//! intermediate interpreter state and the final bytecode.
//! Oracle (implementation only, the property's statement):
//!   inline     P[#( e #)] and P[the values of e, last result first] end in the same stack, variables,
//!              output and word list (minus the constants e defines, whose uses are inlined too);
//!   sealed     a block sees an empty stack (`#( depth #)` is 0 whatever is outside), cannot pop, read or
//!              write anything outside (it fails, and by C10 leaves no trace);
//!   purge      after a block closes the new words are exactly the constants it defined, and the code grew by
//!              exactly one literal per result;
//!   compile    `compile(S)` leaves the data stack, every variable and the output as they were (S without
//!              printing meta blocks);
//!   eval=c+r   `eval(S)` and `compile(S); run()` end in the same interpreter state, bytecode included.
use crate::canon;
use crate::progen::{gen_program, GenCfg};
use crate::props::c10::{apply, correspondence, Op, LIMIT};
use crate::rng::Rng;
use crate::vmcanon;
use crate::Ctx;
use xeh::prelude::*;

fn fresh() -> Xstate {
    let mut xs = Xstate::boot().unwrap();
    xs.intercept_stdout(true);
    xs.set_insn_limit(Some(LIMIT)).unwrap();
    xs
}

/// a constant expression and the names of the constants it defines
struct Expr { text: String, consts: Vec<String> }

fn gen_expr(r: &mut Rng, depth: usize, uniq: &mut usize) -> Expr {
    let mut consts = Vec::new();
    let mut parts: Vec<String> = Vec::new();
    let n = r.below(3) + 1;
    for _ in 0..n {
        match r.below(if depth > 0 { 9 } else { 8 }) {
            // (also values outside the 64-bit range: integers are 128 bits wide, and so are the literals that replace a block)
            0 => if r.chance(25) { parts.push((*r.pick(&["0x7fffffffffffffff 1 +", "1 64 bsl", "0 0x8000000000000000 - 1 -", "3000000000 dup * dup *", "0xffffffffffffffff", "-9223372036854775808 1 -",
                    "170141183460469231731687303715884105727", "1 100 bsl neg"])).to_string()) } else { parts.push(format!("{}", r.range(-50, 50))) },
            1 => parts.push(format!("{} {} {}", r.range(0, 20), r.range(1, 20), r.pick(&["+", "-", "*", "/", "rem"]))),
            2 => parts.push(format!("{} dup *", r.range(0, 12))),
            3 => parts.push(format!("{} {} swap", r.range(0, 9), r.range(0, 9))),
            4 => parts.push(format!("[ {} {} ]", r.range(0, 9), r.range(0, 9))),
            5 => { *uniq += 1; parts.push(format!(": mw{} {} + ; {} mw{}", uniq, r.range(1, 9), r.range(0, 9), uniq)); }
            6 => { *uniq += 1; let name = format!("mc{}", uniq); parts.push(format!("{} const {} {} 1 +", r.range(0, 99), name, name)); consts.push(name); }
            7 => parts.push(format!("\"s{}\"", r.below(100))),
            _ => { let inner = gen_expr(r, depth - 1, uniq); consts.extend(inner.consts); parts.push(format!("#( {} #) {} +", inner.text, r.range(0, 5))); }
        }
    }
    if r.chance(15) { parts.push("drop".into()); }
    if r.chance(10) { parts.push("3 0 do I loop".into()); }
    Expr { text: parts.join(" "), consts }
}

fn literal(c: &Cell) -> Option<String> {
    match c.value() {
        Cell::Int(i) => Some(i.to_string()),
        Cell::Str(s) => if s.chars().all(|c| c.is_ascii_alphanumeric()) { Some(format!("\"{}\"", s)) } else { None },
        Cell::Nil => Some("nil".into()),
        Cell::Vector(v) => { let xs: Option<Vec<String>> = v.iter().map(literal).collect(); xs.map(|xs| format!("[ {} ]", xs.join(" "))) }
        _ => None,
    }
}

thread_local! { static BOOT_WORDS: usize = Xstate::boot().unwrap().word_list().len(); }

/// what is observable at the end of a program
fn outcome_sig(xs: &mut Xstate, ignore_words: &[String]) -> String {
    let d = xs.verif_dump();
    let vars: Vec<String> = xs.var_list().iter().filter(|(n, _)| !ignore_words.iter().any(|w| w == n.as_str())).map(|(n, c)| format!("{}={}", n, canon::cell(c))).collect();
    // the words added since boot (the boot dictionary is the same in every copy)
    let boot = BOOT_WORDS.with(|b| *b);
    let words: Vec<String> = xs.word_list().iter().skip(boot).map(|w| w.to_string()).filter(|w| !ignore_words.contains(w)).collect();
    format!("ds={} hid={} rs={} loops={} mode={} nested={} flows={} vars={} out={:?} words={}",
        d.data_visible.iter().map(canon::cell).collect::<Vec<_>>().join(","), d.data_hidden.len(), d.frames.len(), d.loops.len(), d.mode, d.nested, d.flows,
        vars.join(","), xs.stdout().map(|s| s.clone()).unwrap_or_default(), words.join(" "))
}

/// (before, after, the hole is directly inside another meta block: results stay on its stack in evaluation order).
/// The results never become map *keys*: keys of different types are C12's known finding (`Ord for Cell` is not
/// lawful, so what a map with such keys looks like is outside the model), not C11's subject.
const CONTEXTS: &[(&str, &str, bool)] = &[
    ("", "", false), ("1 2", "+", false), ("[ 1", "2 ]", false), ("{ 1 [", "] }", false), (": w1", "; w1", false), (": w2 local a", "a ; 5 w2", false),
    ("#(", "1 #)", true), ("#( [", "] #)", false), ("true if", "then", false), ("false if 9 else", "then", false), ("3 0 do", "loop", false),
    (": w3 #(", "#) ; w3", true), ("10 var gv gv", "gv", false), ("#( #(", "#) #)", true), ("begin", "true until", false), ("7 var gq", "! gq gq", false),
    ("#( : mf9", "; mf9 #)", false), ("#( true if", "then #)", false), ("#( false if", "then 6 #)", false), ("#( 2 0 do", "loop #)", false), ("#( [ 1", "] #)", false), ("[ #(", "#) ]", true),
];

/// a file pulled in by `require` inside a meta block: when the block closes the words it defined are purged, and the
/// file is no longer "included" either — a later `require` loads it again (repair of /repo: it used to stay on the list,
/// the later `require` was skipped and its words were unknown)
fn require_in_meta(ctx: &mut Ctx) {
    let dir = crate::lib_files(&ctx.scratch);
    for (k, tail) in ["1", "libword1", "libword1 2 +"].iter().enumerate() {
        let a = format!("#( require \"{}/lib1.xeh\" {} #) drop", dir, tail);
        let b = format!("require \"{}/lib1.xeh\" libword1", dir);
        let mut x = fresh();
        let r1 = apply(&mut x, &Op::Eval(a.clone()));
        let r2 = apply(&mut x, &Op::Eval(b.clone()));
        // the program with the block replaced by its value: the later `require` loads the file
        let mut y = fresh();
        let _ = apply(&mut y, &Op::Eval("1 drop".to_string()));
        let e2 = apply(&mut y, &Op::Eval(b.clone()));
        ctx.check(r1 == "ok" && r2 == e2, || format!("C11 `{}` then `{}` (#{})", a, b, k), || format!("ok, then {}", e2), || format!("{}, then {}", r1, r2));
        ctx.tag("kind:require-in-meta");
    }
    // a block that is closed from inside an included text: that text is still being read and stays a source — what
    // fails in the rest of it is still located in it
    {
        let g = format!("{}/closes-a-block.xeh", dir);
        std::fs::write(&g, "1 #) libword9\n").unwrap();
        let mut x = fresh();
        let r = apply(&mut x, &Op::Eval(format!("#( include \"{}\" 5", g)));
        let loc = x.last_err_location().map(|l| (l.filename.to_string(), l.line, l.col, l.token.to_string()));
        ctx.check(r.starts_with("rej UnknownWord") && loc == Some((g.clone(), 0, 5, "libword9".to_string())),
            || format!("C11 `#( include \"{}\" 5` where the file is `1 #) libword9`", g), || "rejected: unknown word libword9 at 1:6 of that file".into(), || format!("{} at {:?}", r, loc));
        // … and a file required by an inner block only is gone with the inner block
        let mut z = fresh();
        let r1 = apply(&mut z, &Op::Eval(format!("#( #( require \"{}/lib1.xeh\" libword1 #) 1 + #)", dir)));
        let r2 = apply(&mut z, &Op::Eval(format!("require \"{}/lib1.xeh\" libword1", dir)));
        let top: Vec<String> = (0..z.data_depth()).map(|i| z.get_data(i).map(canon::cell).unwrap_or_default()).collect();
        ctx.check(r1 == "ok" && r2 == "ok" && top == vec!["i101".to_string(), "i102".to_string()], || "C11 a file required by an inner block, then required again outside".to_string(),
            || "ok ok [101, 102]".into(), || format!("{} {} {:?}", r1, r2, top));
    }
}

pub fn run(ctx: &mut Ctx) {
    require_in_meta(ctx);
    let cfg = GenCfg { endless: false, malformed_percent: 0, max_depth: 2, max_stmts: 3, ..GenCfg::default() };
    let mut uniq = 0usize;
    for _ in 0..ctx.n {
        match ctx.rng.below(10) {
            0..=4 if ctx.rng.chance(12) => {
                // ---- words defined inside a block are gone when THAT block closes (also when it is nested in another
                // block): a later use of the name means what it meant before, or nothing
                ctx.tag("kind:purged-words");
                let (a, b) = (ctx.rng.range(0, 90), ctx.rng.range(100, 190));
                let (a_src, b_src) = match ctx.rng.below(8) {
                    0 => (format!(": g {} ; #( #( : g {} ; g #) g #)", a, b), format!(": g {} ; #( {} g #)", a, b)),
                    1 => (format!("#( #( : g {} ; #) g 5 #)", b), "#( g 5 #)".to_string()),
                    2 => (format!(": g {} ; #( : g {} ; g #) g", a, b), format!(": g {} ; {} g", a, b)),
                    3 => (format!("#( : h {} ; h #) h", b), format!("{} h", b)),
                    4 => (format!(": g {} ; [ #( #( : g {} ; g #) g 1 + #) ]", a, b), format!(": g {} ; [ #( {} g 1 + #) ]", a, b)),
                    5 => (format!("{} var v #( #( : v {} ; v #) #) v", a, b), format!("{} var v {} v", a, b)),
                    6 => (format!(": g {} ; #( #( #( : g {} ; g #) g #) g #)", a, b), format!(": g {} ; #( #( {} g #) g #)", a, b)),
                    _ => (format!(": g {} ; : w #( #( : g {} ; g #) g + #) ; w g", a, b), format!(": g {} ; : w #( {} g + #) ; w g", a, b)),
                };
                let compile_run = ctx.rng.chance(30);
                let ops_a: Vec<Op> = if compile_run { vec![Op::Compile(a_src.clone()), Op::Run] } else { vec![Op::Eval(a_src.clone())] };
                let ops_b: Vec<Op> = if compile_run { vec![Op::Compile(b_src.clone()), Op::Run] } else { vec![Op::Eval(b_src.clone())] };
                correspondence(ctx, "C11", &ops_a);
                let (mut xa, mut xb) = (fresh(), fresh());
                let ra: Vec<String> = ops_a.iter().map(|o| apply(&mut xa, o)).collect();
                let rb: Vec<String> = ops_b.iter().map(|o| apply(&mut xb, o)).collect();
                let (sa, sb) = (outcome_sig(&mut xa, &[]), outcome_sig(&mut xb, &[]));
                ctx.check(ra == rb && sa == sb, || format!("C11 purged-words `{}` vs `{}`", a_src, b_src), || format!("{:?} {}", rb, sb), || format!("{:?} {}", ra, sa));
            }
            0..=4 => {
                // ---- inline: P[#( e #)] vs P[values]
                ctx.tag("kind:inline");
                let e = gen_expr(&mut ctx.rng, 2, &mut uniq);
                // the values of e, by evaluating the block alone at top level (literals re-pushed: last result first)
                let mut probe = fresh();
                let block = format!("#( {} #)", e.text);
                if !matches!(crate::guarded(|| probe.eval(&block)), Some(Ok(()))) {
                    ctx.tag("inline:expr-fails");
                    correspondence(ctx, "C11", &[Op::Eval(block)]);
                    continue;
                }
                let n = probe.data_depth();
                let vals: Option<Vec<String>> = (0..n).rev().map(|i| probe.get_data(i).and_then(literal)).collect();
                let vals = match vals { Some(v) => v, None => { ctx.tag("inline:no-literal-syntax"); continue; } };
                ctx.tag(&format!("inline:results={}", n.min(4)));
                // the values the block leaves are the values of e: the same expression run as an ordinary program (no meta
                // block, nothing re-emitted as a literal) ends with the same items, in the opposite order
                // (expressions without nested blocks: a nested block hands its own results over in reverse as well)
                if e.consts.is_empty() && !e.text.contains("#(") {
                    let mut plain = fresh();
                    if let Some(Ok(())) = crate::guarded(|| plain.eval(&e.text)) {
                        let m = plain.data_depth();
                        let pv: Vec<String> = (0..m).map(|i| plain.get_data(i).map(canon::cell).unwrap_or_default()).collect();
                        let bv: Vec<String> = (0..n).rev().map(|i| probe.get_data(i).map(canon::cell).unwrap_or_default()).collect();
                        ctx.check(pv == bv, || format!("C11 values of `{}` vs the same expression run as a program", block), || format!("{:?}", pv), || format!("{:?}", bv));
                        ctx.tag("inline:values-vs-plain-run");
                    }
                }
                let const_vals: Vec<(String, String)> = e.consts.iter().filter_map(|c| probe.get_var_value(c).ok().and_then(literal).map(|v| (c.clone(), v))).collect();
                let (pre, post, inner_meta) = *ctx.rng.pick(CONTEXTS);
                ctx.tag(&format!("ctx:{}|{}", pre, post));
                let use_const = if !const_vals.is_empty() && ctx.rng.bool() { Some(ctx.rng.pick(&const_vals).clone()) } else { None };
                // inside a nested meta block / a definition inside a meta block the results stay on the meta stack
                // in evaluation order, outside they are re-emitted last result first
                let inlined = if inner_meta { let mut v = vals.clone(); v.reverse(); v.join(" ") } else { vals.join(" ") };
                let tail_a = use_const.as_ref().map(|(n, _)| format!(" {}", n)).unwrap_or_default();
                let tail_b = use_const.as_ref().map(|(_, v)| format!(" {}", v)).unwrap_or_default();
                let a_src = format!("{} {} {}{}", pre, block, post, tail_a);
                let b_src = format!("{} {} {}{}", pre, inlined, post, tail_b);
                let compile_run = ctx.rng.chance(30);
                let ops_a: Vec<Op> = if compile_run { vec![Op::Compile(a_src.clone()), Op::Run] } else { vec![Op::Eval(a_src.clone())] };
                let ops_b: Vec<Op> = if compile_run { vec![Op::Compile(b_src.clone()), Op::Run] } else { vec![Op::Eval(b_src.clone())] };
                correspondence(ctx, "C11", &ops_a);
                let (mut xa, mut xb) = (fresh(), fresh());
                let ra: Vec<String> = ops_a.iter().map(|o| apply(&mut xa, o)).collect();
                let rb: Vec<String> = ops_b.iter().map(|o| apply(&mut xb, o)).collect();
                let (sa, sb) = (outcome_sig(&mut xa, &e.consts), outcome_sig(&mut xb, &e.consts));
                ctx.check(ra == rb && sa == sb, || format!("C11 inline `{}` vs `{}`", a_src, b_src), || format!("{:?} {}", rb, sb), || format!("{:?} {}", ra, sa));
                // purge: at top level the new words are exactly the constants, the code grew by one literal per result
                if pre.is_empty() && post.is_empty() && use_const.is_none() && !compile_run {
                    let mut x = fresh();
                    let (w0, c0) = (x.word_list().len(), x.verif_dump().code_len);
                    let _ = x.eval(&block);
                    let newwords: Vec<String> = x.word_list()[w0..].iter().map(|w| w.to_string()).collect();
                    let mut expect = e.consts.clone(); expect.sort(); expect.dedup();
                    let mut got = newwords.clone(); got.sort(); got.dedup();
                    let grew = x.verif_dump().code_len - c0;
                    ctx.check(got == expect && grew == n, || format!("C11 purge `{}`", block), || format!("new words {:?}, code +{}", expect, n), || format!("new words {:?}, code +{}", newwords, grew));
                }
            }
            5 | 6 => {
                // ---- sealed
                if ctx.rng.chance(12) {
                    // a block nested in another block: the existing suite pins that it shares the outer block's stack
                    // (`#( 1 #( drop #) #)` must succeed, test_meta_stack), the property says it is sealed
                    ctx.tag("kind:sealed-nested");
                    let (a, b) = (ctx.rng.range(0, 9), ctx.rng.range(0, 9));
                    let inner = *ctx.rng.pick(&["depth", "drop 7", "swap", "dup"]);
                    let src = format!("#( {} {} #( {} #) #)", a, b, inner);
                    correspondence(ctx, "C11", &[Op::Eval(src.clone())]);
                    let mut x = fresh();
                    let r = apply(&mut x, &Op::Eval(src.clone()));
                    let mut e = fresh();
                    let re = apply(&mut e, &Op::Eval(format!("#( {} #)", inner)));
                    // sealed would mean: the inner block does what it does on an empty stack (fails, or pushes 0 for `depth`)
                    let sealed = if re == "ok" { r == "ok" && x.data_depth() == 2 + e.data_depth() && x.get_data(2 + e.data_depth() - 1).map(canon::cell) == e.get_data(e.data_depth().saturating_sub(1)).map(canon::cell) && inner != "depth" || (inner == "depth" && x.get_data(2).map(canon::cell) == Some("i0".into())) } else { r != "ok" };
                    ctx.check(sealed, || format!("[nested-meta-shares-stack] C11 `{}`", src), || format!("the inner block behaves as on an empty stack ({})", re), || format!("{} depth={}", r, x.data_depth()));
                    continue;
                }
                ctx.tag("kind:sealed");
                let mut outer = format!("{} {} {} var sv", ctx.rng.range(0, 99), ctx.rng.range(0, 99), ctx.rng.range(0, 99));
                // the settings the native words consult (byte order, current input and offset, output) are variables of
                // the surrounding program as well: a block neither sees nor changes them
                let settings = ctx.rng.chance(25);
                if settings { outer = format!("big |01 02 03 04| open-bitstr u8 drop {}", outer); ctx.tag("kind:sealed-settings"); }
                let attack = if settings { *ctx.rng.pick(&["#( 258 u16! #)", "#( 258 16 uint! #)", "#( 1.5 f32! #)", "#( remain #)", "#( offset #)", "#( input #)", "#( big? #)", "#( u8 #)", "#( 8 bits #)",
                    "#( |02| find #)", "#( little 1 #)", "#( 0 seek 1 #)", "#( |05| open-bitstr 1 #)", "#( close-bitstr 1 #)", "#( output-length #)", "#( -2 16 int! #)", "#( 2 bytes #)"]) } else { *ctx.rng.pick(&["#( depth #)", "#( drop #)", "#( sv #)", "#( 5 ! sv #)", "#( swap #)", "#( dup #)", "#( 1 var mv #)", "#( .s 1 #)",
                    "#( rot #)", "#( over #)", "#( I #)", "#( depth depth + #)", "#( #( depth #) #)", "#( [ ] length depth + #)", "#( : peek depth ; peek #)", "#( : thief drop ; thief #)",
                    // blocks that have SOME items of their own, but fewer than the word needs: the rest must not come from outside
                    "#( 2 over #)", "#( 2 swap #)", "#( 1 rot #)", "#( 1 2 rot #)", "#( 7 drop drop #)", "#( 1 over over #)", "#( 3 dup drop drop drop #)", "#( 1 2 + + #)",
                    "#( 5 : two-over over over ; two-over #)", "#( 4 nil? swap #)", "#( 1 [ swap ] #)", "#( 9 depth over #)"]) };
                let ops = vec![Op::Eval(outer.clone()), Op::Eval(attack.to_string())];
                correspondence(ctx, "C11", &ops);
                let mut x = fresh();
                apply(&mut x, &ops[0]);
                let before = outcome_sig(&mut x, &[]);
                let depth0 = x.data_depth();
                let r = apply(&mut x, &ops[1]);
                // reference: the same block submitted to an interpreter whose stack is empty and that has no `sv`
                let mut e = fresh();
                let re = apply(&mut e, &ops[1]);
                let pushed_ref: Vec<String> = (0..e.data_depth()).map(|i| e.get_data(i).map(canon::cell).unwrap_or_default()).collect();
                if r == "ok" {
                    // whatever it pushed is what it pushes on an empty stack; drop it and everything else is as before
                    let pushed = x.data_depth() - depth0;
                    let tops: Vec<String> = (0..pushed).map(|i| x.get_data(i).map(canon::cell).unwrap_or_default()).collect();
                    for _ in 0..pushed { let _ = x.eval("drop"); }
                    let after = outcome_sig(&mut x, &[]);
                    let out_same = x.stdout().map(|s| s.clone()) == e.stdout().map(|s| s.clone());
                    ctx.check(re == "ok" && tops == pushed_ref && before == after && out_same, || format!("C11 sealed `{}` then `{}`", outer, attack),
                        || format!("{} pushed {:?}; {}", re, pushed_ref, before), || format!("{} pushed {:?}; {}", r, tops, after));
                } else {
                    let after = outcome_sig(&mut x, &[]);
                    // reading or writing `sv` fails either way (unknown word there, constant context here): only the kind of result is compared
                    let same_kind = re.split(' ').next() == r.split(' ').next();
                    ctx.check(before == after && same_kind, || format!("C11 sealed `{}` then `{}` ({})", outer, attack, r), || format!("{}; {}", re, before), || format!("{}; {}", r, after));
                }
            }
            7 => {
                // ---- compile executes nothing outside meta blocks
                ctx.tag("kind:compile-is-inert");
                let setup = "1 2 3 10 var cv [ 4 ] var cw";
                let mut src = gen_program(&mut ctx.rng, &cfg).0;
                if ctx.rng.bool() { let e = gen_expr(&mut ctx.rng, 1, &mut uniq); src = format!("{} #( {} #) {}", src, e.text, ctx.rng.pick(&["", "drop", "! cv", "cv +"])); }
                if ctx.rng.bool() { src = format!("{} 99 ! cv \"printed\" print drop drop", src); }
                correspondence(ctx, "C11", &[Op::Eval(setup.to_string()), Op::Compile(src.clone())]);
                let mut x = fresh();
                let _ = x.eval(setup);
                // a third of the sources are compiled from a file (`compile_file`, what a host does with a script): the same
                // entry point with another way in — nothing runs until `run`
                let from_file = ctx.rng.chance(33);
                let r = if from_file {
                    ctx.tag("compile:from-file");
                    let dir = crate::lib_files(&ctx.scratch);
                    let path = format!("{}/inert-{}.xeh", dir, ctx.rng.below(1_000_000));
                    std::fs::write(&path, &src).unwrap();
                    match crate::guarded(|| x.compile_file(Xstr::from(path.as_str()))) { None => "panic".to_string(), Some(Ok(())) => "ok".to_string(), Some(Err(e)) => format!("rej {}", canon::err(&e)) }
                } else { apply(&mut x, &Op::Compile(src.clone())) };
                let mut y = fresh();
                let _ = y.eval(setup);
                let hlen = y.verif_dump().heap.len();
                let cut = |x: &mut Xstate| { let d = x.verif_dump(); format!("ds={} heap={} out={:?}", d.data_visible.iter().chain(d.data_hidden.iter()).map(canon::cell).collect::<Vec<_>>().join(","), d.heap.iter().take(hlen).map(canon::cell).collect::<Vec<_>>().join(","), x.stdout().map(|s| s.clone()).unwrap_or_default()) };
                let (b, a) = (cut(&mut y), cut(&mut x));
                ctx.check(a == b, || format!("C11 compile `{}` ({})", src, r), || b.clone(), || a.clone());
            }
            _ => {
                // ---- eval = compile + run
                ctx.tag("kind:eval=compile+run");
                let mut src = gen_program(&mut ctx.rng, &cfg).0;
                if ctx.rng.chance(60) { let e = gen_expr(&mut ctx.rng, 1, &mut uniq); let (pre, post, _) = *ctx.rng.pick(CONTEXTS); src = format!("{} {} #( {} #) {}", src, pre, e.text, post); }
                correspondence(ctx, "C11", &[Op::Compile(src.clone()), Op::Run]);
                let (mut xa, mut xb) = (fresh(), fresh());
                let ra = apply(&mut xa, &Op::Eval(src.clone()));
                let rb = { let r = apply(&mut xb, &Op::Compile(src.clone())); if r == "ok" { apply(&mut xb, &Op::Run) } else { r } };
                let norm = |s: String| s.replacen("rej ", "", 1).replacen("fail ", "", 1);
                let (sa, sb) = (format!("{} code=[{}]", outcome_sig(&mut xa, &[]), vmcanon::code_str(&xa)), format!("{} code=[{}]", outcome_sig(&mut xb, &[]), vmcanon::code_str(&xb)));
                // a run-time failure leaves the two styles in different contexts (eval keeps its own context open); compare only successful runs and rejections
                if ra == "ok" || ra.starts_with("rej") {
                    ctx.check(norm(ra.clone()) == norm(rb.clone()) && sa == sb, || format!("C11 eval=compile+run `{}`", src), || format!("{} {}", rb, sb), || format!("{} {}", ra, sa));
                } else {
                    ctx.check(norm(ra.clone()) == norm(rb.clone()), || format!("C11 eval=compile+run (result) `{}`", src), || rb.clone(), || ra.clone());
                }
            }
        }
    }
    // blocks that try to WRITE what belongs to the surrounding program — a variable, the byte order, the position in the
    // input, the input itself — are refused, and refused means nothing was written: always part of the run, evaluated and
    // compiled
    for attack in ["#( 5 ! sv #)", "#( sv 1 + ! sv #)", "#( big #)", "#( little 1 #)", "#( 1 ! big? #)", "#( 0 seek 1 #)", "#( 16 ! offset #)", "#( |05| open-bitstr 1 #)", "#( close-bitstr 1 #)", "#( | | ! input #)",
        "#( u8 #)", "#( 8 bits #)", "#( |07| emit 1 #)", "1 #( 5 ! sv #) 2", ": w #( 5 ! sv #) ;", "#( : setter 5 ! sv ; setter #)", "#( 1 #( 5 ! sv #) #)"] {
        for outer in ["1 2 3 var sv", "little |01 02 03 04| open-bitstr u8 drop 7 var sv", "big |01 02 03 04| open-bitstr 3 var sv"] {
            for compile in [false, true] {
                let mut x = fresh();
                apply(&mut x, &Op::Eval(outer.to_string()));
                let view = |x: &Xstate| { let mut p = x.clone(); let r = crate::guarded(|| p.eval("sv big? offset input remain 258 u16!")); format!("{:?} {}", r.map(|r| r.is_ok()), canon::stack(&p).iter().map(canon::cell).collect::<Vec<_>>().join(" ")) };
                let before = (view(&x), outcome_sig(&mut x, &[]));
                let r = apply(&mut x, &if compile { Op::Compile(attack.to_string()) } else { Op::Eval(attack.to_string()) });
                if r == "ok" {
                    // (a block that only reads what it may read, or a definition that holds the block: nothing has run that could write)
                    ctx.tag("sealed-writes:accepted");
                    let after = view(&x);
                    if !attack.starts_with(": w") { ctx.check(before.0 == after, || format!("C11 sealed `{}` then {} `{}` (accepted)", outer, if compile { "compile" } else { "eval" }, attack), || before.0.clone(), || after.clone()); }
                    continue;
                }
                let after = (view(&x), outcome_sig(&mut x, &[]));
                ctx.check(before == after, || format!("C11 sealed `{}` then {} `{}` ({})", outer, if compile { "compile" } else { "eval" }, attack, r), || format!("{} ; {}", before.0, before.1), || format!("{} ; {}", after.0, after.1));
                ctx.tag("sealed-writes:refused");
            }
        }
    }
    // what a block leaves — and what a constant holds — is inlined as the value it is, TAGS INCLUDED: the program with the
    // block replaced by the expression that computes its value prints the same and leaves the same tags (numbers in and
    // beyond the 64-bit range, texts, nil, vectors; formatting tags and user tags; constants defined in a block)
    for (inner, probe) in [("255 ^hex", "dup print tags"), ("255 ^hex", "tags"), ("\"k\" \"v\" \"doc\" insert-tag", "\"doc\" get-tag"), ("nil 1 \"t\" insert-tag", "tags"),
        ("18446744073709551616 ^hex", "dup print tags"), ("[ 1 2 ] 3 \"n\" insert-tag", "tags"), ("1.5 2 \"r\" insert-tag", "tags"), ("7 ^bin true fmt/prefix", "dup print tags"), ("-9 1 \"a\" insert-tag 2 \"b\" insert-tag", "tags")] {
        let run1 = |src: String| -> String {
            let mut xs = fresh();
            let r = crate::guarded(|| xs.eval(&src));
            format!("{:?} stack=[{}] out={:?}", r.map(|r| r.map_err(|e| canon::err(&e))), canon::stack(&xs).iter().map(canon::cell).collect::<Vec<_>>().join(" "), xs.stdout().cloned().unwrap_or_default())
        };
        let plain = run1(format!("{} {}", inner, probe));
        let block = run1(format!("#( {} #) {}", inner, probe));
        let konst = run1(format!("#( {} const kt #) kt {}", inner, probe));
        let in_def = run1(format!(": w #( {} #) ; w {}", inner, probe));
        ctx.check(plain == block && plain == konst && plain == in_def, || format!("C11 `{}` then `{}`: written out, as a block, as a constant defined in a block, as a block inside a definition", inner, probe),
            || plain.clone(), || format!("block: {} // constant: {} // in a definition: {}", block, konst, in_def));
        ctx.tag("inlined-values-keep-their-tags");
    }
}
