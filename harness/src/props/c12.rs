//! C12 — maps, vectors and strings obey collection laws under the language's equality.
//!
//! Correspondence: `C12 <word|{}|[]|foreach> <operands bottom-first>` → canonical outcome; every line is
//! self-contained (operation *sequences* are threaded by the harness: the result of one step is an
//! operand of the next, and the previous collection is re-read after every update).
//! Oracle (implementation only): a list-based association list keyed by an independent structural
//! equality (`same`), a `Vec<Cell>` / `Vec<char>` sequence model with Python-style index clamping.
//!
//! Known finding (DESIGN §6 #16/#20): `Ord for Cell` answers `Equal` for every pair that is not
//! int/int, real/real, str/str, so map keys of different types collide and `sort` of mixed vectors may
//! panic. An oracle failure is prefixed `[incomparable-keys]` / `[incomparable-sort]` **iff the generated
//! input contains a map key / sort element outside the guard** (all keys of ONE of the classes int /
//! non-NaN real / str) — decided from the key mode the sequence was generated in, never from the failure.
use super::gen::*;
use crate::canon;
use crate::rng::Rng;
use crate::Ctx;
use xeh::prelude::*;

pub(crate) const SRC_MAP_LIT: &str = "{ dup unbox } swap drop";
pub(crate) const SRC_VEC_LIT: &str = "[ dup unbox ] swap drop";
pub(crate) const SRC_FOREACH: &str = "[ dup foreach I loop ] swap drop";

/// run `src` on a clone of `base` with `args` pushed (bottom first): canonical outcome + result stack
pub(crate) fn run_src(base: &Xstate, src: &str, args: &[Cell]) -> (String, Option<Vec<Cell>>) {
    let mut xs = base.clone();
    let r = crate::guarded(|| {
        for a in args {
            xs.push_data(a.clone()).unwrap();
        }
        let res = xs.eval(src);
        (res, canon::stack(&xs))
    });
    match r {
        None => ("panic".into(), None),
        Some((Ok(()), st)) => (canon::ok_stack(&st), Some(st)),
        Some((Err(e), _)) => (format!("err {}", canon::err(&e)), None),
    }
}

fn src_of(word: &str) -> &str {
    match word {
        "{}" => SRC_MAP_LIT,
        "[]" => SRC_VEC_LIT,
        "foreach" => SRC_FOREACH,
        w => w,
    }
}

/// run + record the correspondence line
fn step(ctx: &mut Ctx, base: &Xstate, word: &str, args: &[Cell]) -> (String, Option<Vec<Cell>>) {
    let (out, st) = run_src(base, src_of(word), args);
    ctx.tag(&format!("word:{}", word));
    let kind = if out.starts_with("ok") { "ok".to_string() } else { out.split(|c| c == ' ' || c == ':').take(2).collect::<Vec<_>>().join(":") };
    ctx.tag(&format!("outcome:{}", kind));
    ctx.case(format!("C12 {} {}", word, canon::stack_str(args)).trim_end().to_string(), out.clone());
    (out, st)
}

// ---------------------------------------------------------------------------------------------
// independent equality and ordering of the reference

/// structural equality that ignores tags at every depth (the language's `equal?` as the property states it)
pub(crate) fn same(a: &Cell, b: &Cell) -> bool {
    match (a.value(), b.value()) {
        (Cell::Nil, Cell::Nil) => true,
        (Cell::Flag(x), Cell::Flag(y)) => x == y,
        (Cell::Int(x), Cell::Int(y)) => x == y,
        (Cell::Real(x), Cell::Real(y)) => x == y,
        (Cell::Str(x), Cell::Str(y)) => x.as_str() == y.as_str(),
        (Cell::Bitstr(x), Cell::Bitstr(y)) => canon::bits_of(x) == canon::bits_of(y),
        (Cell::Vector(x), Cell::Vector(y)) => x.len() == y.len() && x.iter().zip(y.iter()).all(|(p, q)| same(p, q)),
        (Cell::Map(x), Cell::Map(y)) => {
            x.size() == y.size() && x.iter().all(|(k, v)| y.iter().any(|(k2, v2)| same(k, k2) && same(v, v2)))
        }
        _ => false,
    }
}

#[derive(Clone, Copy, PartialEq, Debug)]
pub(crate) enum KeyMode {
    Int,
    Real,
    Str,
    /// keys that `Ord` cannot order at all (nil, flags, bit-strings, vectors, maps, NaN)
    Wild,
    /// a mixture of everything
    Mixed,
}

impl KeyMode {
    fn guarded(self) -> bool {
        matches!(self, KeyMode::Int | KeyMode::Real | KeyMode::Str)
    }
    fn name(self) -> &'static str {
        match self { KeyMode::Int => "int", KeyMode::Real => "real", KeyMode::Str => "str", KeyMode::Wild => "wild", KeyMode::Mixed => "mixed" }
    }
}

/// class of a key under the guard: Some(0|1|2) for int / non-NaN real / str
fn key_class(c: &Cell) -> Option<u8> {
    match c.value() {
        Cell::Int(_) => Some(0),
        Cell::Real(r) if !r.is_nan() => Some(1),
        Cell::Str(_) => Some(2),
        _ => None,
    }
}

/// reference order inside one class
fn ref_less(a: &Cell, b: &Cell) -> bool {
    match (a.value(), b.value()) {
        (Cell::Int(x), Cell::Int(y)) => x < y,
        (Cell::Real(x), Cell::Real(y)) => x < y,
        (Cell::Str(x), Cell::Str(y)) => x.as_bytes() < y.as_bytes(),
        _ => false,
    }
}

// ---------------------------------------------------------------------------------------------
// generators

const REAL_KEYS: &[f64] = &[0.0, -0.0, 1.0, -1.0, 1.5, 2.5, -2.5, 1e300, -1e300, f64::INFINITY, f64::NEG_INFINITY, 5e-324, 0.1];
const STR_KEYS: &[&str] = &["", "a", "b", "ab", "abc", "B", "é", "日本", "z", "#fmt", "k", "😀"];

fn gen_wild(r: &mut Rng) -> Cell {
    match r.below(7) {
        0 => Cell::Nil,
        1 => Cell::Flag(r.bool()),
        2 => Cell::Bitstr(bitstr_from_bits(&gen_bits(r, 9))),
        3 => {
            let mut v = Xvec::new();
            for _ in 0..r.below(3) {
                v.push_back_mut(Cell::Int(r.range(-2, 2) as i128));
            }
            Cell::Vector(v)
        }
        4 => {
            let mut m = Xmap::new();
            for _ in 0..r.below(3) {
                m.insert_mut(Cell::Int(r.range(0, 3) as i128), Cell::Int(r.range(0, 9) as i128));
            }
            Cell::Map(m)
        }
        5 => Cell::Real(f64::NAN),
        _ => Cell::Nil,
    }
}

pub(crate) fn gen_key(r: &mut Rng, mode: KeyMode) -> Cell {
    let k = match mode {
        KeyMode::Int => {
            if r.chance(80) { Cell::Int(r.range(-4, 6) as i128) } else { Cell::Int(gen_int(r)) }
        }
        KeyMode::Real => Cell::Real(*r.pick(REAL_KEYS)),
        KeyMode::Str => Cell::from(*r.pick(STR_KEYS)),
        KeyMode::Wild => gen_wild(r),
        KeyMode::Mixed => {
            let m = *r.pick(&[KeyMode::Int, KeyMode::Int, KeyMode::Real, KeyMode::Str, KeyMode::Str, KeyMode::Wild]);
            return gen_key(r, m);
        }
    };
    // a tagged key is the same key
    if r.chance(12) { k.insert_tag(Cell::from("t"), Cell::Int(r.range(0, 3) as i128)) } else { k }
}

/// tag maps have string keys only (a tag map is itself a map: other key types are the same finding)
pub(crate) fn gen_tagged(r: &mut Rng, c: Cell, depth: u32) -> Cell {
    match r.below(6) {
        // the tags the implementation itself attaches to what the read words hand back (a big-endian 16-bit read)
        5 => c.insert_tag(Cell::from("big"), Cell::Flag(true)).insert_tag(Cell::from("len"), Cell::Int(*r.pick(&[8i128, 16, 13]))),
        0 => c.insert_tag(Cell::from("k"), Cell::Int(r.range(0, 9) as i128)),
        1 => c.insert_tag(Cell::from("#fmt"), Cell::Int(*r.pick(&[2i128, 8, 10, 16, 16 | 256, 10 | 512]))),
        2 => c.with_tags(Xmap::new()),
        3 => {
            // tags on tags
            let inner = gen_value(r, depth.saturating_sub(1));
            let tv = inner.insert_tag(Cell::from("deep"), Cell::from("x"));
            c.insert_tag(Cell::from("a"), tv).insert_tag(Cell::from("b"), Cell::Nil)
        }
        _ => c.insert_tag(Cell::from("a"), Cell::from("b")).insert_tag(Cell::from("len"), Cell::Int(8)),
    }
}

/// a value of any type; maps inside values have int or str keys only (inside the guard)
pub(crate) fn gen_value(r: &mut Rng, depth: u32) -> Cell {
    let top = if depth == 0 { 6 } else { 9 };
    let c = match r.below(top) {
        0 => Cell::Nil,
        1 => Cell::Flag(r.bool()),
        2 => Cell::Int(if r.chance(70) { r.range(-9, 9) as i128 } else { gen_int(r) }),
        3 => Cell::Real(if r.chance(80) { *r.pick(REAL_KEYS) } else { gen_real(r) }),
        4 => Cell::from(gen_str(r)),
        5 => Cell::Bitstr(bitstr_from_bits(&gen_bits(r, 10))),
        6 | 7 => {
            let mut v = Xvec::new();
            for _ in 0..r.below(4) {
                v.push_back_mut(gen_value(r, depth - 1));
            }
            Cell::Vector(v)
        }
        _ => {
            let mut m = Xmap::new();
            let strk = r.bool();
            for _ in 0..r.below(4) {
                let k = if strk { Cell::from(*r.pick(STR_KEYS)) } else { Cell::Int(r.range(0, 5) as i128) };
                m.insert_mut(k, gen_value(r, depth - 1));
            }
            Cell::Map(m)
        }
    };
    if r.chance(15) { gen_tagged(r, c, depth) } else { c }
}

pub(crate) fn index_set(len: usize, r: &mut Rng) -> Vec<i128> {
    let l = len as i128;
    let mut v = vec![
        0, 1, -1, l - 1, l, -l, l + 1, -(l + 1), -l + 1,
        isize::MAX as i128, isize::MIN as i128, (isize::MAX as i128) - 1, (isize::MIN as i128) + 1,
        1i128 << 63, -(1i128 << 63) - 1, 1i128 << 64, -(1i128 << 64), (1i128 << 64) - 1, (1i128 << 64) + 1,
        i128::MAX, i128::MIN,
    ];
    if len > 0 {
        v.push(r.below(len) as i128);
        v.push(-(r.below(len) as i128) - 1);
    }
    v.sort();
    v.dedup();
    v
}

fn vec_cell(items: &[Cell]) -> Cell {
    let mut v = Xvec::new();
    for x in items {
        v.push_back_mut(x.clone());
    }
    Cell::Vector(v)
}

// ---------------------------------------------------------------------------------------------
// reference models

/// Python `l[a:b]` bounds for any integers
fn py_bounds(len: usize, a: i128, b: i128) -> (usize, usize) {
    let norm = |i: i128| -> usize {
        let l = len as i128;
        if i < 0 { (l + i.max(-l)) as usize } else { i.min(l) as usize }
    };
    let (s, e) = (norm(a), norm(b));
    (s, e.max(s))
}

struct Fails {
    marked: usize,
    marked_sort: usize,
}

fn report(ctx: &mut Ctx, fails: &mut Fails, marker: &str, case: String, expected: String, observed: String) {
    if !marker.is_empty() {
        ctx.tag(&format!("known:{}", marker.trim()));
        fails.marked += 1;
        let sort = marker.contains("sort");
        if sort { fails.marked_sort += 1; }
        // keep room in the failure list for anything that is *not* the known finding
        if (sort && fails.marked_sort > 4) || (!sort && fails.marked - fails.marked_sort > 6) {
            ctx.oracle_ok();
            return;
        }
    }
    ctx.oracle_fail(format!("{}{}", marker, case), expected, observed);
}

fn check(ctx: &mut Ctx, fails: &mut Fails, marker: &str, ok: bool, case: impl FnOnce() -> String, expected: impl FnOnce() -> String, observed: impl FnOnce() -> String) {
    if ok { ctx.oracle_ok() } else { report(ctx, fails, marker, case(), expected(), observed()) }
}

/// the implementation's map agrees with the association list
fn map_agrees(m: &Cell, alist: &[(Cell, Cell)]) -> bool {
    match m {
        Cell::Map(m) => {
            m.size() == alist.len()
                && alist.iter().all(|(k, v)| m.iter().any(|(k2, v2)| same(k, k2) && canon::cell(v) == canon::cell(v2)))
        }
        _ => false,
    }
}

fn alist_str(alist: &[(Cell, Cell)]) -> String {
    format!("entries {{{}}}", alist.iter().map(|(k, v)| format!("{}:{}", canon::cell(k), canon::cell(v))).collect::<Vec<_>>().join(","))
}

fn alist_insert(alist: &mut Vec<(Cell, Cell)>, k: &Cell, v: &Cell) {
    alist.retain(|(k2, _)| !same(k2, k));
    alist.push((k.clone(), v.clone()));
}

fn map_sequence(ctx: &mut Ctx, base: &Xstate, fails: &mut Fails, mode: KeyMode, steps: usize) {
    let marker = if mode.guarded() { "" } else { "[incomparable-keys] " };
    ctx.tag(&format!("mapseq:keys:{}", mode.name()));
    let mut cur = Cell::Map(Xmap::new());
    let mut alist: Vec<(Cell, Cell)> = Vec::new();
    for _ in 0..steps {
        let old = cur.clone();
        let old_txt = canon::cell(&old);
        let old_alist = alist.clone();
        let pick_key = |ctx: &mut Ctx, alist: &Vec<(Cell, Cell)>| {
            if !alist.is_empty() && ctx.rng.chance(45) { alist[ctx.rng.below(alist.len())].0.clone() } else { gen_key(&mut ctx.rng, mode) }
        };
        match ctx.rng.below(10) {
            0..=3 => {
                let k = pick_key(ctx, &alist);
                let v = gen_value(&mut ctx.rng, 2);
                let args = [cur.clone(), v.clone(), k.clone()];
                let (out, st) = step(ctx, base, "insert", &args);
                alist_insert(&mut alist, &k, &v);
                let case = || format!("C12 insert {}", canon::stack_str(&args));
                match st {
                    Some(st) if st.len() == 1 => {
                        check(ctx, fails, marker, map_agrees(&st[0], &alist), case, || alist_str(&alist), || out.clone());
                        cur = st[0].clone();
                    }
                    _ => report(ctx, fails, "", case(), "a map".into(), out.clone()),
                }
            }
            4 => {
                let k = pick_key(ctx, &alist);
                let args = [cur.clone(), k.clone()];
                let (out, st) = step(ctx, base, "remove", &args);
                alist.retain(|(k2, _)| !same(k2, &k));
                let case = || format!("C12 remove {}", canon::stack_str(&args));
                match st {
                    Some(st) if st.len() == 1 => {
                        check(ctx, fails, marker, map_agrees(&st[0], &alist), case, || alist_str(&alist), || out.clone());
                        cur = st[0].clone();
                    }
                    _ => report(ctx, fails, "", case(), "a map".into(), out.clone()),
                }
            }
            5..=7 => {
                let k = pick_key(ctx, &alist);
                let args = [cur.clone(), k.clone()];
                let (out, _) = step(ctx, base, "get", &args);
                let exp = alist.iter().find(|(k2, _)| same(k2, &k)).map(|(_, v)| v.clone()).unwrap_or(Cell::Nil);
                let exp_s = canon::ok_stack(&[exp]);
                check(ctx, fails, marker, out == exp_s, || format!("C12 get {}", canon::stack_str(&args)), || exp_s.clone(), || out.clone());
            }
            8 => {
                let args = [cur.clone()];
                let (out, st) = step(ctx, base, "foreach", &args);
                let case = || format!("C12 foreach {}", canon::stack_str(&args));
                let items: Option<Vec<Cell>> = st.and_then(|st| if st.len() == 1 { st[0].vec().ok().map(|v| v.iter().cloned().collect()) } else { None });
                match items {
                    Some(items) if items.len() % 2 == 0 => {
                        let pairs: Vec<(Cell, Cell)> = items.chunks(2).map(|c| (c[0].clone(), c[1].clone())).collect();
                        let set_ok = pairs.len() == alist.len()
                            && alist.iter().all(|(k, v)| pairs.iter().any(|(k2, v2)| same(k, k2) && canon::cell(v) == canon::cell(v2)));
                        let sorted = !mode.guarded() || pairs.windows(2).all(|w| ref_less(&w[0].0, &w[1].0));
                        check(ctx, fails, marker, set_ok && sorted, case, || format!("every entry once, ascending keys: {}", alist_str(&alist)), || out.clone());
                    }
                    _ => report(ctx, fails, "", case(), "key value key value …".into(), out.clone()),
                }
            }
            _ => {
                // a literal built from fresh pairs (duplicates included): fold of insert
                let n = ctx.rng.below(6);
                let mut cells = Vec::new();
                let mut lit: Vec<(Cell, Cell)> = Vec::new();
                for _ in 0..n {
                    let k = pick_key(ctx, &lit);
                    let v = gen_value(&mut ctx.rng, 1);
                    cells.push(v.clone());
                    cells.push(k.clone());
                    alist_insert(&mut lit, &k, &v);
                }
                let odd = ctx.rng.chance(8);
                if odd { cells.push(Cell::Int(7)); }
                let args = [vec_cell(&cells)];
                let (out, st) = step(ctx, base, "{}", &args);
                let case = || format!("C12 {{}} {}", canon::stack_str(&args));
                if odd {
                    check(ctx, fails, "", out == "err ControlFlowError:missing_key_element", case, || "err ControlFlowError:missing_key_element".into(), || out.clone());
                } else {
                    match st {
                        Some(st) if st.len() == 1 => check(ctx, fails, marker, map_agrees(&st[0], &lit), case, || alist_str(&lit), || out.clone()),
                        _ => report(ctx, fails, "", case(), "a map".into(), out.clone()),
                    }
                }
            }
        }
        // collections are values: the map we held before the step is unchanged
        let ok = canon::cell(&old) == old_txt;
        check(ctx, fails, "", ok, || format!("C12 value-semantics {}", old_txt), || old_txt.clone(), || canon::cell(&old));
        if ctx.rng.chance(25) && !old_alist.is_empty() {
            // and re-reading it through the language gives what it gave before
            let (k, v) = old_alist[ctx.rng.below(old_alist.len())].clone();
            let args = [old.clone(), k];
            let (out, _) = step(ctx, base, "get", &args);
            let exp_s = canon::ok_stack(&[v]);
            check(ctx, fails, marker, out == exp_s, || format!("C12 get(old) {}", canon::stack_str(&args)), || exp_s.clone(), || out.clone());
        }
    }
}

// ---------------------------------------------------------------------------------------------
// vectors and strings

fn expect_index_error(out: &str) -> bool {
    out.starts_with("err OutOfBounds") || out == "err IntegerOverflow" || out.starts_with("err TypeErrorMsg")
}

fn nth_case(ctx: &mut Ctx, base: &Xstate, fails: &mut Fails, items: &[Cell], i: i128, tagged: bool) {
    let v = vec_cell(items);
    let v = if tagged { v.insert_tag(Cell::from("k"), Cell::Int(1)) } else { v };
    let args = [v, Cell::Int(i)];
    let (out, _) = step(ctx, base, "nth", &args);
    let l = items.len() as i128;
    let case = || format!("C12 nth {}", canon::stack_str(&args));
    if i >= -l && i < l {
        let e = &items[(if i < 0 { l + i } else { i }) as usize];
        let exp = canon::ok_stack(&[e.clone()]);
        check(ctx, fails, "", out == exp, case, || exp.clone(), || out.clone());
    } else {
        check(ctx, fails, "", out.starts_with("err OutOfBounds") || out == "err IntegerOverflow", case, || "err OutOfBounds / IntegerOverflow".into(), || out.clone());
        // inside the isize range the error names the index and the bounds
        if i >= isize::MIN as i128 && i <= isize::MAX as i128 {
            let exp = format!("err OutOfBounds:{}:0..{}", i, l);
            check(ctx, fails, "", out == exp, case, || exp.clone(), || out.clone());
        }
    }
}

fn get_case(ctx: &mut Ctx, base: &Xstate, fails: &mut Fails, items: &[Cell], i: i128) {
    let args = [vec_cell(items), Cell::Int(i)];
    let (out, _) = step(ctx, base, "get", &args);
    let l = items.len() as i128;
    let case = || format!("C12 get {}", canon::stack_str(&args));
    if i >= 0 && i < l {
        let exp = canon::ok_stack(&[items[i as usize].clone()]);
        check(ctx, fails, "", out == exp, case, || exp.clone(), || out.clone());
    } else {
        check(ctx, fails, "", expect_index_error(&out), case, || "an index error".into(), || out.clone());
    }
}

fn slice_case(ctx: &mut Ctx, base: &Xstate, fails: &mut Fails, seq: &Cell, a: i128, b: i128) {
    let args = [seq.clone(), Cell::Int(a), Cell::Int(b)];
    let (out, _) = step(ctx, base, "slice", &args);
    let exp = match seq.value() {
        Cell::Vector(v) => {
            let items: Vec<Cell> = v.iter().cloned().collect();
            let (s, e) = py_bounds(items.len(), a, b);
            canon::ok_stack(&[vec_cell(&items[s..e])])
        }
        Cell::Str(s) => {
            let chars: Vec<char> = s.chars().collect();
            let (st, e) = py_bounds(chars.len(), a, b);
            canon::ok_stack(&[Cell::from(chars[st..e].iter().collect::<String>())])
        }
        _ => return,
    };
    check(ctx, fails, "", out == exp, || format!("C12 slice {}", canon::stack_str(&args)), || exp.clone(), || out.clone());
}

fn gen_items(r: &mut Rng, n: usize, depth: u32) -> Vec<Cell> {
    (0..n).map(|_| gen_value(r, depth)).collect()
}

fn sort_case(ctx: &mut Ctx, base: &Xstate, fails: &mut Fails, items: &[Cell]) {
    let class0 = items.first().and_then(key_class);
    let comparable = items.iter().all(|x| key_class(x).is_some() && key_class(x) == class0);
    let marker = if comparable { "" } else { "[incomparable-sort] " };
    ctx.tag(if comparable { "sort:comparable" } else { "sort:mixed" });
    let args = [vec_cell(items)];
    let (out, st) = step(ctx, base, "sort", &args);
    let case = || format!("C12 sort {}", canon::stack_str(&args));
    if out == "panic" {
        return report(ctx, fails, marker, case(), "a vector, never a panic".into(), out);
    }
    let res: Option<Vec<Cell>> = st.and_then(|st| if st.len() == 1 { st[0].vec().ok().map(|v| v.iter().cloned().collect()) } else { None });
    match res {
        Some(res) => {
            let mut a: Vec<String> = items.iter().map(canon::cell).collect();
            let mut b: Vec<String> = res.iter().map(canon::cell).collect();
            a.sort();
            b.sort();
            let perm = a == b;
            let sorted = !comparable || res.windows(2).all(|w| !ref_less(&w[1], &w[0]));
            check(ctx, fails, marker, perm && sorted, case, || "an ascending permutation of the input".into(), || out.clone());
        }
        None => report(ctx, fails, "", case(), "a vector".into(), out),
    }
}

fn vec_sequence(ctx: &mut Ctx, base: &Xstate, fails: &mut Fails, steps: usize) {
    let n0 = ctx.rng.below(5);
    let mut items = gen_items(&mut ctx.rng, n0, 2);
    let mut cur = vec_cell(&items);
    for _ in 0..steps {
        let old = cur.clone();
        let old_items = items.clone();
        let old_txt = canon::cell(&old);
        match ctx.rng.below(9) {
            0..=2 => {
                let x = gen_value(&mut ctx.rng, 2);
                let args = [x.clone(), cur.clone()];
                let (out, st) = step(ctx, base, "push", &args);
                items.push(x);
                let exp = canon::ok_stack(&[vec_cell(&items)]);
                check(ctx, fails, "", out == exp, || format!("C12 push {}", canon::stack_str(&args)), || exp.clone(), || out.clone());
                if let Some(st) = st { if st.len() == 1 { cur = st[0].clone(); } }
            }
            3 => {
                let args = [cur.clone()];
                let (out, st) = step(ctx, base, "reverse", &args);
                items.reverse();
                let exp = canon::ok_stack(&[vec_cell(&items)]);
                check(ctx, fails, "", out == exp, || format!("C12 reverse {}", canon::stack_str(&args)), || exp.clone(), || out.clone());
                if let Some(st) = st { if st.len() == 1 { cur = st[0].clone(); } }
            }
            4 => {
                let args = [cur.clone()];
                let (out, _) = step(ctx, base, "length", &args);
                let exp = canon::ok_stack(&[Cell::Int(items.len() as i128)]);
                check(ctx, fails, "", out == exp, || format!("C12 length {}", canon::stack_str(&args)), || exp.clone(), || out.clone());
            }
            5 => {
                let idx = index_set(items.len(), &mut ctx.rng);
                let i = *ctx.rng.pick(&idx);
                let tagged = ctx.rng.chance(15);
                nth_case(ctx, base, fails, &items, i, tagged);
            }
            6 => {
                let idx = index_set(items.len(), &mut ctx.rng);
                let i = *ctx.rng.pick(&idx);
                get_case(ctx, base, fails, &items, i);
            }
            7 => {
                let idx = index_set(items.len(), &mut ctx.rng);
                let (a, b) = (*ctx.rng.pick(&idx), *ctx.rng.pick(&idx));
                let (out, st) = {
                    slice_case(ctx, base, fails, &cur, a, b);
                    run_src(base, "slice", &[cur.clone(), Cell::Int(a), Cell::Int(b)])
                };
                let _ = out;
                if ctx.rng.bool() {
                    if let Some(st) = st { if st.len() == 1 { if let Ok(v) = st[0].vec() { items = v.iter().cloned().collect(); cur = st[0].clone(); } } }
                }
            }
            _ => {
                // unbox then collect gives the vector back; the cell underneath is untouched
                let args = [Cell::Int(42), cur.clone()];
                let (out, _) = step(ctx, base, "unbox", &args);
                let mut exp_st = vec![Cell::Int(42)];
                exp_st.extend(items.iter().cloned());
                let exp = canon::ok_stack(&exp_st);
                check(ctx, fails, "", out == exp, || format!("C12 unbox {}", canon::stack_str(&args)), || exp.clone(), || out.clone());
                let mut args2 = exp_st.clone();
                args2.push(Cell::Int(items.len() as i128));
                let (out2, _) = step(ctx, base, "collect", &args2);
                let exp2 = canon::ok_stack(&[Cell::Int(42), vec_cell(&items)]);
                check(ctx, fails, "", out2 == exp2, || format!("C12 collect {}", canon::stack_str(&args2)), || exp2.clone(), || out2.clone());
            }
        }
        // value semantics: the vector held before the step still reads the same
        check(ctx, fails, "", canon::cell(&old) == old_txt, || format!("C12 value-semantics {}", old_txt), || old_txt.clone(), || canon::cell(&old));
        if !old_items.is_empty() && ctx.rng.chance(30) {
            let i = ctx.rng.below(old_items.len());
            let (out, _) = run_src(base, "nth", &[old.clone(), Cell::Int(i as i128)]);
            let exp = canon::ok_stack(&[old_items[i].clone()]);
            check(ctx, fails, "", out == exp, || format!("C12 nth(old) {} i{}", old_txt, i), || exp.clone(), || out.clone());
        }
    }
}

fn join_elem(r: &mut Rng, depth: u32) -> Cell {
    match r.below(if depth == 0 { 4 } else { 6 }) {
        0 | 1 => Cell::from(gen_str(r)),
        2 => Cell::Int(if r.chance(70) { r.range(-99, 99) as i128 } else { gen_int(r) }),
        3 => r.pick(&[Cell::Nil, Cell::Flag(true), Cell::Flag(false)]).clone(),
        4 => {
            let n = r.below(4);
            let v = vec_cell(&(0..n).map(|_| join_elem(r, depth - 1)).collect::<Vec<_>>());
            if r.chance(20) { v.insert_tag(Cell::from("k"), Cell::Int(1)) } else { v }
        }
        _ => Cell::from(gen_str(r)).insert_tag(Cell::from("k"), Cell::Int(2)),
    }
}

fn join_cases(ctx: &mut Ctx, base: &Xstate, fails: &mut Fails) {
    // strings only: the oracle is Rust's own concat / join
    let n = ctx.rng.below(5);
    let strs: Vec<String> = (0..n).map(|_| gen_str(&mut ctx.rng)).collect();
    let v = vec_cell(&strs.iter().map(|s| Cell::from(s.as_str())).collect::<Vec<_>>());
    let (out, _) = step(ctx, base, "concat", &[v.clone()]);
    let exp = canon::ok_stack(&[Cell::from(strs.concat())]);
    check(ctx, fails, "", out == exp, || format!("C12 concat {}", canon::cell(&v)), || exp.clone(), || out.clone());
    let sep = gen_str(&mut ctx.rng);
    let (out, _) = step(ctx, base, "join", &[v.clone(), Cell::from(sep.as_str())]);
    let exp = canon::ok_stack(&[Cell::from(strs.join(&sep))]);
    check(ctx, fails, "", out == exp, || format!("C12 join {} {}", canon::cell(&v), sep), || exp.clone(), || out.clone());
    // correspondence only: nested vectors, ints, nil, flags, tagged strings / vectors
    let n = ctx.rng.below(5);
    let v = vec_cell(&(0..n).map(|_| join_elem(&mut ctx.rng, 2)).collect::<Vec<_>>());
    step(ctx, base, "concat", &[v.clone()]);
    step(ctx, base, "join", &[v, Cell::from(sep.as_str())]);
}

fn string_cases(ctx: &mut Ctx, base: &Xstate, fails: &mut Fails) {
    let s = gen_str(&mut ctx.rng);
    let c = Cell::from(s.as_str());
    let c = if ctx.rng.chance(15) { c.insert_tag(Cell::from("k"), Cell::Int(1)) } else { c };
    let (out, _) = step(ctx, base, "length", &[c.clone()]);
    // `length` of a string counts UTF-8 bytes (slice counts chars)
    let exp = canon::ok_stack(&[Cell::Int(s.len() as i128)]);
    check(ctx, fails, "", out == exp, || format!("C12 length {}", canon::cell(&c)), || exp.clone(), || out.clone());
    let idx = index_set(s.chars().count(), &mut ctx.rng);
    let (a, b) = (*ctx.rng.pick(&idx), *ctx.rng.pick(&idx));
    slice_case(ctx, base, fails, &c, a, b);
}

/// malformed stream: wrong operand types, missing operands, non-collections
fn malformed(ctx: &mut Ctx, base: &Xstate, fails: &mut Fails) {
    const WORDS: &[&str] = &["insert", "remove", "get", "length", "nth", "slice", "concat", "join", "sort", "reverse", "push", "collect", "unbox",
        "nil?", "bool?", "int?", "real?", "str?", "bitstr?", "vec?", "{}", "[]", "foreach"];
    let w = *ctx.rng.pick(WORDS);
    let special = matches!(w, "{}" | "[]" | "foreach");
    let n = if special { 1 } else { ctx.rng.below(4) };
    let args: Vec<Cell> = (0..n).map(|_| {
        let r = &mut ctx.rng;
        match r.below(4) { 0 => { let idx = index_set(3, r); Cell::Int(*r.pick(&idx)) } 1 => gen_wild(r), _ => gen_value(r, 1) }
    }).collect();
    ctx.tag("stream:malformed");
    // sort of an arbitrary vector may be inconsistent; leave those to sort_case
    if w == "sort" { return; }
    // map probes with arbitrary keys on maps that have int/str keys are outside the guard: correspondence
    // (the driver answers `unsupported` when the tree shape matters) but no oracle
    let (out, _) = step(ctx, base, w, &args);
    check(ctx, fails, "", out != "panic", || format!("C12 {} {}", w, canon::stack_str(&args)), || "a result or an error value, never a panic".into(), || out.clone());
}

/// NaN anywhere inside a value: outside the property's quantifier ("non-NaN reals"); `equal?` of two containers
/// that hold a NaN depends on whether they share structure (rpds compares shared nodes by address first)
fn contains_nan(c: &Cell) -> bool {
    match c.value() {
        Cell::Real(r) => r.is_nan(),
        Cell::Vector(v) => v.iter().any(contains_nan),
        Cell::Map(m) => m.iter().any(|(k, v)| contains_nan(k) || contains_nan(v)),
        _ => false,
    }
}

fn equal_cases(ctx: &mut Ctx, base: &Xstate, fails: &mut Fails) {
    let (a, b) = if ctx.rng.chance(15) {
        // reals that differ, by however little: equality is exact (what the map's key order distinguishes, `equal?` does too)
        ctx.tag("equal?:neighbouring-reals");
        let x = *ctx.rng.pick(&[1.0e-17f64, 0.0, 1.0, -1.0e-300, 0.1, 3.0e-16, 123456.0]);
        let y = match ctx.rng.below(4) { 0 => f64::from_bits(x.to_bits().wrapping_add(1)), 1 => x + 1.0e-17, 2 => x * (1.0 + f64::EPSILON), _ => x };
        let wrap = |c: Cell, k: u32| if k == 0 { c } else { vec_cell(&[Cell::Int(1), c]) };
        let k = ctx.rng.below(2) as u32;
        (wrap(Cell::Real(x), k), wrap(Cell::Real(y), k))
    } else {
        let a = gen_value(&mut ctx.rng, 2);
        let b = match ctx.rng.below(3) {
            0 => a.clone(),
            1 => gen_tagged(&mut ctx.rng, a.clone(), 1),
            _ => gen_value(&mut ctx.rng, 2),
        };
        (a, b)
    };
    if contains_nan(&a) || contains_nan(&b) { ctx.tag("equal?:nan-outside-the-quantifier"); return; }
    let (out, _) = run_src(base, "equal?", &[a.clone(), b.clone()]);
    ctx.tag("word:equal?");
    let exp = canon::ok_stack(&[Cell::Flag(same(&a, &b))]);
    check(ctx, fails, "", out == exp, || format!("C12 equal? {} {}", canon::cell(&a), canon::cell(&b)), || exp.clone(), || out.clone());
}

pub fn run(ctx: &mut Ctx) {
    let base = Xstate::boot().unwrap();
    let mut fails = Fails { marked: 0, marked_sort: 0 };
    // 1. exhaustive small scope: every index of the boundary set on vectors and strings of length 0..4
    let strs = ["", "a", "aé", "日本語", "a😀cd"];
    for len in 0..=4usize {
        let items: Vec<Cell> = (0..len).map(|i| Cell::Int(10 + i as i128)).collect();
        let idx = index_set(len, &mut ctx.rng);
        for &i in &idx {
            nth_case(ctx, &base, &mut fails, &items, i, false);
            get_case(ctx, &base, &mut fails, &items, i);
        }
        let v = vec_cell(&items);
        let s = Cell::from(strs[len]);
        for (x, &a) in idx.iter().enumerate() {
            for (y, &b) in idx.iter().enumerate() {
                if !ctx.thorough && (x + 2 * y) % 3 != 0 { continue; }
                slice_case(ctx, &base, &mut fails, &v, a, b);
                slice_case(ctx, &base, &mut fails, &s, a, b);
            }
        }
    }
    // the documented witnesses of the finding
    {
        let cells = [Cell::Int(1), Cell::from("a"), Cell::Int(2), Cell::Int(5)];
        let args = [vec_cell(&cells)];
        let (out, st) = step(ctx, &base, "{}", &args);
        let lit = vec![(Cell::from("a"), Cell::Int(1)), (Cell::Int(5), Cell::Int(2))];
        let ok = st.map(|st| st.len() == 1 && map_agrees(&st[0], &lit)).unwrap_or(false);
        check(ctx, &mut fails, "[incomparable-keys] ", ok, || format!("C12 {{}} {}", canon::stack_str(&args)), || alist_str(&lit), || out.clone());
    }
    // integer keys and elements far apart from the small ones the sequences use: neighbours beyond 2^53, 2^63, 2^64,
    // 2^100 (two keys stay two keys, a sorted vector is ascending) — always part of the run, whatever the random stream does
    for k in [1i128 << 53, (1i128 << 63) - 1, 1i128 << 64, 1i128 << 100, -(1i128 << 53) - 1, i128::MAX - 3] {
        let cells = [Cell::Int(1), Cell::Int(k), Cell::Int(2), Cell::Int(k + 1)];
        let args = [vec_cell(&cells)];
        let (out, st) = step(ctx, &base, "{}", &args);
        let lit = vec![(Cell::Int(k), Cell::Int(1)), (Cell::Int(k + 1), Cell::Int(2))];
        let ok = st.map(|st| st.len() == 1 && map_agrees(&st[0], &lit)).unwrap_or(false);
        check(ctx, &mut fails, "", ok, || format!("C12 {{}} {}", canon::stack_str(&args)), || alist_str(&lit), || out.clone());
        sort_case(ctx, &base, &mut fails, &[Cell::Int(k + 1), Cell::Int(k), Cell::Int(k + 2), Cell::Int(k - 1)]);
        let (o2, s2) = run_src(&base, "equal?", &[Cell::Int(k), Cell::Int(k + 1)]);
        check(ctx, &mut fails, "", s2.is_some() && o2 == canon::ok_stack(&[Cell::Flag(false)]), || format!("C12 equal? i{} i{}", k, k + 1), || "ok F".into(), || o2.clone());
        ctx.tag("far-apart-integers");
    }
    // collection literals are collection literals wherever they stand: inside a meta block, with values of the surrounding
    // program below them on the stack, `{ … }` and `[ … ]` build what they build at top level
    for below in ["", "10", "10 20", "[ 7 ] 8 9"] {
        for lit in ["{ 1 \"a\" 2 \"b\" }", "{ }", "[ 1 2 3 ]", "[ ]", "{ 5 [ 1 { 2 3 } ] }", "[ { 1 2 } { } ]"] {
            // (the values below come from an earlier source: a block runs while its own source is still being read)
            let run = |src: String| -> (String, Vec<String>) {
                let mut xs = base.clone();
                let _ = crate::guarded(|| xs.eval(below));
                let r = crate::guarded(|| xs.eval(&src));
                (format!("{:?}", r.map(|r| r.map_err(|e| canon::err(&e)))), canon::stack(&xs).iter().map(canon::cell).collect())
            };
            let inside = run(format!("#( {} #)", lit));
            let plain = run(lit.to_string());
            check(ctx, &mut fails, "", inside == plain, || format!("C12 `{}` then `#( {} #)` vs `{}` then `{}`", below, lit, below, lit), || format!("{:?}", plain), || format!("{:?}", inside));
            ctx.tag("literal-inside-a-meta-block");
        }
    }
    // `n collect` takes exactly n items: a count larger than what is there is an error that changes nothing (like an index
    // out of range), every count up to the depth gives a vector of that length — every depth 0..4 with every count 0..6
    for depth in 0..5usize {
        for n in 0..7usize {
            let items: Vec<Cell> = (0..depth).map(|i| Cell::Int(10 + i as i128)).collect();
            let mut args = items.clone();
            args.push(Cell::Int(n as i128));
            let (out, st) = step(ctx, &base, "collect", &args);
            if n <= depth {
                let want: Vec<Cell> = items[..depth - n].iter().cloned().chain(std::iter::once(vec_cell(&items[depth - n..]))).collect();
                check(ctx, &mut fails, "", out == canon::ok_stack(&want), || format!("C12 collect {}", canon::stack_str(&args)), || canon::ok_stack(&want), || out.clone());
            } else {
                check(ctx, &mut fails, "", st.is_none() && out.starts_with("err StackUnderflow"), || format!("C12 collect {}", canon::stack_str(&args)), || "err StackUnderflow (and the stack as it was)".into(), || out.clone());
                // the operands are still there
                let mut xs = base.clone();
                for c in args.iter() { xs.push_data(c.clone()).unwrap(); }
                let _ = crate::guarded(|| xs.eval("collect"));
                let left: Vec<String> = canon::stack(&xs).iter().map(canon::cell).collect();
                let want: Vec<String> = items.iter().map(canon::cell).collect();
                check(ctx, &mut fails, "", left == want || left == args.iter().map(canon::cell).collect::<Vec<_>>(), || format!("C12 collect {} (refused)", canon::stack_str(&args)), || format!("the items still on the stack: {:?}", want), || format!("{:?}", left));
            }
            ctx.tag("collect:every-count");
        }
    }
    // values tagged more than once (a number read with `u8` and labelled, a formatted constant given a second tag, a tag
    // removed again) are the values they are: equal to the bare value, the same key, sorted where the bare value sorts
    {
        let bare = |i: i128| Cell::Int(i);
        let twice = |xs: &Xstate, src: &str| -> Option<Cell> { let mut x = xs.clone(); match crate::guarded(|| x.eval(src)) { Some(Ok(())) => x.get_data(0).cloned(), _ => None } };
        let spell = ["1 \"b\" \"a\" insert-tag \"d\" \"c\" insert-tag", "1 ^hex \"x\" \"y\" insert-tag", "|01| open-bitstr u8 close-bitstr \"k\" \"v\" insert-tag", "1 ^hex ^bin", "1 1 \"a\" insert-tag 2 \"b\" insert-tag \"a\" remove-tag",
            "1 ^{ 1 \"p\" ^} ^{ 2 \"q\" ^}", "1 ^hex true fmt/prefix true fmt/upcase"];
        for sp in spell {
            let k1 = match twice(&base, sp) { Some(c) => c, None => { ctx.tag("tagged-twice:skipped"); continue; } };
            let (o, _) = run_src(&base, "equal?", &[k1.clone(), bare(1)]);
            check(ctx, &mut fails, "", o == canon::ok_stack(&[Cell::Flag(true)]), || format!("C12 `{}` 1 equal?", sp), || "ok T".into(), || o.clone());
            let (o, _) = run_src(&base, "equal?", &[vec_cell(&[k1.clone()]), vec_cell(&[bare(1)])]);
            check(ctx, &mut fails, "", o == canon::ok_stack(&[Cell::Flag(true)]), || format!("C12 [ `{}` ] [ 1 ] equal?", sp), || "ok T".into(), || o.clone());
            let cells = [Cell::from("one"), k1.clone(), Cell::from("two"), bare(2)];
            let args = [vec_cell(&cells)];
            let (out, st) = step(ctx, &base, "{}", &args);
            let lit = vec![(bare(1), Cell::from("one")), (bare(2), Cell::from("two"))];
            let ok = st.map(|st| st.len() == 1 && map_agrees(&st[0], &lit)).unwrap_or(false);
            check(ctx, &mut fails, "", ok, || format!("C12 {{}} {}   (key 1 spelled `{}`)", canon::stack_str(&args), sp), || alist_str(&lit), || out.clone());
            sort_case(ctx, &base, &mut fails, &[bare(3), k1.clone(), bare(2)]);
            sort_case(ctx, &base, &mut fails, &[k1.clone(), bare(0), k1.clone(), bare(-1)]);
            ctx.tag("tagged-twice");
        }
    }
    // 2. sequences
    for s in 0..ctx.n {
        match s % 10 {
            0..=4 => {
                let mode = match ctx.rng.below(20) {
                    0..=5 => KeyMode::Int,
                    6..=9 => KeyMode::Str,
                    10..=12 => KeyMode::Real,
                    13..=14 => KeyMode::Wild,
                    _ => KeyMode::Mixed,
                };
                let steps = 3 + ctx.rng.below(8);
                map_sequence(ctx, &base, &mut fails, mode, steps);
            }
            5..=6 => {
                let steps = 3 + ctx.rng.below(6);
                vec_sequence(ctx, &base, &mut fails, steps);
            }
            7 => {
                join_cases(ctx, &base, &mut fails);
                string_cases(ctx, &base, &mut fails);
                equal_cases(ctx, &base, &mut fails);
            }
            8 => {
                // sort: one comparable class, all-incomparable, or mixed (long enough for std's order check)
                let r = &mut ctx.rng;
                let n = if r.chance(15) { 20 + r.below(60) } else { r.below(9) };
                let items: Vec<Cell> = match r.below(6) {
                    0 | 1 => (0..n).map(|_| gen_key(r, KeyMode::Int)).collect(),
                    2 => (0..n).map(|_| gen_key(r, KeyMode::Str)).collect(),
                    3 => (0..n).map(|_| gen_key(r, KeyMode::Real)).collect(),
                    4 => (0..n).map(|_| gen_key(r, KeyMode::Wild)).collect(),
                    _ => (0..n).map(|_| gen_key(r, KeyMode::Mixed)).collect(),
                };
                sort_case(ctx, &base, &mut fails, &items);
            }
            _ => {
                malformed(ctx, &base, &mut fails);
                malformed(ctx, &base, &mut fails);
                malformed(ctx, &base, &mut fails);
            }
        }
    }
    ctx.note(format!("oracle failures attributable to the known Ord finding (marked): {} of which sort: {}", fails.marked, fails.marked_sort));
}
