//! C13 — tags never change what a value does.
//!
//! Correspondence: `C13 <word> <operands bottom-first>`: the same request once with untagged and once
//! with tagged copies of the operands, for the modelled words (arith.rs, collection words, type
//! predicates, the five tag words).
//! Oracle A (modelled words, typed operands): tagged run vs untagged run agree on success/failure (same
//! error variant) and the result stacks are `==` (the language's equality, which ignores tags).
//! Oracle B (every dictionary word, `word_list()` at run time, arity 0..3, every argument position):
//! the same relation, excluding the tag words, the printing/formatting words, non-deterministic /
//! external words and immediate (compile-time) words.
//! Oracle C: the tag words behave as a map attached to the value (tags_map_laws on the implementation).
use super::c12::{gen_tagged, gen_value, index_set, run_src, same};
use super::gen::*;
use crate::canon;
use crate::rng::Rng;
use crate::Ctx;
use xeh::prelude::*;

const TAG_WORDS: &[&str] = &["tags", "with-tags", "insert-tag", "remove-tag", "get-tag"];
const PRINT_WORDS: &[&str] = &["print", "println", ".s", "concat", "join", "str>number", "newline", "emit"];
const EXTERNAL_WORDS: &[&str] = &["random", "random-bits", "read-all", "write-all", "exec-piped", "include", "require", "exit", "dump", "dump-at", "see"];

fn vec_cell(items: &[Cell]) -> Cell {
    let mut v = Xvec::new();
    for x in items {
        v.push_back_mut(x.clone());
    }
    Cell::Vector(v)
}

/// recursive untagging (reference for comparing results that `==` cannot compare: NaN, host objects)
fn strip(c: &Cell) -> Cell {
    match c.value() {
        Cell::Vector(v) => vec_cell(&v.iter().map(strip).collect::<Vec<_>>()),
        Cell::Map(m) => {
            let mut out = Xmap::new();
            for (k, v) in m.iter() {
                out.insert_mut(strip(k), strip(v));
            }
            Cell::Map(out)
        }
        v => v.clone(),
    }
}

fn equalish(a: &Cell, b: &Cell) -> bool {
    a == b || canon::cell(&strip(a)) == canon::cell(&strip(b))
}

/// tag `c` and, down to `depth`, some of the cells inside it
fn tag_deep(r: &mut Rng, c: &Cell, depth: u32) -> Cell {
    let inner = if depth == 0 {
        c.value().clone()
    } else {
        match c.value() {
            Cell::Vector(v) => vec_cell(&v.iter().map(|x| if r.chance(60) { tag_deep(r, x, depth - 1) } else { x.clone() }).collect::<Vec<_>>()),
            Cell::Map(m) => {
                let mut out = Xmap::new();
                for (k, v) in m.iter() {
                    let k2 = if r.chance(40) { tag_deep(r, k, 0) } else { k.clone() };
                    let v2 = if r.chance(60) { tag_deep(r, v, depth - 1) } else { v.clone() };
                    out.insert_mut(k2, v2);
                }
                Cell::Map(out)
            }
            v => v.clone(),
        }
    };
    gen_tagged(r, inner, 1)
}

fn err_kind(out: &str) -> String {
    out.split(|c| c == ' ' || c == ':').take(2).collect::<Vec<_>>().join(":")
}

/// the metamorphic relation on two canonical outcomes + stacks
fn agree(a: &(String, Option<Vec<Cell>>), b: &(String, Option<Vec<Cell>>)) -> bool {
    match (&a.1, &b.1) {
        (Some(x), Some(y)) => x.len() == y.len() && x.iter().zip(y.iter()).all(|(p, q)| equalish(p, q)),
        (None, None) => err_kind(&a.0) == err_kind(&b.0),
        _ => false,
    }
}

/// arithmetic words: NaN payloads are not modelled (same canonicalisation as C09)
const ARITH: &[&str] = &["+", "-", "*", "/", "rem", "min", "max", "<", "<=", ">", ">=", "==", "<>", "band", "bor", "bxor", "bsl", "bsr", "and", "or", "xor",
    "neg", "abs", "bnot", "popcnt", "round", ">int", ">real", "zero?", "positive?", "negative?", "not"];

fn run_quiet(base: &Xstate, word: &str, args: &[Cell]) -> (String, Option<Vec<Cell>>) {
    if !ARITH.contains(&word) {
        return run_src(base, word, args);
    }
    let mut xs = base.clone();
    let r = crate::guarded(|| {
        for a in args {
            xs.push_data(a.clone()).unwrap();
        }
        let res = xs.eval(word);
        (res, canon::stack(&xs))
    });
    match r {
        None => ("panic".into(), None),
        Some((Ok(()), st)) => {
            let st: Vec<Cell> = st.iter().map(canon::canon_nan).collect();
            (canon::ok_stack(&st), Some(st))
        }
        Some((Err(e), _)) => {
            let e = match e {
                Xerr::TypeErrorMsg { val, msg } => Xerr::TypeErrorMsg { val: canon::canon_nan(&val), msg },
                e => e,
            };
            (format!("err {}", canon::err(&e)), None)
        }
    }
}

// ---------------------------------------------------------------------------------------------
// operand pools

fn small_map(r: &mut Rng, strk: bool) -> Cell {
    let mut m = Xmap::new();
    for i in 0..r.below(4) {
        let k = if strk { Cell::from(["a", "b", "k", "#fmt"][i % 4]) } else { Cell::Int(i as i128) };
        m.insert_mut(k, gen_value(r, 1));
    }
    Cell::Map(m)
}

/// one operand of the class `t`
fn operand(r: &mut Rng, t: char) -> Cell {
    match t {
        'i' => Cell::Int(if r.chance(75) { r.range(-3, 9) as i128 } else { gen_int(r) }),
        'u' => Cell::Int(r.range(0, 4) as i128),
        'r' => Cell::Real(gen_real(r)),
        'n' => if r.bool() { Cell::Int(gen_int(r)) } else { Cell::Real(gen_real(r)) },
        'f' => Cell::Flag(r.bool()),
        's' => Cell::from(gen_str(r)),
        'b' => Cell::Bitstr(bitstr_from_bits(&gen_bits(r, 70))),
        'v' => vec_cell(&(0..r.below(5)).map(|_| gen_value(r, 1)).collect::<Vec<_>>()),
        'V' => vec_cell(&(0..r.below(6)).map(|_| Cell::Int(r.range(-5, 5) as i128)).collect::<Vec<_>>()),
        'm' => { let strk = r.bool(); small_map(r, strk) }
        'w' => Cell::Int(*r.pick(&[8i128, 16, 32, 64])),
        'B' => Cell::Bitstr(Xbitstr::from(gen_str(r).into_bytes())),
        'k' => if r.bool() { Cell::Int(r.range(0, 4) as i128) } else { Cell::from(*r.pick(&["a", "b", "k", "zz"])) },
        _ => gen_value(r, 2),
    }
}

/// operand tuples that give the words of the dictionary a chance to succeed (bottom first); `?` = anything
const SHAPES: &[&str] = &[
    "", "i", "u", "r", "f", "s", "b", "v", "V", "m", "x", "w", "B", "rw", "iw", "uw", "Bw", "BB", "bB",
    "ii", "rr", "ff", "bb", "bu", "vu", "vi", "su", "mk", "xv", "xx", "iu", "bi", "ub", "sb", "bs", "ss", "vs", "xi", "ui",
    "vii", "sii", "mxk", "xxu", "iuu", "buu", "bbb", "iii", "xxx", "ibu", "iub", "uub", "rub", "rbu",
];

fn shaped_operands(r: &mut Rng, arity: usize) -> Vec<Cell> {
    if r.chance(70) {
        let cands: Vec<&&str> = SHAPES.iter().filter(|s| s.len() == arity).collect();
        if !cands.is_empty() {
            let sh = **r.pick(&cands);
            return sh.chars().map(|t| strip(&operand(r, t))).collect();
        }
    }
    (0..arity).map(|_| any_operand(r)).collect()
}

fn any_operand(r: &mut Rng) -> Cell {
    let t = *r.pick(&['i', 'u', 'r', 'f', 's', 'b', 'v', 'V', 'm', 'x', 'x', 'k']);
    // untagged base value: the tagged copy is derived from it
    strip(&operand(r, t))
}

/// typed signatures of the modelled words (bottom first)
const SIGS: &[(&str, &str)] = &[
    ("+", "nn"), ("-", "nn"), ("*", "nn"), ("/", "nn"), ("rem", "nn"), ("min", "nn"), ("max", "nn"),
    ("<", "nn"), ("<=", "nn"), (">", "nn"), (">=", "nn"), ("==", "nn"), ("<>", "nn"),
    ("band", "ii"), ("bor", "ii"), ("bxor", "ii"), ("bsl", "iu"), ("bsr", "iu"), ("and", "ff"), ("or", "ff"), ("xor", "ff"),
    ("neg", "n"), ("abs", "n"), ("bnot", "i"), ("popcnt", "i"), ("round", "r"), (">int", "n"), (">real", "n"),
    ("zero?", "n"), ("positive?", "n"), ("negative?", "n"), ("not", "f"),
    ("insert", "mxk"), ("remove", "mk"), ("get", "mk"), ("get", "vu"), ("length", "v"), ("length", "s"), ("length", "b"),
    ("nth", "vi"), ("slice", "vii"), ("slice", "sii"), ("sort", "V"), ("reverse", "v"), ("push", "xv"), ("collect", "xxu"), ("unbox", "v"),
    ("nil?", "x"), ("bool?", "x"), ("int?", "x"), ("real?", "x"), ("str?", "x"), ("bitstr?", "x"), ("vec?", "x"),
];

fn same_class(a: &Cell, b: &Cell) -> bool {
    matches!((a.value(), b.value()), (Cell::Int(_), Cell::Int(_)) | (Cell::Str(_), Cell::Str(_)))
}

fn emit_pair(ctx: &mut Ctx, base: &Xstate, word: &str, plain: &[Cell], tagged: &[Cell], corr: bool, what: &str) {
    let a = run_quiet(base, word, plain);
    let b = run_quiet(base, word, tagged);
    if corr {
        ctx.case(format!("C13 {} {}", word, canon::stack_str(plain)).trim_end().to_string(), a.0.clone());
        ctx.case(format!("C13 {} {}", word, canon::stack_str(tagged)).trim_end().to_string(), b.0.clone());
    }
    ctx.tag(&format!("outcome:{}", if a.1.is_some() { "ok".to_string() } else { err_kind(&a.0) }));
    let ok = agree(&a, &b);
    ctx.check(ok, || format!("C13 {} {} | tagged: {} ({})", word, canon::stack_str(plain), canon::stack_str(tagged), what), || a.0.clone(), || b.0.clone());
}

fn modelled(ctx: &mut Ctx, base: &Xstate) {
    let (word, sig) = *ctx.rng.pick(SIGS);
    let r = &mut ctx.rng;
    let mut plain: Vec<Cell> = sig.chars().map(|t| strip(&operand(r, t))).collect();
    // map probes: mostly keys of the map's own class (inside the C12 guard)
    if matches!(word, "insert" | "remove" | "get") && sig.starts_with('m') {
        if let Cell::Map(m) = &plain[0] {
            if let Some((k0, _)) = m.iter().next() {
                let last = plain.len() - 1;
                if !same_class(k0, &plain[last]) && r.chance(85) {
                    plain[last] = match k0.value() { Cell::Int(_) => Cell::Int(r.range(0, 4) as i128), _ => Cell::from(*r.pick(&["a", "b", "k", "zz"])) };
                }
            }
        }
    }
    if word == "collect" {
        let n = plain.len() - 1;
        plain[n] = Cell::Int(r.range(0, 3) as i128);
    }
    if matches!(word, "nth" | "slice") && r.chance(50) {
        let idx = index_set(3, r);
        let n = plain.len() - 1;
        plain[n] = Cell::Int(*r.pick(&idx));
    }
    ctx.tag(&format!("word:{}", word));
    // every single position tagged, then all positions tagged
    let n = plain.len();
    for pos in 0..=n {
        let r = &mut ctx.rng;
        let tagged: Vec<Cell> = plain.iter().enumerate().map(|(i, c)| if pos == n || i == pos { tag_deep(r, c, 2) } else { c.clone() }).collect();
        emit_pair(ctx, base, word, &plain, &tagged, true, if pos == n { "all tagged" } else { "one position tagged" });
    }
}

// ---------------------------------------------------------------------------------------------
// oracle C: the tag words as a map attached to the value

fn tag_laws(ctx: &mut Ctx, base: &Xstate) {
    let r = &mut ctx.rng;
    let v0 = gen_value(r, 2);
    // start from a value that may already be tagged (string keys: inside the guard)
    let key = Cell::from(*r.pick(&["k", "a", "#fmt", "new", "é"]));
    let x = gen_value(r, 2);
    let stepc = |ctx: &mut Ctx, w: &str, args: &[Cell]| -> (String, Option<Vec<Cell>>) {
        let o = run_quiet(base, w, args);
        ctx.tag(&format!("word:{}", w));
        ctx.case(format!("C13 {} {}", w, canon::stack_str(args)).trim_end().to_string(), o.0.clone());
        o
    };
    let top = |o: &(String, Option<Vec<Cell>>)| -> Option<Cell> { o.1.as_ref().and_then(|s| if s.len() == 1 { Some(s[0].clone()) } else { None }) };
    // insert-tag then get-tag returns the inserted value; the value itself is unchanged
    let ins = stepc(ctx, "insert-tag", &[v0.clone(), x.clone(), key.clone()]);
    if let Some(v1) = top(&ins) {
        let g = stepc(ctx, "get-tag", &[v1.clone(), key.clone()]);
        let exp = canon::ok_stack(&[x.clone()]);
        ctx.check(g.0 == exp, || format!("C13 get-tag(insert-tag {} {} {})", canon::cell(&v0), canon::cell(&x), canon::cell(&key)), || exp.clone(), || g.0.clone());
        ctx.check(canon::cell(v1.value()) == canon::cell(v0.value()) && equalish(&v1, &v0), || format!("C13 value(insert-tag {})", canon::cell(&v0)), || canon::cell(v0.value()), || canon::cell(v1.value()));
        // the other tags are kept
        if let Some(t0) = v0.tags() {
            for (k, val) in t0.iter() {
                if !same(k, &key) {
                    let g = run_quiet(base, "get-tag", &[v1.clone(), k.clone()]);
                    let exp = canon::ok_stack(&[val.clone()]);
                    ctx.check(g.0 == exp, || format!("C13 get-tag other key {} after insert-tag on {}", canon::cell(k), canon::cell(&v0)), || exp.clone(), || g.0.clone());
                }
            }
        }
        // remove-tag removes exactly that key
        let rem = stepc(ctx, "remove-tag", &[v1.clone(), key.clone()]);
        if let Some(v2) = top(&rem) {
            let g = stepc(ctx, "get-tag", &[v2.clone(), key.clone()]);
            ctx.check(g.0 == "ok N", || format!("C13 get-tag(remove-tag {} {})", canon::cell(&v1), canon::cell(&key)), || "ok N".into(), || g.0.clone());
            ctx.check(canon::cell(v2.value()) == canon::cell(v0.value()), || format!("C13 value(remove-tag {})", canon::cell(&v1)), || canon::cell(v0.value()), || canon::cell(v2.value()));
        } else {
            ctx.oracle_fail(format!("C13 remove-tag {} {}", canon::cell(&v1), canon::cell(&key)), "a value".into(), rem.0.clone());
        }
        // tags returns the attached map; with-tags attaches exactly the given map
        let tg = stepc(ctx, "tags", &[v1.clone()]);
        if let Some(tm) = top(&tg) {
            let w = stepc(ctx, "with-tags", &[v0.value().clone(), tm.clone()]);
            if let Some(v3) = top(&w) {
                ctx.check(canon::cell(&v3) == canon::cell(&v1), || format!("C13 with-tags(value, tags {})", canon::cell(&v1)), || canon::cell(&v1), || canon::cell(&v3));
            }
        }
    } else {
        ctx.oracle_fail(format!("C13 insert-tag {} {} {}", canon::cell(&v0), canon::cell(&x), canon::cell(&key)), "a value".into(), ins.0.clone());
    }
    // the formatting words add (or replace) the formatting tag and nothing else: every other tag stays
    {
        let w = *ctx.rng.pick(&["^hex", "^dec", "^oct", "^bin"]);
        let f = run_quiet(base, w, &[v0.clone()]);
        // the model has these words under the names of the natives they compile to
        let basen = match w { "^hex" => 16, "^dec" => 10, "^oct" => 8, _ => 2 };
        ctx.case(format!("C13 <fmt-base> {}", canon::stack_str(&[v0.clone(), Cell::Int(basen)])).trim_end().to_string(), f.0.clone());
        {
            let (wf, native) = *ctx.rng.pick(&[("fmt/prefix", "<fmt-prefix>"), ("fmt/tags", "<fmt-tags>"), ("fmt/upcase", "<fmt-upcase>")]);
            let flag = if ctx.rng.chance(85) { Cell::Flag(ctx.rng.bool()) } else { gen_value(&mut ctx.rng, 0) };
            let args = [v0.clone(), flag];
            let g = run_quiet(base, wf, &args);
            ctx.case(format!("C13 {} {}", native, canon::stack_str(&args)).trim_end().to_string(), g.0.clone());
            ctx.tag(&format!("word:{}", wf));
        }
        if let (Some(vf), Some(t0)) = (top(&f), v0.tags()) {
            for (k, val) in t0.iter() {
                if !same(k, &Cell::from("#fmt")) {
                    let g = run_quiet(base, "get-tag", &[vf.clone(), k.clone()]);
                    let exp = canon::ok_stack(&[val.clone()]);
                    ctx.check(g.0 == exp, || format!("C13 get-tag {} after {} on {}", canon::cell(k), w, canon::cell(&v0)), || exp.clone(), || g.0.clone());
                }
            }
            ctx.check(canon::cell(vf.value()) == canon::cell(v0.value()), || format!("C13 value({} {})", w, canon::cell(&v0)), || canon::cell(v0.value()), || canon::cell(vf.value()));
            ctx.tag("fmt-word-keeps-the-other-tags");
        }
    }
    // an untagged value has no tags
    let plain = v0.value().clone();
    let t = stepc(ctx, "tags", &[plain.clone()]);
    ctx.check(t.0 == "ok N", || format!("C13 tags {}", canon::cell(&plain)), || "ok N".into(), || t.0.clone());
    let g = stepc(ctx, "get-tag", &[plain.clone(), key.clone()]);
    ctx.check(g.0 == "ok N", || format!("C13 get-tag {} {}", canon::cell(&plain), canon::cell(&key)), || "ok N".into(), || g.0.clone());
    // malformed: with-tags with a non-map, missing operands
    let junk = gen_value(&mut ctx.rng, 1);
    stepc(ctx, "with-tags", &[plain.clone(), junk]);
    let w = *ctx.rng.pick(TAG_WORDS);
    stepc(ctx, w, &[plain]);
}

// ---------------------------------------------------------------------------------------------
// oracle B: every dictionary word

fn dictionary(ctx: &mut Ctx, base: &Xstate, per_word: usize) {
    let words: Vec<String> = base.word_list().iter().map(|w| w.to_string()).collect();
    let dict = base.verif_dict();
    let mut skipped: Vec<String> = Vec::new();
    let mut tested = 0usize;
    let trace = std::env::var("C13_TRACE").is_ok();
    let mut seen = std::collections::BTreeSet::new();
    let mut ok_words = std::collections::BTreeSet::new();
    for w in words.iter().rev() {
        // the most recent definition of a name is the one `eval` resolves
        if !seen.insert(w.clone()) { continue; }
        let entry = dict.iter().rev().find(|e| &e.0 == w);
        let immediate = entry.map(|e| e.2).unwrap_or(false);
        let kind = entry.map(|e| e.1).unwrap_or("?");
        let excluded = TAG_WORDS.contains(&w.as_str()) || PRINT_WORDS.contains(&w.as_str()) || EXTERNAL_WORDS.contains(&w.as_str()) || immediate
            || w.chars().any(|c| c.is_whitespace()) || w.is_empty();
        if excluded {
            skipped.push(w.clone());
            continue;
        }
        tested += 1;
        ctx.tag(&format!("dict:kind:{}", kind));
        let arities: &[usize] = if kind == "native" || kind == "interp" { &[0, 1, 2, 3] } else { &[0, 1] };
        for &arity in arities {
            let reps = if arity == 0 { 1 } else { per_word * arity };
            for _ in 0..reps {
                let plain: Vec<Cell> = shaped_operands(&mut ctx.rng, arity);
                // words outside the modelled tables may take a size / width operand: `1 <huge> int!` aborts the
                // process on allocation (reported defect, C08/C14); keep integers small for them
                let plain: Vec<Cell> = if ARITH.contains(&w.as_str()) || SIGS.iter().any(|(n, _)| n == w) { plain } else {
                    plain.into_iter().map(|c| match c { Cell::Int(i) if i.unsigned_abs() > 4096 => Cell::Int(i % 4097), c => c }).collect()
                };
                if trace { eprintln!("C13 dict {} {}", w, canon::stack_str(&plain)); }
                let a = run_quiet(base, w, &plain);
                ctx.tag(if a.1.is_some() { "dict:outcome:ok" } else { "dict:outcome:err" });
                if a.1.is_some() { ok_words.insert(w.clone()); }
                // positions: each single one, then all
                let variants = if arity <= 1 { arity } else { arity + 1 };
                if arity == 0 { ctx.oracle_ok(); }
                for pos in 0..variants {
                    let r = &mut ctx.rng;
                    let tagged: Vec<Cell> = plain.iter().enumerate().map(|(i, c)| if pos == arity || i == pos { tag_deep(r, c, 2) } else { c.clone() }).collect();
                    let b = run_quiet(base, w, &tagged);
                    ctx.tag(&format!("dict:arity:{}", arity));
                    let ok = agree(&a, &b);
                    ctx.check(ok, || format!("C13 dict {} {} | tagged: {}", w, canon::stack_str(&plain), canon::stack_str(&tagged)), || a.0.clone(), || b.0.clone());
                }
            }
        }
    }
    let never: Vec<String> = seen.iter().filter(|w| !ok_words.contains(*w) && !skipped.contains(*w)).cloned().collect();
    ctx.note(format!("dictionary words that never succeeded on the generated operands (relation checked on failures only): {}", never.join(" ")));
    skipped.sort();
    ctx.note(format!("dictionary words tested: {}; excluded (tag / printing / external / immediate): {}", tested, skipped.join(" ")));
}

/// Comparisons of a value with a copy of itself (`dup`, a variable read twice — copies of a tagged value share one
/// box) and `case … of`, which compares with the candidate inside the instruction rather than through a word: whether
/// the selector, the candidate, both or neither carry tags, the same branch is taken and the same answer given — also
/// for values that are not equal to themselves (NaN, and anything that holds one).
fn copies_and_case(ctx: &mut Ctx, base: &Xstate) {
    const SNIPPETS: &[&str] = &[
        "s case c of 1 endof drop 0 endcase", "c case s of 1 endof drop 0 endcase", "s dup case of 1 endof drop 0 endcase", "s case 1 of 10 endof c of 20 endof drop 30 endcase",
        "s s equal?", "s dup equal?", "s c equal?", "c s equal?", "s dup ==", "s dup <>", "s s assert-eq 1", "s c assert-eq 1", "[ s s ] dup 0 nth swap 1 nth equal?",
        "s dup 2 collect dup equal?", "s local x x x equal?", ": cmp dup equal? ; s cmp", "[ s ] [ s ] equal?", "[ s ] dup equal?", "{ 1 s } { 1 s } equal?", "s c 2 collect sort length",
    ];
    let nan = f64::NAN;
    let pool: Vec<Cell> = vec![Cell::Int(2), Cell::Int(1), Cell::from("b"), Cell::from("a"), Cell::Real(nan), Cell::Real(1.5), Cell::Real(-0.0), vec_cell(&[Cell::Real(nan)]),
        vec_cell(&[Cell::Int(1), Cell::Int(2)]), Cell::Nil, Cell::Flag(true), Cell::Bitstr(Xbitstr::from(vec![0xA5u8])), vec_cell(&[vec_cell(&[Cell::Real(nan), Cell::Int(3)])])];
    let s0 = ctx.rng.pick(&pool).clone();
    let c0 = if ctx.rng.chance(55) { s0.clone() } else { ctx.rng.pick(&pool).clone() };
    let snippet = *ctx.rng.pick(SNIPPETS);
    let run1 = |s: &Cell, c: &Cell| -> (String, Option<Vec<Cell>>) {
        let mut xs = base.clone();
        let r = crate::guarded(|| {
            xs.push_data(s.clone())?; xs.eval("var s")?;
            xs.push_data(c.clone())?; xs.eval("var c")?;
            xs.eval(snippet)
        });
        match r {
            None => ("panic".into(), None),
            Some(Ok(())) => { let st: Vec<Cell> = canon::stack(&xs).iter().map(canon::canon_nan).collect(); (canon::ok_stack(&st), Some(st)) }
            Some(Err(e)) => (format!("err {}", canon::err(&e).split(':').next().unwrap_or("")), None),
        }
    };
    let plain = run1(&s0, &c0);
    let d = ctx.rng.below(2) as u32;
    let (st, ct) = (tag_deep(&mut ctx.rng, &s0, d), tag_deep(&mut ctx.rng, &c0, d));
    for (name, s, c) in [("selector tagged", &st, &c0), ("candidate tagged", &s0, &ct), ("both tagged", &st, &ct)] {
        let got = run1(s, c);
        ctx.check(agree(&plain, &got), || format!("C13 `{}` with s={} c={} | {}: s={} c={}", snippet, canon::cell(&s0), canon::cell(&c0), name, canon::cell(s), canon::cell(c)), || plain.0.clone(), || got.0.clone());
    }
    ctx.tag("copies-and-case");
}

/// what a C host sees of a value (`xeh_is_*`, `xeh_bitstr_len`, `xeh_vector_len`, `xeh_vector_at`) does not depend on
/// whether it carries tags (repair of /repo: the entry points used to match on the raw cell, so a read result — always
/// tagged — was "not an int")
fn c_api_view(c: &Cell) -> String {
    use xeh::c_api::*;
    let p: *const Cell = c;
    unsafe {
        let at0 = xeh_vector_at(p, 0);
        let first = if at0.is_null() { "-".to_string() } else { let s = canon::cell(&strip(&*at0)); xeh_release(at0); s };
        format!("nil={} int={} real={} str={} vec={} bits={} bitlen={} veclen={} at0={}", xeh_is_nil(p), xeh_is_int(p), xeh_is_real(p), xeh_is_string(p),
            xeh_is_vector(p), xeh_is_bitstr(p), xeh_bitstr_len(p), xeh_vector_len(p), first)
    }
}

fn c_api_blind(ctx: &mut Ctx) {
    let pool: Vec<Cell> = vec![Cell::Nil, Cell::Int(7), Cell::Real(2.5), Cell::from("s"), vec_cell(&[Cell::Int(1), Cell::from("x")]), vec_cell(&[]),
        Cell::Bitstr(Xbitstr::from(vec![0xA5u8, 0x0F])), Cell::Flag(true)];
    for c in &pool {
        let plain = c_api_view(c);
        for d in 0..2 {
            let t = tag_deep(&mut ctx.rng, c, d);
            let got = c_api_view(&t);
            ctx.check(plain == got, || format!("C13 C API view of {} | tagged: {}", canon::cell(c), canon::cell(&t)), || plain.clone(), || got.clone());
        }
    }
    ctx.tag("c-api-view");
}

/// what counts as a condition does not depend on tags: `nil`, `true`, `false` (and a non-flag, which is a type error)
/// in `if`, `while`, `until`, `assert` — every value, every tag variant, always part of the run
fn conditions(ctx: &mut Ctx, base: &Xstate) {
    const SNIPPETS: &[&str] = &["s if 1 else 0 then", "s assert 7", "0 begin 1 + dup 3 > s or until", "0 begin 1 + dup 3 < s and while repeat", "s not", "s nil?", "s if then 9"];
    for v in [Cell::Nil, Cell::Flag(true), Cell::Flag(false), Cell::Int(1), Cell::from("x")] {
        for snippet in SNIPPETS {
            let run1 = |s: &Cell| -> (String, Option<Vec<Cell>>) {
                let mut xs = base.clone();
                let r = crate::guarded(|| { xs.push_data(s.clone())?; xs.eval("var s")?; xs.set_insn_limit(Some(500))?; xs.eval(snippet) });
                match r {
                    None => ("panic".into(), None),
                    Some(Ok(())) => { let st = canon::stack(&xs); (canon::ok_stack(&st), Some(st)) }
                    Some(Err(e)) => (format!("err {}", canon::err(&e).split(':').next().unwrap_or("")), None),
                }
            };
            let plain = run1(&v);
            for d in 0..3u32 {
                let t = if d == 2 { v.clone().with_tags(Xmap::new()) } else { tag_deep(&mut ctx.rng, &v, d) };
                let got = run1(&t);
                ctx.check(agree(&plain, &got), || format!("C13 `{}` with s={} | tagged: s={}", snippet, canon::cell(&v), canon::cell(&t)), || plain.0.clone(), || got.0.clone());
            }
        }
    }
    ctx.tag("conditions");
}

/// a tag is replaced by what is inserted, also when the new tag value is "equal" to the old one and differs from it
/// only in its own tags (at any depth): `get-tag` gives back exactly what was inserted last
fn reinsertion(ctx: &mut Ctx, base: &Xstate) {
    for round in 0..(ctx.n / 20).max(60) {
        let v0 = gen_value(&mut ctx.rng, 2);
        let key = Cell::from(*ctx.rng.pick(&["k", "a", "#fmt", "é"]));
        let x = strip(&gen_value(&mut ctx.rng, 2));
        let d = 1 + (round as u32 % 2);
        let xt = match round % 4 { 0 => x.clone().with_tags(Xmap::new()), _ => tag_deep(&mut ctx.rng, &x, d) };
        // first the bare value and then the tagged one, or the other way round
        let (first, second) = if round % 3 == 0 { (xt.clone(), x.clone()) } else { (x.clone(), xt.clone()) };
        let a = run_quiet(base, "insert-tag", &[v0.clone(), first.clone(), key.clone()]);
        let v1 = match a.1.as_ref() { Some(s) if s.len() == 1 => s[0].clone(), _ => { ctx.oracle_fail(format!("C13 insert-tag {} {} {}", canon::cell(&v0), canon::cell(&first), canon::cell(&key)), "a value".into(), a.0.clone()); continue; } };
        let args = [v1.clone(), second.clone(), key.clone()];
        let b = run_quiet(base, "insert-tag", &args);
        ctx.case(format!("C13 insert-tag {}", canon::stack_str(&args)).trim_end().to_string(), b.0.clone());
        let v2 = match b.1.as_ref() { Some(s) if s.len() == 1 => s[0].clone(), _ => { ctx.oracle_fail(format!("C13 insert-tag {}", canon::stack_str(&args)), "a value".into(), b.0.clone()); continue; } };
        let g = run_quiet(base, "get-tag", &[v2.clone(), key.clone()]);
        let exp = canon::ok_stack(&[second.clone()]);
        ctx.check(g.0 == exp, || format!("C13 get-tag after insert-tag {} and then insert-tag {} under {} on {}", canon::cell(&first), canon::cell(&second), canon::cell(&key), canon::cell(&v0)), || exp.clone(), || g.0.clone());
        ctx.tag("reinsertion:equal-value-other-tags");
    }
}

/// the variables that words consult (`big?`, `offset`) hold values like any other: a number that carries tags (every
/// number a read word hands back does) selects what the bare number selects
fn settings_with_tags(ctx: &mut Ctx, base: &Xstate) {
    const SNIPPETS: &[&str] = &[
        "|00 34 12| open-bitstr u8 drop s ! big? u16", "s ! big? 258 u16!", "s ! big? |00 00 00 01| open-bitstr 24 int", "s ! big? |3f 80 00 00| open-bitstr f32",
        "s ! big? [ 1 u16! 2.5 f32! 7 24 int! ] >bitstr", "|00 34 12 56| open-bitstr s 8 * ! offset u8 offset", "|00 34 12 56| open-bitstr s 8 * ! offset remain",
    ];
    for v in [Cell::Int(0), Cell::Int(1), Cell::Int(2)] {
        for snippet in SNIPPETS {
            let run1 = |s: &Cell| -> (String, Option<Vec<Cell>>) {
                let mut xs = base.clone();
                let r = crate::guarded(|| { xs.push_data(s.clone())?; xs.eval("var s")?; xs.eval(snippet) });
                match r {
                    None => ("panic".into(), None),
                    Some(Ok(())) => { let st = canon::stack(&xs); (format!("ok {}", st.iter().map(canon::cell).collect::<Vec<_>>().join(" ")), Some(st)) }
                    Some(Err(e)) => (format!("err {}", canon::err(&e).split(':').next().unwrap_or("")), None),
                }
            };
            let plain = run1(&v);
            // a number as the read words hand it back, a formatted constant, an empty tag map, tags on tags
            let read = { let mut xs = base.clone(); let _ = xs.eval(&format!("|{:02x}| open-bitstr u8 close-bitstr", match &v { Cell::Int(i) => *i, _ => 0 })); xs.get_data(0).cloned().unwrap_or(v.clone()) };
            let copies = [read, v.clone().with_tags(Xmap::new()), tag_deep(&mut ctx.rng, &v, 1), tag_deep(&mut ctx.rng, &v, 2)];
            for t in copies.iter() {
                let got = run1(t);
                // (what the snippets leave are results of words that attach their own tags: compared with their tags)
                ctx.check(plain.0 == got.0, || format!("C13 `{}` with s={} | tagged: s={}", snippet, canon::cell(&v), canon::cell(t)), || plain.0.clone(), || got.0.clone());
            }
        }
    }
    ctx.tag("settings-with-tags");
}

pub fn run(ctx: &mut Ctx) {
    c_api_blind(ctx);
    let mut base = Xstate::boot().unwrap();
    base.intercept_stdout(true);
    // a binary input so that the reading words (u8, i16le, float, bytes, magic …) have something to read
    let bytes: Vec<u8> = (0..64).map(|_| ctx.rng.next_u64() as u8).collect();
    base.set_binary_input(Xbitstr::from(bytes)).unwrap();
    let per_word = if ctx.thorough { 60 } else { 8 };
    conditions(ctx, &base);
    dictionary(ctx, &base, per_word);
    for i in 0..ctx.n {
        if i % 5 == 4 { tag_laws(ctx, &base) } else { modelled(ctx, &base) }
        if i % 4 == 0 { copies_and_case(ctx, &base) }
    }
    // the words that hand back the parsing state (`input`, `offset`, `remain`) give plain values: whatever bookkeeping
    // the interpreter keeps on the stashed inputs of nested `open-bitstr` … `close-bitstr` does not show as tags
    for _ in 0..(ctx.n / 40).max(25) {
        let depth = ctx.rng.below(3) + 1;
        let mut src = String::new();
        let mut lens: Vec<usize> = Vec::new();
        for _ in 0..=depth {
            let n = ctx.rng.below(4) + 2;
            let bytes: Vec<String> = (0..n).map(|_| format!("{:02X}", ctx.rng.next_u64() as u8)).collect();
            src.push_str(&format!("|{}| open-bitstr ", bytes.join(" ")));
            let reads = ctx.rng.below(n);
            for _ in 0..reads { src.push_str("u8 drop "); }
            lens.push(n);
        }
        let closes = ctx.rng.below(depth + 1);
        for _ in 0..closes { src.push_str("close-bitstr "); }
        // … also after a `seek` whose argument carried tags (a number that was read, a number with a formatting tag): the
        // offset is a position, not the cell that was passed in
        if ctx.rng.chance(40) {
            src.push_str(*ctx.rng.pick(&["|08| open-bitstr u8 close-bitstr seek ", "8 ^hex seek ", "0 1 \"k\" insert-tag seek ", "|00| open-bitstr big u8 close-bitstr seek "]));
        }
        let probe = *ctx.rng.pick(&["input tags", "offset tags", "remain tags", "input \"offset\" get-tag", "offset \"#fmt\" get-tag", "offset \"len\" get-tag"]);
        let full = format!("{}{}", src, probe);
        let mut xs = Xstate::boot().unwrap();
        xs.intercept_stdout(true);
        let r = crate::guarded(|| xs.eval(&full));
        let top = xs.get_data(0).cloned();
        ctx.tag(&format!("state-words:closes={}", closes));
        ctx.check(matches!(r, Some(Ok(()))) && top == Some(Cell::Nil), || format!("C13 `{}`", full), || "ok, nil (no tags)".into(), || format!("{:?} top={:?}", r, top));
    }
    reinsertion(ctx, &base);
    settings_with_tags(ctx, &base);
    // a value with tags that the compiler inlines — the result of a meta block, a constant — is the value with its tags:
    // `tags`, `get-tag` and printing answer as for the same value computed where it is used
    for (inner, probe) in [("255 ^hex", "tags"), ("255 ^hex", "dup print tags"), ("\"s\" 1 \"k\" insert-tag", "\"k\" get-tag"), ("nil 2 \"n\" insert-tag", "tags"), ("7 1 \"a\" insert-tag 2 \"b\" insert-tag", "\"a\" get-tag"),
        ("0 ^bin", "dup print tags"), ("-1 3 \"m\" insert-tag", "tags")] {
        let run1 = |src: String| -> String {
            let mut xs = Xstate::boot().unwrap();
            xs.intercept_stdout(true);
            let r = crate::guarded(|| xs.eval(&src));
            format!("{:?} stack=[{}] out={:?}", r.map(|r| r.map_err(|e| canon::err(&e))), canon::stack(&xs).iter().map(canon::cell).collect::<Vec<_>>().join(" "), xs.stdout().cloned().unwrap_or_default())
        };
        let plain = run1(format!("{} {}", inner, probe));
        let block = run1(format!("#( {} #) {}", inner, probe));
        let konst = run1(format!("#( {} const kt #) kt {}", inner, probe));
        ctx.check(plain == block && plain == konst, || format!("C13 `{}` then `{}`: written out, as a meta block, as a constant", inner, probe), || plain.clone(), || format!("block: {} // constant: {}", block, konst));
        ctx.tag("inlined-values-keep-their-tags");
    }
}
