//! C14 — resource limits are hard bounds and hitting one is recoverable.
//! Programs (terminating, endless, stack-flooding) run under random (N, S, H); after every step the
//! instruction meter, stack depth and heap size are monitored against the bounds (oracle) and the
//! whole machine is compared with the model. After a limit error the limit is raised and the run
//! continues; the final machine must equal the machine of an unlimited twin run.
use crate::progen::{gen_program, GenCfg};
use crate::vmcanon;
use crate::Ctx;
use xeh::prelude::*;

fn flooding(r: &mut crate::rng::Rng) -> String {
    match r.below(5) {
        0 => "begin 1 repeat".into(),
        1 => format!("{} 0 do I I loop", r.range(0, 40)),
        2 => ": f dup f ; 1 f".into(),
        3 => format!("[ {} 0 do I loop ] unbox", r.range(0, 30)).replace("unbox", "drop 1 2 3 4 5 6 7 8"),
        _ => "begin 1 2 3 drop false until".into(),
    }
}

/// the C entry points work on the same interpreter: a push that the stack limit refuses fails (repair a0b17ea: it used
/// to abort the process), leaves the stack as it was, and works again once the limit is raised
fn c_api_push_at_the_limit(ctx: &mut Ctx) {
    for limit in [0usize, 1, 2, 5] {
        ctx.progress(&format!("C14 xeh_push x{} with set_stack_limit(Some({}))", limit + 3, limit));
        let mut xs = Xstate::boot().unwrap();
        xs.set_stack_limit(Some(limit)).unwrap();
        let p = Box::into_raw(Box::new(xs));
        let (depth, after_raise) = unsafe {
            for i in 0..limit + 3 {
                let _ = xeh::c_api::xeh_push(p, Box::into_raw(Box::new(Cell::Int(i as Xint))));
            }
            let depth = xeh::c_api::xeh_top_len(p);
            (*p).set_stack_limit(Some(limit + 1)).unwrap();
            let _ = xeh::c_api::xeh_push(p, Box::into_raw(Box::new(Cell::Int(99))));
            let after = xeh::c_api::xeh_top_len(p);
            xeh::c_api::xeh_close(p);
            (depth, after)
        };
        ctx.check(depth == limit && after_raise == limit + 1, || format!("C14 xeh_push x{} with the stack limit at {}, then one more with the limit at {}", limit + 3, limit, limit + 1),
            || format!("depth {} then {}", limit, limit + 1), || format!("depth {} then {}", depth, after_raise));
        ctx.tag("c-api:push-at-the-stack-limit");
    }
}

pub fn run(ctx: &mut Ctx) {
    c_api_push_at_the_limit(ctx);
    let base = Xstate::boot().unwrap();
    let cfg = GenCfg { endless: true, ..GenCfg::default() };
    let mut n_done = 0;
    let mut attempts = 0;
    while n_done < ctx.n && attempts < ctx.n * 3 {
        attempts += 1;
        let (src, tags) = if ctx.rng.chance(30) { (flooding(&mut ctx.rng), vec!["flooding"]) } else { gen_program(&mut ctx.rng, &cfg) };
        let mut xs = base.clone();
        xs.intercept_stdout(true);
        let rec = ctx.rng.chance(30);
        // sometimes the limits are configured while values of earlier programs lie on the stack: the limit is S all the
        // same (not S on top of what is there)
        if ctx.rng.chance(35) {
            let d = ctx.rng.below(5) + 1;
            let pre: String = (0..d).map(|i| format!("{} ", i + 100)).collect();
            xs.eval(&pre).unwrap();
            ctx.tag("preloaded-stack");
        }
        xs.set_recording_enabled(rec);
        ctx.progress(&format!("C14 compile+step `{}`", src));
        match crate::guarded(|| xs.compile(&src)) { Some(Ok(())) => (), _ => { ctx.tag("skipped:build-error"); continue; } }
        n_done += 1;
        for t in tags.iter() { ctx.tag(&format!("prog:{}", t)); }
        let pick = |r: &mut crate::rng::Rng, small: bool| -> Option<usize> {
            match r.below(6) { 0 => None, 1 => Some(0), 2 => Some(1), _ => Some(if small { r.below(12) } else { r.below(200) }) }
        };
        let n_lim = pick(&mut ctx.rng, false);
        let s_lim = pick(&mut ctx.rng, true);
        let setup = vmcanon::setup_str(&xs, (None, None, None));
        let mut script: Vec<String> = Vec::new();
        let mut answers: Vec<String> = Vec::new();
        let opt = |n: Option<usize>| n.map(|x| x.to_string()).unwrap_or("-".into());
        let initial_depth = xs.verif_dump().data_visible.len() + xs.verif_dump().data_hidden.len();
        xs.set_insn_limit(n_lim).unwrap();
        script.push(format!("li={}", opt(n_lim)));
        answers.push(format!("ok@{}", vmcanon::full_dump(&mut xs)));
        xs.set_stack_limit(s_lim).unwrap();
        script.push(format!("ls={}", opt(s_lim)));
        answers.push(format!("ok@{}", vmcanon::full_dump(&mut xs)));
        ctx.tag(&format!("limits:insn={},stack={}", n_lim.map(|n| if n < 2 { n.to_string() } else { "n".into() }).unwrap_or("none".into()), s_lim.map(|n| if n < 2 { n.to_string() } else { "n".into() }).unwrap_or("none".into())));
        let max_steps = if ctx.thorough { 400 } else { 150 };
        let mut raised = false;
        let mut hit = false;
        let case = format!("C14 `{}` N={:?} S={:?}", src, n_lim, s_lim);
        let mut cur_n = n_lim;
        let mut cur_s = s_lim;
        // executed since the limit was set, counted here and not read off the meter
        let mut executed = 0usize;
        for _ in 0..max_steps {
            if !xs.is_running() { break; }
            if rec && ctx.rng.chance(25) {
                // stepping backwards gives nothing back: the instructions have been executed
                let rr = match crate::guarded(|| xs.rnext()) { Some(r) => r, None => { script.push("r".into()); answers.push("panic@".into()); break; } };
                script.push("r".into());
                answers.push(format!("{}@{}", vmcanon::outcome(&rr), vmcanon::full_dump(&mut xs)));
                ctx.tag("step:rnext");
                if rr.is_err() { break; }
                continue;
            }
            let r = match crate::guarded(|| xs.next()) { Some(r) => r, None => { script.push("n".into()); answers.push("panic@".into()); break; } };
            script.push("n".into());
            answers.push(format!("{}@{}", vmcanon::outcome(&r), vmcanon::full_dump(&mut xs)));
            let d = xs.verif_dump();
            if r.is_ok() { executed += 1; }
            // hard bounds
            if let Some(n) = cur_n {
                let c = case.clone();
                ctx.check(d.insn_meter <= n, || c, || format!("meter <= {}", n), || format!("meter = {}", d.insn_meter));
                let c = case.clone();
                ctx.check(executed <= n, || c, || format!("at most {} instructions execute after the limit is set (next / rnext in any order)", n),
                    || format!("{} executed", executed));
            }
            if let Some(s) = cur_s {
                let depth = d.data_visible.len() + d.data_hidden.len();
                let c = case.clone();
                ctx.check(depth <= s.max(initial_depth), || c, || format!("depth <= {}", s.max(initial_depth)), || format!("depth = {}", depth));
            }
            if let Err(e) = &r {
                let msg = format!("{:?}", e);
                if msg.contains("limit reached") {
                    hit = true;
                    ctx.tag(if msg.contains("insn") { "hit:insn" } else { "hit:stack" });
                    if !raised {
                        // raise both limits: the interpreter must continue to work normally
                        raised = true;
                        cur_n = None; cur_s = None;
                        xs.set_insn_limit(None).unwrap(); script.push("li=-".into()); answers.push(format!("ok@{}", vmcanon::full_dump(&mut xs)));
                        xs.set_stack_limit(None).unwrap(); script.push("ls=-".into()); answers.push(format!("ok@{}", vmcanon::full_dump(&mut xs)));
                        // the very next step must not fail with a limit error
                        if xs.is_running() {
                            let r2 = crate::guarded(|| xs.next());
                            script.push("n".into());
                            match r2 {
                                Some(r2) => {
                                    answers.push(format!("{}@{}", vmcanon::outcome(&r2), vmcanon::full_dump(&mut xs)));
                                    let bad = matches!(&r2, Err(e) if format!("{:?}", e).contains("limit reached"));
                                    let c = case.clone();
                                    ctx.check(!bad, || c, || "no limit error after the limit was raised".into(), || format!("{:?}", r2));
                                    if r2.is_err() { break; }
                                }
                                None => { answers.push("panic@".into()); break; }
                            }
                        }
                    } else { break; }
                } else { break; }
            }
        }
        if !hit { ctx.tag("hit:none"); }
        ctx.case(format!("C14 vm {} view=full script={}", setup, script.join(",")), answers.join(" ; "));
    }
    // whole sources under an instruction limit: what a source runs while it is being BUILT (meta blocks) counts like
    // everything else, also when the source is then rejected. Oracle independent of the meter: a straight-line meta
    // block of k instructions followed by an unknown word is rejected with `unknown word` only if all k instructions
    // ran, so k x (number of such answers) is a lower bound of what has executed since the limit was set.
    for _ in 0..(ctx.n / 4).max(30) {
        use crate::props::c10::{apply, correspondence_lim, fresh_lim, Op};
        let n_lim = ctx.rng.below(40);
        let mut xs = fresh_lim(n_lim);
        let mut ops: Vec<Op> = Vec::new();
        let mut executed_at_least = 0usize;
        let mut prev_meter = xs.verif_dump().insn_meter;
        let steps = ctx.rng.below(6) + 2;
        let case = |ops: &Vec<Op>| format!("C14 sources N={} {}", n_lim, ops.iter().map(|o| o.text()).collect::<Vec<_>>().join("; "));
        for _ in 0..steps {
            let k = ctx.rng.below(6) + 1;
            let block: String = (0..k).map(|i| format!("{} ", i)).collect::<String>() + &"drop ".repeat(k);
            let (src, kind) = match ctx.rng.below(6) {
                0 => (format!("#( {}#) no-such-word", block), "rejected-after-meta"),
                1 => (format!("#( {}#)", block), "meta"),
                2 => ("#( begin 1 drop repeat #)".to_string(), "endless-meta"),
                3 => (format!("{}", block), "plain"),
                4 => (format!("#( {}#) then", block), "rejected-after-meta"),
                _ => (format!("[ #( {}7 #) ] drop oops-unknown", block), "rejected-after-meta"),
            };
            ctx.tag(&format!("sources:{}", kind));
            ctx.progress(&format!("C14 sources N={} {}; then `{}`", n_lim, ops.iter().map(|o| o.text()).collect::<Vec<_>>().join("; "), src));
            let op = Op::Eval(src);
            let r = apply(&mut xs, &op);
            ops.push(op);
            // a front end abandons a stopped program (`abort_run`): that gives nothing of the budget back
            if ctx.rng.chance(30) { apply(&mut xs, &Op::Abort); ops.push(Op::Abort); ctx.tag("sources:abort_run"); }
            let blk = if kind == "rejected-after-meta" && (r.contains("UnknownWord") || r.contains("ControlFlow")) { 2 * k } else if r == "ok" { 2 * k } else { 0 };
            executed_at_least += blk;
            let c = case(&ops);
            ctx.check(executed_at_least <= n_lim, || c.clone(), || format!("at most {} instructions execute after the limit is set", n_lim),
                || format!("at least {} have executed (answer to the last source: {})", executed_at_least, r));
            let m = xs.verif_dump().insn_meter;
            ctx.check(m >= prev_meter && m <= n_lim, || c.clone(), || format!("meter never decreases and stays <= {}", n_lim), || format!("meter {} -> {}", prev_meter, m));
            prev_meter = m;
        }
        correspondence_lim(ctx, "C14", &ops, n_lim);
    }
    // heap limit at the API level (variables are allocated while building): oracle only
    for _ in 0..(ctx.n / 5).max(20) {
        let mut xs = base.clone();
        let h0 = xs.verif_dump().heap.len();
        let h = ctx.rng.below(h0 + 6);
        xs.set_heap_limit(Some(h)).unwrap();
        let k = ctx.rng.below(8) + 1;
        let src: String = (0..k).map(|i| format!("{} var h{} ", i, i)).collect();
        let r = crate::guarded(|| xs.eval(&src));
        let len = xs.verif_dump().heap.len();
        let c = format!("C14 heap H={} `{}`", h, src);
        ctx.check(len <= h.max(h0), || c.clone(), || format!("heap <= {}", h.max(h0)), || format!("heap = {}", len));
        let expect_err = h0 + k > h.max(h0);
        match r {
            Some(r) => ctx.check(r.is_err() == expect_err, || c.clone(), || format!("error: {}", expect_err), || format!("{:?}", r)),
            None => ctx.oracle_fail(c.clone(), "no panic".into(), "panic".into()),
        }
        xs.set_heap_limit(None).unwrap();
        let r2 = crate::guarded(|| xs.eval("5 var after after"));
        let ok = matches!(r2, Some(Ok(()))) && xs.get_data(0) == Some(&Cell::Int(5));
        ctx.check(ok, || c.clone(), || "works normally after the limit is raised".into(), || format!("{:?}", r2));
        ctx.tag("heap-limit");
    }
    // the same through the API a host (and the module loaders) use to declare variables: a `defvar` that the heap limit
    // refuses fails and leaves nothing behind — the name means what it meant before (nothing, or the older variable)
    for _ in 0..12 {
        let mut xs = base.clone();
        let h0 = xs.verif_dump().heap.len();
        let redefine = ctx.rng.bool();
        if redefine { let _ = xs.defvar("X".into(), Cell::Int(1)); }
        let h = xs.verif_dump().heap.len();
        xs.set_heap_limit(Some(h)).unwrap();
        let d0 = xs.verif_dump().dict_len;
        let r = crate::guarded(|| xs.defvar("X".into(), Cell::Int(2)).map(|_| ()));
        let d1 = xs.verif_dump();
        let c = format!("C14 defvar(\"X\") with the heap at its limit {} ({})", h, if redefine { "X exists" } else { "X is new" });
        ctx.check(matches!(r, Some(Err(_))) && d1.heap.len() == h && d1.dict_len == d0, || c.clone(), || format!("refused; heap {} dict {}", h, d0), || format!("{:?}; heap {} dict {}", r.as_ref().map(|x| x.is_ok()), d1.heap.len(), d1.dict_len));
        let use_x = crate::guarded(|| xs.eval("X"));
        let top = xs.get_data(0).cloned();
        let ok = if redefine { matches!(use_x, Some(Ok(()))) && top == Some(Cell::Int(1)) } else { matches!(use_x, Some(Err(Xerr::UnknownWord(_)))) };
        ctx.check(ok, || format!("{}; then `X`", c), || (if redefine { "the older X: 1" } else { "unknown word" }).to_string(), || format!("{:?} top {:?}", use_x, top));
        xs.set_heap_limit(Some(h + 1)).unwrap();
        let r2 = crate::guarded(|| xs.defvar("Y".into(), Cell::Int(42)).map(|_| ()));
        let use_y = crate::guarded(|| xs.eval("Y"));
        let topy = xs.get_data(0).cloned();
        ctx.check(matches!(r2, Some(Ok(()))) && matches!(use_y, Some(Ok(()))) && topy == Some(Cell::Int(42)), || format!("{}; limit raised, defvar(\"Y\", 42), `Y`", c), || "42".into(), || format!("{:?} {:?} top {:?}", r2.map(|x| x.is_ok()), use_y, topy));
        let _ = h0;
        ctx.tag("heap-limit:defvar");
    }
    // changing one limit gives nothing back on another: with the instruction limit set once, the stack and heap limits
    // are adjusted between sources (what a host does when it sizes the limits to the input it is about to feed) and
    // still at most N instructions execute. Counted here: every accepted `1 drop` is two executed instructions.
    for round in 0..(ctx.n / 30).max(24) {
        let n_lim = 4 + ctx.rng.below(40);
        let mut xs = base.clone();
        xs.intercept_stdout(true);
        xs.set_insn_limit(Some(n_lim)).unwrap();
        let mut accepted = 0usize;
        let mut trail: Vec<&str> = Vec::new();
        for i in 0..(2 * n_lim) {
            match crate::guarded(|| xs.eval("1 drop")) { Some(Ok(())) => accepted += 1, Some(Err(_)) => { xs.abort_run(); } None => break }
            match (round + i) % 4 {
                0 => { xs.set_stack_limit(Some(100 + i)).unwrap(); trail.push("set_stack_limit"); }
                1 => { xs.set_heap_limit(Some(1000 + i)).unwrap(); trail.push("set_heap_limit"); }
                2 => { xs.set_stack_limit(None).unwrap(); xs.set_heap_limit(None).unwrap(); trail.push("both limits off"); }
                _ => { xs.set_recording_enabled(i % 8 == 3); trail.push("set_recording_enabled"); }
            }
        }
        ctx.check(2 * accepted <= n_lim, || format!("C14 set_insn_limit({}) once, then {} x `1 drop`, each followed by one of set_stack_limit / set_heap_limit / both off / set_recording_enabled", n_lim, 2 * n_lim),
            || format!("at most {} instructions execute after the limit is set: at most {} sources accepted", n_lim, n_lim / 2), || format!("{} accepted = {} instructions executed", accepted, 2 * accepted));
        ctx.tag("other-limits-adjusted-between-sources");
    }
    // immediate words written in the language run while a source is BUILT, and what they execute is executed: a word
    // whose body loops k times executes at least k instructions per use
    for round in 0..(ctx.n / 30).max(24) {
        let k = 3 + ctx.rng.below(12);
        let n_lim = 10 + ctx.rng.below(120);
        let mut xs = base.clone();
        xs.intercept_stdout(true);
        let def = match round % 3 { 0 => format!(": w immediate {} 0 do loop ;", k), 1 => format!(": w immediate 0 begin 1 + dup {} < while repeat drop ;", k), _ => format!(": w1 {} 0 do loop ; : w immediate w1 ;", k) };
        xs.eval(&def).unwrap();
        xs.set_insn_limit(Some(n_lim)).unwrap();
        let mut uses = 0usize;
        let one_source = round % 2 == 0;
        if one_source {
            // a source with m uses is accepted only if every one of them ran
            for m in [1usize, 2, 3, 5, 8, 13, 21, 34] {
                let src = format!("{}7 drop", "w ".repeat(m));
                match crate::guarded(|| xs.eval(&src)) { Some(Ok(())) => uses += m, Some(Err(_)) => { xs.abort_run(); } None => break }
            }
        } else {
            for _ in 0..(n_lim + 2) {
                match crate::guarded(|| xs.eval("w")) { Some(Ok(())) => uses += 1, Some(Err(_)) => { xs.abort_run(); } None => break }
            }
        }
        ctx.check(k * uses <= n_lim, || format!("C14 `{}`, set_insn_limit({}), then uses of w ({})", def, n_lim, if one_source { "sources with 1, 2, 3, 5 ... uses" } else { "one use per source" }),
            || format!("at most {} instructions execute after the limit is set: at most {} completed uses of w ({} instructions each at the least)", n_lim, n_lim / k, k), || format!("{} completed uses = at least {} instructions", uses, k * uses));
        ctx.tag("user-immediate-words-under-the-limit");
    }
    // an instruction that the stack limit refuses has not happened: when the limit is raised the stopped program goes
    // on from that instruction and ends as it ends without a limit — also when the refused instruction is a read word
    // (nothing of the input is consumed by a read that was refused)
    for _ in 0..(ctx.n / 20).max(40) {
        let words = ["u8", "u16", "i8", "8 bits", "1 bytes", "4 uint", "dup", "7", "\"s\"", "drop", "offset", "remain", "cstr", "u8 u8 +", "over"];
        let len = 2 + ctx.rng.below(7);
        let prog: Vec<&str> = (0..len).map(|_| *ctx.rng.pick(&words)).collect();
        let src = prog.join(" ");
        let bytes: Vec<u8> = (0..24).map(|i| if i % 7 == 6 { 0 } else { (ctx.rng.next_u64() as u8) | 1 }).collect();
        let mut free = base.clone();
        free.intercept_stdout(true);
        free.set_binary_input(Xbitstr::from(bytes.clone())).unwrap();
        let mut lim = free.clone();
        let rf = crate::guarded(|| free.eval(&src));
        if !matches!(rf, Some(Ok(()))) { ctx.tag("resume-after-refusal:program-fails-anyway"); continue; }
        let s_lim = ctx.rng.below(3);
        lim.set_stack_limit(Some(s_lim)).unwrap();
        let mut r = match crate::guarded(|| lim.compile(&src)) { Some(Ok(())) => crate::guarded(|| lim.run()), other => other };
        let mut refusals = 0;
        let mut cur = s_lim;
        while let Some(Err(e)) = &r {
            if !format!("{:?}", e).contains("limit reached") || refusals > 40 { break; }
            refusals += 1;
            cur += 1;
            lim.set_stack_limit(Some(cur)).unwrap();
            r = crate::guarded(|| lim.run());
        }
        let sig = |xs: &Xstate| format!("offset={} stack=[{}]", crate::canon::cell(xs.get_var_value("offset").unwrap()), crate::canon::stack(xs).iter().map(crate::canon::cell).collect::<Vec<_>>().join(","));
        let (a, b) = (sig(&free), sig(&lim));
        ctx.check(matches!(r, Some(Ok(()))) && a == b, || format!("C14 `{}` on input {:02x?} under stack limit {}, the limit raised by one and `run` again after each of the {} refusals", src, bytes, s_lim, refusals),
            || format!("ends as without a limit: {}", a), || format!("{:?} {}", r.map(|x| x.map_err(|e| crate::canon::err(&e))), b));
        ctx.tag(if refusals > 0 { "resume-after-refusal" } else { "resume-after-refusal:never-refused" });
    }
}
