//! C15 — how a program is driven does not change what it does.
//! Oracle (implementation only): the six drive modes {eval, compile+run, compile+step*} × recording
//! {off, on} end in the same machine (dump minus the reverse log), result and stdout.
//! Correspondence: the model drives the *same bytecode* by `run` and by `next`*, recording off/on.
use crate::progen::{gen_program, GenCfg};
use crate::vmcanon;
use crate::Ctx;
use xeh::prelude::*;

const LIMIT: usize = 3000;

fn finish(xs: &mut Xstate, r: &Xresult) -> String {
    let d = xs.verif_dump();
    let out = xs.stdout().map(|s| s.clone()).unwrap_or_default();
    // (the instruction meter is part of what a drive mode may not change: what a source executes while it is built and
    // while it runs is counted the same however it is driven — with a limit set, one mode must not get further than another)
    format!("{} | {} | meter={} | out={} | loc={:?}", vmcanon::outcome(r), vmcanon::core_dump(&d), d.insn_meter, crate::canon::hex(out.as_bytes()),
        xs.last_err_location().map(|l| (l.line, l.col, l.token.to_string())))
}

/// programs on which the way of driving could plausibly show: `exit` (at top level, inside a word, inside loops),
/// late-bound words called several times and redefined between calls, errors raised inside called words, output
/// before a failure, an `exit` code that is not an integer
fn drive_shape(r: &mut crate::rng::Rng) -> String {
    let (a, b, n) = (r.range(-5, 50), r.range(0, 9), r.range(1, 6));
    match r.below(26) {
        // bit-string values whose buffers are shared with — or only with — what the reverse log keeps: where a value starts
        // inside its buffer must not show, recording or not
        20 => "[ 0x12 0x34 0x56 ] >bitstr open-bitstr 8 bits drop 16 bits close-bitstr bitstr-not open-bitstr offset println".to_string(),
        21 => format!("|12 34 56 78| open-bitstr {} bits drop 8 bits close-bitstr |ff| bitstr-append open-bitstr offset println remain println", 4 * b),
        22 => "[ 1 2 3 ] >bitstr open-bitstr u8 drop 8 bits close-bitstr dup bitstr-not swap bitstr-append open-bitstr offset remain + println 0 seek u8 println".to_string(),
        23 => format!("|a5 5a c3| var bs bs open-bitstr {} bits drop 12 bits close-bitstr ! bs bs bitstr-not open-bitstr offset println bs println", b % 8),
        24 => "|00 11 22 33| open-bitstr 8 bits drop 16 bits 8 bits close-bitstr swap bitstr-append bitstr-not open-bitstr offset println u8 println".to_string(),
        25 => format!("#( {} {} + #) 1 2 3 4 5 drop drop println", a, b),
        // meta blocks: they run while the source is built, on a stack of their own — the same whether the source is
        // being evaluated or compiled, and whatever earlier programs left on the stack
        15 => format!("#( depth #) println {}", a),
        16 => format!("#( depth {} + #) {} + println", b, n),
        17 => format!(": w #( depth #) ; w w + println #( depth depth #) + println"),
        18 => format!("{} #( 1 + #) {}", a, b),
        19 => format!("[ #( depth #) {} ] println #( #( depth #) depth + #) println", n),
        // user-defined immediate words: they run at build time, alone (repair a64e06d: the code compiled so far is not
        // executed with them, nor a second time by compile + run)
        12 => format!(": imm immediate {} println ; {} imm {}", b, a, n),
        13 => format!(": k3 immediate {} {} * ; {} k3 + k3", n, b, a),
        14 => format!("{} var cnt : tick immediate cnt 1 + ! cnt ; tick {} tick cnt", a, b),
        0 => format!("{} exit {}", b, a),
        1 => format!("{} {} exit", a, b),
        2 => format!(": q {} exit ; 1 q 2", b),
        3 => format!("{} 0 do I {} == if {} exit then I loop 7", n + 2, n, b),
        4 => format!(": w {} 0 do I local x x 2 == if x exit then loop ; 5 w 6", n + 2),
        5 => format!("late lw : u lw ; : lw {} ; u u : lw {} ; u u u", a, b),
        6 => format!("late lw : u lw lw + ; : lw {} ; {} 0 do u drop loop u", a, n + 3),
        7 => format!("late lw : u lw ; : lw {} ; u : lw \"s\" ; u : lw 1 0 / ; u", a),
        8 => format!("\"before\" print {} var v : f v 0 / ; f \"after\" print", a),
        9 => "\"x\" exit 1".to_string(),
        10 => format!("begin {} exit false until 3", b),
        _ => format!("[ 1 2 3 ] foreach I 2 == if {} exit then loop 9", b),
    }
}

/// the six drives of one source from one idle state: all end alike
fn six_ways(ctx: &mut Ctx, bname: &str, bstate: &Xstate, src: &str) {
    let src = src.to_string();
    let mut results: Vec<(String, String)> = Vec::new();
    for rec in [false, true] {
        for mode in ["eval", "run", "step"] {
            let mut xs = bstate.clone();
            xs.intercept_stdout(true);
            xs.set_recording_enabled(rec);
            if !bname.starts_with("limit-set-earlier") { xs.set_insn_limit(Some(LIMIT)).unwrap(); }
            let r = crate::guarded(|| match mode {
                "eval" => xs.eval(&src),
                "run" => xs.compile(&src).and_then(|_| xs.run()),
                _ => xs.compile(&src).and_then(|_| {
                    let mut r = Ok(());
                    let mut guard = 0;
                    while xs.is_running() && guard < 10 * LIMIT {
                        guard += 1;
                        r = xs.next();
                        if r.is_err() { break; }
                    }
                    r
                }),
            });
            let text = match r { Some(r) => finish(&mut xs, &r), None => "panic".into() };
            results.push((format!("{}/{}", mode, if rec { "rec" } else { "norec" }), text));
        }
    }
    let first = results[0].1.clone();
    let all_same = results.iter().all(|(_, t)| *t == first);
    ctx.tag(if first.starts_with("ok") { "result:ok" } else if first.contains("limit reached") { "result:limit" } else { "result:err" });
    let obs = results.iter().map(|(m, t)| format!("{}: {}", m, t)).collect::<Vec<_>>().join("\n");
    ctx.check(all_same, || format!("C15 base={} `{}`", bname, src), || format!("all six drive modes end like eval/norec: {}", first), || obs);
}

pub fn run(ctx: &mut Ctx) {
    let base = Xstate::boot().unwrap();
    let cfg = GenCfg { endless: true, ..GenCfg::default() };
    // known finding: a user-defined immediate word runs in the context of the source being built, and that context's
    // data-stack floor depends on the mode — under eval it reaches values left by earlier programs, under compile it does not
    {
        let mut outcomes: Vec<String> = Vec::new();
        for mode in ["eval", "run"] {
            let mut xs = base.clone();
            xs.intercept_stdout(true);
            xs.eval("7").unwrap();
            let src = ": imm immediate drop ; imm";
            let r = crate::guarded(|| if mode == "eval" { xs.eval(src) } else { xs.compile(src).and_then(|_| xs.run()) });
            outcomes.push(match r { Some(r) => finish(&mut xs, &r), None => "panic".into() });
        }
        ctx.check(outcomes[0] == outcomes[1], || "[user-immediate-sees-stack] C15 `7` then `: imm immediate drop ; imm`".to_string(),
            || format!("compile+run ends like eval: {}", outcomes[0]), || outcomes[1].clone());
    }
    // idle interpreters with a past: `exit` seen in a rejected source's meta block, `exit` at run time followed by the
    // REPL's abort_run, a failed line aborted, values left on the stack — all of them idle, none of it may matter
    let bases: Vec<(&str, Xstate)> = {
        let mut v: Vec<(&str, Xstate)> = vec![("fresh", base.clone())];
        let mut b = base.clone(); b.intercept_stdout(true); let _ = b.eval("#( 0 exit #) nosuchword"); v.push(("rejected-exit", b));
        let mut b = base.clone(); b.intercept_stdout(true); let _ = b.eval("1 0 exit 2"); b.abort_run(); v.push(("exit-aborted", b));
        let mut b = base.clone(); b.intercept_stdout(true); let _ = b.eval("3 4 1 0 / 5"); b.abort_run(); v.push(("failed-aborted", b));
        let mut b = base.clone(); b.intercept_stdout(true); let _ = b.compile("7 8"); let _ = b.run(); v.push(("ran-earlier", b));
        v
    };
    let mut n_done = 0;
    while n_done < ctx.n {
        let (src, tags) = if ctx.rng.chance(10) { (drive_shape(&mut ctx.rng), vec!["drive-shape"]) } else { gen_program(&mut ctx.rng, &cfg) };
        if src.contains(" immediate ") { ctx.tag("prog:user-immediate"); }
        n_done += 1;
        for t in tags.iter() { ctx.tag(&format!("prog:{}", t)); }
        let (bname, bstate) = { let i = if ctx.rng.chance(25) || src.contains("#(") { ctx.rng.below(bases.len()) } else { 0 }; (bases[i].0, &bases[i].1) };
        ctx.tag(&format!("base:{}", bname));
        ctx.progress(&format!("C15 base={} `{}`", bname, src));
        six_ways(ctx, bname, bstate, &src);
        // correspondence on the compiled bytecode: run vs step*, recording off/on (not for user-defined immediate words:
        // what they do at build time — output, stack — is not part of the machine set-up handed to the model)
        if src.contains(" immediate ") { ctx.tag("skipped:user-immediate"); continue; }
        let mut xs = base.clone();
        xs.intercept_stdout(true);
        xs.set_insn_limit(Some(LIMIT)).unwrap();
        if !matches!(crate::guarded(|| xs.compile(&src)), Some(Ok(()))) { ctx.tag("skipped:build-error"); continue; }
        let setup = vmcanon::setup_str(&xs, (Some(LIMIT), None, None));
        let rec = ctx.rng.bool();
        let stepwise = ctx.rng.bool();
        let mut ys = xs.clone();
        ys.set_recording_enabled(rec);
        let mut script: Vec<String> = vec![format!("rec={}", if rec { 1 } else { 0 })];
        let mut answers: Vec<String> = vec![format!("ok@{}", vmcanon::full_dump(&mut ys))];
        if stepwise {
            let mut guard = 0;
            while ys.is_running() && guard < 400 {
                guard += 1;
                let r = match crate::guarded(|| ys.next()) { Some(r) => r, None => { script.push("n".into()); answers.push("panic@".into()); break } };
                script.push("n".into());
                answers.push(format!("{}@{}", vmcanon::outcome(&r), vmcanon::full_dump(&mut ys)));
                if r.is_err() { break; }
            }
        } else {
            match crate::guarded(|| ys.run()) {
                Some(r) => { script.push("R".into()); answers.push(format!("{}@{}", vmcanon::outcome(&r), vmcanon::full_dump(&mut ys))); }
                None => { script.push("R".into()); answers.push("panic@".into()); }
            }
        }
        ctx.tag(&format!("drive:{}/{}", if stepwise { "step" } else { "run" }, if rec { "rec" } else { "norec" }));
        ctx.case(format!("C15 vm {} view=full script={}", setup, script.join(",")), answers.join(" ; "));
    }
    // user-defined immediate words that WRITE while the source is built — a counter in a variable, the byte order, the
    // position in the input: the build is the same build whether the source is being evaluated or compiled (the
    // variables exist before the source: a variable declared by the source itself gets its value only when it runs)
    {
        let mut with_counter = base.clone();
        with_counter.intercept_stdout(true);
        with_counter.eval("0 var cnt0 |01 02 03 04| open-bitstr").unwrap();
        for src in [
            ": bump immediate cnt0 1 + ! cnt0 ; bump bump cnt0 println",
            "little : be immediate big ; be 258 u16! println",
            ": be immediate big ; : le immediate little ; be 1 u16! le 1 u16! be println println big? println",
            ": skip8 immediate offset 8 + ! offset ; skip8 u8 println skip8 u8 println",
            ": rd immediate u8 drop ; rd rd u8 println offset println",
            ": twice immediate cnt0 2 * 1 + ! cnt0 ; twice : user twice cnt0 ; user println cnt0 println",
            ": mk immediate 7 var made ; mk 1 println",
            ": lim immediate cnt0 1 + ! cnt0 ; 3 0 do lim I drop loop cnt0 println",
            ": bump immediate cnt0 1 + ! cnt0 ; bump nosuchword",
        ] {
            ctx.tag("prog:user-immediate-writes");
            six_ways(ctx, "counter-and-input", &with_counter, src);
        }
    }
    // the host set the instruction limit some time ago and the interpreter has worked since: what has been counted
    // stays counted, however the next program is driven and whether or not recording is switched on for it
    {
        let mut earlier = base.clone();
        earlier.intercept_stdout(true);
        earlier.set_insn_limit(Some(LIMIT)).unwrap();
        earlier.eval("0 var cnt0 20 0 do cnt0 I + ! cnt0 loop").unwrap();
        for src in ["1 2 + println", "cnt0 println", "5 0 do I drop loop", ": f 3 0 do I drop loop ; f f", "#( 1 2 + #) println", "begin 1 drop repeat"] {
            ctx.tag("prog:limit-set-earlier");
            six_ways(ctx, "limit-set-earlier", &earlier, src);
        }
    }
}
