//! C16 — the lexer is total, loses no text, reads literals as written; print → read round trips.
//! Also serves the location function of C17 (`C16 loc …`).
//!
//! Correspondence lines:
//!   `C16 lex x<hex text>`            every token of `Lex::next` until EndOfInput / first error
//!   `C16 nonws x<hex text>`          the same through `next_nonws`
//!   `C16 loc x<hex text> <offset>`   `token_location` of a token starting at that byte
//!   `C16 print <raw flags> <cell>`   `State::format_cell` (Debug printer under FmtFlags)
//! Oracle (implementation only, independent references written here): tiling and progress of the
//! token ranges, token texts free of / made of ASCII whitespace, generated literal spellings
//! denote the value they were generated from (or are rejected exactly when out of range),
//! reals agree with `str::parse::<f64>`, print → eval → `==`/`equal?` for ints, bit-strings and
//! vectors/maps of those, line/column/whole-line recounted independently.
use super::gen::*;
use crate::canon;
use crate::rng::Rng;
use crate::Ctx;
use xeh::lex::{token_location, Lex, Tok};
use xeh::prelude::*;

fn hext(s: &str) -> String {
    format!("x{}", canon::hex(s.as_bytes()))
}

fn us(s: &str) -> String {
    s.chars().map(|c| if c == ' ' || c == '\n' { '_' } else { c }).collect()
}

#[derive(Clone, Debug)]
enum Seen {
    Tok { tok: Tok, lo: usize, hi: usize },
    Eof,
    Err { msg: String, elo: usize, ehi: usize, lo: usize, hi: usize },
    Panic,
}

fn render_tok(text: &str, tok: &Tok, lo: usize, hi: usize) -> String {
    match tok {
        Tok::EndOfInput => format!("E@{}-{}", lo, hi),
        Tok::Word(_) => format!("w@{}-{}", lo, hi),
        Tok::Whitespace(_) => format!("W@{}-{}", lo, hi),
        Tok::Comment(_) => format!("c@{}-{}", lo, hi),
        Tok::Literal(Cell::Real(r)) => {
            // the text handed to the float parser: the token without `_`
            let cleaned: String = text[lo..hi].chars().filter(|c| *c != '_').collect();
            format!("L@{}-{}:R{}:{:016x}", lo, hi, canon::hex(cleaned.as_bytes()), r.to_bits())
        }
        Tok::Literal(c) => format!("L@{}-{}:{}", lo, hi, canon::cell(c)),
    }
}

fn render(text: &str, seen: &[Seen]) -> String {
    let mut out = Vec::new();
    for s in seen {
        out.push(match s {
            Seen::Tok { tok, lo, hi } => render_tok(text, tok, *lo, *hi),
            Seen::Eof => "eof".to_string(),
            Seen::Err { msg, elo, ehi, lo, hi } => format!("err:{}:{}-{}@{}-{}", us(msg), elo, ehi, lo, hi),
            Seen::Panic => "panic".to_string(),
        });
    }
    out.join(" ")
}

/// drive the real lexer; `nonws` selects `next_nonws`
fn drive(text: &str, nonws: bool) -> Vec<Seen> {
    let mut lex = Lex::new(Xstr::from(text));
    let mut seen = Vec::new();
    // a total lexer needs at most len+1 calls; the bound only guards the harness against a non-progressing lexer
    for _ in 0..text.len() + 2 {
        let r = crate::guarded(|| {
            let r = if nonws { lex.next_nonws() } else { lex.next() };
            let rg = lex.last_substr().range();
            (r, rg)
        });
        match r {
            None => {
                seen.push(Seen::Panic);
                return seen;
            }
            Some((Ok(Tok::EndOfInput), _)) => {
                seen.push(Seen::Eof);
                return seen;
            }
            Some((Ok(tok), rg)) => seen.push(Seen::Tok { tok, lo: rg.start, hi: rg.end }),
            Some((Err(Xerr::ParseError { msg, substr }), rg)) => {
                let er = substr.range();
                seen.push(Seen::Err { msg: msg.to_string(), elo: er.start, ehi: er.end, lo: rg.start, hi: rg.end });
                return seen;
            }
            Some((Err(e), rg)) => {
                seen.push(Seen::Err { msg: format!("other:{:?}", e), elo: 0, ehi: 0, lo: rg.start, hi: rg.end });
                return seen;
            }
        }
    }
    seen.push(Seen::Panic); // no progress: reported as a failure by the oracle
    seen
}

fn is_ascii_ws(c: char) -> bool {
    matches!(c, ' ' | '\t' | '\n' | '\x0c' | '\r')
}

/// the property's own statement about one text, checked on the implementation's answer
fn oracle_text(ctx: &mut Ctx, text: &str, seen: &[Seen]) {
    let case = || format!("C16 lex {}", hext(text));
    let obs = || render(text, seen);
    // totality: ends with eof or an error value, never a panic / stall
    let last = seen.last().unwrap();
    ctx.check(!matches!(last, Seen::Panic), case, || "terminates with EndOfInput or an error value".into(), obs);
    // tiling + progress
    let mut at = 0usize;
    let mut ok = true;
    let mut why = String::new();
    for s in seen {
        match s {
            Seen::Tok { tok, lo, hi } => {
                if *lo != at {
                    ok = false;
                    why = format!("token starts at {} but the previous one ended at {}", lo, at);
                    break;
                }
                if hi <= lo {
                    ok = false;
                    why = format!("token at {} consumes nothing", lo);
                    break;
                }
                if !text.is_char_boundary(*hi) {
                    ok = false;
                    why = "token ends inside a character".into();
                    break;
                }
                let t = &text[*lo..*hi];
                match tok {
                    Tok::Word(s) | Tok::Whitespace(s) | Tok::Comment(s) => {
                        if s.as_str() != t || s.range() != (*lo..*hi) {
                            ok = false;
                            why = format!("token text {:?} differs from last_substr {:?}", s.as_str(), t);
                            break;
                        }
                    }
                    _ => (),
                }
                match tok {
                    Tok::Whitespace(_) => {
                        let maximal = text[*hi..].chars().next().map(|c| !is_ascii_ws(c)).unwrap_or(true);
                        if !t.chars().all(is_ascii_ws) || !maximal {
                            ok = false;
                            why = "whitespace token is not a maximal run of ASCII whitespace".into();
                            break;
                        }
                    }
                    Tok::Word(_) => {
                        let maximal = text[*hi..].chars().next().map(is_ascii_ws).unwrap_or(true);
                        if t.chars().any(is_ascii_ws) || !maximal {
                            ok = false;
                            why = "word token is not a maximal blank-free run".into();
                            break;
                        }
                    }
                    Tok::Literal(Cell::Real(r)) => {
                        let cleaned: String = t.chars().filter(|c| *c != '_').collect();
                        match cleaned.parse::<f64>() {
                            Ok(x) if x.to_bits() == r.to_bits() => (),
                            other => {
                                ok = false;
                                why = format!("real literal {:?} read as {:?}, str::parse gives {:?}", t, r, other);
                                break;
                            }
                        }
                    }
                    _ => (),
                }
                at = *hi;
            }
            Seen::Eof => {
                if at != text.len() {
                    ok = false;
                    why = format!("EndOfInput at {} of {}", at, text.len());
                }
            }
            Seen::Err { lo, hi, .. } => {
                // the failing token starts where the last good one ended: text[0..lo) was reproduced
                if *lo != at || hi < lo || *hi > text.len() {
                    ok = false;
                    why = format!("failing token range {}..{} does not continue at {}", lo, hi, at);
                }
            }
            Seen::Panic => (),
        }
    }
    ctx.check(ok, case, || format!("token ranges tile the input prefix ({})", why), obs);
}

// ---------------------------------------------------------------- generators

const WS: &[&str] = &[" ", " ", " ", "\n", "\t", "\r", "\r\n", "\x0c", "  ", "\n\n"];
const ODD: &[&str] = &["\x0b", "\u{a0}", "\u{2028}", "\u{85}", "\u{3000}", "\0", "\u{feff}"];
const MB: &[&str] = &["é", "ß", "日", "本", "😀", "“", "”", "λ", "\u{301}", "𝔘"];

fn pk<'a>(r: &mut Rng, xs: &[&'a str]) -> &'a str {
    xs[r.below(xs.len())]
}

fn ws(r: &mut Rng) -> String {
    let mut s = String::new();
    for _ in 0..1 + r.below(2) {
        s.push_str(pk(r, WS));
    }
    s
}

fn arbitrary(r: &mut Rng) -> String {
    let n = r.below(24);
    let mut s = String::new();
    for _ in 0..n {
        match r.below(12) {
            0..=2 => s.push((0x21 + r.below(0x5e)) as u8 as char),
            3 | 4 => s.push_str(pk(r, WS)),
            5 => s.push_str(pk(r, MB)),
            6 => s.push_str(pk(r, ODD)),
            7 => s.push_str(pk(r, &["\"", "\\", "|", "\\(", "\\)", "\\ ", " \\) ", "“", "”"])),
            8 => s.push_str(pk(r, &["0", "1", "9", "-", "+", "_", ".", "x", "b", "0x", "0b", "f", "e"])),
            9 => s.push(char::from_u32(r.below(0x11_0000) as u32).unwrap_or('?')),
            10 => s.push((r.below(0x20)) as u8 as char),
            _ => s.push_str(pk(r, &["a", "dup", ":", ";", "[", "]", "{", "}", "(", ")"])),
        }
    }
    s
}

fn digits_of(mut v: u128, radix: u32, upper: bool) -> String {
    if v == 0 {
        return "0".into();
    }
    let mut d = Vec::new();
    while v > 0 {
        let x = (v % radix as u128) as u32;
        let c = std::char::from_digit(x, radix).unwrap();
        d.push(if upper { c.to_ascii_uppercase() } else { c });
        v /= radix as u128;
    }
    d.iter().rev().collect()
}

fn sprinkle_underscores(r: &mut Rng, s: &str) -> String {
    let mut o = String::new();
    for (i, c) in s.chars().enumerate() {
        o.push(c);
        // never right after a leading sign: `-_1` is a word, not a number
        if !(i == 0 && (c == '-' || c == '+')) && r.chance(15) {
            o.push('_');
        }
    }
    o
}

/// how the generator spelled a number and what it must denote
struct NumSpelling {
    text: String,
    /// Some(Some(v)): must read as v; Some(None): must be rejected (out of range); None: no claim
    expect: Option<Option<i128>>,
}

/// a well-formed integer spelling of a magnitude up to and beyond the i128 range
fn int_spelling(r: &mut Rng) -> NumSpelling {
    // magnitude as u128 plus optional extra high digit(s) to go beyond the range
    let mag: u128 = match r.below(8) {
        0 => gen_int(r).unsigned_abs(),
        1 => (1u128 << 127) - 1,
        2 => 1u128 << 127,
        3 => (1u128 << 127) + 1,
        4 => u128::MAX,
        5 => r.below(300) as u128,
        6 => r.next_u128() >> r.below(128),
        _ => r.next_u128(),
    };
    let neg = r.bool();
    let sign = if neg { "-" } else if r.chance(25) { "+" } else { "" };
    let style = r.below(4); // 0 dec, 1 0x, 2 0b, 3 leading-zero hex
    let radix = [10, 16, 2, 16][style];
    let upper = r.bool();
    let mut body = digits_of(mag, radix, upper);
    let beyond = r.chance(8);
    if beyond {
        // one more leading digit: certainly above 2^128 > any i128
        body = format!("{}{}", if radix == 2 { "1" } else { "7" }, "0".repeat(body.len().max(if radix == 2 { 128 } else if radix == 16 { 32 } else { 39 })));
    }
    if style == 0 {
        // a decimal spelling must not start with 0 (that would mean hex) unless it is exactly "0"
        if body.starts_with('0') && body.len() > 1 {
            body = body.trim_start_matches('0').to_string();
        }
    }
    if r.chance(40) {
        body = sprinkle_underscores(r, &body);
    }
    // leading-zero hex whose first digit is a lowercase `b` would be the binary prefix: spell it `00b…`
    let prefix = if style == 3 && body.starts_with('b') { "00" } else { ["", "0x", "0b", "0"][style] };
    // leading-zero hex: extra zeros are harmless
    let text = format!("{}{}{}", sign, prefix, body);
    let expect = if beyond {
        Some(None)
    } else if neg {
        if mag <= 1u128 << 127 { Some(Some((mag as i128).wrapping_neg())) } else { Some(None) }
    } else if mag < 1u128 << 127 {
        Some(Some(mag as i128))
    } else {
        Some(None)
    };
    // decimal "0" followed by underscores etc. is fine; a decimal body that is "0" with style 0 and
    // digits after would be hex — excluded above
    NumSpelling { text, expect }
}

/// odd numeric spellings: no claim about the value, the model must still agree
fn odd_number(r: &mut Rng) -> String {
    let pool = [
        "0x", "0b", "-0x", "+0b", "0x-1", "0x+5", "-0x-1", "0b2", "0b102", "0xg", "0_", "_0", "0__f", "00", "007", "0e5", "1e5", "0x1.5", "0b1.1", "1.", "1..2", "1.2.3",
        "1.5e", "1.5e+", "1.5e3", "1.5E-3", "-1.5e+308", "1.e5", "+.5", "-.5", ".5", "1_.5", "1._5", "0._", "1.5_e_3", "12-", "1\"a\"", "1|ff|", "-", "+", "--1", "+-1", "-+1",
        "0x_", "0b_", "0xé", "1é", "1.é", "9日", "-0", "+0", "-0.0", "0.0", "1.7976931348623157e308", "1.7976931348623159e308", "2e308.0", "4.9e-324", "2.4703282292062327e-324",
        "2.4703282292062328e-324", "0.1", "0.30000000000000004", "9007199254740993.0", "9007199254740992.5", "1.0e400", "1.0e-400", "1.0e99999999999", "1.0e-99999999999",
        "123456789012345678901234567890123456789012345678901234567890.0", "0.000000000000000000000000000000000000000000000000000001", "1.inf", "1.nan", "0b", "0B1", "0X1F",
        "1x", "0xx", "0bb", "-0b101", "+0x7f", "0b1_0", "1__2", "0x7fffffffffffffffffffffffffffffff", "0x80000000000000000000000000000000", "-0x80000000000000000000000000000000",
        "-0x80000000000000000000000000000001", "0ffffffffffffffffffffffffffffffff", "5.", "5.e", "5.e-", "5.0e-0", "1.0E+2", "1.0e1.0", "1.0ee1", "1.0e1e1", "1.-5", "1.+5",
    ];
    let mut s = r.pick(&pool).to_string();
    if r.chance(20) {
        s = sprinkle_underscores(r, &s);
    }
    s
}

fn random_real_spelling(r: &mut Rng) -> String {
    let mut s = String::new();
    if r.chance(40) {
        s.push(if r.bool() { '-' } else { '+' });
    }
    let ni = if r.chance(10) { 40 } else { 6 };
    for _ in 0..1 + r.below(ni) {
        s.push((b'0' + r.below(10) as u8) as char);
    }
    s.push('.');
    let nf = if r.chance(10) { 40 } else { 8 };
    for _ in 0..r.below(nf) {
        s.push((b'0' + r.below(10) as u8) as char);
    }
    if r.chance(45) {
        s.push(if r.bool() { 'e' } else { 'E' });
        if r.chance(60) {
            s.push(if r.bool() { '-' } else { '+' });
        }
        s.push_str(&format!("{}", match r.below(4) { 0 => r.below(20), 1 => 290 + r.below(50), 2 => r.below(400), _ => r.below(5) }));
    }
    if s.starts_with("0") && !s.starts_with("0.") && r.bool() {
        // keep leading-zero forms too (they are not hex once a dot is present)
    }
    if r.chance(15) {
        s = sprinkle_underscores(r, &s);
    }
    s
}

/// from a shortest-round-trip print of a random double (always contains a '.' or gets one)
fn printed_real(r: &mut Rng) -> String {
    let x = gen_real(r);
    if !x.is_finite() {
        return "1.5".into();
    }
    let s = if r.bool() { format!("{:?}", x) } else { format!("{:e}", x) };
    if s.contains('.') { s } else { s.replacen('e', ".0e", 1) }
}

struct StrSpelling {
    text: String,
    expect: Option<String>, // decoded content when the literal is well-formed
}

fn str_spelling(r: &mut Rng) -> StrSpelling {
    let open = if r.chance(25) { '“' } else { '"' };
    let close = if r.chance(25) { '”' } else { '"' };
    let mut text = String::new();
    let mut val = String::new();
    text.push(open);
    for _ in 0..r.below(10) {
        match r.below(12) {
            0 => { text.push_str("\\\\"); val.push('\\'); }
            1 => { text.push_str("\\\""); val.push('"'); }
            2 => { text.push_str("\\n"); val.push('\n'); }
            3 => { text.push_str("\\r"); val.push('\r'); }
            4 => { text.push_str("\\t"); val.push('\t'); }
            5 => { let w = *r.pick(WS); text.push_str(w); val.push_str(w); }
            6 => { let w = *r.pick(MB); if w != "”" { text.push_str(w); val.push_str(w); } }
            7 => { let w = *r.pick(ODD); text.push_str(w); val.push_str(w); }
            8 => { let w = *r.pick(&["|", "'", "\\(", "[", "0x", "#"]); if !w.contains('\\') { text.push_str(w); val.push_str(w); } }
            _ => { let c = (0x23 + r.below(0x39)) as u8 as char; if c != '\\' { text.push(c); val.push(c); } }
        }
    }
    text.push(close);
    StrSpelling { text, expect: Some(val) }
}

fn broken_str(r: &mut Rng) -> String {
    let base = str_spelling(r).text;
    match r.below(6) {
        0 => base[..base.len() - base.chars().last().unwrap().len_utf8()].to_string(), // unterminated
        1 => format!("{}x", base),                                                       // no separator
        2 => {
            let esc = *r.pick(&["\\x", "\\0", "\\u{41}", "\\'", "\\é", "\\ ", "\\\n", "\\“"]);
            let q = base.chars().next().unwrap();
            format!("{}a{}b\"", q, esc)
        }
        3 => format!("{}\\", &base[..base.len() - base.chars().last().unwrap().len_utf8()]), // ends in backslash
        4 => "\"".to_string(),
        _ => format!("{}{}", base, r.pick(&["\"", "”", "|", "1", "\u{b}", "\u{a0}"])),
    }
}

struct BitsSpelling {
    text: String,
    expect: Vec<bool>,
}

fn bits_spelling(r: &mut Rng) -> BitsSpelling {
    let nb = if r.chance(10) { 300 } else { 40 };
    let bits = gen_bits(r, nb);
    let mut text = String::from("|");
    let mut i = 0;
    while i < bits.len() {
        if r.chance(20) {
            text.push_str(pk(r, WS));
        }
        if i + 4 <= bits.len() && r.chance(60) {
            let v = bits[i..i + 4].iter().fold(0u32, |a, b| a * 2 + *b as u32);
            let c = std::char::from_digit(v, 16).unwrap();
            text.push(if r.bool() { c.to_ascii_uppercase() } else { c });
            i += 4;
        } else {
            text.push(if bits[i] { 'x' } else { '.' });
            i += 1;
        }
    }
    if r.chance(20) {
        text.push_str(pk(r, WS));
    }
    text.push('|');
    BitsSpelling { text, expect: bits }
}

fn broken_bits(r: &mut Rng) -> String {
    let b = bits_spelling(r).text;
    match r.below(5) {
        0 => b[..b.len() - 1].to_string(),
        1 => format!("{}{}|", &b[..b.len() - 1], r.pick(&["g", "X", "_", "-", "é", "\u{b}", "\"", "0x", "\\"])),
        2 => "|".to_string(),
        3 => format!("{}{}", b, r.pick(&["1", "|", "x", "\"a\""])), // nothing is required after the closing bar
        _ => format!("|{}", &b[1..b.len() - 1]),
    }
}

fn comment_piece(r: &mut Rng) -> String {
    let pool = [
        "\\ line comment", "\\", "\\ \\( not multi", "\\( multi \\)", "\\( \\)", "\\(\\)", "\\( a\\) still \\) ", "\\( \n \\\\) x \\)", "\\( \\ \\)", "\\( \\)x \\)", "\\( unterminated",
        "\\(", "\\( \\", "\\( \\)", "\\(\t\\)\r", "\\( \\)\u{b}", "\\( é \\)", "\\(( \\)", "\\)", "( \\)", "\\\\", "\\ é日\r\n", "\\( \\(\\) \\)", "\\( \\( \\) \\)", "\\( \u{b}\\) \\)",
    ];
    r.pick(&pool).to_string()
}

fn soup(r: &mut Rng, dict: &[String]) -> String {
    let mut s = String::new();
    if r.chance(30) {
        s.push_str(&ws(r));
    }
    for _ in 0..r.below(10) {
        match r.below(14) {
            0..=3 => s.push_str(r.pick(dict).as_str()),
            4 => s.push_str(&int_spelling(r).text),
            5 => s.push_str(&random_real_spelling(r)),
            6 => s.push_str(&str_spelling(r).text),
            7 => s.push_str(&bits_spelling(r).text),
            8 => s.push_str(&comment_piece(r)),
            9 => s.push_str(&odd_number(r)),
            10 => s.push_str(pk(r, MB)),
            11 => s.push_str(&format!("{}", r.range(-100, 100))),
            12 => s.push_str(pk(r, &["[", "]", "{", "}", ":", ";", "(", ")", "if", "then", "#", "."])),
            _ => s.push_str(&printed_real(r)),
        }
        if r.chance(93) {
            s.push_str(&ws(r));
        }
    }
    s
}

fn malformed(r: &mut Rng) -> String {
    let mut s = String::new();
    for _ in 0..1 + r.below(4) {
        match r.below(6) {
            0 => s.push_str(&broken_str(r)),
            1 => s.push_str(&broken_bits(r)),
            2 => s.push_str(&comment_piece(r)),
            3 => s.push_str(&odd_number(r)),
            4 => s.push_str(&arbitrary(r)),
            _ => s.push_str(pk(r, ODD)),
        }
        if r.chance(70) {
            s.push_str(&ws(r));
        }
    }
    s
}

// ---------------------------------------------------------------- cases

fn lex_case(ctx: &mut Ctx, text: &str) -> Vec<Seen> {
    let seen = drive(text, false);
    ctx.case(format!("C16 lex {}", hext(text)), render(text, &seen));
    oracle_text(ctx, text, &seen);
    match seen.last().unwrap() {
        Seen::Eof => ctx.tag("end:eof"),
        Seen::Err { msg, .. } => ctx.tag(&format!("end:err:{}", us(msg))),
        _ => ctx.tag("end:panic"),
    }
    for s in &seen {
        if let Seen::Tok { tok, .. } = s {
            ctx.tag(match tok {
                Tok::Word(_) => "tok:word",
                Tok::Whitespace(_) => "tok:ws",
                Tok::Comment(_) => "tok:comment",
                Tok::Literal(Cell::Int(_)) => "tok:int",
                Tok::Literal(Cell::Real(_)) => "tok:real",
                Tok::Literal(Cell::Str(_)) => "tok:str",
                Tok::Literal(Cell::Bitstr(_)) => "tok:bitstr",
                _ => "tok:other",
            });
        }
    }
    seen
}

fn nonws_case(ctx: &mut Ctx, text: &str) {
    let seen = drive(text, true);
    ctx.case(format!("C16 nonws {}", hext(text)), render(text, &seen));
    // next_nonws must report exactly the non-blank, non-comment tokens of next()
    let full = drive(text, false);
    let filt: Vec<String> = full
        .iter()
        .filter(|s| !matches!(s, Seen::Tok { tok: Tok::Whitespace(_), .. } | Seen::Tok { tok: Tok::Comment(_), .. }))
        .map(|s| render(text, std::slice::from_ref(s)))
        .collect();
    let got: Vec<String> = seen.iter().map(|s| render(text, std::slice::from_ref(s))).collect();
    ctx.check(filt == got, || format!("C16 nonws {}", hext(text)), || filt.join(" "), || got.join(" "));
}

/// the first non-blank token of ` <spelling> ` (surrounded by random blanks)
fn single_literal(ctx: &mut Ctx, spelling: &str) -> (String, Vec<Seen>) {
    let pre = if ctx.rng.bool() { ws(&mut ctx.rng) } else { String::new() };
    let post = if ctx.rng.chance(70) { ws(&mut ctx.rng) } else { String::new() };
    let text = format!("{}{}{}", pre, spelling, post);
    let seen = lex_case(ctx, &text);
    (text, seen)
}

fn first_nonws(seen: &[Seen]) -> Option<&Seen> {
    seen.iter().find(|s| !matches!(s, Seen::Tok { tok: Tok::Whitespace(_), .. }))
}

fn literal_cases(ctx: &mut Ctx) {
    match ctx.rng.below(6) {
        0 | 1 => {
            let sp = int_spelling(&mut ctx.rng);
            ctx.tag("lit:int-spelling");
            let (text, seen) = single_literal(ctx, &sp.text);
            let got = first_nonws(&seen).cloned();
            let case = || format!("C16 lex {}   (spelling {:?})", hext(&text), sp.text);
            match sp.expect {
                Some(Some(v)) => {
                    ctx.tag("lit:int:in-range");
                    let ok = matches!(&got, Some(Seen::Tok { tok: Tok::Literal(Cell::Int(i)), .. }) if *i == v);
                    ctx.check(ok, case, || format!("integer literal {}", v), || format!("{:?}", got));
                }
                Some(None) => {
                    ctx.tag("lit:int:out-of-range");
                    let ok = matches!(&got, Some(Seen::Err { msg, .. }) if msg == "parse int error");
                    ctx.check(ok, case, || "rejected with parse int error (outside i128)".into(), || format!("{:?}", got));
                }
                None => (),
            }
        }
        2 => {
            let s = if ctx.rng.bool() { random_real_spelling(&mut ctx.rng) } else { printed_real(&mut ctx.rng) };
            ctx.tag("lit:real-spelling");
            let (text, seen) = single_literal(ctx, &s);
            let got = first_nonws(&seen).cloned();
            // a spelling digits '.' digits [exp] is a real and equals Rust's parse of it without `_`
            let cleaned: String = s.chars().filter(|c| *c != '_').collect();
            if let Ok(x) = cleaned.parse::<f64>() {
                let ok = matches!(&got, Some(Seen::Tok { tok: Tok::Literal(Cell::Real(r)), .. }) if r.to_bits() == x.to_bits());
                ctx.check(ok, || format!("C16 lex {}", hext(&text)), || format!("real literal {:?} = bits {:016x}", x, x.to_bits()), || format!("{:?}", got));
            }
        }
        3 => {
            let sp = str_spelling(&mut ctx.rng);
            ctx.tag("lit:str-spelling");
            let (text, seen) = single_literal(ctx, &sp.text);
            let got = first_nonws(&seen).cloned();
            if let Some(v) = &sp.expect {
                let ok = matches!(&got, Some(Seen::Tok { tok: Tok::Literal(Cell::Str(s)), .. }) if s.as_str() == v.as_str());
                ctx.check(ok, || format!("C16 lex {}", hext(&text)), || format!("string literal {:?}", v), || format!("{:?}", got));
            }
        }
        4 => {
            let sp = bits_spelling(&mut ctx.rng);
            ctx.tag("lit:bits-spelling");
            let (text, seen) = single_literal(ctx, &sp.text);
            let got = first_nonws(&seen).cloned();
            let want: String = sp.expect.iter().map(|b| if *b { '1' } else { '0' }).collect();
            let ok = matches!(&got, Some(Seen::Tok { tok: Tok::Literal(Cell::Bitstr(b)), .. }) if canon::bits_of(b) == want);
            ctx.check(ok, || format!("C16 lex {}", hext(&text)), || format!("bit-string {}", want), || format!("{:?}", got));
        }
        _ => {
            let s = odd_number(&mut ctx.rng);
            ctx.tag("lit:odd-number");
            single_literal(ctx, &s);
        }
    }
}

// ---------------------------------------------------------------- print → read

fn gen_leaf(r: &mut Rng) -> Cell {
    if r.chance(55) {
        Cell::Int(gen_int(r))
    } else {
        let nb = if r.chance(10) { 300 } else { 24 };
        Cell::Bitstr(bitstr_from_bits(&gen_bits(r, nb)))
    }
}

fn gen_value(r: &mut Rng, depth: usize) -> Cell {
    match r.below(if depth == 0 { 2 } else { 5 }) {
        0 | 1 => gen_leaf(r),
        2 | 3 => {
            let mut v = Xvec::new();
            for _ in 0..r.below(5) {
                v.push_back_mut(gen_value(r, depth - 1));
            }
            Cell::Vector(v)
        }
        _ => {
            // integer keys only: bit-string / collection keys all compare Equal under `Ord for Cell`
            // (the C12 finding), so such maps are not faithful values to begin with
            let mut m = Xmap::new();
            for _ in 0..r.below(4) {
                m.insert_mut(Cell::Int(gen_int(r)), gen_value(r, depth - 1));
            }
            Cell::Map(m)
        }
    }
}

fn print_case(ctx: &mut Ctx, base: &Xstate) {
    let v = gen_value(&mut ctx.rng.fork(), 2);
    ctx.rng.next_u64();
    let raw_default = 10 | 0x100;
    let printed = crate::guarded(|| base.format_cell(&v));
    let txt = match printed {
        Some(Ok(s)) => s,
        _ => {
            ctx.oracle_fail(format!("C16 print {} {}", raw_default, canon::cell(&v)), "a text".into(), "panic/err".into());
            return;
        }
    };
    ctx.tag(match &v { Cell::Int(_) => "print:int", Cell::Bitstr(_) => "print:bitstr", Cell::Vector(_) => "print:vec", _ => "print:map" });
    ctx.case(format!("C16 print {} {}", raw_default, canon::cell(&v)), format!("ok {}", hext(&txt)));
    // the print, lexed (token level statement of the round trip)
    lex_case(ctx, &txt);
    // print → eval → equal
    let mut xs = base.clone();
    let r = crate::guarded(|| {
        let res = xs.eval(&txt);
        (res, canon::stack(&xs))
    });
    let case = || format!("print→read of {}   text {:?}", canon::cell(&v), txt);
    match r {
        Some((Ok(()), st)) if st.len() == 1 => {
            let same = st[0] == v && canon::cell(&st[0]) == canon::cell(&v);
            ctx.check(same, case, || canon::cell(&v), || canon::cell(&st[0]));
            // and through the language's own `equal?`
            let mut ys = base.clone();
            let r2 = crate::guarded(|| {
                ys.push_data(v.clone()).unwrap();
                let res = ys.eval(&format!("{} equal?", txt));
                (res, canon::stack(&ys))
            });
            let ok2 = matches!(&r2, Some((Ok(()), st)) if st.len() == 1 && st[0] == Cell::Flag(true));
            ctx.check(ok2, case, || "equal? → true".into(), || format!("{:?}", r2.map(|x| canon::stack_str(&x.1))));
        }
        other => ctx.oracle_fail(case(), "evaluates to exactly one value".into(), format!("{:?}", other.map(|x| (x.0.err().map(|e| canon::err(&e)), canon::stack_str(&x.1))))),
    }
}

/// non-default flags: the printer is modelled in every base; reading back is only claimed for the default
/// failures of the known non-invertible class are returned (not reported) so that `run` can report them
/// after everything else: the evidence keeps only the first 50 failures and an unexpected one must not be
/// crowded out by the recorded finding
fn print_flags_case(ctx: &mut Ctx, base: &Xstate, deferred: &mut Vec<(String, String, String)>) {
    let (raw, v) = {
        let r = &mut ctx.rng;
        let bases = [2usize, 8, 10, 16, 3, 0, 36];
        let raw = *r.pick(&bases) | if r.bool() { 0x100 } else { 0 } | if r.bool() { 0x800 } else { 0 } | if r.chance(30) { 0x200 } else { 0 };
        let inner = match r.below(6) {
            0..=2 => Cell::Int(gen_int(r)),
            3 => gen_value(r, 1),
            4 => Cell::from(*r.pick(&["", "abc", "a\"b\\c", "tab\there", "nl\n", "cr\r", "it's", "x y", "\0"])),
            _ => r.pick(&[Cell::Nil, Cell::Flag(true), Cell::Flag(false)]).clone(),
        };
        (raw, inner.insert_tag(Cell::from("#fmt"), Cell::Int(raw as i128)))
    };
    let printed = crate::guarded(|| base.format_cell(&v));
    ctx.tag(&format!("print:flags:base{}", raw & 0xff));
    let imp = match &printed {
        Some(Ok(s)) => format!("ok {}", hext(&s)),
        Some(Err(ref e)) => format!("err {}", canon::err(e)),
        None => "panic".into(),
    };
    ctx.check(imp != "panic", || format!("C16 print {} {}", raw, canon::cell(&v)), || "no panic".into(), || imp.clone());
    ctx.case(format!("C16 print {} {}", raw, canon::cell(&v)), imp);
    // print → read under these flags (show_tags excluded: that prints a tagged value, not an
    // integer / bit-string / vector / map). Decided from the input alone: the printer is known not to
    // be invertible for base 2/8/16 when the prefix is off, for every ^oct print (`0o…` is no literal)
    // and for negative integers (two's-complement pattern) — those failures carry `[nondefault-fmt]`.
    let roundtrippable = matches!(v.value(), Cell::Int(_) | Cell::Bitstr(_) | Cell::Vector(_) | Cell::Map(_)) && raw & 0x200 == 0;
    if let (true, Some(Ok(txt))) = (roundtrippable, &printed) {
        let b = raw & 0xff;
        let known = (b == 2 || b == 8 || b == 16) && (raw & 0x100 == 0 || b == 8 || has_neg_int(&v));
        let pfx = if known { "[nondefault-fmt] " } else { "" };
        ctx.tag(if known { "print:flags:rt-known-noninvertible" } else { "print:flags:rt-claimed" });
        let mut xs = base.clone();
        let r = crate::guarded(|| {
            let res = xs.eval(txt);
            (res, canon::stack(&xs))
        });
        let case = || format!("{}print→read raw flags {} of {}   text {:?}", pfx, raw, canon::cell(&v), txt);
        match r {
            Some((Ok(()), st)) if st.len() == 1 => {
                let same = st[0] == v && canon::cell(&st[0]) == canon::cell(v.value());
                if !same {
                    ctx.tag(if known { "print:flags:rt-fail-known" } else { "print:flags:rt-fail-UNEXPECTED" });
                }
                if !same && known {
                    deferred.push((case(), canon::cell(v.value()), canon::cell(&st[0])));
                } else {
                    ctx.check(same, case, || canon::cell(v.value()), || canon::cell(&st[0]));
                }
            }
            other => {
                ctx.tag(if known { "print:flags:rt-fail-known" } else { "print:flags:rt-fail-UNEXPECTED" });
                let obs = format!("{:?}", other.map(|x| (x.0.err().map(|e| canon::err(&e)), canon::stack_str(&x.1))));
                if known {
                    deferred.push((case(), "evaluates to exactly one equal value".into(), obs));
                } else {
                    ctx.oracle_fail(case(), "evaluates to exactly one equal value".into(), obs)
                }
            }
        }
    }
}

fn has_neg_int(c: &Cell) -> bool {
    match c.value() {
        Cell::Int(i) => *i < 0,
        Cell::Vector(v) => v.iter().any(has_neg_int),
        Cell::Map(m) => m.iter().any(|(k, v)| has_neg_int(k) || has_neg_int(v)),
        _ => false,
    }
}

// ---------------------------------------------------------------- locations

fn loc_text(r: &mut Rng) -> String {
    let mut s = String::new();
    let breaks = ["\n", "\r\n", "\r", "\n\n", "\n\r", "\r\r\n"];
    for _ in 0..r.below(6) {
        for _ in 0..r.below(5) {
            match r.below(6) {
                0 => s.push('\t'),
                1 => s.push_str(pk(r, MB)),
                2 => s.push(' '),
                3 => s.push_str(pk(r, ODD)),
                _ => s.push((0x21 + r.below(0x5e)) as u8 as char),
            }
        }
        if r.chance(85) {
            s.push_str(pk(r, &breaks));
        }
    }
    s
}

fn loc_case(ctx: &mut Ctx, text: &str, off: usize, len: usize) {
    let src = Xstr::from(text);
    let r = crate::guarded(|| {
        let tok = src.substr(off..off + len);
        let sources = vec![(Xstr::from("<a>"), Xstr::from(text)), (Xstr::from("<b>"), src.clone())];
        token_location(&sources, &tok)
    });
    let imp = match &r {
        None => "panic".to_string(),
        Some(None) => "none".to_string(),
        Some(Some(l)) => {
            let wr = l.whole_line.range();
            format!("ok {} {} {} {} {}", l.line, l.col, wr.start, wr.end, hext(l.whole_line.as_str()))
        }
    };
    ctx.case(format!("C16 loc {} {}", hext(text), off), imp.clone());
    ctx.tag(if text.is_empty() { "loc:empty-text" } else if off == text.len() { "loc:at-end" } else { "loc:inside" });
    // independent recount: lines are separated by \n, \r\n or \r; `line` counts \n only (the statement)
    let case = || format!("C16 loc {} {}", hext(text), off);
    match &r {
        Some(Some(l)) => {
            let before = &text[..off];
            let line = before.matches('\n').count();
            let seg_start = before.rfind(|c| c == '\n' || c == '\r').map(|i| i + 1).unwrap_or(0);
            let col = text[seg_start..off].chars().count();
            let seg_end = text[off..].find(|c| c == '\n' || c == '\r').map(|i| off + i).unwrap_or(text.len());
            let whole = &text[seg_start..seg_end];
            let ok = l.line == line && l.col == col && l.whole_line.as_str() == whole && l.filename.as_str() == "<b>";
            // the quoted token occurs at (line, col): skip `col` chars of the quoted line
            let at: String = l.whole_line.chars().skip(l.col).collect();
            let tok = &text[off..off + len];
            let tok_line_part = tok.split(|c| c == '\n' || c == '\r').next().unwrap();
            let ok2 = at.starts_with(tok_line_part);
            ctx.check(ok && ok2, case, || format!("line {} col {} whole_line {:?} name <b>", line, col, whole), || format!("line {} col {} whole_line {:?} name {}", l.line, l.col, l.whole_line.as_str(), l.filename));
        }
        _ => ctx.oracle_fail(case(), "a location".into(), imp),
    }
}

/// token_location on an empty source text (reachable: an error raised while the only source is "")
fn loc_empty_text(ctx: &mut Ctx) {
    let src = Xstr::from("");
    let r = crate::guarded(|| {
        let tok = src.substr(0..0);
        token_location(&[(Xstr::from("<e>"), src.clone())], &tok).map(|l| (l.line, l.col, l.whole_line.to_string()))
    });
    let imp = match &r {
        None => "panic".to_string(),
        Some(None) => "none".to_string(),
        Some(Some((l, c, w))) => format!("ok {} {} 0 0 {}", l, c, hext(w)),
    };
    ctx.tag("loc:empty-text");
    ctx.case("C16 loc x 0".to_string(), imp.clone());
    ctx.check(r == Some(Some((0, 0, String::new()))), || "C16 loc x 0   (token_location of the empty token in an empty source)".into(), || "line 0 col 0 whole_line \"\"".into(), || imp.clone());
}

// ---------------------------------------------------------------- exhaustive small scope

fn exhaustive(ctx: &mut Ctx, alphabet: &[&str], maxlen: usize) {
    let k = alphabet.len();
    let mut idx: Vec<usize> = Vec::new();
    loop {
        let text: String = idx.iter().map(|i| alphabet[*i]).collect();
        let seen = drive(&text, false);
        ctx.case(format!("C16 lex {}", hext(&text)), render(&text, &seen));
        oracle_text(ctx, &text, &seen);
        ctx.tag("exhaustive");
        // next index vector (odometer), growing in length
        let mut i = idx.len();
        loop {
            if i == 0 {
                idx = vec![0; idx.len() + 1];
                break;
            }
            i -= 1;
            if idx[i] + 1 < k {
                idx[i] += 1;
                for j in i + 1..idx.len() {
                    idx[j] = 0;
                }
                break;
            }
        }
        if idx.len() > maxlen {
            break;
        }
    }
}

pub fn run(ctx: &mut Ctx) {
    let base = Xstate::boot().unwrap();
    let dict: Vec<String> = base.word_list().iter().map(|s| s.to_string()).collect();
    let n = ctx.n;

    // fixed seeds: the snippets of lex.rs's own tests and the corner cases of the model
    let fixed = [
        "", " ", "\n\t\\ 567\n\\", "a//b", " abcde \n123", "({aa : +[bb]cc)", " \"))\n[[\" ", " \" xx\n ", "\\(\\)", "\\(1 \\)", "\\(( \n", "(\\\n\\)", "\\( 1\\)", "\\( \\)) \n",
        "\\( \n \\\\)", " + -f -1 -x1 -0x1 +0", " --1 -- + - . .0  -_", "0x00_ff 123_0_00_ 0b_1_1 0_ 0_.1", "0f 0_ff", "12-", "-0x", "-0b", "0x0.1", "1.2 0.1_1",
        "\"\\\\ \\\" \\r \\t \\n\"", " \" \\x \" ", "\"aaa\\", "\"aaa\\\"", " 1\"a\" ", " \"abc\"2 ", "|FF|  |x..x| | 77 .. f |", " | f", " | ff g| ", "\u{b}", "a\u{b}b", "“a” “b\" \"c”",
        "\\( \\)", "\\( \\)\n", "\\( x \\)\u{b}\\) ", "\\", "\\\n", "\\x", "|", "||", "|| ||x", "\"\"", "\"\"\"", "é", "1é", "0x-1", "-0x-1", "0x+f",
        "170141183460469231731687303715884105727", "170141183460469231731687303715884105728", "-170141183460469231731687303715884105728", "-170141183460469231731687303715884105729",
    ];
    for t in fixed {
        lex_case(ctx, t);
        nonws_case(ctx, t);
        ctx.tag("src:fixed");
    }
    // exhaustive small scope
    let alpha: &[&str] = &["\\", "(", ")", " ", "\n", "\"", "|", "0", "x", "-", ".", "_", "1", "é", "b", "\r"];
    if ctx.thorough {
        exhaustive(ctx, alpha, 4);
        exhaustive(ctx, &["\\", "(", ")", " ", "\"", "|", "0", "x", "-", ".", "1", "\n"], 5);
    } else {
        exhaustive(ctx, alpha, 3);
    }
    // generated texts
    for _ in 0..n {
        let which = ctx.rng.below(100);
        let text = if which < 55 {
            ctx.tag("src:soup");
            soup(&mut ctx.rng, &dict)
        } else if which < 85 {
            ctx.tag("src:arbitrary");
            arbitrary(&mut ctx.rng)
        } else {
            ctx.tag("src:malformed");
            malformed(&mut ctx.rng)
        };
        lex_case(ctx, &text);
        if ctx.rng.chance(25) {
            nonws_case(ctx, &text);
        }
    }
    // single literals with a known denotation
    for _ in 0..n {
        literal_cases(ctx);
    }
    // every boundary integer, printed in decimal, reads back
    for v in boundary_ints() {
        for sp in [format!("{}", v), format!("+{}", v.unsigned_abs()), format!("{:#x}", v.unsigned_abs()), format!("{:#b}", v.unsigned_abs()), format!("0{:x}", v.unsigned_abs())] {
            let seen = lex_case(ctx, &sp);
            ctx.tag("lit:boundary");
            let want: Option<i128> = if sp.starts_with('-') { Some(v) } else if v.unsigned_abs() < 1u128 << 127 { Some(v.unsigned_abs() as i128) } else { None };
            let got = seen.first().cloned();
            let ok = match want {
                Some(w) => matches!(&got, Some(Seen::Tok { tok: Tok::Literal(Cell::Int(i)), .. }) if *i == w),
                None => matches!(&got, Some(Seen::Err { .. })),
            };
            ctx.check(ok, || format!("C16 lex {}  ({})", hext(&sp), sp), || format!("{:?}", want), || format!("{:?}", got));
        }
    }
    // print → read
    for _ in 0..n / 4 {
        print_case(ctx, &base);
    }
    let mut deferred: Vec<(String, String, String)> = Vec::new();
    for _ in 0..n / 8 {
        print_flags_case(ctx, &base, &mut deferred);
    }
    // locations
    for t in ["a", "a\n", "\n", "\r\n", "a\r\nb", "a\rb", "é\tb\n日x", "ab", "\r", "x\n\ry"] {
        let s = t.to_string();
        for off in 0..=s.len() {
            if s.is_char_boundary(off) {
                loc_case(ctx, &s, off, 0);
            }
        }
    }
    // the empty source: correspondence only (model and implementation both panic in
    // `parent.substr(0..1)`); the oracle statement is checked in `loc_empty_text`
    loc_empty_text(ctx);
    for _ in 0..n / 2 {
        let text = loc_text(&mut ctx.rng);
        if text.is_empty() {
            continue;
        }
        let bounds: Vec<usize> = (0..=text.len()).filter(|i| text.is_char_boundary(*i)).collect();
        let off = *ctx.rng.pick(&bounds);
        let ends: Vec<usize> = bounds.iter().cloned().filter(|e| *e >= off).collect();
        let end = if ctx.rng.chance(30) { off } else { ends[ctx.rng.below(ends.len().min(4))] };
        loc_case(ctx, &text, off, end - off);
    }
    // reals of 15, 16 and 17 significant digits with the dot anywhere (what other tools print): the correctly rounded
    // double, as Rust's own decimal-to-double conversion gives it — always the same spellings, from a generator of their own
    {
        let mut lr = Rng::new(0x16_16_16);
        let mut spell: Vec<String> = vec!["99999.99999999999".into(), "9.223372036854775".into(), "9862.796582926161".into(), "9007199254740993.0".into(), "0.9007199254740993".into(), "900719925474099.3".into(), "-9007199254.740993".into()];
        for i in 0..240 {
            let ndig = 15 + i % 3;
            let mut d: String = (0..ndig).map(|k| if k == 0 { (b'1' + (lr.below(9) as u8)) as char } else { (b'0' + (lr.below(10) as u8)) as char }).collect();
            if i % 4 == 0 { d.replace_range(0..1, "9"); }
            let dot = 1 + lr.below(ndig - 1);
            d.insert(dot, '.');
            if i % 7 == 0 { d.insert(0, '-'); }
            spell.push(d);
        }
        for s in spell {
            let (text, seen) = single_literal(ctx, &s);
            let got = first_nonws(&seen).cloned();
            let x: f64 = s.parse().unwrap();
            let ok = matches!(&got, Some(Seen::Tok { tok: Tok::Literal(Cell::Real(r)), .. }) if r.to_bits() == x.to_bits());
            ctx.check(ok, || format!("C16 lex {}  ({})", hext(&text), s), || format!("real literal {:?} = bits {:016x}", x, x.to_bits()), || format!("{:?}", got));
            ctx.tag("lit:real-15-to-17-digits");
        }
    }
    // a literal denotes the value that is written, whatever was compiled before it: every ordered pair of spellings
    // whose values are "equal" without being the same (the two zeros, a plain value and a constant with attributes that
    // a meta block left, the same bits read from different places) in one source, and in two sources on one interpreter
    {
        const POOL: &[&str] = &["0.0", "-0.0", "1.5", "-1.5", "1.50", "18446744073709551616", "-18446744073709551616", "0x10000000000000000", "|ff|", "|ff 00|", "|FF|", "true", "false",
            "#( 18446744073709551616 ^hex #)", "#( |ff| 1 \"k\" insert-tag #)", "#( 0.0 1 \"k\" insert-tag #)", "#( -0.0 #)", "#( true 2 \"t\" insert-tag #)", "#( |ff 00| open-bitstr 8 bits close-bitstr #)", "#( 1.5 ^{ 1 \"u\" ^} #)"];
        let alone: Vec<Option<String>> = POOL.iter().map(|sp| {
            let mut xs = base.clone();
            match crate::guarded(|| xs.eval(sp)) { Some(Ok(())) if xs.data_depth() == 1 => xs.get_data(0).map(canon::cell), _ => None }
        }).collect();
        for (i, a) in POOL.iter().enumerate() {
            for (j, b) in POOL.iter().enumerate() {
                let (wa, wb) = match (&alone[i], &alone[j]) { (Some(x), Some(y)) => (x.clone(), y.clone()), _ => { ctx.tag("lit:after-another:skipped"); continue; } };
                for split in [false, true] {
                    let mut xs = base.clone();
                    let r = if split { crate::guarded(|| { xs.eval(a)?; xs.eval(b) }) } else { crate::guarded(|| xs.eval(&format!("{} {}", a, b))) };
                    let got: Vec<String> = (0..xs.data_depth()).rev().filter_map(|k| xs.get_data(k).map(canon::cell)).collect();
                    ctx.check(matches!(r, Some(Ok(()))) && got == vec![wa.clone(), wb.clone()], || format!("C16 `{}` and then `{}` ({})", a, b, if split { "two sources on one interpreter" } else { "one source" }),
                        || format!("what each denotes alone: {} {}", wa, wb), || format!("{:?} {}", r.map(|x| x.is_ok()), got.join(" ")));
                    ctx.tag("lit:after-another");
                }
            }
        }
    }
    // last: the failures of the recorded non-default-format finding
    for (case, exp, obs) in deferred {
        ctx.oracle_fail(case, exp, obs);
    }
}
