//! C17 — every error points at the token that caused it.
//! Several sources are evaluated on one interpreter (some with identical text); each has a prefix of
//! comment / blank lines mixing LF, CRLF, CR, tabs and multi-byte characters, and most fail — at build
//! time (unknown word, unbalanced closer) or at run time (an injected failing word at top level, in a
//! loop, in a called definition).
//! Correspondence: error kind, blamed token index, buffer name, line, column and quoted line must be
//! what the model (compiler debug map + VM + token_location) computes.
//! Oracle (implementation only): the quoted token really sits at (line, col) of the named buffer's
//! text counted independently; the quoted line is that line; an unknown word is blamed on itself; an
//! injected run-time failure is blamed on the injected word.
use crate::canon;
use crate::progen::{gen_program, GenCfg};
use crate::props::c01::{dict_for, lex_all, tok_index, LIMIT};
use crate::Ctx;
use xeh::prelude::*;

fn prefix(r: &mut crate::rng::Rng) -> String {
    let mut s = String::new();
    for _ in 0..r.below(4) {
        match r.below(7) {
            0 => s.push_str("\\ comment\n"),
            1 => s.push_str("\\ héllo wörld 日本\r\n"),
            2 => s.push_str("\t\t\n"),
            3 => s.push_str("\\( multi\n line \\)\n"),
            4 => s.push_str("\"päd\" drop\r"),
            5 => s.push_str("\r\n\r\n"),
            _ => s.push_str("  \t"),
        }
    }
    s
}

const FAILS: &[(&str, &str)] = &[("1 0 /", "/"), ("\"boom\" error", "error"), ("nil 1 +", "+"), ("false assert", "assert"), ("[ ] 3 nth", "nth")];

fn inject(r: &mut crate::rng::Rng, prog: &str) -> (String, Option<&'static str>) {
    let toks: Vec<&str> = prog.split(' ').filter(|t| !t.is_empty()).collect();
    match r.below(9) {
        0 => (prog.to_string(), None),
        7 => { // a structure still open when the text ends: found out at the end of the input, which is what gets blamed
            let open = *r.pick(&["true if 1 2 +", ": unfinished 1", "[ 3", "{ 1", "begin 1", "3 0 do I", "1 case 1 of 2", "#( 1 2", "true if 1 else 2", ": uf true if 1"]);
            let trail = *r.pick(&["", " ", "\n", "\r\n\t", " \\ trailing comment", "\n\n"]);
            (format!("{} {}{}", prog, open, trail), Some("<end-of-input>"))
        }
        1 => { // unknown word somewhere
            // (not in the place of a NAME: behind `:` `var` `local` `!` … the inserted text would be what gets defined or
            // stored to, not a use of an unknown word — a false alarm of the thorough run, seed 1)
            let mut i = r.below(toks.len() + 1);
            while i > 0 && matches!(toks[i - 1], ":" | "var" | "local" | "const" | "late" | "!" | "defined" | "see" | "enum" | "include" | "require") { i -= 1; }
            let mut t: Vec<String> = toks.iter().map(|x| x.to_string()).collect();
            t.insert(i, "nosuchword".into());
            (t.join(" "), Some("nosuchword"))
        }
        2 => { // run-time failure appended at top level
            let f = r.pick(FAILS);
            (format!("{} {}", prog, f.0), Some(f.1))
        }
        3 => { // inside a called definition, called from a loop
            let f = r.pick(FAILS);
            let sep = *r.pick(&[" ", "\n", "\r\n", "\t"]);
            (format!("{} : boom{}{} ; 2 0 do boom loop", prog, sep, f.0), Some(f.1))
        }
        4 => { // inside nested control flow
            let f = r.pick(FAILS);
            (format!("{} true if 1 0 do {} loop then", prog, f.0), Some(f.1))
        }
        6 => { // a run-time failure inside a meta block: reported while the source is still being built
            let f = r.pick(FAILS);
            match r.below(3) {
                0 => (format!("{} #( {} #)", prog, f.0), Some(f.1)),
                1 => (format!("{} : mboom {} ; #( mboom #)", prog, f.0), Some(f.1)),
                _ => (format!("{} #( 2 0 do {} loop #)", prog, f.0), Some(f.1)),
            }
        }
        _ => { // unbalanced closer
            let c = *r.pick(&["then", "loop", "repeat", ";", "endcase", "]"]);
            (format!("{} {}", prog, c), None)
        }
    }
}

fn independent_loc(text: &str, start: usize) -> (usize, usize, String) {
    let before = &text[..start];
    let line = before.matches('\n').count();
    let seg_start = before.rfind(|c| c == '\n' || c == '\r').map(|i| i + 1).unwrap_or(0);
    let col = text[seg_start..start].chars().count();
    let seg_end = text[start..].find(|c| c == '\n' || c == '\r').map(|i| start + i).unwrap_or(text.len());
    (line, col, text[seg_start..seg_end].to_string())
}

pub fn run(ctx: &mut Ctx) {
    let cfg = GenCfg { endless: false, malformed_percent: 0, ..GenCfg::default() };
    let mut done = 0;
    while done < ctx.n {
        let mut xs = Xstate::boot().unwrap();
        xs.intercept_stdout(true);
        xs.set_insn_limit(Some(LIMIT)).unwrap();
        let mut texts: Vec<String> = Vec::new();
        // the text objects as submitted: a host may hand the very same `Xstr` to `evalxstr` again (repair 1b9fe09: the
        // second submission used to be reported under the first one's name)
        let mut xtexts: Vec<Xstr> = Vec::new();
        let nsources = ctx.rng.below(4) + 1;
        // a source that stayed on the interpreter's list (it ran, or failed only at run time) is often submitted again
        // verbatim: the location of the second failure must name the second buffer, not the first with equal text
        let mut again: Option<String> = None;
        for _ in 0..nsources {
            done += 1;
            let (text, marker) = if let Some(t) = again.take() {
                ctx.tag("source:identical-text-of-kept-source");
                (t, None)
            } else if !texts.is_empty() && ctx.rng.chance(25) {
                ctx.tag("source:identical-text");
                (ctx.rng.pick(&texts).clone(), None)
            } else {
                let (prog, _) = gen_program(&mut ctx.rng, &cfg);
                let (p2, marker) = inject(&mut ctx.rng, &prog);
                // the injected word is the expected culprit only if the program itself runs cleanly
                let base_ok = { let mut probe = xs.clone(); matches!(crate::guarded(|| probe.eval(&prog)), Some(Ok(()))) };
                // multi-byte characters on the failing token's own line (the column counts characters, not bytes)
                let same_line = if ctx.rng.chance(35) { *ctx.rng.pick(&["\"héllo wörld\" drop ", "\"日本\" drop\t", "\"ü\" drop \"€uro\" drop "]) } else { "" };
                (format!("{}{}{}", prefix(&mut ctx.rng), same_line, p2), if base_ok { marker } else { None })
            };
            let t = match lex_all(&text) { Some(t) => t, None => { ctx.tag("skipped:lex-error"); continue; } };
            let nsrc = xs.verif_dump().sources;
            let d = xs.verif_dump();
            let setup = format!(
                "text={} toks={} nsrc={} dict={} code={} heap=v({}) ds=v({}) lim={}/-/- view=full",
                canon::hex(text.as_bytes()),
                t.text.iter().zip(t.ranges.iter()).map(|(a, r)| format!("{}@{}-{}", a, r.0, r.1)).collect::<Vec<_>>().join("|"),
                nsrc, dict_for(&xs, &t.words), crate::vmcanon::code_str(&xs),
                d.heap.iter().map(canon::cell).collect::<Vec<_>>().join(","),
                d.data_visible.iter().map(canon::cell).collect::<Vec<_>>().join(","), LIMIT);
            let is_build_err = { let mut probe = xs.clone(); matches!(crate::guarded(|| probe.compile(&text)), Some(Err(_))) };
            // mostly a generous instruction limit; sometimes one that the program runs into: being refused is a run-time
            // failure of the refused instruction's word like any other, and is located like any other
            // (setting the limit starts the count afresh)
            let limit = if ctx.rng.chance(12) { ctx.tag("limit:small"); 2 + ctx.rng.below(60) } else { LIMIT };
            xs.set_insn_limit(Some(limit)).unwrap();
            let setup = setup.replace(&format!("lim={}/-/-", LIMIT), &format!("lim={}/-/-", limit));
            // some sources are files given to `eval_file` / `compile_file` (what the binary does with its script arguments):
            // their failures name the file (files are outside the model: oracle only)
            let as_file: Option<String> = if ctx.rng.chance(12) {
                let dir = crate::lib_files(&ctx.scratch);
                let path = format!("{}/src{}-{}.xeh", dir, done, nsrc);
                std::fs::write(&path, &text).unwrap();
                ctx.tag("source:file");
                Some(path)
            } else { None };
            let expected_name = as_file.clone().unwrap_or_else(|| format!("<buffer#{}>", nsrc));
            let r = match &as_file {
                Some(path) => if ctx.rng.bool() { crate::guarded(|| xs.eval_file(Xstr::from(path.as_str()))) } else { crate::guarded(|| xs.compile_file(Xstr::from(path.as_str())).and_then(|_| xs.run())) },
                None => {
                    let shared = xtexts.iter().find(|x| x.as_str() == text).cloned();
                    let x: Xstr = match shared { Some(x) if ctx.rng.bool() => { ctx.tag("source:same-text-object-again"); x } _ => Xstr::from(text.as_str()) };
                    xtexts.push(x.clone());
                    crate::guarded(|| xs.evalxstr(x))
                }
            };
            texts.push(text.clone());
            if !is_build_err && ctx.rng.chance(30) { again = Some(text.clone()); }
            let answer = match &r {
                None => "panic".to_string(),
                Some(Ok(())) => "ok".to_string(),
                Some(Err(e)) => {
                    let kind = if is_build_err { "builderr" } else { "err" };
                    match xs.last_err_location() {
                        None => {
                            if !is_build_err {
                                // a failure while running always happens at some instruction, and that instruction has a token
                                ctx.oracle_fail(format!("C17 source #{} `{}` ({})", nsrc, text.escape_debug(), canon::err(e)), "a location (the word that failed)".into(), "no location".into());
                            }
                            format!("{} {} noloc", kind, canon::err(e))
                        }
                        Some(loc) => {
                            let same_buf = loc.token.parent().as_str() == text && loc.filename.as_str() == expected_name;
                            let start = loc.token.range().start;
                            // ---- oracle: self-consistency against an independent count over the named buffer's text
                            let case = format!("C17 source #{} `{}`", nsrc, text.escape_debug());
                            let buf_text = loc.token.parent().to_string();
                            let (l, c, whole) = independent_loc(&buf_text, start);
                            let ok = loc.line == l && loc.col == c && loc.whole_line.as_str() == whole;
                            ctx.check(ok, || case.clone(), || format!("line {} col {} whole {:?}", l, c, whole), || format!("line {} col {} whole {:?}", loc.line, loc.col, loc.whole_line.as_str()));
                            // the quoted line, from column col on, starts with the token (up to its first line break)
                            let tok_text: String = loc.token.as_str().split(|c| c == '\n' || c == '\r').next().unwrap_or("").to_string();
                            let from_col: String = loc.whole_line.as_str().chars().skip(loc.col).collect();
                            ctx.check(from_col.starts_with(&tok_text), || case.clone(), || format!("quoted line at col starts with {:?}", tok_text), || from_col.clone());
                            if let Xerr::UnknownWord(w) = e {
                                ctx.check(loc.token.as_str() == w.as_str(), || case.clone(), || format!("token = unknown word {}", w), || loc.token.to_string());
                            }
                            if marker == Some("<end-of-input>") && is_build_err && same_buf {
                                // nothing after the last token is to blame but the end of the text itself: an empty token there
                                let r = loc.token.range();
                                ctx.check(r.start == text.len() && r.end == text.len(), || case.clone(), || format!("the empty token at the end of the text ({})", text.len()), || format!("{:?} at {}..{}", loc.token.as_str(), r.start, r.end));
                                ctx.tag("oracle:end-of-input");
                            }
                            let marker = if marker == Some("<end-of-input>") { None } else { marker };
                            let in_meta = text.contains("#(");
                            if let (Some(m), true) = (marker, !is_build_err || in_meta) {
                                if !format!("{:?}", e).contains("limit reached") && same_buf {
                                    ctx.check(loc.token.as_str() == m, || case.clone(), || format!("token = failing word {}", m), || loc.token.to_string());
                                }
                            }
                            // the error belongs to the buffer that was just submitted unless it was raised inside a word defined earlier
                            if is_build_err {
                                ctx.check(same_buf, || case.clone(), || expected_name.clone(), || loc.filename.to_string());
                            } else if !in_meta && xs.verif_dump().ip >= d.code_len {
                                // a run-time failure at an instruction this very source compiled: the location names this buffer,
                                // however many earlier sources had the same text
                                ctx.check(same_buf, || format!("{} (failing instruction {} is in the code of this source, which starts at {})", case, xs.verif_dump().ip, d.code_len),
                                    || expected_name.clone(), || loc.filename.to_string());
                            }
                            if !same_buf { ctx.tag("loc:earlier-buffer"); "earlier-buffer".to_string() } else {
                                format!("{} {} tok={} file={} line={} col={} whole={}", kind, canon::err(e), tok_index(&t, start, text.len()),
                                    loc.filename, loc.line, loc.col, canon::hex(loc.whole_line.as_bytes()))
                            }
                        }
                    }
                }
            };
            ctx.tag(&format!("result:{}", answer.split(' ').next().unwrap_or("")));
            if answer != "earlier-buffer" && as_file.is_none() {
                ctx.case(format!("C17 fail {}", setup), answer);
            }
            if r.as_ref().map(|x| x.is_err()).unwrap_or(true) && ctx.rng.chance(50) { break; }
        }
    }
    // text generated at build time (`#( … ~)`: the strings a meta block leaves are joined and read as source text) is a
    // source like any other: what fails while it is built, and later in the words it defined, is located in it
    for _ in 0..10 {
        let k = ctx.rng.range(2, 9);
        let mut xs = Xstate::boot().unwrap();
        xs.intercept_stdout(true);
        // (a) the generated definition uses an unknown word
        let r = crate::guarded(|| xs.eval(&format!("1 #( \": gw{} nosuch{} ;\" ~) 2", k, k)));
        let loc = xs.last_err_location().map(|l| (l.token.to_string(), l.token.parent().to_string(), l.line, l.col));
        let want = (format!("nosuch{}", k), format!(": gw{} nosuch{} ;", k, k), 0usize, 5 + k.to_string().len());
        ctx.check(matches!(r, Some(Err(Xerr::UnknownWord(_)))) && loc.as_ref() == Some(&want), || format!("C17 a definition generated with ~) uses the unknown word nosuch{}", k),
            || format!("{:?}", want), || format!("{:?} at {:?}", r.map(|x| x.is_ok()), loc));
        // (b) a generated word fails later, when a later source calls it
        let mut ys = Xstate::boot().unwrap();
        ys.intercept_stdout(true);
        let _ = crate::guarded(|| ys.eval(&format!("#( [ \": third{} \" {} \" nth ;\" ] concat ~)", k, k)));
        let r = crate::guarded(|| ys.eval(&format!("[ 1 ] third{}", k)));
        let loc = ys.last_err_location().map(|l| (l.token.to_string(), l.token.parent().to_string()));
        let want = ("nth".to_string(), format!(": third{} {} nth ;", k, k));
        ctx.check(matches!(r, Some(Err(_))) && loc.as_ref() == Some(&want), || format!("C17 `[ 1 ] third{}` where third{} was generated with ~)", k, k),
            || format!("an error at {:?}", want), || format!("{:?} at {:?}", r.map(|x| x.is_ok()), loc));
        ctx.tag("kind:generated-text");
    }
    // a text that was included stays a source of its words when later meta blocks (or `enum`, which opens one) close:
    // a failure inside an included word is still located in the file
    for _ in 0..6 {
        let dir = crate::lib_files(&ctx.scratch);
        let f = format!("{}/ratio.xeh", dir);
        std::fs::write(&f, "\\ a library\n: ratio   / ;\n").unwrap();
        let closer = *ctx.rng.pick(&["#( 1 2 + #) drop", "enum E : A : B endenum", "#( #( 1 #) 2 + #) drop", "#( 3 const three #)"]);
        let mut xs = Xstate::boot().unwrap();
        xs.intercept_stdout(true);
        let src = format!("include \"{}\" {} 4 0 ratio", f, closer);
        let r = crate::guarded(|| xs.eval(&src));
        let loc = xs.last_err_location().map(|l| (l.filename.to_string(), l.line, l.token.to_string()));
        let want = (f.clone(), 1usize, "/".to_string());
        ctx.check(matches!(r, Some(Err(Xerr::DivisionByZero))) && loc.as_ref() == Some(&want), || format!("C17 `{}`", src), || format!("division by zero at {:?}", want), || format!("{:?} at {:?}", r.map(|x| x.is_ok()), loc));
        ctx.tag("kind:included-then-meta-block");
    }
    // a file that cannot be read: no token of any source is to blame, least of all the one an earlier failure pointed at
    // (repair 7c4ad93)
    for _ in 0..8 {
        let mut xs = Xstate::boot().unwrap();
        xs.intercept_stdout(true);
        let first = *ctx.rng.pick(&["1 nosuchword", "1 0 /", ": f nil 1 + ; f", "then"]);
        let _ = crate::guarded(|| xs.eval(first));
        let before = xs.last_err_location().map(|l| l.token.to_string());
        let path = format!("{}/no-such-dir/no-such-file-{}.xeh", ctx.scratch, ctx.rng.below(1000));
        let r = if ctx.rng.bool() { crate::guarded(|| xs.eval_file(Xstr::from(path.as_str()))) } else { crate::guarded(|| xs.compile_file(Xstr::from(path.as_str()))) };
        let after = xs.last_err_location().map(|l| l.token.to_string());
        let msg = xs.pretty_error().unwrap_or_default();
        ctx.check(matches!(r, Some(Err(_))) && before.is_some() && after.is_none() && !msg.contains(first),
            || format!("C17 `{}` fails, then a file that does not exist is submitted", first), || "an error without a location; the earlier failure's token is not quoted".into(),
            || format!("{:?}; location before {:?}, after {:?}; message {:?}", r.map(|x| x.is_ok()), before, after, msg));
        ctx.tag("kind:unreadable-file");
    }
    // one compiled source that fails twice: `run` stops at the first failing word; the cause is removed (values are
    // pushed) and `run` is called again: it resumes, and the second failure has its own location, not the first one's
    for _ in 0..(ctx.n / 25).max(20) {
        let mut xs = Xstate::boot().unwrap();
        xs.intercept_stdout(true);
        let (w1, need): (&str, usize) = *ctx.rng.pick(&[("drop", 1), ("dup", 1), ("swap", 2), ("+", 2), ("rot", 3)]);
        let (second, tok2): (&str, &str) = *ctx.rng.pick(&[("10 0 /", "/"), ("\"x\" 1 +", "+"), ("[ ] 0 get", "get"), ("1 0 rem", "rem")]);
        let filler = *ctx.rng.pick(&["", "1 drop ", "\"ü\" drop "]);
        let text = format!("{}\n{}{}\n", w1, filler, second);
        ctx.tag("kind:two-failures-one-source");
        let case = format!("C17 compile `{}`, run, push {} values, run", text.escape_debug(), need);
        if !matches!(crate::guarded(|| xs.compile(&text)), Some(Ok(()))) { ctx.oracle_fail(case.clone(), "compiles".into(), "rejected".into()); continue; }
        let r1 = crate::guarded(|| xs.run());
        let loc1 = xs.last_err_location().map(|l| (l.line, l.token.to_string()));
        ctx.check(matches!(r1, Some(Err(_))) && loc1 == Some((0, w1.to_string())), || case.clone(), || format!("first run fails at `{}` on line 0", w1), || format!("{:?} at {:?}", r1, loc1));
        for i in 0..need { xs.push_data(Cell::Int(i as Xint + 1)).unwrap(); }
        let r2 = crate::guarded(|| xs.run());
        let loc2 = xs.last_err_location().map(|l| (l.line, l.token.to_string()));
        ctx.check(matches!(r2, Some(Err(_))) && loc2 == Some((1, tok2.to_string())), || case.clone(), || format!("second run fails at `{}` on line 1", tok2), || format!("{:?} at {:?}", r2, loc2));
    }
    // tokens that span several lines (a string or a bit-string literal with line breaks inside, a comment that never
    // ends): they are where they START — line, column and quoted line are those of their first character
    for round in 0..(ctx.n / 40).max(36) {
        let nl = *ctx.rng.pick(&["\n", "\r\n", "\r"]);
        // (rounds 3..5 fail at run time: the stack limit 2 refuses the literal, the two values before it fill the stack)
        let at_run_time = round % 6 >= 3;
        let pre = format!("{}1 2{}{}", prefix(&mut ctx.rng).replace("\"päd\" drop", "\\( päd \\)"), if at_run_time { "" } else { " +" }, nl);
        let indent = if at_run_time { *ctx.rng.pick(&["  ", "\t", "", " \\( é \\) "]) } else { *ctx.rng.pick(&["  ", "\t", "", "\"é\" drop "]) };
        let (tok, tail, limit): (String, String, Option<usize>) = match round % 6 {
            0 => (format!("\"abc{}def{}ghi 3 4{}", nl, nl, nl), String::new(), None),
            1 => (format!("\"abc{}def\\q\"", nl), format!(" 3 4{}5 6{}", nl, nl), None),
            2 => (format!("\\( a comment{}that never ends{}", nl, nl), String::new(), None),
            3 => (format!("| ff{} 00 |", nl), format!(" 4{}", nl), Some(2)),
            4 => (format!("\"two{}lines\"", nl), format!(" 4{}", nl), Some(2)),
            _ => (format!("| 0f{}{} f0{} |", nl, nl, nl), " drop".to_string(), Some(2)),
        };
        let text = format!("{}{}{}{}", pre, indent, tok, tail);
        let start = pre.len() + indent.len();
        let mut xs = Xstate::boot().unwrap();
        xs.intercept_stdout(true);
        let _ = xs.eval("0 drop");
        if limit.is_some() { xs.set_stack_limit(limit).unwrap(); }
        let r = crate::guarded(|| xs.eval(&text));
        let case = format!("C17 `{}` (a token of several lines starting at byte {})", text.escape_debug(), start);
        let (l, c, whole) = independent_loc(&text, start);
        let got = xs.last_err_location().map(|loc| (loc.token.range().start, loc.line, loc.col, loc.whole_line.to_string()));
        ctx.check(matches!(r, Some(Err(_))) && got == Some((start, l, c, whole.clone())), || case.clone(), || format!("an error at byte {} line {} col {} quoting {:?}", start, l, c, whole), || format!("{:?} at {:?}", r.map(|x| x.is_ok()), got));
        ctx.tag("kind:token-of-several-lines");
    }
    // a program that failed is often given up by its host (`abort_run`, what the REPL does after a failed line) BEFORE
    // the host asks where it failed: the failure is still the last failure, with its location
    for _ in 0..(ctx.n / 40).max(24) {
        let mut xs = Xstate::boot().unwrap();
        xs.intercept_stdout(true);
        let f = *ctx.rng.pick(FAILS);
        let text = match ctx.rng.below(4) {
            0 => format!(": f {} ;\n   f", f.0),
            1 => format!("{}3 0 do {} loop", prefix(&mut ctx.rng), f.0),
            2 => format!("1 nosuchword"),
            _ => format!("{}\n{}", prefix(&mut ctx.rng), f.0),
        };
        let r = match crate::guarded(|| xs.compile(&text)) { Some(Ok(())) => crate::guarded(|| xs.run()), other => other };
        let view = |xs: &Xstate| (xs.last_err_location().map(|l| (l.filename.to_string(), l.line, l.col, l.token.to_string(), l.whole_line.to_string())), xs.pretty_error());
        let before = view(&xs);
        xs.abort_run();
        let after = view(&xs);
        ctx.check(matches!(r, Some(Err(_))) && before.0.is_some() && before == after, || format!("C17 compile + run of `{}`, then abort_run", text.escape_debug()), || format!("the failure and its location, as before abort_run: {:?}", before), || format!("{:?}", after));
        ctx.tag("kind:abort-run-keeps-the-location");
    }
    // the same file loaded again (the edit / reload cycle): words compiled against the first load still run the first
    // load's code, and a failure in it is located in that file
    for round in 0..(ctx.n / 100).max(8) {
        let dir = crate::lib_files(&ctx.scratch);
        let f = format!("{}/reload{}.xeh", dir, round);
        std::fs::write(&f, "\\ a small library\n: w   0 get ;\n").unwrap();
        let mut xs = Xstate::boot().unwrap();
        xs.intercept_stdout(true);
        let r0 = match round % 3 {
            0 => crate::guarded(|| xs.eval(&format!("include \"{}\"\n: caller w ;\ninclude \"{}\"\n", f, f))),
            1 => crate::guarded(|| { xs.eval_file(Xstr::from(f.as_str()))?; xs.eval(": caller w ;")?; xs.eval_file(Xstr::from(f.as_str())) }),
            _ => crate::guarded(|| { xs.eval_file(Xstr::from(f.as_str()))?; xs.eval(": caller w ;")?; std::fs::write(&f, "\\ a small library, edited\n\n: w 1 get ;\n: w2 then").unwrap(); let _ = xs.eval_file(Xstr::from(f.as_str())); OK }),
        };
        for probe in ["[ ] caller", "[ ] w"] {
            let r = crate::guarded(|| xs.eval(probe));
            let loc = xs.last_err_location().map(|l| (l.filename.to_string(), l.line, l.col, l.token.to_string(), l.whole_line.to_string()));
            let want = Some((f.clone(), 1usize, 8usize, "get".to_string(), ": w   0 get ;".to_string()));
            // (after the edit `w` itself is the rejected file's: it never came to be, the first one is still current)
            ctx.check(matches!(r0, Some(Ok(()))) && matches!(r, Some(Err(_))) && loc == want, || format!("C17 {} loaded, `: caller w ;`, the file loaded again ({}), then `{}`", f, ["include twice in one source", "eval_file twice", "edited into a file that is rejected"][round % 3], probe),
                || format!("an error at {:?}", want), || format!("{:?} at {:?}", r.map(|x| x.is_ok()), loc));
        }
        ctx.tag("kind:file-loaded-again");
    }
    // words the host defines (`defwordself`: a stub of a few instructions that no source text stands for): when such a
    // word fails, the word that failed is its use in the source that called it — not whatever token an earlier,
    // unrelated source happened to end with (repair)
    for round in 0..(ctx.n / 100).max(8) {
        let mut xs = Xstate::boot().unwrap();
        xs.intercept_stdout(true);
        let earlier = *ctx.rng.pick(&["1 2 +", "", "\"x\" drop", ": earlier 1 ; earlier drop"]);
        let _ = xs.eval(earlier);
        xs.defwordself("hostboom", |xs| { xs.pop_data()?; xs.pop_data()?.to_xstr()?; OK }, Cell::from(1)).unwrap();
        let pre = prefix(&mut ctx.rng);
        let (text, start) = match round % 3 {
            0 => (format!("{}   7 hostboom", pre), pre.len() + 5),
            1 => (format!("{}: hw 7 hostboom ; 2 0 do hw loop", pre), pre.len() + 7),
            _ => (format!("{}true if 1 0 do 7 hostboom loop then", pre), pre.len() + 17),
        };
        let nsrc = xs.verif_dump().sources;
        let r = crate::guarded(|| xs.eval(&text));
        let loc = xs.last_err_location().map(|l| (l.filename.to_string(), l.token.range().start, l.token.to_string()));
        let want = Some((format!("<buffer#{}>", nsrc), start, "hostboom".to_string()));
        ctx.check(matches!(r, Some(Err(_))) && loc == want, || format!("C17 `{}` evaluated first, a failing host word defined with defwordself, then `{}`", earlier, text.escape_debug()),
            || format!("an error at {:?}", want), || format!("{:?} at {:?}", r.map(|x| x.is_ok()), loc));
        if let Some(l) = xs.last_err_location() {
            let (ln, c, whole) = independent_loc(&text, l.token.range().start.min(text.len()));
            ctx.check(l.token.parent().as_str() != text || (l.line == ln && l.col == c && l.whole_line.as_str() == whole), || format!("C17 `{}` (host word)", text.escape_debug()), || format!("line {} col {} whole {:?}", ln, c, whole), || format!("line {} col {} whole {:?}", l.line, l.col, l.whole_line.as_str()));
        }
        ctx.tag("kind:host-defined-word-fails");
    }
}