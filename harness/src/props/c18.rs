//! C18 — text encodings of binary data (base32, base32hex = Crockford, base64, zero85 and their `>` decoders).
//! Correspondence: `C18 <word> <operands bottom-first>` → canonical outcome + stack; the model must
//! reproduce the dependency crates' exact output strings and nil/bit-string decisions.
//! Oracle (implementation only):
//!   * decode(encode(x)) = x for every byte string x, whatever form (string, vector, nested vector,
//!     bit-string at any alignment) carried the bytes, and equal bytes encode to equal text;
//!   * RFC 4648 / ZeroMQ known-answer vectors;
//!   * decoding arbitrary text leaves exactly one cell, nil or a bit-string — never an error, never a
//!     panic; text with a byte outside alphabet ∪ padding decodes to nil; a decoded bit-string is stable
//!     under encode → decode;
//!   * an encoder fails exactly when `>bitstr` fails (same error) or the bit length is not a multiple of 8
//!     (ToBytestrError).
use super::gen::*;
use crate::canon;
use crate::Ctx;
use xeh::prelude::*;

const ENC: &[&str] = &["base32", "base32hex", "base64", "zero85"];

fn dec_of(enc: &str) -> String {
    format!("{}>", enc)
}

const RFC32: &str = "ABCDEFGHIJKLMNOPQRSTUVWXYZ234567";
const CROCK: &str = "0123456789ABCDEFGHJKMNPQRSTVWXYZ";
const B64: &str = "ABCDEFGHIJKLMNOPQRSTUVWXYZabcdefghijklmnopqrstuvwxyz0123456789+/";
const Z85: &str = "0123456789abcdefghijklmnopqrstuvwxyzABCDEFGHIJKLMNOPQRSTUVWXYZ.-:+=^!/*?&<>()[]{}@%$#";

/// bytes a decoder may accept at all (alphabet ∪ padding, with the crate's documented leniency)
fn acceptable(enc: &str, b: u8) -> bool {
    match enc {
        "base32" => b == b'=' || RFC32.as_bytes().contains(&b.to_ascii_uppercase()),
        // Crockford: lower case, O→0, I/L→1; U is excluded; no padding
        "base32hex" => CROCK.as_bytes().contains(&b.to_ascii_uppercase()) || matches!(b.to_ascii_uppercase(), b'O' | b'I' | b'L'),
        "base64" => b == b'=' || B64.as_bytes().contains(&b),
        _ => Z85.as_bytes().contains(&b),
    }
}

fn alphabet(enc: &str) -> &'static str {
    match enc {
        "base32" => RFC32,
        "base32hex" => CROCK,
        "base64" => B64,
        _ => Z85,
    }
}

struct Run {
    out: String,
    top: Option<Cell>,
    depth: usize,
}

fn run_word(base: &Xstate, word: &str, args: &[Cell]) -> Run {
    let mut xs = base.clone();
    let r = crate::guarded(|| {
        for a in args {
            xs.push_data(a.clone()).unwrap();
        }
        let res = xs.eval(word);
        let st = canon::stack(&xs);
        (res, st)
    });
    match r {
        None => Run { out: "panic".into(), top: None, depth: 0 },
        Some((Ok(()), st)) => Run { out: canon::ok_stack(&st), top: st.last().cloned(), depth: st.len() },
        Some((Err(e), st)) => Run { out: format!("err {}", canon::err(&e)), top: None, depth: st.len() },
    }
}

fn line(word: &str, args: &[Cell]) -> String {
    if args.is_empty() {
        format!("C18 {}", word)
    } else {
        format!("C18 {} {}", word, canon::stack_str(args))
    }
}

/// run + record the correspondence case
fn emit(ctx: &mut Ctx, base: &Xstate, word: &str, args: &[Cell]) -> Run {
    let r = run_word(base, word, args);
    ctx.case(line(word, args), r.out.clone());
    r
}

fn bytes_cell(b: &[u8]) -> Cell {
    Cell::from(Xbitstr::from(b.to_vec()))
}

fn bits_of_bytes(b: &[u8]) -> Vec<bool> {
    let mut v = Vec::with_capacity(b.len() * 8);
    for x in b {
        for k in (0..8).rev() {
            v.push((x >> k) & 1 == 1);
        }
    }
    v
}

/// the same bytes sitting at bit offset `align` inside a longer buffer (takes the copying path of `bytestr`)
fn unaligned_cell(r: &mut crate::rng::Rng, b: &[u8], align: usize) -> Cell {
    let mut bits: Vec<bool> = (0..align).map(|_| r.bool()).collect();
    bits.extend(bits_of_bytes(b));
    // byte-aligned carriers (a payload behind a header, a prefix, an inner slice) come with and without bytes behind them
    let trail = if align % 8 == 0 && r.bool() { 0 } else if align % 8 == 0 { 8 * (r.below(3) + 1) } else { r.below(12) };
    for _ in 0..trail {
        bits.push(r.bool());
    }
    let whole = bitstr_from_bits(&bits);
    Cell::from(whole.substr(align, align + b.len() * 8).unwrap())
}

fn str_of_cell(c: &Cell) -> Option<String> {
    match c {
        Cell::Str(s) => Some(s.to_string()),
        _ => None,
    }
}

fn bytes_of_cell(c: &Cell) -> Option<Vec<u8>> {
    match c {
        Cell::Bitstr(b) => b.to_bytes(),
        _ => None,
    }
}

/// encode `input` (any carrier of the bytes `b`) and decode the result: the round-trip statement
fn roundtrip(ctx: &mut Ctx, base: &Xstate, enc: &str, input: Cell, b: &[u8], sentinel: bool) -> Option<String> {
    let mut args = vec![];
    if sentinel {
        args.push(Cell::Int(77));
    }
    args.push(input);
    let r = emit(ctx, base, enc, &args);
    let text = r.top.as_ref().and_then(str_of_cell);
    let want_depth = args.len();
    let case = line(enc, &args);
    if r.depth != want_depth || text.is_none() {
        ctx.oracle_fail(case, "a string replacing the operand".into(), r.out.clone());
        return None;
    }
    let text = text.unwrap();
    // output uses only the alphabet (+ '=' / '#')
    let clean = text.bytes().all(|c| acceptable(enc, c) || (enc == "zero85" && c == b'#'));
    ctx.check(clean, || case.clone(), || "text over the alphabet".into(), || text.clone());
    let dargs = vec![Cell::from(text.clone())];
    let d = emit(ctx, base, &dec_of(enc), &dargs);
    let back = d.top.as_ref().and_then(bytes_of_cell);
    ctx.check(
        d.depth == 1 && back.as_deref() == Some(b),
        || format!("{} ; {}", case, line(&dec_of(enc), &dargs)),
        || format!("ok b{}", bits_of_bytes(b).iter().map(|x| if *x { '1' } else { '0' }).collect::<String>()),
        || d.out.clone(),
    );
    // the text is a string whatever tags it carries (it may have come out of a map, or been labelled by the program):
    // a tagged copy decodes to the same bytes
    {
        let mut tags = Xmap::new();
        tags.insert_mut(Cell::from("src"), Cell::from("demo"));
        let tagged = Cell::from(text.clone()).with_tags(tags);
        let dt = run_word(base, &dec_of(enc), &[tagged]);
        let back_t = dt.top.as_ref().and_then(bytes_of_cell);
        ctx.check(dt.depth == 1 && back_t.as_deref() == Some(b), || format!("{} ; {} of the text carrying a tag", case, dec_of(enc)),
            || format!("ok b{}", bits_of_bytes(b).iter().map(|x| if *x { '1' } else { '0' }).collect::<String>()), || dt.out.clone());
    }
    Some(text)
}

/// inputs of several thousand bytes: whatever block size an encoder works with inside, the text of a whole number of
/// groups is a prefix of the text of any longer input that starts with them, the length is the length of the groups,
/// and decoding gives the bytes back (too long for the request lines of the model: oracle on the implementation only)
fn long_inputs(ctx: &mut Ctx, base: &Xstate) {
    let sizes: Vec<usize> = {
        let mut v = vec![4095, 4096, 4097, 4100, 8191, 8192, 8193, 12288, 16385];
        for _ in 0..(if ctx.thorough { 12 } else { 3 }) { v.push(2000 + ctx.rng.below(30000)); }
        v
    };
    for n in sizes {
        let b: Vec<u8> = (0..n).map(|_| ctx.rng.next_u64() as u8).collect();
        for enc in ENC {
            let group = match *enc { "base64" => 3, "zero85" => 4, _ => 5 };
            let chars = match *enc { "base64" => 4, "zero85" => 5, _ => 8 };
            let whole = run_word(base, enc, &[bytes_cell(&b)]);
            let text = match whole.top.as_ref().and_then(str_of_cell) { Some(t) => t, None => { ctx.oracle_fail(format!("C18 {} of {} random bytes", enc, n), "a string".into(), whole.out.clone()); continue; } };
            let case = format!("C18 {} of {} random bytes (seeded)", enc, n);
            // length
            // (base32hex is the unpadded Crockford form; zero85 marks its tail, its length is left to the round trip)
            let expect_len = match *enc { "zero85" => text.len(), "base32hex" => (n * 8 + 4) / 5, _ => (n + group - 1) / group * chars };
            ctx.check(text.len() == expect_len, || case.clone(), || format!("{} characters", expect_len), || format!("{} characters", text.len()));
            // prefix law at a few cuts that are whole groups
            for _ in 0..3 {
                let k = (1 + ctx.rng.below(n / group)) * group;
                let part = run_word(base, enc, &[bytes_cell(&b[..k])]);
                let pt = part.top.as_ref().and_then(str_of_cell).unwrap_or_default();
                ctx.check(!pt.is_empty() && text.starts_with(&pt), || format!("{}: the text of its first {} bytes", case, k), || "a prefix of the whole text".into(),
                    || { let i = pt.bytes().zip(text.bytes()).position(|(x, y)| x != y).unwrap_or(pt.len().min(text.len())); format!("differs at character {}", i) });
            }
            // round trip
            let d = run_word(base, &dec_of(enc), &[Cell::from(text.clone())]);
            let back = d.top.as_ref().and_then(bytes_of_cell);
            ctx.check(back.as_deref() == Some(&b[..]), || format!("{} ; {}", case, dec_of(enc)), || format!("the {} bytes", n),
                || match &back { Some(x) => format!("{} bytes, first difference at {:?}", x.len(), x.iter().zip(b.iter()).position(|(p, q)| p != q)), None => d.out.chars().take(80).collect() });
            ctx.tag("long-input");
        }
    }
}

fn patterns(len: usize, thorough: bool) -> Vec<(&'static str, Vec<u8>)> {
    let mut v: Vec<(&'static str, Vec<u8>)> = vec![
        ("zero", vec![0u8; len]),
        ("ff", vec![0xffu8; len]),
        ("count", (0..len).map(|i| i as u8).collect()),
        ("count-hi", (0..len).map(|i| (255 - i) as u8).collect()),
        ("alt", (0..len).map(|i| if i % 2 == 0 { 0xaa } else { 0x55 }).collect()),
    ];
    // single set bit / single clear bit, at the positions around every chunk boundary
    let nbits = len * 8;
    let step = if thorough { 1 } else { 5 };
    let mut p = 0;
    while p < nbits {
        let mut one = vec![0u8; len];
        one[p / 8] |= 0x80 >> (p % 8);
        v.push(("one-bit", one));
        let mut hole = vec![0xffu8; len];
        hole[p / 8] &= !(0x80 >> (p % 8));
        v.push(("one-hole", hole));
        p += step;
    }
    if nbits > 0 {
        let mut last = vec![0u8; len];
        last[len - 1] = 1;
        v.push(("one-bit", last));
    }
    v
}

/// a value that `>bitstr` turns into exactly the bytes `b`
fn carrier(ctx: &mut Ctx, b: &[u8], depth: usize) -> (Cell, &'static str) {
    match ctx.rng.below(7) {
        0 => (bytes_cell(b), "bitstr:aligned"),
        1 | 2 => {
            let a = 1 + ctx.rng.below(7);
            (unaligned_cell(&mut ctx.rng, b, a), "bitstr:unaligned")
        }
        3 => {
            let mut v = Xvec::new();
            for x in b {
                v.push_back_mut(Cell::Int(*x as i128));
            }
            (Cell::Vector(v), "vec:ints")
        }
        4 => match String::from_utf8(b.to_vec()) {
            Ok(s) => (Cell::from(s), "str"),
            Err(_) => (bytes_cell(b), "bitstr:aligned"),
        },
        _ => {
            // mixed vector: split the bit sequence at arbitrary (not byte-aligned) points; pieces are
            // ints (whole bytes), bit-strings of any length, strings (valid utf-8 pieces), nested vectors
            let bits = bits_of_bytes(b);
            let mut v = Xvec::new();
            let mut pos = 0;
            while pos < bits.len() {
                let byte_aligned = pos % 8 == 0;
                let choice = ctx.rng.below(5);
                if byte_aligned && choice == 0 {
                    v.push_back_mut(Cell::Int(b[pos / 8] as i128));
                    pos += 8;
                } else if byte_aligned && choice == 1 && b[pos / 8] < 0x80 {
                    let mut e = pos / 8;
                    while e < b.len() && b[e] < 0x80 && e - pos / 8 < 4 {
                        e += 1;
                    }
                    v.push_back_mut(Cell::from(String::from_utf8(b[pos / 8..e].to_vec()).unwrap()));
                    pos = e * 8;
                } else if byte_aligned && choice == 2 && depth < 3 {
                    let n = 1 + ctx.rng.below(((bits.len() - pos) / 8).min(5));
                    let (inner, _) = carrier(ctx, &b[pos / 8..pos / 8 + n], depth + 1);
                    let inner = match inner {
                        Cell::Vector(_) => inner,
                        other => {
                            let mut w = Xvec::new();
                            w.push_back_mut(other);
                            Cell::Vector(w)
                        }
                    };
                    v.push_back_mut(inner);
                    pos += n * 8;
                } else {
                    let n = 1 + ctx.rng.below((bits.len() - pos).min(19));
                    v.push_back_mut(Cell::from(bitstr_from_bits(&bits[pos..pos + n])));
                    pos += n;
                }
            }
            let c = Cell::Vector(v);
            if ctx.rng.chance(15) {
                (tag_it(&mut ctx.rng, c), "vec:mixed:tagged")
            } else {
                (c, "vec:mixed")
            }
        }
    }
}

/// encoder input that should be rejected (or whose bit length is not a multiple of 8)
fn bad_carrier(ctx: &mut Ctx) -> (Cell, &'static str) {
    let n = ctx.rng.below(6);
    let b: Vec<u8> = (0..n).map(|_| ctx.rng.next_u64() as u8).collect();
    match ctx.rng.below(8) {
        0 => {
            // bit-string whose length is not a multiple of 8, any alignment
            let len = 1 + ctx.rng.below(70);
            let len = if len % 8 == 0 { len + 1 } else { len };
            let align = ctx.rng.below(8);
            let bits: Vec<bool> = (0..align + len + 3).map(|_| ctx.rng.bool()).collect();
            (Cell::from(bitstr_from_bits(&bits).substr(align, align + len).unwrap()), "bad:bitlen")
        }
        1 => {
            let mut v = Xvec::new();
            for x in &b {
                v.push_back_mut(Cell::Int(*x as i128));
            }
            v.push_back_mut(Cell::from(bitstr_from_bits(&gen_bits(&mut ctx.rng, 7))));
            (Cell::Vector(v), "bad:vec-bitlen")
        }
        2 => {
            let mut v = Xvec::new();
            for x in &b {
                v.push_back_mut(Cell::Int(*x as i128));
            }
            let bad = *ctx.rng.pick(&[256i128, -1, 1000, i128::MAX, i128::MIN, -255, 65536]);
            v.push_back_mut(Cell::Int(bad));
            for x in &b {
                v.push_back_mut(Cell::Int(*x as i128));
            }
            (Cell::Vector(v), "bad:int-range")
        }
        3 => {
            let mut v = Xvec::new();
            for x in &b {
                v.push_back_mut(Cell::Int(*x as i128));
            }
            let other = match ctx.rng.below(5) {
                0 => Cell::Nil,
                1 => Cell::Flag(true),
                2 => Cell::Real(1.5),
                3 => Cell::Map(Xmap::new()),
                _ => Cell::Nil.insert_tag(Cell::from("t"), Cell::Int(1)),
            };
            v.push_back_mut(other);
            v.push_back_mut(Cell::Int(300));
            (Cell::Vector(v), "bad:elem-type")
        }
        4 => {
            // error deep inside a nested vector; an earlier sibling is fine
            let mut inner = Xvec::new();
            inner.push_back_mut(Cell::Int(1));
            inner.push_back_mut(if ctx.rng.bool() { Cell::Int(256) } else { Cell::Flag(false) });
            let mut v = Xvec::new();
            v.push_back_mut(Cell::from("ok"));
            v.push_back_mut(Cell::Vector(inner));
            v.push_back_mut(Cell::Nil);
            (Cell::Vector(v), "bad:nested")
        }
        5 => {
            let c = match ctx.rng.below(5) {
                0 => Cell::Int(ctx.rng.range(-3, 300) as i128),
                1 => Cell::Nil,
                2 => Cell::Real(2.0),
                3 => Cell::Flag(false),
                _ => Cell::Map(Xmap::new()),
            };
            (c, "bad:top-type")
        }
        6 => (tag_it(&mut ctx.rng, Cell::Int(65)), "bad:tagged-int"),
        _ => {
            // tagged elements are looked through (`x.value()`)
            let mut v = Xvec::new();
            v.push_back_mut(tag_it(&mut ctx.rng, Cell::Int(65)));
            v.push_back_mut(tag_it(&mut ctx.rng, Cell::from("z")));
            v.push_back_mut(tag_it(&mut ctx.rng, bytes_cell(&b)));
            (Cell::Vector(v), "ok:tagged-elems")
        }
    }
}

/// "encoding accepts the same inputs as >bitstr"
fn accept_oracle(ctx: &mut Ctx, base: &Xstate, enc: &str, input: &Cell) {
    let args = vec![input.clone()];
    let e = emit(ctx, base, enc, &args);
    let g = emit(ctx, base, ">bitstr", &args);
    let case = line(enc, &args);
    if e.out == "panic" || g.out == "panic" {
        return ctx.oracle_fail(case, "no panic".into(), e.out);
    }
    match g.top.as_ref() {
        None => {
            // >bitstr failed: the encoder fails with the same error
            ctx.check(e.out == g.out, || case.clone(), || g.out.clone(), || e.out.clone());
        }
        Some(Cell::Bitstr(bs)) => {
            if bs.len() % 8 == 0 {
                let ok = e.depth == 1 && matches!(e.top, Some(Cell::Str(_)));
                ctx.check(ok, || case.clone(), || "accepted (>bitstr accepts it, length is a multiple of 8)".into(), || e.out.clone());
                // and the text decodes back to exactly what >bitstr produced
                if let Some(t) = e.top.as_ref().and_then(str_of_cell) {
                    let d = run_word(base, &dec_of(enc), &[Cell::from(t)]);
                    let same = match (&d.top, bs.to_bytes()) {
                        (Some(Cell::Bitstr(x)), Some(want)) => x.to_bytes() == Some(want),
                        _ => false,
                    };
                    ctx.check(same, || case.clone(), || format!("decodes back to {}", g.out), || d.out.clone());
                }
            } else {
                ctx.check(e.out == "err ToBytestrError", || case.clone(), || "err ToBytestrError".into(), || e.out.clone());
            }
        }
        Some(_) => ctx.oracle_fail(case, ">bitstr leaves a bit-string".into(), g.out),
    }
}

/// decoder on arbitrary text
fn decode_oracle(ctx: &mut Ctx, base: &Xstate, enc: &str, text: &str, sentinel: bool) {
    let dec = dec_of(enc);
    let mut args = vec![];
    if sentinel {
        args.push(Cell::from("below"));
    }
    args.push(Cell::from(text.to_string()));
    let d = emit(ctx, base, &dec, &args);
    let case = line(&dec, &args);
    let well_formed = d.depth == args.len() && matches!(d.top, Some(Cell::Nil) | Some(Cell::Bitstr(_)));
    if !well_formed {
        return ctx.oracle_fail(case, "nil or a bit-string on top, nothing else touched".into(), d.out);
    }
    ctx.oracle_ok();
    let is_nil = matches!(d.top, Some(Cell::Nil));
    ctx.tag(if is_nil { "decode:nil" } else { "decode:value" });
    if text.bytes().any(|b| !acceptable(enc, b)) {
        ctx.check(is_nil, || case.clone(), || "nil (a byte outside alphabet ∪ padding)".into(), || d.out.clone());
    }
    if let Some(Cell::Bitstr(bs)) = &d.top {
        // stability: re-encode and decode again
        let ok_len = bs.len() % 8 == 0;
        let e = run_word(base, enc, &[Cell::Bitstr(bs.clone())]);
        let again = e.top.as_ref().and_then(str_of_cell).map(|t| run_word(base, &dec, &[Cell::from(t)]));
        let stable = match again.as_ref().and_then(|r| r.top.as_ref()) {
            Some(Cell::Bitstr(b2)) => b2.to_bytes() == bs.to_bytes(),
            _ => false,
        };
        ctx.check(ok_len && stable, || case.clone(), || "whole bytes, stable under encode → decode".into(), || format!("{} then {}", e.out, again.map(|r| r.out).unwrap_or_default()));
    }
}

fn mutate(ctx: &mut Ctx, enc: &str, valid: &str) -> (String, &'static str) {
    let mut s: Vec<char> = valid.chars().collect();
    let outside: &[char] = &['`', ' ', '\n', '\t', '~', '|', '"', '\\', ',', ';', '_', '\'', '\u{0}', '\u{7f}', 'é', '日', '😀', '\u{80}'];
    let r = ctx.rng.below(14);
    match r {
        0 if !s.is_empty() => {
            let i = ctx.rng.below(s.len());
            s[i] = *ctx.rng.pick(outside);
            (s.into_iter().collect(), "mut:replace-outside")
        }
        1 if !s.is_empty() => {
            let i = ctx.rng.below(s.len());
            let a: Vec<char> = alphabet(enc).chars().collect();
            s[i] = *ctx.rng.pick(&a);
            (s.into_iter().collect(), "mut:replace-inside")
        }
        2 if !s.is_empty() => {
            let k = 1 + ctx.rng.below(s.len().min(6));
            s.truncate(s.len() - k);
            (s.into_iter().collect(), "mut:truncate")
        }
        3 => {
            let t: String = valid.trim_end_matches('=').to_string();
            (t, "mut:padding-removed")
        }
        4 => {
            let k = 1 + ctx.rng.below(8);
            let pad = if enc == "zero85" { '#' } else { '=' };
            for _ in 0..k {
                s.push(pad);
            }
            (s.into_iter().collect(), "mut:padding-added")
        }
        5 => (valid.to_ascii_lowercase(), "mut:lower"),
        6 => (valid.to_ascii_uppercase(), "mut:upper"),
        7 => {
            let i = ctx.rng.below(s.len() + 1);
            s.insert(i, *ctx.rng.pick(&[' ', '\n', '\t', '\r']));
            (s.into_iter().collect(), "mut:whitespace")
        }
        8 if !s.is_empty() => {
            let i = ctx.rng.below(s.len());
            s[i] = if enc == "zero85" { '#' } else { '=' };
            (s.into_iter().collect(), "mut:pad-inside")
        }
        9 if s.len() >= 2 => {
            let i = ctx.rng.below(s.len() - 1);
            s.swap(i, i + 1);
            (s.into_iter().collect(), "mut:swap")
        }
        10 if !s.is_empty() => {
            // bump the last letter before the padding: non-canonical trailing bits
            let a: Vec<char> = alphabet(enc).chars().collect();
            let mut i = s.len() - 1;
            while i > 0 && (s[i] == '=' || s[i] == '#') {
                i -= 1;
            }
            if let Some(p) = a.iter().position(|c| *c == s[i]) {
                s[i] = a[(p + 1) % a.len()];
            }
            (s.into_iter().collect(), "mut:trailing-bits")
        }
        11 => {
            // duplicate: two encodings back to back (padding in the middle)
            (format!("{}{}", valid, valid), "mut:concat")
        }
        12 if !s.is_empty() => {
            let i = ctx.rng.below(s.len());
            s.remove(i);
            (s.into_iter().collect(), "mut:delete")
        }
        _ => {
            let a: Vec<char> = alphabet(enc).chars().collect();
            let i = ctx.rng.below(s.len() + 1);
            s.insert(i, *ctx.rng.pick(&a));
            (s.into_iter().collect(), "mut:insert-inside")
        }
    }
}

fn random_text(ctx: &mut Ctx, enc: &str) -> (String, &'static str) {
    let a: Vec<char> = alphabet(enc).chars().collect();
    let n = ctx.rng.below(26);
    match ctx.rng.below(6) {
        0 | 1 => ((0..n).map(|_| *ctx.rng.pick(&a)).collect(), "text:alphabet"),
        2 => {
            // alphabet text of a length the format likes, then padding
            let unit = match enc {
                "base64" => 4,
                "zero85" => 5,
                _ => 8,
            };
            let total = unit * (1 + ctx.rng.below(4));
            let pads = ctx.rng.below(unit.min(7) + 1);
            let pad = if enc == "zero85" { '#' } else { '=' };
            let front = enc == "zero85";
            let body: String = (0..total - pads.min(total)).map(|_| *ctx.rng.pick(&a)).collect();
            let padding: String = (0..pads.min(total)).map(|_| pad).collect();
            if front {
                // z85 tail: padding marks lead the last chunk
                let keep = body.len() - body.len() % 5;
                let (head, tail) = body.split_at(keep.min(body.len()));
                (format!("{}{}{}", head, padding, tail), "text:shaped")
            } else {
                (format!("{}{}", body, padding), "text:shaped")
            }
        }
        3 => ((0..n).map(|_| (32 + ctx.rng.below(95)) as u8 as char).collect(), "text:ascii"),
        4 => {
            let pool = ["", "=", "==", "====", "========", "#", "#####", "####0", "####1", "###00", "##000", "#0000", "00000#####", "#####00000", "#####0", "0####", "A", "AA", "A=", "=A", "A=======", "AAAAAAAA=", "é", "日本語", "😀😀", "\u{0}\u{0}\u{0}\u{0}", "    ", "%nSc0", "%nSc1", "@@@@@", "$$$$$"];
            (ctx.rng.pick(&pool).to_string(), "text:pool")
        }
        _ => (gen_str(&mut ctx.rng), "text:any"),
    }
}

/// known answers (RFC 4648 §10, Crockford from the crate's documentation, ZeroMQ rfc 32)
fn known_answers(ctx: &mut Ctx, base: &Xstate) {
    let kat: &[(&str, &[u8], &str)] = &[
        ("base32", b"", ""),
        ("base32", b"f", "MY======"),
        ("base32", b"fo", "MZXQ===="),
        ("base32", b"foo", "MZXW6==="),
        ("base32", b"foob", "MZXW6YQ="),
        ("base32", b"fooba", "MZXW6YTB"),
        ("base32", b"foobar", "MZXW6YTBOI======"),
        ("base64", b"", ""),
        ("base64", b"f", "Zg=="),
        ("base64", b"fo", "Zm8="),
        ("base64", b"foo", "Zm9v"),
        ("base64", b"foob", "Zm9vYg=="),
        ("base64", b"fooba", "Zm9vYmE="),
        ("base64", b"foobar", "Zm9vYmFy"),
        ("base32hex", &[0xF8, 0x3E, 0x0F, 0x83, 0xE0], "Z0Z0Z0Z0"),
        ("base32hex", &[0x07, 0xC1, 0xF0, 0x7C, 0x1F], "0Z0Z0Z0Z"),
        ("base32hex", &[0x41, 0x31], "84RG"),
        ("zero85", &[0x86, 0x4F, 0xD2, 0x6F, 0xB5, 0x59, 0xF7, 0x5B], "HelloWorld"),
        ("zero85", b"", ""),
    ];
    for (enc, bytes, text) in kat {
        let args = vec![bytes_cell(bytes)];
        let e = emit(ctx, base, enc, &args);
        let want = canon::ok_stack(&[Cell::from(text.to_string())]);
        ctx.check(e.out == want, || line(enc, &args), || want.clone(), || e.out.clone());
        let dargs = vec![Cell::from(text.to_string())];
        let d = emit(ctx, base, &dec_of(enc), &dargs);
        let wantd = canon::ok_stack(&[bytes_cell(bytes)]);
        ctx.check(d.out == wantd, || line(&dec_of(enc), &dargs), || wantd.clone(), || d.out.clone());
        ctx.tag("known-answer");
    }
}

pub fn run(ctx: &mut Ctx) {
    let base = Xstate::boot().unwrap();
    known_answers(ctx, &base);

    // 1. structured patterns, every length 0..=40, every encoding, aligned + every unaligned offset
    let max_len = if ctx.thorough { 64 } else { 40 };
    for len in 0..=max_len {
        for (name, b) in patterns(len, ctx.thorough) {
            for enc in ENC {
                ctx.tag(&format!("pattern:{}", name));
                ctx.tag(&format!("tail:{}:{}", enc, match *enc { "base64" => len % 3, "zero85" => len % 4, _ => len % 5 }));
                let t0 = roundtrip(ctx, &base, enc, bytes_cell(&b), &b, false);
                // one unaligned carrier per pattern (all seven offsets for the five basic patterns)
                let mut aligns: Vec<usize> = if name.starts_with("one-") { vec![1 + (len + b.iter().map(|x| *x as usize).sum::<usize>()) % 7] } else { (1..8).collect() };
                // and one byte-aligned slice of a longer buffer: the payload after 1..3 header bytes
                aligns.push(8 * (1 + (len + name.len()) % 3));
                for a in aligns {
                    ctx.tag(&format!("align:{}", a));
                    let c = unaligned_cell(&mut ctx.rng, &b, a);
                    let r = emit(ctx, &base, enc, &[c.clone()]);
                    let t = r.top.as_ref().and_then(str_of_cell);
                    ctx.check(t.is_some() && t == t0, || line(enc, &[c.clone()]), || format!("same text as the aligned bytes: {:?}", t0), || r.out.clone());
                }
            }
        }
    }

    // 2. non-multiple-of-8 bit-strings at every alignment: ToBytestrError
    for len in 1..=(if ctx.thorough { 130 } else { 50 }) {
        if len % 8 == 0 {
            continue;
        }
        for align in 0..8 {
            let bits: Vec<bool> = (0..align + len + 5).map(|_| ctx.rng.bool()).collect();
            let c = Cell::from(bitstr_from_bits(&bits).substr(align, align + len).unwrap());
            let enc = ENC[(len + align) % 4];
            let r = emit(ctx, &base, enc, &[c.clone()]);
            ctx.tag("bitlen:not-multiple-of-8");
            ctx.check(r.out == "err ToBytestrError", || line(enc, &[c.clone()]), || "err ToBytestrError".into(), || r.out.clone());
        }
    }

    // 3. random byte strings, random carriers; mutations of the valid text; arbitrary text
    let max_rand = if ctx.thorough { 200 } else { 64 };
    for i in 0..ctx.n {
        let enc = ENC[i % 4];
        let kind = ctx.rng.below(100);
        if kind < 45 {
            let n = if ctx.rng.chance(70) { ctx.rng.below(21) } else { ctx.rng.below(max_rand + 1) };
            let b: Vec<u8> = match ctx.rng.below(4) {
                0 => (0..n).map(|_| *ctx.rng.pick(&[0u8, 0xff, 0x80, 0x01, 0x7f])).collect(),
                1 => (0..n).map(|_| (32 + ctx.rng.below(95)) as u8).collect(),
                _ => (0..n).map(|_| ctx.rng.next_u64() as u8).collect(),
            };
            let (c, tag) = carrier(ctx, &b, 0);
            ctx.tag(&format!("carrier:{}", tag));
            let sentinel = ctx.rng.chance(15);
            let text = roundtrip(ctx, &base, enc, c.clone(), &b, sentinel);
            accept_oracle(ctx, &base, enc, &c);
            if let Some(text) = text {
                if ctx.rng.chance(60) {
                    let (m, tag) = mutate(ctx, enc, &text);
                    ctx.tag(tag);
                    let sentinel = ctx.rng.chance(10);
                    decode_oracle(ctx, &base, enc, &m, sentinel);
                }
            }
        } else if kind < 60 {
            let (c, tag) = bad_carrier(ctx);
            ctx.tag(&format!("carrier:{}", tag));
            accept_oracle(ctx, &base, enc, &c);
        } else if kind < 95 {
            let (t, tag) = random_text(ctx, enc);
            ctx.tag(tag);
            let sentinel = ctx.rng.chance(10);
            decode_oracle(ctx, &base, enc, &t, sentinel);
        } else {
            // not text at all / empty stack: the decode words answer nil (the glue swallows every failure),
            // the encode words report the failure
            let w = if ctx.rng.bool() { dec_of(enc) } else { enc.to_string() };
            let args: Vec<Cell> = if ctx.rng.chance(30) { vec![] } else { vec![gen_other(&mut ctx.rng)] };
            let args = if args.len() == 1 && matches!(args[0].value(), Cell::Str(_)) && w.ends_with('>') { vec![Cell::Int(1)] } else { args };
            ctx.tag(if args.is_empty() { "arg:empty-stack" } else { "arg:other-type" });
            let r = emit(ctx, &base, &w, &args);
            ctx.check(r.out != "panic", || line(&w, &args), || "no panic".into(), || r.out.clone());
        }
    }

    long_inputs(ctx, &base);

    // zero85: `#` is both the digit 84 and the padding mark of the tail chunk, so valid text may contain runs of five
    // and more `#` across chunk boundaries: a last full chunk ending in k digits 84 (the 32-bit value 85^k − 1 with any
    // leading digits) followed by a padded tail of 1..3 bytes, after 0..2 ordinary chunks — every k, every tail length
    for k in 1..=4u32 {
        for lead in [0u32, 1, 41] {
            let v: u64 = (lead as u64) * 85u64.pow(k) + (85u64.pow(k) - 1);
            if v > u32::MAX as u64 { continue; }
            for t in 0..=3usize {
                for pre in 0..=2usize {
                    let mut b: Vec<u8> = Vec::new();
                    for i in 0..pre { b.extend_from_slice(&[0x86, 0x4F, 0xD2, 0x6F + i as u8]); }
                    b.extend_from_slice(&(v as u32).to_be_bytes());
                    for i in 0..t { b.push(0x41 + i as u8); }
                    ctx.tag("z85:digit-84-run-before-the-tail");
                    let _ = roundtrip(ctx, &base, "zero85", bytes_cell(&b), &b, false);
                }
            }
        }
    }

    // 4. exhaustive small scopes: every text of length ≤ 2 (quick) / ≤ 3 (thorough, reduced alphabet) over
    //    alphabet ∪ {padding, one outsider}, every single byte 0..=255 as a one-byte string where it is valid UTF-8
    for enc in ENC {
        let mut sym: Vec<char> = alphabet(enc).chars().collect();
        sym.push('=');
        sym.push('#');
        sym.push('`');
        sym.push('u');
        sym.push('U');
        sym.sort();
        sym.dedup();
        for a in &sym {
            ctx.tag("exhaustive:len1");
            decode_oracle(ctx, &base, enc, &a.to_string(), false);
        }
        let stride = if ctx.thorough { 1 } else { 3 };
        let mut k = 0;
        for a in &sym {
            for b in &sym {
                k += 1;
                if k % stride != 0 {
                    continue;
                }
                ctx.tag("exhaustive:len2");
                decode_oracle(ctx, &base, enc, &format!("{}{}", a, b), false);
            }
        }
        for c in 0u32..=0x7f {
            ctx.tag("exhaustive:byte-in-valid-frame");
            // one arbitrary ASCII byte inside an otherwise valid frame
            let frame = match *enc {
                "base64" => format!("QUJ{}", char::from_u32(c).unwrap()),
                "zero85" => format!("Hell{}", char::from_u32(c).unwrap()),
                "base32" => format!("MZXW6YT{}", char::from_u32(c).unwrap()),
                _ => format!("Z0Z0Z0Z{}", char::from_u32(c).unwrap()),
            };
            decode_oracle(ctx, &base, enc, &frame, false);
        }
    }
    // multi-byte characters anywhere near the end of otherwise valid text (whatever the decoder measures in bytes, a
    // character may straddle it): outside every alphabet, so the answer is nil
    for enc in ENC {
        let valid: Vec<String> = [&b"hello world, this is text"[..], &b"\x00\x01\x02\x03\x04\x05\x06\x07"[..], &b"abc"[..], &b""[..]].iter()
            .filter_map(|b| run_word(&base, enc, &[bytes_cell(b)]).top.as_ref().and_then(str_of_cell)).collect();
        for v in &valid {
            let chars: Vec<char> = v.chars().collect();
            for back in 0..=chars.len().min(9) {
                let at = chars.len() - back;
                for ch in ['é', '€', '😀'] {
                    for marks in [0usize, 2, 4] {
                        let mut t: String = chars[..at].iter().collect();
                        t.push(ch);
                        t.extend(chars[at..].iter());
                        if *enc == "zero85" { t.push_str(&"#".repeat(marks)); } else if marks > 0 { continue; }
                        ctx.tag("multibyte-near-the-end");
                        decode_oracle(ctx, &base, enc, &t, false);
                    }
                }
            }
        }
    }
    // characters that some Unicode mapping (upper case, lower case, compatibility forms) turns into ASCII letters or
    // digits — ı ſ ß ﬁ ﬀ ŉ, the Kelvin and Ångström signs, full-width letters and digits — are not digits of any
    // alphabet: put in the place of a digit of otherwise valid text (so that every length is still right), or added
    // to it, they make the text invalid
    for enc in ENC {
        let valid: Vec<String> = [&b"A1"[..], &b"A3"[..], &b"xI\x88"[..], &b"x"[..], &b"hello world"[..], &b"\x00\x01\x02\x03\x04"[..]].iter()
            .filter_map(|b| run_word(&base, enc, &[bytes_cell(b)]).top.as_ref().and_then(str_of_cell)).collect();
        for v in &valid {
            let chars: Vec<char> = v.chars().collect();
            for at in 0..chars.len().min(10) {
                for ch in ['ı', 'ſ', 'ß', 'ﬁ', 'ﬀ', 'ŉ', '\u{212A}', '\u{212B}', 'İ', 'ǰ', '\u{FF21}', '\u{FF11}', '\u{FF41}', 'ª', '²'] {
                    let mut t: String = chars[..at].iter().collect();
                    t.push(ch);
                    t.extend(chars[at + 1..].iter());
                    ctx.tag("case-mapped-to-ascii:in-place-of-a-digit");
                    decode_oracle(ctx, &base, enc, &t, false);
                }
            }
        }
        for t in ["ı", "ſ", "ß", "ﬁ", "ﬀ", "ßß", "ﬁﬁ", "ııııııı=", "ſſſſſ", "\u{212A}\u{212A}"] {
            ctx.tag("case-mapped-to-ascii:alone");
            decode_oracle(ctx, &base, enc, t, false);
        }
    }
    // z85 tail scopes: every tail shape `#…#` + letters, including the all-marks chunk
    for marks in 0..=5 {
        for body in ["", "00000", "HelloWorld"] {
            for fill in ["0", "1", "#", "%", "$"] {
                let tail: String = "#".repeat(marks) + &fill.repeat(5 - marks);
                ctx.tag("z85:tail-shape");
                decode_oracle(ctx, &base, "zero85", &format!("{}{}", body, tail), false);
            }
        }
    }
}
