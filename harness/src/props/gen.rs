//! Shared value generators (DESIGN §4.1): boundary-heavy integers, classed reals, every cell type.
use crate::rng::Rng;
use xeh::prelude::*;

pub fn boundary_ints() -> Vec<i128> {
    let mut v: Vec<i128> = vec![0, 1, -1, 2, -2, 3, 7, 10, -10, 100, 255, 256, i128::MAX, i128::MIN, i128::MAX - 1, i128::MIN + 1];
    for k in [7u32, 8, 15, 16, 31, 32, 63, 64, 126] {
        let p = 1i128 << k;
        v.extend_from_slice(&[p, p - 1, p + 1, -p, -p - 1, -p + 1]);
    }
    v.push(1i128 << 127 - 1);
    v.sort();
    v.dedup();
    v
}

pub fn gen_int(r: &mut Rng) -> i128 {
    match r.below(10) {
        0..=3 => *r.pick(&boundary_ints()),
        4..=5 => r.range(-20, 20) as i128,
        6 => {
            // random magnitude
            let bits = r.below(128) as u32;
            let x = r.next_u128() as i128;
            if bits == 0 { 0 } else { x >> (128 - bits) }
        }
        7 => r.next_u64() as i64 as i128,
        _ => r.next_u128() as i128,
    }
}

pub fn boundary_reals() -> Vec<f64> {
    vec![
        0.0, -0.0, 1.0, -1.0, 0.5, -0.5, 1.5, 2.5, -2.5, 3.0, 1e-320, -1e-320, f64::MIN_POSITIVE, 5e-324,
        f64::MAX, f64::MIN, f64::INFINITY, f64::NEG_INFINITY, f64::NAN, f64::EPSILON, 1e300, -1e300, 1e-300,
        4503599627370496.0, 4503599627370495.5, 9007199254740992.0, 9007199254740993.0, 1.7014118346046923e38,
        -1.7014118346046923e38, 1.7014118346046921e38, 3.4e38, 0.1, 0.2, 0.3, 123456.789, 1e19, 1.8446744073709552e19,
        9.223372036854776e18, 0.49999999999999994, 0.5000000000000001, 2.0f64.powi(52) + 0.5,
    ]
}

pub fn gen_real(r: &mut Rng) -> f64 {
    match r.below(10) {
        0..=3 => *r.pick(&boundary_reals()),
        4 => r.range(-50, 50) as f64 / 4.0,
        5 => f64::from_bits(r.next_u64()),
        6 => {
            // NaN with payload
            f64::from_bits(0x7ff0_0000_0000_0001 | (r.next_u64() & 0x800f_ffff_ffff_ffff))
        }
        7 => {
            // subnormal
            f64::from_bits(r.next_u64() & 0x800f_ffff_ffff_ffff)
        }
        8 => {
            let e = r.range(-60, 130) as i32;
            let m = 1.0 + (r.next_u64() >> 12) as f64 / (1u64 << 52) as f64;
            let v = m * 2f64.powi(e);
            if r.bool() { v } else { -v }
        }
        _ => (r.next_u64() as i64 as f64) / [1.0, 2.0, 1024.0, 3.0][r.below(4)],
    }
}

pub fn gen_str(r: &mut Rng) -> String {
    let pool = ["", "a", "abc", "hello world", "é", "日本語", "a\nb", "\"q\"", "x y", "😀z", "0", "12", "ff"];
    r.pick(&pool).to_string()
}

pub fn gen_bits(r: &mut Rng, max: usize) -> Vec<bool> {
    let n = r.below(max + 1);
    (0..n).map(|_| r.bool()).collect()
}

pub fn bitstr_from_bits(bits: &[bool]) -> Xbitstr {
    let mut b = xeh::bitstr::BitvecBuilder::default();
    for x in bits {
        b.append_bit(*x as u8);
    }
    b.finish()
}

/// a non-numeric cell of some type (for type-error paths)
pub fn gen_other(r: &mut Rng) -> Cell {
    match r.below(8) {
        0 => Cell::Nil,
        1 => Cell::Flag(r.bool()),
        2 => Cell::from(gen_str(r)),
        3 => {
            let mut v = Xvec::new();
            for _ in 0..r.below(3) {
                v.push_back_mut(Cell::Int(r.range(-3, 3) as i128));
            }
            Cell::Vector(v)
        }
        4 => Cell::Bitstr(bitstr_from_bits(&gen_bits(r, 12))),
        5 => {
            let mut m = Xmap::new();
            for _ in 0..r.below(3) {
                m.insert_mut(Cell::Int(r.range(0, 5) as i128), Cell::from(gen_str(r)));
            }
            Cell::Map(m)
        }
        6 => Cell::from(gen_str(r)).insert_tag(Cell::from("k"), Cell::Int(1)),
        _ => Cell::Nil.insert_tag(Cell::from("t"), Cell::Flag(true)),
    }
}

pub fn tag_it(r: &mut Rng, c: Cell) -> Cell {
    match r.below(3) {
        0 => c.insert_tag(Cell::from("k"), Cell::Int(r.range(0, 9) as i128)),
        1 => c.insert_tag(Cell::from("#fmt"), Cell::Int(16)),
        _ => c.insert_tag(Cell::from("a"), Cell::from("b")).insert_tag(Cell::Int(2), Cell::Nil),
    }
}
