pub mod gen;
pub mod c09;

pub fn run(prop: &str, ctx: &mut crate::Ctx) -> bool {
    match prop {
        "C09" => c09::run(ctx),
        _ => return false,
    }
    true
}
