//! Canonical rendering of bytecode, dictionary and machine dumps (twin of lean Driver/VMCodec.lean).
use crate::canon;
use xeh::prelude::*;
use xeh::state::{VerifDump, VerifOp};

pub fn op_str(op: &VerifOp) -> String {
    match op.kind {
        "nop" | "ret" | "loadnil" => op.kind.to_string(),
        "resolve" | "native" => format!("{}={}", op.kind, canon::hex(op.name.as_bytes())),
        "loadf64" | "loadstr" | "loadcell" => format!("{}={}", op.kind, canon::cell(op.cell.as_ref().unwrap())),
        _ => format!("{}={}", op.kind, op.num),
    }
}

pub fn code_str(xs: &Xstate) -> String {
    xs.verif_code().iter().map(op_str).collect::<Vec<_>>().join("|")
}

fn vec_str(cells: &[Cell]) -> String {
    format!("v({})", cells.iter().map(canon::cell).collect::<Vec<_>>().join(","))
}

fn plus(xs: Vec<String>) -> String {
    if xs.is_empty() { "-".into() } else { xs.join("+") }
}

pub fn core_dump(d: &VerifDump) -> String {
    format!(
        "ip={},ds={},hid={},rs={},lp={},sp={},heap={}",
        d.ip,
        vec_str(&d.data_visible),
        vec_str(&d.data_hidden),
        plus(d.frames.iter().map(|f| format!("{}:{}:{}", f.fn_addr, f.return_to, vec_str(&f.locals))).collect()),
        plus(d.loops.iter().map(|l| format!("{}:{}:{}", canon::cell(&l.items), l.start, l.end)).collect()),
        plus(d.special.iter().map(|n| n.to_string()).collect()),
        vec_str(&d.heap)
    )
}

pub fn full_dump(xs: &mut Xstate) -> String {
    let d = xs.verif_dump();
    let out = xs.stdout().map(|s| s.clone()).unwrap_or_default();
    format!(
        "{},meter={},log={},out={},stop={}",
        core_dump(&d),
        d.insn_meter,
        d.reverse_log_len.map(|n| n.to_string()).unwrap_or("-".into()),
        canon::hex(out.as_bytes()),
        if d.about_to_stop { 1 } else { 0 }
    )
}

pub fn outcome(r: &Xresult) -> String {
    match r {
        Ok(()) => "ok".into(),
        Err(e) => format!("err {}", canon::err(e)),
    }
}

fn opt(n: Option<usize>) -> String {
    n.map(|x| x.to_string()).unwrap_or("-".into())
}

/// dictionary entries needed by `resolve` opcodes (oldest first)
pub fn dict_str(xs: &Xstate) -> String {
    let code = xs.verif_code();
    let names: Vec<&str> = code.iter().filter(|o| o.kind == "resolve").map(|o| o.name.as_str()).collect();
    if names.is_empty() {
        return String::new();
    }
    xs.verif_dict()
        .iter()
        .filter(|e| names.contains(&e.0.as_str()))
        .map(|(name, kind, imm, num, cell, native)| {
            format!(
                "{}~{}~{}~{}~{}~{}",
                canon::hex(name.as_bytes()), kind, if *imm { 1 } else { 0 }, num,
                cell.as_ref().map(canon::cell).unwrap_or("N".into()),
                canon::hex(native.as_bytes())
            )
        })
        .collect::<Vec<_>>()
        .join("|")
}

/// `code=… heap=… ds=… hidden=… ip=… rec=… lim=… meter=… dict=…` for the machine as it is now
pub fn setup_str(xs: &Xstate, limits: (Option<usize>, Option<usize>, Option<usize>)) -> String {
    let d = xs.verif_dump();
    format!(
        "code={} heap={} hidden={} ds={} ip={} rec={} lim={}/{}/{} meter={} dict={}",
        code_str(xs),
        vec_str(&d.heap),
        vec_str(&d.data_hidden),
        vec_str(&d.data_visible),
        d.ip,
        if d.reverse_log_len.is_some() { 1 } else { 0 },
        opt(limits.0), opt(limits.1), opt(limits.2),
        d.insn_meter,
        dict_str(xs)
    )
}
