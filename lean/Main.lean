import XehModel.Driver.All

/-- one request per line, one answer per line -/
partial def loop (h : IO.FS.Stream) (out : IO.FS.Stream) : IO Unit := do
  let line ← h.getLine
  if line.isEmpty then return ()
  out.putStrLn (Xeh.Driver.handleLine line)
  loop h out

def main : IO Unit := do
  let out ← IO.getStdout
  loop (← IO.getStdin) out
  out.flush
