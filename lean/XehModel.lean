import XehModel.Model.Value
import XehModel.Model.SoftFloat
import XehModel.Model.Prog
import XehModel.Model.Arith
import XehModel.Driver.All
