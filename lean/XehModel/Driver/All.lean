import XehModel.Driver.C01
import XehModel.Driver.C02
import XehModel.Driver.C03
import XehModel.Driver.C04
import XehModel.Driver.C05
import XehModel.Driver.C06
import XehModel.Driver.C07
import XehModel.Driver.C08
import XehModel.Driver.C09
import XehModel.Driver.C10
import XehModel.Driver.C11
import XehModel.Driver.C12
import XehModel.Driver.C13
import XehModel.Driver.C14
import XehModel.Driver.C15
import XehModel.Driver.C16
import XehModel.Driver.C17
import XehModel.Driver.C18

namespace Xeh.Driver

/-- first token of a request line = property id -/
def handleLine (line : String) : String :=
  match (line.trimAscii.toString.splitOn " ").filter (· ≠ "") with
  -- a history of sources on one interpreter (Driver/Sess.lean), whichever property asks
  | _ :: "sess" :: rest => Sess.handle rest
  | "C01" :: rest => C01.handle rest
  | "C02" :: rest => C02.handle rest
  | "C03" :: rest => C03.handle rest
  | "C04" :: rest => C04.handle rest
  | "C05" :: rest => C05.handle rest
  | "C06" :: rest => C06.handle rest
  | "C07" :: rest => C07.handle rest
  | "C08" :: rest => C08.handle rest
  | "C09" :: rest => C09.handle rest
  | "C10" :: rest => C10.handle rest
  | "C11" :: rest => C11.handle rest
  | "C12" :: rest => C12.handle rest
  | "C13" :: rest => C13.handle rest
  | "C14" :: rest => C14.handle rest
  | "C15" :: rest => C15.handle rest
  | "C16" :: rest => C16.handle rest
  | "C17" :: rest => C17.handle rest
  | "C18" :: rest => C18.handle rest
  | _ => "bad-op"

end Xeh.Driver
