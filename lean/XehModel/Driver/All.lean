import XehModel.Driver.C09

namespace Xeh.Driver

def handleLine (line : String) : String :=
  match (line.trimAscii.toString.splitOn " ").filter (· ≠ "") with
  | "C09" :: rest => C09.handle rest
  | _ => "bad-op"

end Xeh.Driver
