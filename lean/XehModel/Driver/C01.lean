import XehModel.Model.Compile
import XehModel.Model.ParseS
import XehModel.Driver.VMCodec

namespace Xeh.Driver.C01
open Xeh Xeh.Codec Xeh.VMCodec Xeh.Compile Xeh.Structured

/-- `w<hex name>` or `l<cell>` -/
def parseTok (s : String) : Option Tok :=
  match s.toList with
  | 'w' :: r => (hexToStr r).map fun n => .word (String.ofList n)
  | 'l' :: r => (readCell (String.ofList r)).map .lit
  | _ => none

def parseToks (s : String) : Option (List Tok) :=
  if s.isEmpty then some [] else (s.splitOn "|").mapM parseTok

structure Req where
  toks : List Tok := []
  setup : Setup := {}

def applyKV (r : Req) (kv : String) : Option Req :=
  let (k, v) := splitKV kv
  if k == "toks" then (parseToks v).map fun t => { r with toks := t }
  else (VMCodec.applyKV r.setup kv).map fun s => { r with setup := s }

def dmapStr (d : List Nat) : String := ",".intercalate (d.map toString)

/-- compile the tokens on top of the machine described by the setup -/
def compile (r : Req) : CRes CState :=
  let m := r.setup.m
  let s0 : CState := { code := m.code, dmap := List.replicate m.code.length 0, dict := m.dict,
                       heapLen := m.heap.length, heapLimit := m.heapLimit }
  compileToks r.toks 0 s0

/-- `C01 build toks=… dict=… heap=… lim=…` → the compiler's answer only -/
def handleBuild (r : Req) : String :=
  match compile r with
  | .unsupported _ => "unsupported"
  | .err e _ => s!"err {errStr e.err} tok={e.tok}"
  | .ok s => s!"ok code={showCode (s.code.drop r.setup.m.code.length)} dmap={dmapStr (s.dmap.drop r.setup.m.code.length)}"

/-- `C01 eval …` → build, then run from the first new opcode (what `eval` does on an idle interpreter) -/
def handleEval (r : Req) : String :=
  match compile r with
  | .unsupported _ => "unsupported"
  | .err e _ => s!"builderr {errStr e.err} tok={e.tok}"
  | .ok s =>
    let m := r.setup.m
    let m1 : Mach := { m with code := s.code, dict := s.dict,
                              heap := m.heap ++ List.replicate (s.heapLen - m.heap.length) Cell.nil,
                              ctx := { m.ctx with ip := m.code.length } }
    match Mach.run nativeProg runFuel m1 with
    | none => "timeout"
    | some (o, m2) =>
      if isModelGap o then "unsupported" else
      let tok := match o with
        | .ok _ => ""
        | _ => s!" tok={(s.dmap[m2.ctx.ip]?).getD 0}"
      s!"{outcomeStr o}{tok}@{dump r.setup.full m2}"

/-- depth budget of the structural evaluator in the driver: more than the instruction limit the programs run
    under (4000), so an evaluation that runs out of it belongs to a program the VM cannot finish either; a VM
    that finishes while the evaluator does not is reported as a difference (a loop that falls through) -/
def structFuel : Nat := 6000

/-- observable part of a machine for the structural comparison: everything but ip, meter and log -/
def obs (m : Mach) : String :=
  dump false { m with ctx := { m.ctx with ip := 0 } } ++ s!",out={String.ofList (strToHex m.out)},stop={if m.aboutToStop then 1 else 0}"

/-- `C01 struct …`: (1) the flow-stack compiler's output equals `compileS (parseS toks)`;
    (2) the VM run of that code and `evalS` end in the same observable machine / error / token -/
def handleStruct (r : Req) : String :=
  match compile r with
  | .unsupported _ => "unsupported"
  | .err _ _ => "unsupported"
  | .ok s =>
    let m := r.setup.m
    if m.code.length != 0 then "unsupported" else
    match parseS r.toks { dict := m.dict, heapLen := m.heap.length } with
    | none => "unsupported"
    | some (st, _) =>
      let cs := compileS st .none none
      let tv := if cs.map (·.1) == s.code && cs.map (·.2) == s.dmap then "same" else s!"DIFF structural={showCode (cs.map (·.1))} flow={showCode s.code}"
      let m1 : Mach := { m with code := s.code, dict := s.dict,
                                heap := m.heap ++ List.replicate (s.heapLen - m.heap.length) Cell.nil }
      let vm := match Mach.run nativeProg runFuel m1 with
        | none => "timeout"
        | some (.panic p, m2) => if p.startsWith "model:" then "unsupported" else s!"panic@{obs m2}"
        | some (.ok _, m2) => s!"ok@{obs m2}"
        | some (.err e, m2) => if isModelGap (.err e : Outcome Unit) then "unsupported" else s!"err {errStr e} tok={(s.dmap[m2.ctx.ip]?).getD 0}@{obs m2}"
      let ev := match evalS nativeProg (tabOf st) structFuel st m1 with
        | .ok m2 => s!"ok@{obs m2}"
        | .err e t m2 => if isModelGap (.err e : Outcome Unit) then "unsupported" else s!"err {errStr e} tok={t}@{obs m2}"
        | .panic p t m2 => if p.startsWith "model:" then "unsupported" else s!"panic@{obs m2}"
        | .brk _ _ => "stray-break"
        | .exitCase _ => "stray-exitcase"
        | .timeout => "timeout"
      if vm == "unsupported" || ev == "unsupported" then "unsupported"
      -- the VM stopped at the instruction limit (the structural evaluator does not count instructions): the harness
      -- expects `timeout` there, whatever the evaluator says
      else if vm == "timeout" || vm.startsWith "err ErrorMsg:insn_limit" then s!"tv={tv} sem=timeout"
      else s!"tv={tv} sem={if vm == ev then "same" else s!"DIFF vm={vm} structural={ev}"}"

def handle (args : List String) : String :=
  match args with
  | "vm" :: rest => handleVm rest
  | "build" :: rest =>
    match rest.foldlM applyKV {} with
    | some r => handleBuild r
    | none => "bad-args"
  | "struct" :: rest =>
    match rest.foldlM applyKV {} with
    | some r => handleStruct r
    | none => "bad-args"
  | "eval" :: rest =>
    match rest.foldlM applyKV {} with
    | some r => handleEval r
    | none => "bad-args"
  | _ => "bad-op"

end Xeh.Driver.C01
