import XehModel.Driver.Codec

namespace Xeh.Driver.C01

/-- stub: not modelled yet -/
def handle (_args : List String) : String := "unsupported"

end Xeh.Driver.C01
