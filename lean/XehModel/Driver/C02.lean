import XehModel.Driver.VMCodec

namespace Xeh.Driver.C02

/-- `C02 vm …` : machine-level script (see Driver/VMCodec.lean) -/
def handle (args : List String) : String :=
  match args with
  | "vm" :: rest => Xeh.VMCodec.handleVm rest
  | _ => "bad-op"

end Xeh.Driver.C02
