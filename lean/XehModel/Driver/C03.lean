import XehModel.Driver.C01

namespace Xeh.Driver.C03

/-- replace the digits after ` tok=` by `*` (C03 does not compare error locations) -/
def starTok (s : String) : String :=
  match s.splitOn " tok=" with
  | [a, b] => a ++ " tok=*" ++ String.ofList (b.toList.dropWhile Char.isDigit)
  | _ => s

/-- `C03 eval …` : a source evaluated on one copy's machine (same request format as `C01 eval`) -/
def handle (args : List String) : String :=
  match args with
  | "eval" :: rest => starTok (C01.handle ("eval" :: rest))
  | _ => "bad-op"

end Xeh.Driver.C03
