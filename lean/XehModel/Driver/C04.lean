/-
C04 driver — one request line = one operation *sequence* over a pool of handles.

  C04 <op> ; <op> ; …           answer:  <result>|<state> ; <result>|<state> ; …

Slots are numbered in creation order and never reused.  `<state>` lists every live slot as
`k:start:len:hex` (hex = the denoted bits packed MSB-first, zero padded to a nibble), i.e. the
abstraction function `bits` applied to every live handle after every operation.

ops (HEX `-` = empty):
  new HEX | static HEX | empty | hexstr TEXTHEX | binstr TEXTHEX | fromint V N be|le
  | fromf32 HEX o | fromf64 HEX o | clone i | drop i
  | read i n | peek i n | seek i pos | substr i a b | split i k
  | detach i | invert i | append i j | insert i k j
  | eq i j | uint i o | int i o | hex i | bytes i | pad i | bytestr i | slice i | iter8 i | bits i
  | f32 i o | f64 i o | flags i
A panic ends the sequence (`panic`).
-/
import XehModel.Model.BitstrPool
import XehModel.Driver.Codec

namespace Xeh.Driver.C04
open Xeh Xeh.Bits Xeh.Bitstr

/-- the state is the pool machine of Model/BitstrPool.lean: every operation that changes it goes through `Pool.step`
    (the machine `Props/C04.lean`'s history theorems are about), the constructors outside `PoolOp` push their result -/
abbrev St := Pool

def packHex (bits : List Bool) : String :=
  let rec go (l : List Bool) (fuel : Nat) (acc : List Char) : List Char :=
    match fuel, l with
    | 0, _ => acc.reverse
    | _, [] => acc.reverse
    | fuel + 1, l =>
      let g := l.take 4
      let g := g ++ List.replicate (4 - g.length) false
      go (l.drop 4) fuel (hexDigit (beVal g) :: acc)
  String.ofList (go bits (bits.length + 1) [])

def showState (st : St) : String :=
  let items := (List.range st.slots.length).filterMap fun k =>
    match st.slots[k]? with
    | some (some s) => some s!"{k}:{s.start}:{s.end_ - s.start}:{packHex (bits st.heap s)}"
    | _ => none
  ",".intercalate items

def parseHexBytes (s : String) : Option (List Nat) :=
  if s == "-" then some [] else
  let rec go : List Char → List Nat → Option (List Nat)
    | [], acc => some acc.reverse
    | [_], _ => none
    | a :: b :: r, acc => do
      let x ← Codec.hexVal a; let y ← Codec.hexVal b
      go r ((x * 16 + y) :: acc)
  go s.toList []

def parseText (s : String) : Option (List Char) :=
  if s == "-" then some [] else Codec.hexToStr s.toList

def parseOrder : String → Option Byteorder
  | "be" => some .big
  | "le" => some .little
  | _ => none

def hexBytes (bs : List Nat) : String :=
  if bs.isEmpty then "-" else String.ofList (bs.flatMap Codec.hexByte)

def get (st : St) (tok : String) : Option (Nat × Handle) := do
  let i ← tok.toNat?
  match st.slots[i]? with
  | some (some s) => some (i, s)
  | _ => none

def push (st : St) (h : Heap) (s : Handle) : St × String :=
  (Pool.push st h s, s!"+{st.slots.length}")

/-- run a `PoolOp`; the answer text says what became of it: `+k` for every slot that was added, else `dflt` -/
def viaPool (st : St) (op : PoolOp) (dflt : String) : Option (St × String) :=
  match st.step op with
  | none => some (st, "panic")
  | some st' =>
    let added := (List.range (st'.slots.length - st.slots.length)).map fun k => s!"+{st.slots.length + k}"
    some (st', if added.isEmpty then dflt else String.join added)

def optBytes : Outcome (Option (List Nat)) → Option String
  | .ok none => some "none"
  | .ok (some b) => some (hexBytes b)
  | _ => some "panic"

/-- run one op: `none` = malformed request, result text `panic` = the operation panics -/
def step (st : St) (op : List String) : Option (St × String) :=
  let h := st.heap
  match op with
  | ["new", hx] => do
    let bs ← parseHexBytes hx
    viaPool st (.newVec bs) "ok"
  | ["static", hx] => do
    let bs ← parseHexBytes hx
    viaPool st (.newStatic bs) "ok"
  | ["empty"] => viaPool st .empty "ok"
  | ["hexstr", t] => do
    let cs ← parseText t
    match fromHexStr h cs with
    | .ok (h', s) => some (push st h' s)
    | .error p => some (st, s!"err:{p}")
  | ["binstr", t] => do
    let cs ← parseText t
    match fromBinStr h cs with
    | .ok (h', s) => some (push st h' s)
    | .error p => some (st, s!"err:{p}")
  | ["fromint", v, n, o] => do
    let v ← v.toInt?; let n ← n.toNat?; let o ← parseOrder o
    let (h', s) := fromInt h v n o
    some (push st h' s)
  | ["fromf32", hx, o] => do
    let v ← Codec.natOfHex hx.toList; let o ← parseOrder o
    let (h', s) := fromF32 h v o
    some (push st h' s)
  | ["fromf64", hx, o] => do
    let v ← Codec.natOfHex hx.toList; let o ← parseOrder o
    let (h', s) := fromF64 h v o
    some (push st h' s)
  | ["clone", i] => do
    let (k, _) ← get st i
    viaPool st (.clone k) "ok"
  | ["drop", i] => do
    let (k, _) ← get st i
    viaPool st (.drop k) "ok"
  | ["read", i, n] => do
    let (k, _) ← get st i; let n ← n.toNat?
    viaPool st (.read k n) "none"
  | ["peek", i, n] => do
    let (k, _) ← get st i; let n ← n.toNat?
    viaPool st (.peek k n) "none"
  | ["seek", i, n] => do
    let (k, _) ← get st i; let n ← n.toNat?
    viaPool st (.seek k n) "none"
  | ["substr", i, a, b] => do
    let (k, _) ← get st i; let a ← a.toNat?; let b ← b.toNat?
    viaPool st (.substr k a b) "none"
  | ["split", i, n] => do
    let (k, _) ← get st i; let n ← n.toNat?
    viaPool st (.split k n) "none"
  | ["detach", i] => do
    let (k, _) ← get st i
    viaPool st (.detach k) "ok"
  | ["invert", i] => do
    let (k, _) ← get st i
    viaPool st (.invert k) "ok"
  | ["append", i, j] => do
    let (k, _) ← get st i; let (m, _) ← get st j
    viaPool st (.append k m) "ok"
  | ["insert", i, n, j] => do
    let (k, _) ← get st i; let n ← n.toNat?; let (m, _) ← get st j
    match st.step (.insert k n m) with
    | none => some (st, "panic")
    | some st' => some (st', match st'.slots[k]? with | some (some _) => "some" | _ => "none")
  | ["eq", i, j] => do
    let (_, s) ← get st i; let (_, t) ← get st j
    match (h.view s).eqWith (h.view t) with
    | .ok b => some (st, if b then "T" else "F")
    | _ => some (st, "panic")
  | ["uint", i, o] => do
    let (_, s) ← get st i; let o ← parseOrder o
    match (h.view s).toUint o with
    | .ok v => some (st, toString v)
    | _ => some (st, "panic")
  | ["int", i, o] => do
    let (_, s) ← get st i; let o ← parseOrder o
    match (h.view s).toInt o with
    | .ok v => some (st, toString v)
    | _ => some (st, "panic")
  | ["hex", i] => do
    let (_, s) ← get st i
    match (h.view s).toHexString with
    | .ok cs => some (st, "x" ++ String.ofList cs)
    | _ => some (st, "panic")
  | ["bytes", i] => do
    let (_, s) ← get st i
    (optBytes (h.view s).toBytes).map fun r => (st, r)
  | ["bytestr", i] => do
    let (_, s) ← get st i
    (optBytes (h.view s).bytestr).map fun r => (st, r)
  | ["slice", i] => do
    let (_, s) ← get st i
    (optBytes (h.view s).slice).map fun r => (st, r)
  | ["pad", i] => do
    let (_, s) ← get st i
    match (h.view s).toBytesWithPadding with
    | .ok bs => some (st, hexBytes bs)
    | _ => some (st, "panic")
  | ["iter8", i] => do
    let (_, s) ← get st i
    match (h.view s).iter8 with
    | .ok items => some (st, "i" ++ ",".intercalate (items.map fun (v, n) => s!"{v}:{n}"))
    | _ => some (st, "panic")
  | ["bits", i] => do
    let (_, s) ← get st i
    match (h.view s).bitsIter with
    | .ok bs => some (st, "b" ++ String.ofList (bs.map fun b => if b == 1 then '1' else if b == 0 then '0' else '?'))
    | _ => some (st, "panic")
  | ["f32", i, o] => do
    let (_, s) ← get st i; let o ← parseOrder o
    match (h.view s).toF32 o with
    | .ok v => some (st, String.ofList (Codec.hexOfNat 8 v))
    | _ => some (st, "panic")
  | ["f64", i, o] => do
    let (_, s) ← get st i; let o ← parseOrder o
    match (h.view s).toF64 o with
    | .ok v => some (st, String.ofList (Codec.hexOfNat 16 v))
    | _ => some (st, "panic")
  | ["flags", i] => do
    let (_, s) ← get st i
    some (st, if (h.view s).isBytestr then "bytestr" else "bits")
  | _ => some (st, "bad-op")

def splitOps (toks : List String) : List (List String) :=
  let rec go : List String → List String → List (List String) → List (List String)
    | [], cur, acc => (cur.reverse :: acc).reverse
    | ";" :: r, cur, acc => go r [] (cur.reverse :: acc)
    | t :: r, cur, acc => go r (t :: cur) acc
  go toks [] []

def run (ops : List (List String)) : String :=
  let rec go : List (List String) → St → List String → List String
    | [], _, acc => acc.reverse
    | op :: r, st, acc =>
      match step st op with
      | none => ("bad-args" :: acc).reverse
      | some (st', res) =>
        if res == "panic" then ("panic" :: acc).reverse
        else go r st' (s!"{res}|{showState st'}" :: acc)
  " ; ".intercalate (go ops {} [])

def handle (args : List String) : String := run (splitOps args)

end Xeh.Driver.C04
