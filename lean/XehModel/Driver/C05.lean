/-
C05 driver — number ↔ bits codecs.

  C05 api  <w> <be|le> <val> p<pre-bits> p<post-bits>
      F = from_int(val,w,o); E = the bits of F embedded after `pre` (and before `post`) in a fresh
      buffer, addressed as the sub-range [|pre|, |pre|+w).   answer: f<hex(F)>:<len> u<E.to_uint> i<E.to_int>
  C05 f32|f64 <be|le> <hexbits> p<pre> p<post>
      F = from_fNN(bits,o); E as above.                        answer: f<hex(F)>:<len> r<E.to_fNN bits>
  C05 word <val> p<pre> p<post> | <pack program> | <read program>
      val = i<dec> or r<16 hex>.  pack program: tokens `big little <n> int! uint! float! uN! iN!
      uNle! … fN! …`; read program: `big little <n> int uint float uN iN fN (le|be)`.
      The packed bit-string is embedded as above, `open-bitstr` is applied to the embedded sub-range
      and the read program runs.                               answer: f<hex>:<len> ok <cell> | err <Xerr>
      (NaNs are compared as a class on this path: `f64 as f32` / `f32 as f64` may quiet a signalling NaN.)

`|pre|+w+|post|` must be a multiple of 8 (the harness pads `post`).
-/
import XehModel.Model.Bitstr
import XehModel.Model.SoftFloat
import XehModel.Driver.Codec
import XehModel.Driver.C04

namespace Xeh.Driver.C05
open Xeh Xeh.Bits Xeh.Bitstr

def parseBits (s : String) : Option (List Bool) :=
  match s.toList with
  | 'p' :: r => if r.all (fun c => c == '0' || c == '1') then some (r.map (· == '1')) else none
  | _ => none

/-- pack a bit list (length multiple of 8) into bytes -/
def bytesOfBits (l : List Bool) : List Nat := (chunks8 l).map beVal

/-- the embedded view: buffer = pre ++ field ++ post, range = the field -/
def embed (pre field post : List Bool) : View :=
  ⟨bytesOfBits (pre ++ field ++ post), pre.length, pre.length + field.length⟩

def fieldOf (h : Heap) (s : Handle) : String := s!"f{C04.packHex (bits h s)}:{s.end_ - s.start}"

/-! ### the thin word layer (bitstr_ext.rs 141–170, 556–600) -/

structure WordSt where
  big : Bool := false
  stack : List Cell := []

inductive Kind where | u | i | f
deriving DecidableEq

/-- `uN iN fN` with optional `le|be` and optional `!` -/
def parseFixed (w : String) : Option (Kind × Nat × Option Byteorder × Bool) :=
  let cs := w.toList
  let (pack, cs) := if cs.getLast? == some '!' then (true, cs.dropLast) else (false, cs)
  match cs with
  | k :: r =>
    let kind? : Option Kind := if k == 'u' then some .u else if k == 'i' then some .i else if k == 'f' then some .f else none
    match kind? with
    | none => none
    | some kind =>
      let digits := r.takeWhile Char.isDigit
      let suffix := r.dropWhile Char.isDigit
      match (String.ofList digits).toNat? with
      | none => none
      | some n =>
        let okN := if kind == .f then n == 32 || n == 64 else n == 8 || n == 16 || n == 32 || n == 64
        if !okN then none
        else if suffix == [] then some (kind, n, none, pack)
        else if suffix == ['l', 'e'] then some (kind, n, some .little, pack)
        else if suffix == ['b', 'e'] then some (kind, n, some .big, pack)
        else none
  | [] => none

def curOrder (st : WordSt) : Byteorder := if st.big then .big else .little

def popUsize (st : WordSt) : Except String (Nat × WordSt) :=
  match st.stack with
  | c :: r =>
    match c.value with
    | .int i => if 0 ≤ i ∧ i < 2 ^ 64 then .ok (i.toNat, { st with stack := r }) else .error "err IntegerOverflow"
    | _ => .error "err TypeError"
  | [] => .error "err StackUnderflow"

/-- `pack_int_bo` / `pack_float_bo`: result is the bit list of the packed value -/
def packWord (kind : Kind) (n : Nat) (o : Byteorder) (st : WordSt) : Except String (List Bool) :=
  match st.stack with
  | [] => .error "err StackUnderflow"
  | c :: _ =>
    match kind with
    | .f =>
      match c.value with
      | .real r =>
        if n == 32 then
          let (h, s) := fromF32 Heap.empty (SF.f64to32 r).toNat o
          .ok (bits h s)
        else if n == 64 then
          let (h, s) := fromF64 Heap.empty r.toNat o
          .ok (bits h s)
        else .error s!"err ErrorMsg:unsupported_float_length_{n}"
      | _ => .error "err TypeError"
    | _ =>
      match c.value with
      | .int v =>
        let (h, s) := fromInt Heap.empty v n o
        .ok (bits h s)
      | _ => .error "err TypeError"

def runPack (toks : List String) : WordSt → Except String (List Bool)
  | st =>
    match toks with
    | [] => .error "bad-args"
    | "big" :: r => runPack r { st with big := true }
    | "little" :: r => runPack r { st with big := false }
    | [w] =>
      if w == "int!" || w == "uint!" || w == "float!" then
        match popUsize st with
        | .error e => .error e
        | .ok (n, st') => packWord (if w == "float!" then .f else .i) n (curOrder st') st'
      else
        match parseFixed w with
        | some (kind, n, bo, true) => packWord kind n (bo.getD (curOrder st)) st
        | _ => .error "unsupported"
    | t :: r =>
      match t.toInt? with
      | some i => runPack r { st with stack := .int i :: st.stack }
      | none => .error "unsupported"

def showReal (r : Nat) : String :=
  if SF.isNaN64 (.ofNat r) then "rNaN" else "r" ++ String.ofList (Codec.hexOfNat 16 r)

/-- `read_unsigned` / `read_signed` / `read_float` on the opened input `inp` (offset = its start) -/
def readWord (kind : Kind) (n : Nat) (o : Byteorder) (inp : View) : String :=
  -- peek_bits: substr(start, start+n) of the input
  match checkedAdd inp.start n with
  | none => s!"err ReadError:{inp.end_ - inp.start}:{n}"
  | some e =>
    if e > inp.end_ then s!"err ReadError:{inp.end_ - inp.start}:{n}"
    else
      let s : View := { inp with end_ := e }
      match kind with
      | .u =>
        if s.len > 127 then "err IntegerOverflow"
        else match s.toUint o with
          | .ok v => s!"ok i{v}"
          | _ => "panic"
      | .i =>
        if s.len > 128 then "err IntegerOverflow"
        else match s.toInt o with
          | .ok v => s!"ok i{v}"
          | _ => "panic"
      | .f =>
        if n == 32 then
          match s.toF32 o with
          | .ok v => "ok " ++ showReal (SF.f32to64 (.ofNat v)).toNat
          | _ => "panic"
        else if n == 64 then
          match s.toF64 o with
          | .ok v => "ok " ++ showReal v
          | _ => "panic"
        else s!"err ErrorMsg:unsupported_float_length_{n}"

def runRead (toks : List String) (inp : View) : WordSt → String
  | st =>
    match toks with
    | [] => "bad-args"
    | "big" :: r => runRead r inp { st with big := true }
    | "little" :: r => runRead r inp { st with big := false }
    | [w] =>
      if w == "int" || w == "uint" || w == "float" then
        match popUsize st with
        | .error e => e
        | .ok (n, st') => readWord (if w == "float" then .f else if w == "int" then .i else .u) n (curOrder st') inp
      else
        match parseFixed w with
        | some (kind, n, bo, false) => readWord kind n (bo.getD (curOrder st)) inp
        | _ => "unsupported"
    | t :: r =>
      match t.toInt? with
      | some i => runRead r inp { st with stack := .int i :: st.stack }
      | none => "unsupported"

def splitBar (toks : List String) : List (List String) :=
  let rec go : List String → List String → List (List String) → List (List String)
    | [], cur, acc => (cur.reverse :: acc).reverse
    | "|" :: r, cur, acc => go r [] (cur.reverse :: acc)
    | t :: r, cur, acc => go r (t :: cur) acc
  go toks [] []

def fieldStr (bs : List Bool) (nanClass : Bool) : String :=
  if nanClass then "fNaN" else s!"f{C04.packHex bs}:{bs.length}"

def handle (args : List String) : String :=
  match args with
  | ["api", w, o, v, pre, post] =>
    match w.toNat?, C04.parseOrder o, v.toInt?, parseBits pre, parseBits post with
    | some w, some o, some v, some pre, some post =>
      let (h, s) := fromInt Heap.empty v w o
      let field := bits h s
      let e := embed pre field post
      match e.toUint o, e.toInt o with
      | .ok u, .ok i => s!"{fieldOf h s} u{u} i{i}"
      | _, _ => "panic"
    | _, _, _, _, _ => "bad-args"
  | [fk, o, hx, pre, post] =>
    match C04.parseOrder o, Codec.natOfHex hx.toList, parseBits pre, parseBits post with
    | some o, some x, some pre, some post =>
      if fk == "f32" then
        let (h, s) := fromF32 Heap.empty x o
        let e := embed pre (bits h s) post
        match e.toF32 o with
        | .ok r => s!"{fieldOf h s} r{String.ofList (Codec.hexOfNat 8 r)}"
        | _ => "panic"
      else if fk == "f64" then
        let (h, s) := fromF64 Heap.empty x o
        let e := embed pre (bits h s) post
        match e.toF64 o with
        | .ok r => s!"{fieldOf h s} r{String.ofList (Codec.hexOfNat 16 r)}"
        | _ => "panic"
      else "bad-op"
    | _, _, _, _ => "bad-args"
  | "word" :: v :: pre :: post :: "|" :: rest =>
    match Codec.readCell v, parseBits pre, parseBits post, splitBar rest with
    | some c, some pre, some post, [packP, readP] =>
      match runPack packP { stack := [c] } with
      | .error e => e
      | .ok field =>
        let nan := match c with | .real r => SF.isNaN64 r | _ => false
        let e := embed pre field post
        s!"{fieldStr field nan} {runRead readP e {}}"
    | _, _, _, _ => "bad-args"
  | _ => "bad-op"

end Xeh.Driver.C05
