/-
C06 driver — one request line = one sequence of words run from the booted state.

  C06 <tok>*          tok ::= p:<cell>            push_data(cell)
                            | open-bitstr@<base>  the word open-bitstr; <base> = start() of the bit-string
                                                   being opened (representation parameter, observed by the harness)
                            | I+ | I-             intercept_output(true/false)
                            | L=<n> | L=-         set_stack_limit(Some(n) / None)
                            | <word>              any modelled word of bitstr_ext.rs

Answer: one report per non-push token, joined by " | ":
  <status> <pos> <remain> <input> k<keep>[ <cell>…]
  status = ok | err:<Xerr> | panic;  pos = offset − input.start();  input = `=` when the input bits are
  the same as at the previous report, else b<bits>;  the data stack is reported as the number of
  cells (from the bottom) kept from the previous report followed by the cells above them.
-/
import XehModel.Model.Cursor
import XehModel.Driver.Codec

namespace Xeh.Driver.C06
open Xeh Xeh.Codec Xeh.Cur

/-- reals are compared bit for bit (NaN payloads included) -/
def canonNaN : Cell → Cell := id

def parseTok (t : String) : Option POp :=
  if t.startsWith "p:" then (readCell (t.drop 2).toString).map POp.push
  else if t.startsWith "open-bitstr@" then (t.drop 12).toString.toNat?.map POp.openBitstr
  else if t = "I+" then some (.intercept true)
  else if t = "I-" then some (.intercept false)
  else if t = "L=-" then some (.limit none)
  else if t.startsWith "L=" then (t.drop 2).toString.toNat?.map fun n => POp.limit (some n)
  else wordOp t

def statusStr : Outcome Unit → String
  | .ok _ => "ok"
  | .err e => "err:" ++ errStr e
  | .panic _ => "panic"

def commonPrefix : List Cell → List Cell → Nat
  | a :: as, b :: bs => if a == b then commonPrefix as bs + 1 else 0
  | _, _ => 0

/-- stack delta against the previous report; stacks are bottom-first here -/
def stackDelta (prev cur : List Cell) : String :=
  let k := commonPrefix prev cur
  let new := (cur.drop k).map cellStr
  " ".intercalate (s!"k{k}" :: new)

def bitsStr (b : List Bool) : String := String.ofList ('b' :: b.map fun x => if x then '1' else '0')

structure Rep where
  prevIn : List Bool := []
  prevDs : List Cell := []
  out : List String := []

def report (r : Rep) (s : CurState) (o : Outcome Unit) : Rep :=
  let ds := (s.ds.map canonNaN).reverse
  let inS := if s.input = r.prevIn then "=" else bitsStr s.input
  let line := s!"{statusStr o} {s.pos} {remainOf s} {inS} {stackDelta r.prevDs ds}"
  { prevIn := s.input, prevDs := ds, out := line :: r.out }

def isPush : POp → Bool
  | .push _ => true
  | _ => false

def runOps : List POp → CurState → Rep → Rep
  | [], _, r => r
  | op :: ops, s, r =>
    let (s1, o) := step s op
    runOps ops s1 (if isPush op then r else report r s1 o)

def handle (args : List String) : String :=
  match args.mapM parseTok with
  | none => "unsupported"
  | some ops => " | ".intercalate (runOps ops CurState.boot {}).out.reverse

end Xeh.Driver.C06
