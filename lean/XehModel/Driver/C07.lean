/-
C07 driver — one request line = one record and one split of it across `emit` calls.

  C07 <field>* / <group size>* @<base> [^<i>,<j>]
     field ::= i:<w>:<s|u>:<b|l>:<g|f|c>:<int>      integer, width, signedness, byte order, word form
             | r:<w>:<b|l>:<g|f|c>:<16 hex>          real (f64 bit pattern), width 32|64 (others: error paths)
             | b:<bits> | s:<hex utf8> | y:<dec>,<dec>… | z:<hex bytes>
     <base> = start() of the packed bit-string when it is opened for parsing
     ^i,j   = pieces [i, j) are wrapped into a nested vector before `>bitstr`

Answer:  P <st> [b<bits>] | V <st> <cells…> R<remain> @<pos> | O <st> [<output cell> <output-length cell>]
  P: pieces of all fields (one interpreter, left to right) collected in a vector, `>bitstr`
  V: on the same interpreter `open-bitstr` of the result, then the matching read words; stack bottom-first
  O: fresh interpreter, interception on, `[ pieces of group ] >bitstr emit` per group, then output / output-length
-/
import XehModel.Model.CursorRecord
import XehModel.Driver.C06

namespace Xeh.Driver.C07
open Xeh Xeh.Codec Xeh.Cur Xeh.Driver.C06

def parseBo : String → Option Bool
  | "b" => some true | "l" => some false | _ => none

def parseForm : String → Option Form
  | "g" => some .generic | "f" => some .fixedBo | "c" => some .fixedCur | _ => none

def hexBytes (cs : List Char) : Option (List Nat) :=
  match cs with
  | [] => some []
  | a :: b :: r => do
    let x ← hexVal a; let y ← hexVal b
    let t ← hexBytes r
    pure ((x * 16 + y) :: t)
  | _ => none

def parseField (t : String) : Option Field :=
  match t.splitOn ":" with
  | ["i", w, sg, bo, fm, v] => do
    let w ← w.toNat?; let bo ← parseBo bo; let fm ← parseForm fm; let v ← v.toInt?
    pure (.int w (sg == "s") bo fm v)
  | ["r", w, bo, fm, x] => do
    let w ← w.toNat?; let bo ← parseBo bo; let fm ← parseForm fm; let x ← natOfHex x.toList
    pure (.flt w bo fm (UInt64.ofNat x))
  | ["b", bits] => if bits.toList.all (fun c => c == '0' || c == '1') then some (.raw (bits.toList.map (· == '1'))) else none
  | ["s", h] => (hexToStr h.toList).map Field.str
  | ["y", l] => ((l.splitOn ",").filter (· ≠ "")).mapM String.toNat? |>.map Field.bytes
  | ["z", h] => (hexBytes h.toList).map Field.cstr
  | _ => none

def st : Outcome α → String
  | .ok _ => "ok"
  | .err e => "err:" ++ errStr e
  | .panic _ => "panic"

def cellsStr (ds : List Cell) : String := " ".intercalate ((ds.map canonNaN).reverse.map cellStr)

/-- wrap pieces `[i, j)` into a nested vector (what `[ a [ b c ] d ]` builds) -/
def nest (cs : List Cell) : Option (Nat × Nat) → List Cell
  | some (i, j) => cs.take i ++ [.vec (CellList.ofList ((cs.take j).drop i))] ++ cs.drop j
  | none => cs

def packPart (fs : List Field) (nz : Option (Nat × Nat)) : CurState × Outcome (List Bool) :=
  match pieces CurState.boot fs with
  | (s1, .ok cs) =>
    match run s1 [.push (.vec (CellList.ofList (nest cs nz))), .toBitstr] with
    | (s2, .ok ()) =>
      match s2.ds with
      | .bitstr b :: r => ({ s2 with ds := r }, .ok b)
      | _ => (s2, .err .internalError)
    | (s2, .err e) => (s2, .err e)
    | (s2, .panic p) => (s2, .panic p)
  | (s1, .err e) => (s1, .err e)
  | (s1, .panic p) => (s1, .panic p)

def handle (args : List String) : String :=
  let (ftoks, rest) := args.span (· ≠ "/")
  let rest := rest.drop 1
  let sizes := (rest.filter (fun t => !t.startsWith "@" && !t.startsWith "^")).mapM String.toNat?
  let nz : Option (Nat × Nat) := (rest.filter (·.startsWith "^")).head?.bind fun t =>
    match ((t.drop 1).toString.splitOn ",").map String.toNat? with
    | [some i, some j] => some (i, j)
    | _ => none
  let base := ((rest.filter (·.startsWith "@")).head?.bind fun t => (t.drop 1).toString.toNat?).getD 0
  match ftoks.mapM parseField, sizes with
  | some fs, some sizes =>
    let (s1, p) := packPart fs nz
    let pStr := match p with
      | .ok b => "P ok " ++ bitsStr b
      | o => "P " ++ st o
    let vStr := match p with
      | .ok b =>
        let s2 := { s1 with ds := [] }
        let (s3, o) := run s2 ([POp.push (.bitstr b), POp.openBitstr base] ++ parseAll fs)
        let cells := cellsStr s3.ds
        s!"V {st o}{if cells.isEmpty then "" else " " ++ cells} R{remainOf s3} @{s3.pos}"
      | _ => "V -"
    let (s4, o) := emitGroups (step CurState.boot (.intercept true)).1 (splitBy sizes fs)
    let oStr := match o with
      | .ok () =>
        let s5 := runAll s4 [.output, .outputLength]
        "O ok " ++ cellsStr (s5.ds.take 2)
      | o => "O " ++ st o
    s!"{pStr} | {vStr} | {oStr}"
  | _, _ => "bad-args"

end Xeh.Driver.C07
