import XehModel.Model.Arith
import XehModel.Driver.Codec

/-!
C08 driver — the small correspondence part of the crash-freedom property.

Request `C08 arith <word> <cell>*` (cells bottom-first, same cell syntax as C09); the answer is the
*outcome class* only: `ok | err | panic`. The implementation side answers with the class it
observed under `catch_unwind` in the debug and the release profile, so a panic that appears in a
modelled function is a model/implementation disagreement whose request line is the replay.
-/
namespace Xeh.Driver.C08
open Xeh Xeh.Codec

def classOf : Outcome (List Cell) → String
  | .ok _ => "ok"
  | .err _ => "err"
  | .panic _ => "panic"

/-- the model's answer for a request that names a modelled arithmetic word -/
def arithAnswer (p : Prog) (cs : List Cell) : String := classOf (p.runStack 0 cs.reverse)

def handle (args : List String) : String :=
  match args with
  | "arith" :: w :: cells =>
    match arithWord w, readCells cells with
    | some p, some cs => arithAnswer p cs
    | none, _ => "unsupported"
    | _, none => "bad-args"
  | _ => "unsupported"

end Xeh.Driver.C08
