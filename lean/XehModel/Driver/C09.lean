import XehModel.Model.Arith
import XehModel.Driver.Codec

namespace Xeh.Driver.C09
open Xeh Xeh.Codec

/-- NaNs are compared as a class (payloads are not modelled) -/
def canonNaN : Cell → Cell
  | .real r => if SF.isNaN64 r then .real 0x7ff8000000000000 else .real r
  | .tagged (.real r) t => if SF.isNaN64 r then .tagged (.real 0x7ff8000000000000) t else .tagged (.real r) t
  | c => c

def canonErr : Xerr → Xerr
  | .typeErrorMsg v m => .typeErrorMsg (canonNaN v) m
  | e => e

/-- `C09 <word> <cell>*` (cells bottom-first) -/
def handle (args : List String) : String :=
  match args with
  | w :: cells =>
    match arithWord w, readCells cells with
    | some p, some cs =>
      match p.runStack 0 cs.reverse with
      | .ok s => outcomeStackStr (.ok (s.map canonNaN))
      | .err e => outcomeStackStr (.err (canonErr e))
      | .panic s => outcomeStackStr (.panic s)
    | none, _ => "unsupported"
    | _, none => "bad-args"
  | _ => "bad-op"

end Xeh.Driver.C09
