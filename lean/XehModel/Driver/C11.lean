import XehModel.Driver.Sess

namespace Xeh.Driver.C11

/-- `C11 sess …`: a history of sources on one interpreter (Driver/Sess.lean) -/
def handle (args : List String) : String :=
  match args with
  | "sess" :: rest => Sess.handle rest
  | _ => "bad-op"

end Xeh.Driver.C11
