import XehModel.Model.Collections
import XehModel.Model.Tags
import XehModel.Driver.Codec

namespace Xeh.Driver.C12
open Xeh Xeh.Codec Xeh.Coll

/-- The answer of the real red-black tree / `slice::sort` is independent of tree shape / algorithm
    (see the header of Model/Collections.lean); otherwise the case is outside the model. -/
def deterministic (w : String) (st : List Cell) : Bool :=
  let mapProbe (key coll : Cell) : Bool :=
    match coll.value with
    | .map m => shapeFree key m.toList
    | _ => true
  let tagProbe (key x : Cell) : Bool :=
    match x.tags with
    | some t => shapeFree key t.toList
    | none => true
  match w, st with
  | "insert", key :: _ :: coll :: _ => mapProbe key coll
  | "remove", key :: coll :: _ => mapProbe key coll
  | "get", key :: coll :: _ => mapProbe key coll
  | "sort", v :: _ => (match v.value with | .vec xs => sortConsistent xs.toList | _ => true)
  | "insert-tag", key :: _ :: x :: _ => tagProbe key x
  | "remove-tag", key :: x :: _ => tagProbe key x
  | "get-tag", key :: x :: _ => tagProbe key x
  | _, _ => true

def answer (o : Outcome (List Cell)) : String :=
  match o with
  | .err (.errorMsg "model:unmodelled-printer") => "unsupported"
  | o => outcomeStackStr o

/-- words of the collection and tag tables: `C12 <word> <cell>*` (cells bottom-first).
    Builder / loop forms, run on the implementation as source text over one pushed vector or map:
    `{}`  = `{ dup unbox } swap drop`        map literal from the cells of the vector
    `[]`  = `[ dup unbox ] swap drop`        vector literal
    `foreach` = `[ dup foreach I loop ] swap drop`   everything `I` pushes, collected -/
def handle (args : List String) : String :=
  match args with
  | w :: cells =>
    match readCells cells with
    | none => "bad-args"
    | some cs =>
      let st := cs.reverse
      match w, st with
      | "{}", [c] =>
        (match c.toVec with
         | .ok v =>
           if mapLiteralShapeFree v.toList [] then
             (match mapLiteral v.toList with
              | .ok m => answer (.ok [m])
              | .err e => answer (.err e)
              | .panic s => answer (.panic s))
           else "unsupported"
         | .err e => answer (.err e)
         | .panic s => answer (.panic s))
      | "[]", [c] =>
        (match c.toVec with
         | .ok v => answer (.ok [.vec v])
         | .err e => answer (.err e)
         | .panic s => answer (.panic s))
      | "foreach", [c] =>
        (match foreachLeaves c with
         | .ok l => answer (.ok [.vec (CellList.ofList l)])
         | .err e => answer (.err e)
         | .panic s => answer (.panic s))
      | _, _ =>
        match (collWord w).orElse (fun _ => tagWord w) with
        | none => "unsupported"
        | some p => if deterministic w st then answer (p.runStack 0 st) else "unsupported"
  | _ => "bad-op"

end Xeh.Driver.C12
