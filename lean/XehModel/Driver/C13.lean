import XehModel.Driver.C09
import XehModel.Driver.C12

namespace Xeh.Driver.C13
open Xeh

/-- `C13 <word> <cell>*` (cells bottom-first): the same request is sent once with tagged and once with
    untagged copies of the arguments; arithmetic words are answered by the C09 model, collection / tag /
    type-predicate words by the C12 model. -/
def handle (args : List String) : String :=
  match args with
  | w :: _ =>
    match arithWord w with
    | some _ => C09.handle args
    | none => C12.handle args
  | _ => "bad-op"

end Xeh.Driver.C13
