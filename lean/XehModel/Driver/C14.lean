import XehModel.Driver.VMCodec
import XehModel.Driver.Sess

namespace Xeh.Driver.C14

/-- `C14 vm …` : machine-level script (see Driver/VMCodec.lean) -/
def handle (args : List String) : String :=
  match args with
  | "vm" :: rest => Xeh.VMCodec.handleVm rest
  | "sess" :: rest => Sess.handle rest
  | _ => "bad-op"

end Xeh.Driver.C14
