/-
C16 driver (also serves the location function of C17 under the same id).

  C16 lex   x<hex utf8 text>                 → items … then `eof` | `err:<msg>:<lo>-<hi>@<start>-<pos>`
      item: W@lo-hi | w@lo-hi | c@lo-hi | L@lo-hi:<cell> | L@lo-hi:R<hex of the text parsed>:<16 hex bits>
  C16 nonws x<hex text>                      → the `next_nonws` sequence (blank/comment tokens skipped)
  C16 loc   x<hex text> <byte offset>        → `ok <line> <col> <lineLo> <lineHi> x<hex whole_line>` | `panic`
  C16 print <raw fmt flags> <cell>           → `ok x<hex>` | `unsupported`
-/
import XehModel.Model.Lex
import XehModel.Model.LexReal
import XehModel.Model.Print
import XehModel.Driver.Codec

namespace Xeh.Driver.C16
open Xeh Xeh.Codec Xeh.Lex

def readText (s : String) : Option (List Char) :=
  match s.toList with
  | 'x' :: h => hexToStr h
  | _ => none

def hexText (s : List Char) : String := "x" ++ String.ofList (strToHex s)

def bitsHex (b : UInt64) : String := String.ofList (hexOfNat 16 b.toNat)

def itemStr (it : Item) : String :=
  let rng := s!"@{it.lo}-{it.hi}"
  match it.tok with
  | .eof => "E" ++ rng
  | .word _ => "w" ++ rng
  | .ws _ => "W" ++ rng
  | .comment _ => "c" ++ rng
  | .lit c => "L" ++ rng ++ ":" ++ cellStr c
  | .realLit t =>
    let bits := match decToF64 t with
      | some b => bitsHex b
      | none => "invalid"
    "L" ++ rng ++ ":R" ++ String.ofList (strToHex t) ++ ":" ++ bits

def errStr' (e : LexErr) (lo hi : Nat) : String :=
  s!"err:{us e.kind.msg}:{e.lo}-{e.hi}@{lo}-{hi}"

def runStr (r : Run) : String :=
  let items := r.items.map itemStr
  let fin := match r.err with
    | none => "eof"
    | some (e, _, lo, hi) => errStr' e lo hi
  " ".intercalate (items ++ [fin])

/-- drive `next_nonws` to the end -/
def nonwsRun : Nat → Lex → List String → List String
  | 0, _, acc => acc.reverse
  | n + 1, lx, acc =>
    match lx.nextNonws with
    | none => ("fuel" :: acc).reverse
    | some (.ok .eof, _) => ("eof" :: acc).reverse
    | some (.ok t, lx') => nonwsRun n lx' (itemStr ⟨t, lx'.last, lx'.startPos, lx'.pos⟩ :: acc)
    | some (.error e, lx') => (errStr' e lx'.startPos lx'.pos :: acc).reverse

def handle (args : List String) : String :=
  match args with
  | ["lex", t] =>
    match readText t with
    | some text => runStr (run text)
    | none => "bad-args"
  | ["nonws", t] =>
    match readText t with
    | some text => " ".intercalate (nonwsRun (text.length + 1) (Lex.new text) [])
    | none => "bad-args"
  | ["loc", t, off] =>
    match readText t, off.toNat? with
    | some text, some o =>
      match tokenLocation text o with
      | .ok (l, wl) => s!"ok {l.line} {l.col} {l.lineLo} {l.lineHi} {hexText wl}"
      | .err _ => "err"
      | .panic _ => "panic"
    | _, _ => "bad-args"
  | ["print", raw, c] =>
    match raw.toNat?, readCell c with
    | some r, some cell =>
      match Print.printCell (Print.Flags.ofRaw r) cell with
      | some s => "ok " ++ hexText s
      | none => "unsupported"
    | _, _ => "bad-args"
  | _ => "bad-op"

end Xeh.Driver.C16
