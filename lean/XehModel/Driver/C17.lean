import XehModel.Driver.C01
import XehModel.Model.Lex

namespace Xeh.Driver.C17
open Xeh Xeh.Codec Xeh.VMCodec Xeh.Compile

/-- `C17 fail text=<hex source> toks=<tok@start-end|…> nsrc=<k> <machine setup>`:
    build and run the source on top of the given machine; on failure report the error, the blamed
    token, and the location the model computes for it:
    `err <kind> tok=<i> file=<buffer#k> line=<l> col=<c> whole=<hex>` -/
structure Req where
  base : C01.Req := {}
  text : List Char := []
  ranges : List (Nat × Nat) := []
  nsrc : Nat := 0

def parseRange (s : String) : Option (Nat × Nat) :=
  match s.splitOn "-" with
  | [a, b] => do let x ← a.toNat?; let y ← b.toNat?; pure (x, y)
  | _ => none

def splitTok (s : String) : Option (String × (Nat × Nat)) :=
  match s.splitOn "@" with
  | [t, r] => (parseRange r).map fun rr => (t, rr)
  | _ => none

def applyKV (r : Req) (kv : String) : Option Req :=
  let (k, v) := splitKV kv
  match k with
  | "text" => (hexToStr v.toList).map fun t => { r with text := t }
  | "nsrc" => v.toNat?.map fun n => { r with nsrc := n }
  | "toks" =>
    if v.isEmpty then some r else do
      let parts ← (v.splitOn "|").mapM splitTok
      let toks ← parts.mapM fun p => C01.parseTok p.1
      pure { r with base := { r.base with toks := toks }, ranges := parts.map (·.2) }
  | _ => (C01.applyKV r.base kv).map fun b => { r with base := b }

def locStr (r : Req) (tok : Nat) : String :=
  let start := match r.ranges[tok]? with
    | some (s, _) => s
    | none => utf8Len r.text      -- the empty token at the end of the text
  match Lex.tokenLocation r.text start with
  | .ok (loc, whole) => s!"file=<buffer#{r.nsrc}> line={loc.line} col={loc.col} whole={String.ofList (strToHex whole)}"
  | _ => "loc-panic"

def handleFail (r : Req) : String :=
  match C01.compile r.base with
  | .unsupported _ => "unsupported"
  | .err e _ => s!"builderr {errStr e.err} tok={e.tok} {locStr r e.tok}"
  | .ok s =>
    let m := r.base.setup.m
    let m1 : Mach := { m with code := s.code, dict := s.dict,
                              heap := m.heap ++ List.replicate (s.heapLen - m.heap.length) Cell.nil,
                              ctx := { m.ctx with ip := m.code.length } }
    match Mach.run nativeProg runFuel m1 with
    | none => "timeout"
    | some (.panic p, _) => if p.startsWith "model:" then "unsupported" else "panic"
    | some (.ok _, _) => "ok"
    | some (.err e, m2) =>
      if isModelGap (.err e : Outcome Unit) then "unsupported" else
      match s.dmap[m2.ctx.ip]? with
      | some tok => if m2.ctx.ip < m.code.length then "unsupported" else s!"err {errStr e} tok={tok} {locStr r tok}"
      | none => "unsupported"

def handle (args : List String) : String :=
  match args with
  | "fail" :: rest =>
    match rest.foldlM applyKV {} with
    | some r => handleFail r
    | none => "bad-args"
  | _ => "bad-op"

end Xeh.Driver.C17
