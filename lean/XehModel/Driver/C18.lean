import XehModel.Model.Enc
import XehModel.Driver.Codec

namespace Xeh.Driver.C18
open Xeh Xeh.Codec Xeh.Enc

def word (w : String) : Option Prog :=
  if w == ">bitstr" then some wordIntoBitstr else encWord w

/-- `C18 <word> <cell>*` (cells bottom-first) → canonical outcome + stack -/
def handle (args : List String) : String :=
  match args with
  | w :: cells =>
    match word w, readCells cells with
    | some p, some cs => outcomeStackStr (p.runStack 0 cs.reverse)
    | none, _ => "unsupported"
    | _, none => "bad-args"
  | _ => "bad-op"

end Xeh.Driver.C18
