/-
Canonical text form of values, errors and outcomes — the line protocol of Tie A.
Implemented twice: here and in /verif/harness/src/canon.rs. No whitespace inside a value.

  N | T | F | i<dec> | r<16 hex> | s<hex utf8> | v(c,c,…) | m(k:v,…) | b<01…> | f<n> | x<n> | a
  | t(<value>;k:v,…)
-/
import XehModel.Model.Value

namespace Xeh.Codec

def hexDigit (n : Nat) : Char :=
  if n < 10 then Char.ofNat (48 + n) else Char.ofNat (87 + n)

def hexVal (c : Char) : Option Nat :=
  if '0' ≤ c ∧ c ≤ '9' then some (c.toNat - 48)
  else if 'a' ≤ c ∧ c ≤ 'f' then some (c.toNat - 87)
  else if 'A' ≤ c ∧ c ≤ 'F' then some (c.toNat - 55)
  else none

def hexByte (b : Nat) : List Char := [hexDigit (b / 16), hexDigit (b % 16)]

def hexOfNat (width : Nat) (n : Nat) : List Char :=
  (List.range width).reverse.map fun i => hexDigit ((n / 16^i) % 16)

def strToHex (s : List Char) : List Char :=
  (String.ofList s).toUTF8.toList.flatMap fun b => hexByte b.toNat

def natOfHex (cs : List Char) : Option Nat :=
  cs.foldl (fun acc c => do let a ← acc; let d ← hexVal c; pure (a * 16 + d)) (some 0)

def hexToStr (cs : List Char) : Option (List Char) :=
  let rec go : List Char → List UInt8 → Option (List UInt8)
    | [], acc => some acc.reverse
    | [_], _ => none
    | a :: b :: r, acc => do
      let x ← hexVal a; let y ← hexVal b
      go r (UInt8.ofNat (x * 16 + y) :: acc)
  do
    let bytes ← go cs []
    let ba := ByteArray.mk bytes.toArray
    let s ← String.fromUTF8? ba
    pure s.toList

mutual
partial def showCell : Cell → List Char
  | .nil => ['N']
  | .flag true => ['T']
  | .flag false => ['F']
  | .int i => 'i' :: (toString i).toList
  | .real r => 'r' :: hexOfNat 16 r.toNat
  | .str s => 's' :: strToHex s
  | .vec xs => 'v' :: '(' :: showCells xs.toList ++ [')']
  | .map kv => 'm' :: '(' :: showPairs kv.toList ++ [')']
  | .fn false a => 'f' :: (toString a).toList
  | .fn true a => 'x' :: (toString a).toList
  | .bitstr bs => 'b' :: bs.map fun b => if b then '1' else '0'
  | .any _ => ['a']
  | .tagged v t => 't' :: '(' :: showCell v ++ ';' :: showPairs t.toList ++ [')']
partial def showCells : List Cell → List Char
  | [] => []
  | [c] => showCell c
  | c :: cs => showCell c ++ ',' :: showCells cs
partial def showPairs : List (Cell × Cell) → List Char
  | [] => []
  | [(k, v)] => showCell k ++ ':' :: showCell v
  | (k, v) :: r => showCell k ++ ':' :: showCell v ++ ',' :: showPairs r
end

def cellStr (c : Cell) : String := String.ofList (showCell c)

def isStop (c : Char) : Bool := c == ',' || c == ')' || c == ':' || c == ';'

def takeAtom (cs : List Char) : List Char × List Char := cs.span (fun c => !isStop c)

mutual
partial def parseCell : List Char → Option (Cell × List Char)
  | 'N' :: r => some (.nil, r)
  | 'T' :: r => some (.flag true, r)
  | 'F' :: r => some (.flag false, r)
  | 'a' :: r => some (.any 0, r)
  | 'i' :: r =>
    let (a, rest) := takeAtom r
    (String.ofList a).toInt?.map fun i => (.int i, rest)
  | 'r' :: r =>
    let (a, rest) := takeAtom r
    (natOfHex a).map fun n => (.real (UInt64.ofNat n), rest)
  | 's' :: r =>
    let (a, rest) := takeAtom r
    (hexToStr a).map fun s => (.str s, rest)
  | 'b' :: r =>
    let (a, rest) := takeAtom r
    if a.all (fun c => c == '0' || c == '1') then some (.bitstr (a.map (· == '1')), rest) else none
  | 'f' :: r =>
    let (a, rest) := takeAtom r
    (String.ofList a).toNat?.map fun n => (.fn false n, rest)
  | 'x' :: r =>
    let (a, rest) := takeAtom r
    (String.ofList a).toNat?.map fun n => (.fn true n, rest)
  | 'v' :: '(' :: r => do
    let (xs, rest) ← parseCells r
    pure (.vec (CellList.ofList xs), rest)
  | 'm' :: '(' :: r => do
    let (kv, rest) ← parsePairs r
    pure (.map (PairList.ofList kv), rest)
  | 't' :: '(' :: r => do
    let (v, r1) ← parseCell r
    match r1 with
    | ';' :: r2 => do
      let (kv, rest) ← parsePairs r2
      pure (.tagged v (PairList.ofList kv), rest)
    | _ => none
  | _ => none
partial def parseCells : List Char → Option (List Cell × List Char)
  | ')' :: r => some ([], r)
  | cs => do
    let (c, r) ← parseCell cs
    match r with
    | ',' :: r' => do
      let (xs, rest) ← parseCells r'
      pure (c :: xs, rest)
    | ')' :: r' => pure ([c], r')
    | _ => none
partial def parsePairs : List Char → Option (List (Cell × Cell) × List Char)
  | ')' :: r => some ([], r)
  | cs => do
    let (k, r) ← parseCell cs
    match r with
    | ':' :: r1 => do
      let (v, r2) ← parseCell r1
      match r2 with
      | ',' :: r3 => do
        let (xs, rest) ← parsePairs r3
        pure ((k, v) :: xs, rest)
      | ')' :: r3 => pure ([(k, v)], r3)
      | _ => none
    | _ => none
end

def readCell (s : String) : Option Cell :=
  match parseCell s.toList with
  | some (c, []) => some c
  | _ => none

def readCells (ws : List String) : Option (List Cell) := ws.mapM readCell

def us (s : String) : String := s.map fun c => if c == ' ' || c == '\n' then '_' else c

def errStr : Xerr → String
  | .unknownWord n => s!"UnknownWord:{String.ofList (strToHex n)}"
  | .parseError m => s!"ParseError:{us m}"
  | .strDecodeError => "StrDecodeError"
  | .expectingName => "ExpectingName"
  | .expectingLiteral => "ExpectingLiteral"
  | .controlFlow m => s!"ControlFlowError:{us m}"
  | .integerOverflow => "IntegerOverflow"
  | .divisionByZero => "DivisionByZero"
  | .stackUnderflow => "StackUnderflow"
  | .returnStackUnderflow => "ReturnStackUnderflow"
  | .loopStackUnderflow => "LoopStackUnderflow"
  | .typeError => "TypeError"
  | .typeErrorMsg v m => s!"TypeErrorMsg:{cellStr v}:{us m}"
  | .typeNotSupported v => s!"TypeNotSupported:{cellStr v}"
  | .ioError => "IOError"
  | .outOfBounds i lo hi => s!"OutOfBounds:{i}:{lo}..{hi}"
  | .assertFailed => "AssertFailed"
  | .assertEqFailed a b => s!"AssertEqFailed:{cellStr a}:{cellStr b}"
  | .internalError => "InternalError"
  | .readError r l => s!"ReadError:{r}:{l}"
  | .seekError o => s!"SeekError:{o}"
  | .matchError p => s!"MatchError:{p}"
  | .toBytestrError => "ToBytestrError"
  | .bitstrSliceError => "BitstrSliceError"
  | .errorMsg m => s!"ErrorMsg:{us m}"
  | .userError c => s!"UserError:{cellStr c}"
  | .exit c => s!"Exit:{c}"

/-- stack printed bottom-first (source order) -/
def stackStr (s : List Cell) : String := " ".intercalate (s.reverse.map cellStr)

def outcomeStackStr : Outcome (List Cell) → String
  | .ok s => if s.isEmpty then "ok" else "ok " ++ stackStr s
  | .err e => "err " ++ errStr e
  | .panic _ => "panic"

end Xeh.Codec
