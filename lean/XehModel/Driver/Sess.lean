import XehModel.Model.Session
import XehModel.Driver.C01

/-! `sess` requests (shared by C10 and C11): a history of sources submitted to one interpreter.

    `<PID> sess dict=… heap=… lim=… ops=<op>;<op>;…`   op = `e:<toks>` (eval) | `c:<toks>` (compile) |
    `r` (run) | `a` (abort_run) | `l:<toks>` (a REPL line: compile, run, abort_run when the run fails)
    answer: `<result>@<state>` per op, joined by `;`, then `#code=<final bytecode>` -/
namespace Xeh.Driver.Sess
open Xeh Xeh.Codec Xeh.VMCodec Xeh.Compile Xeh.Session

def modeStr : Mode → String
  | .eval => "eval" | .compile => "compile" | .metaEval => "meta"

def relDi (dict0 n : Nat) : String := if n ≥ dict0 && n != 0 then s!"+{n - dict0}" else s!"abs{n}"

def digest (dict0 : Nat) (s : Sess) : String :=
  let c := s.m.ctx
  s!"{dump true s.m},mode={modeStr c.mode},nested={s.nested.length},flows={s.flows.length},code={s.m.code.length},dmap={s.dmap.length},dict=+{s.m.dict.length - dict0},marks={c.dsLen}/{c.csLen}/{c.rsLen}/{c.fsLen}/{c.lsLen}/{c.ssPtr}/{relDi dict0 c.diLen}"

inductive OpRes where
  | ans (text : String) (s : Sess)
  | unsupported (why : String)
  | timeout

def ofB (dict0 : Nat) : Sess.BRes → OpRes
  | .done s => .ans s!"ok@{digest dict0 s}" s
  | .rejected e s => .ans s!"rej {errStr e}@{digest dict0 s}" s
  | .failed e s => .ans s!"fail {errStr e}@{digest dict0 s}" s
  | .panic _ s => .ans s!"panic@" s
  | .unsupported u => .unsupported u
  | .timeout => .timeout

def runOp (dict0 : Nat) (s : Sess) : OpRes :=
  match s.runS runFuel with
  | .ok s => .ans s!"ok@{digest dict0 s}" s
  | .err e s => .ans s!"fail {errStr e}@{digest dict0 s}" s
  | .panic _ s => .ans "panic@" s
  | .unsupported u => .unsupported u
  | .timeout => .timeout

def doOp (dict0 : Nat) (s : Sess) (op : String) : OpRes :=
  if op == "r" then runOp dict0 s
  else if op == "a" then let s := s.abortRun; .ans s!"ok@{digest dict0 s}" s
  else
    match op.splitOn ":" with
    | [k, t] =>
      match C01.parseToks t with
      | none => .unsupported "token"
      | some toks =>
        if k == "e" then ofB dict0 (s.buildSource runFuel .eval toks)
        else if k == "c" then ofB dict0 (s.buildSource runFuel .compile toks)
        else if k == "l" then
          -- a REPL line: compile, then run; a failure of the run is followed by abort_run (a rejected line is not)
          match s.buildSource runFuel .compile toks with
          | .done s1 =>
            match s1.runS runFuel with
            | .ok s2 => .ans s!"ok@{digest dict0 s2}" s2
            | .err e s2 => let s3 := s2.abortRun; .ans s!"fail {errStr e}@{digest dict0 s3}" s3
            | .panic _ s2 => .ans "panic@" s2
            | .unsupported u => .unsupported u
            | .timeout => .timeout
          | .rejected e s1 => .ans s!"rej {errStr e}@{digest dict0 s1}" s1
          | .failed e s1 => let s2 := s1.abortRun; .ans s!"fail {errStr e}@{digest dict0 s2}" s2
          | .panic _ s1 => .ans "panic@" s1
          | .unsupported u => .unsupported u
          | .timeout => .timeout
        else .unsupported "op"
    | _ => .unsupported "op"

def runOps (dict0 : Nat) : List String → Sess → List String → Except String (List String × Sess)
  | [], s, acc => .ok (acc.reverse, s)
  | op :: rest, s, acc =>
    match doOp dict0 s op with
    | .ans t s' => if t == "panic@" then .ok ((t :: acc).reverse, s') else runOps dict0 rest s' (t :: acc)
    | .unsupported u => .error u
    | .timeout => .error "timeout"

structure Req where
  ops : List String := []
  setup : Setup := {}

def applyKV (r : Req) (kv : String) : Option Req :=
  let (k, v) := splitKV kv
  if k == "ops" then some { r with ops := if v.isEmpty then [] else v.splitOn ";" }
  else (VMCodec.applyKV r.setup kv).map fun s => { r with setup := s }

def handle (args : List String) : String :=
  match args.foldlM applyKV {} with
  | none => "bad-args"
  | some r =>
    let m := r.setup.m
    let s0 : Sess := { m := m, dmap := List.replicate m.code.length 0 }
    match runOps m.dict.length r.ops s0 [] with
    | .error u => "unsupported:" ++ (u.replace " " "_")
    | .ok (ans, s) => ";".intercalate ans ++ s!"#code={showCode s.m.code}"

end Xeh.Driver.Sess
