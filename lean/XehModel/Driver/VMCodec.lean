/-
Line protocol for machine-level requests (shared by C01 C02 C14 C15 …):

  <PID> vm code=<op|op|…> heap=v(…) ds=v(…) hid=<n> ip=<n> rec=<0|1> lim=<i>/<s>/<h> dict=<e|e|…> view=<full|core> script=<cmd,cmd,…>

ops as rendered by harness/src/vmcanon.rs from `verif_code()`:  kind  or  kind=arg
script commands: n (next)  r (rnext)  R (run, fuel-bounded)  li=<n|-> ls=<n|-> lh=<n|-> (set limits)  rec=<0|1>
answer: `<outcome>@<dump>` per command joined by ` ; `
-/
import XehModel.Model.VM
import XehModel.Model.NativeTable
import XehModel.Driver.Codec

namespace Xeh.VMCodec
open Xeh Xeh.Codec

def splitKV (s : String) : String × String :=
  match s.splitOn "=" with
  | k :: rest => (k, "=".intercalate rest)
  | [] => (s, "")

def unhexStr (s : String) : Option String := (hexToStr s.toList).map String.ofList

def parseOp (s : String) : Option Op :=
  let (k, a) := splitKV s
  match k with
  | "nop" => some .nop
  | "ret" => some .ret
  | "loadnil" => some .loadNil
  | "call" => a.toNat?.map .call
  | "resolve" => (unhexStr a).map .resolve
  | "native" => (unhexStr a).map .native
  | "jumpif" => a.toInt?.map .jumpIf
  | "jumpifnot" => a.toInt?.map .jumpIfNot
  | "jump" => a.toInt?.map .jump
  | "do" => a.toInt?.map .doOp
  | "break" => a.toInt?.map .breakOp
  | "loop" => a.toInt?.map .loopOp
  | "caseof" => a.toInt?.map .caseOf
  | "load" => a.toNat?.map .load
  | "store" => a.toNat?.map .store
  | "initlocal" => a.toNat?.map .initLocal
  | "loadlocal" => a.toNat?.map .loadLocal
  | "loadi64" => a.toInt?.map .loadI64
  | "loadf64" => match readCell a with | some (.real r) => some (.loadF64 r) | _ => none
  | "loadstr" => match readCell a with | some (.str x) => some (.loadStr x) | _ => none
  | "loadcell" => (readCell a).map .loadCell
  | _ => none

def showOp : Op → String
  | .nop => "nop" | .ret => "ret" | .loadNil => "loadnil"
  | .call a => s!"call={a}"
  | .resolve n => s!"resolve={String.ofList (strToHex n.toList)}"
  | .native n => s!"native={String.ofList (strToHex n.toList)}"
  | .jumpIf r => s!"jumpif={r}" | .jumpIfNot r => s!"jumpifnot={r}" | .jump r => s!"jump={r}"
  | .doOp r => s!"do={r}" | .breakOp r => s!"break={r}" | .loopOp r => s!"loop={r}" | .caseOf r => s!"caseof={r}"
  | .load i => s!"load={i}" | .store i => s!"store={i}" | .initLocal i => s!"initlocal={i}" | .loadLocal i => s!"loadlocal={i}"
  | .loadI64 i => s!"loadi64={i}"
  | .loadF64 r => s!"loadf64={cellStr (.real r)}"
  | .loadStr x => s!"loadstr={cellStr (.str x)}"
  | .loadCell c => s!"loadcell={cellStr c}"

def showCode (c : List Op) : String := "|".intercalate (c.map showOp)

def parseCode (s : String) : Option (List Op) :=
  if s.isEmpty then some [] else (s.splitOn "|").mapM parseOp

def parseCellList (s : String) : Option (List Cell) :=
  match readCell s with
  | some (.vec xs) => some xs.toList
  | _ => none

def parseOptNat (s : String) : Option (Option Nat) :=
  if s == "-" then some none else s.toNat?.map some

/-- `name~kind~imm~num~cell~native` -/
def parseEntry (s : String) : Option (String × Entry) :=
  match s.splitOn "~" with
  | [n, kind, imm, num, cell, nat] => do
    let name ← unhexStr n
    match kind with
    | "const" => (readCell cell).map fun c => (name, .const c)
    | "var" => num.toNat?.map fun i => (name, .var i)
    | "interp" => num.toNat?.map fun a => (name, .interp (imm == "1") a)
    | "native" => (unhexStr nat).map fun x => (name, .native (imm == "1") x)
    | _ => none
  | _ => none

def vecStr (xs : List Cell) : String := cellStr (.vec (CellList.ofList xs))

def frameStr (f : Frame) : String := s!"{f.fnAddr}:{f.returnTo}:{vecStr f.locals}"
def loopStr (l : Loop) : String := s!"{cellStr l.items}:{l.start}:{l.stop}"

def plus (xs : List String) : String := if xs.isEmpty then "-" else "+".intercalate xs

/-- canonical dump; stacks bottom-first like the Rust `Vec`s -/
def dump (full : Bool) (m : Mach) : String :=
  let vis := (m.ds.take (m.ds.length - m.ctx.dsLen)).reverse
  let hid := (m.ds.drop (m.ds.length - m.ctx.dsLen)).reverse
  let core := s!"ip={m.ctx.ip},ds={vecStr vis},hid={vecStr hid},rs={plus (m.rs.reverse.map frameStr)},lp={plus (m.loops.reverse.map loopStr)},sp={plus (m.special.reverse.map toString)},heap={vecStr m.heap}"
  if full then
    s!"{core},meter={m.meter},log={match m.log with | some l => toString l.length | none => "-"},out={String.ofList (strToHex m.out)},stop={if m.aboutToStop then 1 else 0}"
  else core

def outcomeStr : Outcome Unit → String
  | .ok _ => "ok"
  | .err e => "err " ++ errStr e
  | .panic _ => "panic"

structure Setup where
  m : Mach := {}
  full : Bool := true
  script : List String := []

def applyKV (st : Setup) (kv : String) : Option Setup :=
  let (k, v) := splitKV kv
  match k with
  | "code" => (parseCode v).map fun c => { st with m := { st.m with code := c } }
  | "heap" => (parseCellList v).map fun h => { st with m := { st.m with heap := h } }
  | "ds" => (parseCellList v).map fun d => { st with m := { st.m with ds := d.reverse ++ st.m.ds } }
  | "hidden" => (parseCellList v).map fun d =>
      { st with m := { st.m with ds := st.m.ds ++ d.reverse, ctx := { st.m.ctx with dsLen := d.length } } }
  | "ip" => v.toNat?.map fun n => { st with m := { st.m with ctx := { st.m.ctx with ip := n } } }
  | "rec" => some { st with m := { st.m with log := if v == "1" then some [] else none } }
  | "mode" => some { st with m := { st.m with ctx := { st.m.ctx with mode := if v == "meta" then .metaEval else if v == "compile" then .compile else .eval } } }
  | "lim" =>
    match v.splitOn "/" with
    | [i, s, h] => do
      let i ← parseOptNat i; let s ← parseOptNat s; let h ← parseOptNat h
      pure { st with m := { st.m with insnLimit := i, stackLimit := s, heapLimit := h } }
    | _ => none
  | "meter" => v.toNat?.map fun n => { st with m := { st.m with meter := n } }
  | "dict" =>
    if v.isEmpty then some st
    else ((v.splitOn "|").mapM parseEntry).map fun es => { st with m := { st.m with dict := es.reverse } }
  | "view" => some { st with full := v != "core" }
  | "script" => some { st with script := if v.isEmpty then [] else v.splitOn "," }
  | _ => none

def parseSetup (args : List String) : Option Setup :=
  args.foldlM applyKV {}

def runFuel : Nat := 200000

/-- one script command; `none` = unsupported (native outside the model) -/
def command (m : Mach) (c : String) : Option (String × Mach) :=
  let fin (r : R Unit) : Option (String × Mach) :=
    match r with
    | (o, m') => if isModelGap o then none else some (outcomeStr o, m')
  match c with
  | "n" => fin (m.next nativeProg)
  | "r" => fin m.rnext
  | "R" =>
    match Mach.run nativeProg runFuel m with
    | some r => fin r
    | none => some ("timeout", m)
  | _ =>
    let (k, v) := splitKV c
    match k, parseOptNat v with
    | "li", some l => some ("ok", m.setInsnLimit l)
    | "ls", some l => some ("ok", m.setStackLimit l)
    | "lh", some l => some ("ok", m.setHeapLimit l)
    | "rec", _ => some ("ok", m.setRecording (v == "1"))
    | _, _ => none

def runScript (full : Bool) : List String → Mach → List String → Option (List String)
  | [], _, acc => some acc.reverse
  | c :: cs, m, acc =>
    match command m c with
    | none => none
    | some (o, m') => runScript full cs m' (s!"{o}@{dump full m'}" :: acc)

/-- `<PID> vm …` -/
def handleVm (args : List String) : String :=
  match parseSetup args with
  | none => "bad-args"
  | some st =>
    match runScript st.full st.script st.m [] with
    | none => "unsupported"
    | some outs => " ; ".intercalate outs

end Xeh.VMCodec
