/-
L3: arithmetic, comparison, logical and bitwise words — src/arith.rs.

Models the tree *after* the C09 repairs (integer `/` overflow, `rem` by zero, `abs` of i128::MIN
are errors, `zero? positive? negative?` report the popped operand).
-/
import XehModel.Model.Prog
import XehModel.Model.SoftFloat

namespace Xeh
open Prog

def numErr (val : Cell) : Xerr := .typeErrorMsg val "num"

/-- two's complement bitwise operations on Int restricted to 128 bits -/
def toU128 (x : Int) : Nat := (x % 2^128).toNat
def ofU128 (n : Nat) : Int := wrap128 (n : Int)

def band128 (a b : Int) : Int := ofU128 (toU128 a &&& toU128 b)
def bor128 (a b : Int) : Int := ofU128 (toU128 a ||| toU128 b)
def bxor128 (a b : Int) : Int := ofU128 (toU128 a ^^^ toU128 b)
def bnot128 (a : Int) : Int := -a - 1

def popcount : Nat → Nat → Nat
  | 0, _ => 0
  | fuel + 1, n => if n = 0 then 0 else n % 2 + popcount fuel (n / 2)

def popcnt128 (a : Int) : Int := (popcount 128 (toU128 a) : Nat)

/-- `b as u32` then `wrapping_shl/shr` masks the count with 127 -/
def shiftCount (b : Int) : Nat := ((b % 2^32) % 128).toNat

def shl128 (a b : Int) : Int := wrap128 (a * 2^(shiftCount b))
/-- arithmetic shift right = floor division by a power of two -/
def shr128 (a b : Int) : Int := a / 2^(shiftCount b)

/-- integer / real binary word of `arithmetic_ops_real`: dispatch on the *right* operand -/
def arithOpsReal (fi : Int → Int → Int) (fr : UInt64 → UInt64 → UInt64) : Prog :=
  .pop fun b => .pop fun a =>
    match b.value with
    | .int bi => ofOutcome a.toXint fun ai => .push (.int (fi ai bi)) .done
    | .real br => ofOutcome a.toReal fun ar => .push (.real (fr ar br)) .done
    | _ => .fail (numErr b)

def arithOpsInt (fi : Int → Int → Int) : Prog :=
  .pop fun b => ofOutcome b.toXint fun bi =>
  .pop fun a => ofOutcome a.toXint fun ai =>
    .push (.int (fi ai bi)) .done

def wordAdd : Prog := arithOpsReal (fun a b => wrap128 (a + b)) SF.add64
def wordSub : Prog := arithOpsReal (fun a b => wrap128 (a - b)) SF.sub64
def wordMul : Prog := arithOpsReal (fun a b => wrap128 (a * b)) SF.mul64

def wordDiv : Prog :=
  .pop fun b => .pop fun a =>
    match b.value with
    | .int bi => ofOutcome a.toXint fun ai =>
        if bi = 0 then .fail .divisionByZero
        else if InRange (ai.tdiv bi) then .push (.int (ai.tdiv bi)) .done
        else .fail .integerOverflow
    | .real br => ofOutcome a.toReal fun ar =>
        if SF.isZero64 br then .fail .divisionByZero
        else .push (.real (SF.div64 ar br)) .done
    | _ => .fail (numErr b)

def wordRem : Prog :=
  .pop fun b => .pop fun a =>
    match b.value with
    | .int bi => ofOutcome a.toXint fun ai =>
        if bi = 0 then .fail .divisionByZero
        else .push (.int (wrap128 (ai.tmod bi))) .done
    | .real br => ofOutcome a.toReal fun ar => .push (.real (SF.rem64 ar br)) .done
    | _ => .fail (numErr b)

def wordNeg : Prog :=
  .pop fun a =>
    match a.value with
    | .int ai => if InRange (-ai) then .push (.int (-ai)) .done else .fail .integerOverflow
    | .real ar => .push (.real (SF.neg64 ar)) .done
    | _ => .fail (numErr a)

def wordAbs : Prog :=
  .pop fun a =>
    match a.value with
    | .int ai => if InRange (Int.natAbs ai : Int) then .push (.int (Int.natAbs ai : Int)) .done
                 else .fail .integerOverflow
    | .real ar => .push (.real (SF.abs64 ar)) .done
    | _ => .fail (numErr a)

/-- `compare_cells` then one of the six tests -/
def wordCmp (test : Ordering → Bool) : Prog :=
  .pop fun b => .pop fun a =>
    match b.value with
    | .int bi => ofOutcome a.toXint fun ai => .push (.flag (test (compare ai bi))) .done
    | .real br => ofOutcome a.toReal fun ar =>
        let o := if SF.lt64 ar br then Ordering.lt else if SF.lt64 br ar then .gt else .eq
        .push (.flag (test o)) .done
    | _ => .fail (numErr b)

def wordMin : Prog := arithOpsReal (fun a b => if a ≤ b then a else b) SF.min64
def wordMax : Prog := arithOpsReal (fun a b => if a ≤ b then b else a) SF.max64

def wordNot : Prog := .pop fun a => ofOutcome a.toBool fun f => .push (.flag (!f)) .done

def wordLogic (f : Bool → Bool → Bool) : Prog :=
  .pop fun b => .pop fun a =>
    ofOutcome a.toBool fun fa => ofOutcome b.toBool fun fb => .push (.flag (f fa fb)) .done

def wordBnot : Prog := .pop fun a => ofOutcome a.toXint fun ai => .push (.int (bnot128 ai)) .done
def wordPopcnt : Prog := .pop fun a => ofOutcome a.toXint fun ai => .push (.int (popcnt128 ai)) .done
def wordRound : Prog := .pop fun a => ofOutcome a.toReal fun ar => .push (.real (SF.round64 ar)) .done

def wordIntoReal : Prog :=
  .top fun t =>
    match t.value with
    | .real _ => .done
    | _ => .pop fun a => ofOutcome a.toXint fun ai => .push (.real (SF.ofInt64 ai)) .done

def wordIntoInt : Prog :=
  .top fun t =>
    match t.value with
    | .int _ => .done
    | _ => .pop fun a => ofOutcome a.toReal fun ar => .push (.int (SF.toInt64 ar)) .done

/-- `zero? positive? negative?` (after the repair: the type error reports the popped value) -/
def wordNumTest (ti : Int → Bool) (tr : UInt64 → Bool) : Prog :=
  .pop fun a =>
    match a.value with
    | .int ai => .push (.flag (ti ai)) .done
    | .real ar => .push (.flag (tr ar)) .done
    | _ => .fail (numErr a)

def realZero : UInt64 := 0

/-- the word table of arith.rs (`random` is outside the model) -/
def arithTable : List (String × Prog) := [
  ("+", wordAdd),
  ("-", wordSub),
  ("*", wordMul),
  ("/", wordDiv),
  ("rem", wordRem),
  ("neg", wordNeg),
  ("abs", wordAbs),
  ("<", wordCmp (· == .lt)),
  ("<=", wordCmp (· != .gt)),
  (">", wordCmp (· == .gt)),
  (">=", wordCmp (· != .lt)),
  ("==", wordCmp (· == .eq)),
  ("<>", wordCmp (· != .eq)),
  ("and", wordLogic (· && ·)),
  ("or", wordLogic (· || ·)),
  ("xor", wordLogic (· != ·)),
  ("not", wordNot),
  ("band", arithOpsInt band128),
  ("bor", arithOpsInt bor128),
  ("bxor", arithOpsInt bxor128),
  ("bnot", wordBnot),
  ("bsl", arithOpsInt shl128),
  ("bsr", arithOpsInt shr128),
  ("round", wordRound),
  ("min", wordMin),
  ("max", wordMax),
  (">real", wordIntoReal),
  (">int", wordIntoInt),
  ("zero?", wordNumTest (· == 0) SF.isZero64),
  ("positive?", wordNumTest (· > 0) (fun r => SF.lt64 realZero r)),
  ("negative?", wordNumTest (· < 0) (fun r => SF.lt64 r realZero)),
  ("popcnt", wordPopcnt)
]

def arithWord (w : String) : Option Prog := arithTable.lookup w

end Xeh
