/-
L0 — bit sequences as plain `List Bool`: the *specification* side of C04 / C05 (also used by
C06 C07 C16 C18).  Nothing here knows about buffers, offsets or ownership.

* `beVal`     big-endian (first bit = most significant) value of a bit list
* `chunks8`   groups of 8 counted from the value's first bit, last group possibly partial
* `leVal`     little-endian value: group k (read MSB-first) contributes at shift 8·k
* `sext`      two's-complement reinterpretation of an n-bit unsigned value
* `bitsOfNat` the n low bits of a number, MSB first
* `slice`, `invert`, `iter8` (value,length pairs), `toHex`, `toBytes`, `toBytesPad`,
  `parseHex` (spec of `from_hex_str`), `parseBin` (spec of `BitvecBuilder::from_bin_str`)
-/
namespace Xeh.Bits

/-- big-endian value: the first bit is the most significant one -/
def beVal : List Bool → Nat
  | [] => 0
  | b :: r => b.toNat * 2 ^ r.length + beVal r

/-- the `n` low bits of `v`, most significant first -/
def bitsOfNat : Nat → Nat → List Bool
  | 0, _ => []
  | n + 1, v => (v / 2 ^ n % 2 == 1) :: bitsOfNat n v

/-- groups of 8 bits counted from the *first bit of the value*; only the last may be shorter -/
def chunks8 (l : List Bool) : List (List Bool) :=
  if _h : l = [] then [] else l.take 8 :: chunks8 (l.drop 8)
termination_by l.length
decreasing_by
  cases l with
  | nil => contradiction
  | cons a t => simp only [List.length_drop, List.length_cons]; omega

/-- little-endian combination of groups: group k at shift 8·k -/
def leGroups : List (List Bool) → Nat
  | [] => 0
  | g :: gs => beVal g + 256 * leGroups gs

/-- little-endian value of a bit list (byte groups from the first bit, last group partial) -/
def leVal (l : List Bool) : Nat := leGroups (chunks8 l)

/-- two's complement: reinterpret the n-bit unsigned `v` (n ≥ 1) as signed -/
def sext (n : Nat) (v : Nat) : Int :=
  if v < 2 ^ (n - 1) then (v : Int) else (v : Int) - 2 ^ n

/-- `[a, b)` of a bit list -/
def slice (l : List Bool) (a b : Nat) : List Bool := (l.drop a).take (b - a)

def invert (l : List Bool) : List Bool := l.map (!·)

/-- spec of `Bitstr::iter8`: (value, length) of every group -/
def iter8 (l : List Bool) : List (Nat × Nat) := (chunks8 l).map fun g => (beVal g, g.length)

/-- spec of `Bitstr::bits`: 0/1 per bit -/
def bitNums (l : List Bool) : List Nat := l.map Bool.toNat

def hexDigit (n : Nat) : Char :=
  if n < 10 then Char.ofNat (48 + n) else Char.ofNat (87 + n)

/-- spec of `to_hex_string`: two digits for a group longer than 4 bits, one digit otherwise -/
def toHex (l : List Bool) : List Char :=
  (iter8 l).flatMap fun (v, n) =>
    if n > 4 then [hexDigit (v / 16), hexDigit (v % 16)] else [hexDigit (v % 16)]

/-- spec of `to_bytes_with_padding`: value of each group (a partial last group is right-aligned) -/
def toBytesPad (l : List Bool) : List Nat := (chunks8 l).map beVal

/-- spec of `to_bytes` / `bytestr`: defined exactly for byte-multiple lengths -/
def toBytes (l : List Bool) : Option (List Nat) :=
  if l.length % 8 == 0 then some (toBytesPad l) else none

/-- the bits of a byte list (8 per byte, MSB first) -/
def ofBytes (bs : List Nat) : List Bool := bs.flatMap (bitsOfNat 8)

def hexVal (c : Char) : Option Nat :=
  if '0' ≤ c ∧ c ≤ '9' then some (c.toNat - 48)
  else if 'a' ≤ c ∧ c ≤ 'f' then some (c.toNat - 87)
  else if 'A' ≤ c ∧ c ≤ 'F' then some (c.toNat - 55)
  else none

/-- `char::is_ascii_whitespace`: space, \t, \n, form feed, \r -/
def isAsciiWs (c : Char) : Bool :=
  c == ' ' || c == '\t' || c == '\n' || c == '\x0c' || c == '\r'

/-- spec of `from_hex_str`: 4 bits per digit, ASCII whitespace skipped, `Except.error pos` = char index
    of the first offending character -/
def parseHex (s : List Char) : Except Nat (List Bool) :=
  go s 0
where
  go : List Char → Nat → Except Nat (List Bool)
    | [], _ => .ok []
    | c :: r, pos =>
      if isAsciiWs c then go r (pos + 1)
      else match hexVal c with
        | none => .error pos
        | some d => match go r (pos + 1) with
          | .ok bits => .ok (bitsOfNat 4 d ++ bits)
          | .error e => .error e

/-- spec of `BitvecBuilder::from_bin_str` -/
def parseBin (s : List Char) : Except Nat (List Bool) :=
  go s 0
where
  go : List Char → Nat → Except Nat (List Bool)
    | [], _ => .ok []
    | c :: r, pos =>
      if isAsciiWs c then go r (pos + 1)
      else if c == '0' || c == '1' then
        match go r (pos + 1) with
        | .ok bits => .ok ((c == '1') :: bits)
        | .error e => .error e
      else .error pos

/-- standard little-endian byte list of `v` in `k` bytes -/
def leBytes : Nat → Nat → List Nat
  | 0, _ => []
  | k + 1, v => v % 256 :: leBytes k (v / 256)

/-- standard big-endian byte list of `v` in `k` bytes -/
def beBytes (k : Nat) (v : Nat) : List Nat := (leBytes k v).reverse

end Xeh.Bits
