/-
L1 — representation-level model of `src/bitstr.rs` (as of the `fix:` commits 601354c fdfc9af
db05d63 567e2b2).

A `Bitstr` in Rust is `{ range: start..end, data: Rc<Cow<'static,[u8]>> }`.  Here:

* `Buf`     one `Rc` allocation: the bytes (each < 256), the strong count, and whether the `Cow` is
            `Borrowed` (a `&'static [u8]`) or `Owned`.
* `Heap`    buffer id ↦ `Buf`, plus the next fresh id (ids are never reused; a buffer whose count
            dropped to 0 simply stays behind, unreachable).
* `Handle`  `{start, end_, buf}` — bit range into buffer `buf`.
* `View`    what a read-only method sees: `(bytes, start, end_)`.

`clone` of a handle = count + 1, `drop` = count − 1 (explicit operations; Rust's implicit clones
inside `seek/read/peek/substr/split_at` are made explicit the same way).

Panics are values: slice indexing, `end - start` in `cut_bits`, `slice().unwrap()` return
`Outcome.panic`.  Profile: the *debug* profile is modelled for `usize` subtraction (a panic);
`checked_add` sites are modelled as in the source.  Iterators are collected eagerly: the model
panics if *any* element access would panic, Rust only if a *consumed* one does — the two agree on
well-formed values (`View.WF`), where nothing panics (theorems `*_spec` all conclude `.ok …`).

Model bounds (not proved, documented): lengths < 2^32 bits (`shift: u32` in little-endian
`to_uint` never overflows); allocation failure is not modelled.

Floats are bit patterns (`Nat` < 2^32 / 2^64); no Lean `Float` anywhere.
-/
import XehModel.Model.Value
import XehModel.Model.Bits

namespace Xeh.Bitstr
open Xeh Xeh.Bits

inductive Byteorder where
  | little | big
deriving DecidableEq, Repr

structure Buf where
  bytes : List Nat
  rc : Nat
  borrowed : Bool
deriving Repr, DecidableEq

structure Heap where
  buf : Nat → Buf
  next : Nat

structure Handle where
  start : Nat
  end_ : Nat
  buf : Nat
deriving Repr, DecidableEq

structure View where
  bytes : List Nat
  start : Nat
  end_ : Nat
deriving Repr, DecidableEq

def emptyBuf : Buf := ⟨[], 0, false⟩

def Heap.empty : Heap := ⟨fun _ => emptyBuf, 0⟩

def Heap.set (h : Heap) (b : Nat) (x : Buf) : Heap :=
  { h with buf := fun i => if i = b then x else h.buf i }

/-- `Rc::new(..)` : a fresh allocation with count 1 -/
def Heap.alloc (h : Heap) (bytes : List Nat) (borrowed : Bool) : Heap × Nat :=
  ({ buf := fun i => if i = h.next then ⟨bytes, 1, borrowed⟩ else h.buf i, next := h.next + 1 }, h.next)

def Heap.incRc (h : Heap) (b : Nat) : Heap :=
  h.set b { h.buf b with rc := (h.buf b).rc + 1 }

def Heap.decRc (h : Heap) (b : Nat) : Heap :=
  h.set b { h.buf b with rc := (h.buf b).rc - 1 }

def Heap.view (h : Heap) (s : Handle) : View := ⟨(h.buf s.buf).bytes, s.start, s.end_⟩

/-! ### leaf functions (bitstr.rs 22–37) -/

def usizeMax : Nat := 2 ^ 64 - 1

def checkedAdd (a b : Nat) : Option Nat := if a + b ≤ usizeMax then some (a + b) else none

/-- `upper_bound_index` -/
def upperBoundIndex (numBits : Nat) : Nat :=
  numBits / 8 + (if numBits % 8 > 0 then 1 else 0)

/-- `bit_mask`: `!0xffu32.wrapping_shl(len as u32) as u8` -/
def bitMask (len : Nat) : Nat := 255 - (255 <<< ((len % 2 ^ 32) % 32)) % 256

/-- the arithmetic core of `cut_bits` once `start_bit` and `len` are known:
    `x.wrapping_shr(shift as u32) & bit_mask(len)` (`u8::wrapping_shr` masks the count with 7) -/
def cutCore (x startBit len : Nat) : Nat :=
  (x >>> ((8 - (startBit + len)) % 8)) &&& bitMask len

/-- `cut_bits(x, start, end)`; `end - start` panics on underflow (debug profile) -/
def cutBits (x start end_ : Nat) : Outcome (Nat × Nat) :=
  if end_ < start then .panic "cut_bits: end - start"
  else
    let startBit := start % 8
    let len := min (end_ - start) (8 - startBit)
    .ok (cutCore x startBit len, len)

/-- `data[i]` -/
def idx (bytes : List Nat) (i : Nat) : Outcome Nat :=
  match bytes[i]? with
  | some b => .ok b
  | none => .panic "index out of bounds"

/-- `&data[a..b]` -/
def sliceBytes (bytes : List Nat) (a b : Nat) : Outcome (List Nat) :=
  if a ≤ b ∧ b ≤ bytes.length then .ok ((bytes.drop a).take (b - a)) else .panic "slice index out of range"

namespace View

def len (v : View) : Nat := v.end_ - v.start

def isBytestr (v : View) : Bool := (v.end_ - v.start) % 8 == 0

def isU8Slice (v : View) : Bool := v.start % 8 == 0 && v.isBytestr

/-- `bytes_range` -/
def bytesRange (v : View) : Nat × Nat := (v.start / 8, upperBoundIndex v.end_)

/-! ### iterators (bitstr.rs 491–535) -/

/-- `Iter8::next` at position `pos`: `none` at the end, else the item and the new position -/
def iter8Next (v : View) (pos : Nat) : Outcome (Option ((Nat × Nat) × Nat)) :=
  if pos ≥ v.end_ then .ok none
  else
    let len := min (v.end_ - pos) 8
    let i := pos / 8
    match idx v.bytes i with
    | .panic s => .panic s
    | .err e => .err e
    | .ok b0 =>
      match cutBits b0 pos (pos + len) with
      | .panic s => .panic s
      | .err e => .err e
      | .ok (val, n) =>
        if n < len then
          match idx v.bytes (i + 1) with
          | .panic s => .panic s
          | .err e => .err e
          | .ok b1 =>
            match cutBits b1 (pos + n) (pos + len) with
            | .panic s => .panic s
            | .err e => .err e
            | .ok (val2, n2) => .ok (some ((((val <<< n2) % 256) ||| val2, len), pos + len))
        else .ok (some ((val, len), pos + len))

def iter8Go (v : View) : Nat → Nat → Outcome (List (Nat × Nat))
  | 0, _ => .panic "fuel"
  | fuel + 1, pos =>
    match iter8Next v pos with
    | .panic s => .panic s
    | .err e => .err e
    | .ok none => .ok []
    | .ok (some (item, pos')) =>
      match iter8Go v fuel pos' with
      | .ok rest => .ok (item :: rest)
      | o => o

/-- `self.iter8().collect()` -/
def iter8 (v : View) : Outcome (List (Nat × Nat)) := iter8Go v (v.end_ - v.start + 1) v.start

/-- `Bits::next` -/
def bitsNext (v : View) (pos : Nat) : Outcome (Option (Nat × Nat)) :=
  if pos ≥ v.end_ then .ok none
  else
    match idx v.bytes (pos / 8) with
    | .ok b => .ok (some ((b >>> (7 - pos % 8)) &&& 1, pos + 1))
    | .panic s => .panic s
    | .err e => .err e

def bitsGo (v : View) : Nat → Nat → Outcome (List Nat)
  | 0, _ => .panic "fuel"
  | fuel + 1, pos =>
    match bitsNext v pos with
    | .panic s => .panic s
    | .err e => .err e
    | .ok none => .ok []
    | .ok (some (b, pos')) =>
      match bitsGo v fuel pos' with
      | .ok rest => .ok (b :: rest)
      | o => o

/-- `self.bits().collect()` -/
def bitsIter (v : View) : Outcome (List Nat) := bitsGo v (v.end_ - v.start + 1) v.start

/-! ### number codecs (bitstr.rs 210–319) -/

/-- big-endian loop of `to_uint`: per backing byte, shift the cut bits in (u128, bits shifted out are lost) -/
def toUintBEGo (end_ : Nat) : List Nat → Nat → Nat → Outcome Nat
  | [], _, acc => .ok acc
  | b :: r, pos, acc =>
    match cutBits b pos end_ with
    | .ok (val, n) => toUintBEGo end_ r (pos + n) (((acc <<< n) % 2 ^ 128) ||| val)
    | .panic s => .panic s
    | .err e => .err e

/-- little-endian loop of `to_uint`: group k at shift = bits consumed so far; groups at shift ≥ 128 ignored -/
def toUintLEGo : List (Nat × Nat) → Nat → Nat → Nat
  | [], _, acc => acc
  | (val, n) :: r, shift, acc =>
    toUintLEGo r (shift + n) (if shift < 128 then acc ||| ((val <<< shift) % 2 ^ 128) else acc)

/-- `to_uint` -/
def toUint (v : View) (o : Byteorder) : Outcome Nat :=
  match sliceBytes v.bytes v.bytesRange.1 v.bytesRange.2 with
  | .panic s => .panic s
  | .err e => .err e
  | .ok dataBytes =>
    match o with
    | .big => toUintBEGo v.end_ dataBytes v.start 0
    | .little =>
      match v.iter8 with
      | .ok items => .ok (toUintLEGo items 0 0)
      | .panic s => .panic s
      | .err e => .err e

/-- `to_int` -/
def toInt (v : View) (o : Byteorder) : Outcome Int :=
  match v.toUint o with
  | .panic s => .panic s
  | .err e => .err e
  | .ok val =>
    if v.len == 0 then .ok 0
    else if v.len ≥ 128 then
      -- `i128::from_le_bytes(val.to_le_bytes())`
      .ok (if val < 2 ^ 127 then (val : Int) else (val : Int) - 2 ^ 128)
    else
      let len := v.len
      let signBit := 2 ^ (len - 1)
      if val &&& signBit > 0 then
        let mask := (2 ^ 128 - 1) - (((2 ^ 128 - 1) <<< len) % 2 ^ 128)
        .ok (-((((2 ^ 128 - 1 - val) &&& mask) + 1 : Nat) : Int))
      else .ok (val : Int)

/-- `to_f32` / `to_f64`: the first `k` groups' values (missing groups read as 0), then `from_xx_bytes` -/
def firstBytes (items : List (Nat × Nat)) (k : Nat) : List Nat :=
  ((items.map Prod.fst) ++ List.replicate k 0).take k

def beBytesVal (bs : List Nat) : Nat := bs.foldl (fun acc b => acc * 256 + b) 0

def toFloatBits (v : View) (k : Nat) (o : Byteorder) : Outcome Nat :=
  match v.iter8 with
  | .ok items =>
    let buf := firstBytes items k
    .ok (match o with | .big => beBytesVal buf | .little => beBytesVal buf.reverse)
  | .panic s => .panic s
  | .err e => .err e

def toF32 (v : View) (o : Byteorder) : Outcome Nat := toFloatBits v 4 o
def toF64 (v : View) (o : Byteorder) : Outcome Nat := toFloatBits v 8 o

/-! ### byte / hex export (bitstr.rs 123–134, 321–356) -/

/-- `slice` : zero-copy view, only for byte-aligned byte-multiple values -/
def slice (v : View) : Outcome (Option (List Nat)) :=
  if v.start % 8 == 0 && v.isBytestr then
    match sliceBytes v.bytes v.bytesRange.1 v.bytesRange.2 with
    | .ok bs => .ok (some bs)
    | .panic s => .panic s
    | .err e => .err e
  else .ok none

def toBytesWithPadding (v : View) : Outcome (List Nat) :=
  match v.iter8 with
  | .ok items => .ok (items.map Prod.fst)
  | .panic s => .panic s
  | .err e => .err e

def toBytes (v : View) : Outcome (Option (List Nat)) :=
  if v.isBytestr then
    if v.start % 8 == 0 then v.slice
    else match v.toBytesWithPadding with
      | .ok bs => .ok (some bs)
      | .panic s => .panic s
      | .err e => .err e
  else .ok none

def bytestr (v : View) : Outcome (Option (List Nat)) :=
  match v.slice with
  | .ok (some d) => .ok (some d)
  | .ok none =>
    if v.isBytestr then
      match v.toBytesWithPadding with
      | .ok bs => .ok (some bs)
      | .panic s => .panic s
      | .err e => .err e
    else .ok none
  | .panic s => .panic s
  | .err e => .err e

def toHexString (v : View) : Outcome (List Char) :=
  match v.iter8 with
  | .ok items =>
    .ok (items.flatMap fun (val, len) =>
      if len > 4 then [hexDigit (val >>> 4), hexDigit (val &&& 15)] else [hexDigit (val &&& 15)])
  | .panic s => .panic s
  | .err e => .err e

/-- `eq_with` -/
def eqWith (a b : View) : Outcome Bool :=
  if a.len ≠ b.len then .ok false
  else if a.isU8Slice && b.isU8Slice then
    match a.slice, b.slice with
    | .ok x, .ok y => .ok (x == y)
    | .panic s, _ => .panic s
    | .err e, _ => .err e
    | _, .panic s => .panic s
    | _, .err e => .err e
  else
    match a.iter8, b.iter8 with
    | .ok x, .ok y => .ok (x == y)
    | .panic s, _ => .panic s
    | .err e, _ => .err e
    | _, .panic s => .panic s
    | _, .err e => .err e

end View

/-! ### constructors -/

/-- `From<Vec<u8>>` -/
def fromVec (h : Heap) (bytes : List Nat) : Heap × Handle :=
  let (h', b) := h.alloc bytes false
  (h', ⟨0, bytes.length * 8, b⟩)

/-- `From<&'static [u8]>` -/
def fromStatic (h : Heap) (bytes : List Nat) : Heap × Handle :=
  let (h', b) := h.alloc bytes true
  (h', ⟨0, bytes.length * 8, b⟩)

/-- `Bitstr::new()` (`Default`: `Rc::new(Cow::Owned(vec![]))`) -/
def new (h : Heap) : Heap × Handle :=
  let (h', b) := h.alloc [] false
  (h', ⟨0, 0, b⟩)

/-- explicit `Clone::clone` -/
def clone (h : Heap) (s : Handle) : Heap × Handle := (h.incRc s.buf, s)

/-- explicit `drop` -/
def drop (h : Heap) (s : Handle) : Heap := h.decRc s.buf

/-- `from_hex_str`: buffer built nibble by nibble (`push(val << 4)` / `|= val`) -/
def fromHexBytes : List Char → Nat → Nat → List Nat → Except Nat (List Nat × Nat)
  | [], _, n, buf => .ok (buf, n)
  | c :: r, pos, n, buf =>
    if isAsciiWs c then fromHexBytes r (pos + 1) n buf
    else match hexVal c with
      | none => .error pos
      | some val =>
        let i := n / 8
        let buf' := if buf.length == i then buf ++ [(val <<< 4) % 256]
                    else buf.set i ((buf.getD i 0) ||| val)
        fromHexBytes r (pos + 1) (n + 4) buf'

def fromHexStr (h : Heap) (s : List Char) : Except Nat (Heap × Handle) :=
  match fromHexBytes s 0 0 [] with
  | .error p => .error p
  | .ok (buf, n) =>
    let (h', b) := h.alloc buf false
    .ok (h', ⟨0, n, b⟩)

/-- `BitvecBuilder::append_bit` -/
def builderAppendBit (data : List Nat) (len : Nat) (val : Nat) : List Nat × Nat :=
  let i := len / 8
  if data.length == i then (data ++ [(val <<< 7) % 256], len + 1)
  else (data.set i ((data.getD i 0) ||| ((val <<< (7 - len % 8)) % 256)), len + 1)

def fromBinBytes : List Char → Nat → List Nat → Nat → Except Nat (List Nat × Nat)
  | [], _, data, len => .ok (data, len)
  | c :: r, pos, data, len =>
    if isAsciiWs c then fromBinBytes r (pos + 1) data len
    else if c == '0' then
      let (d, l) := builderAppendBit data len 0
      fromBinBytes r (pos + 1) d l
    else if c == '1' then
      let (d, l) := builderAppendBit data len 1
      fromBinBytes r (pos + 1) d l
    else .error pos

/-- `BitvecBuilder::from_bin_str` -/
def fromBinStr (h : Heap) (s : List Char) : Except Nat (Heap × Handle) :=
  match fromBinBytes s 0 [] 0 with
  | .error p => .error p
  | .ok (buf, n) =>
    let (h', b) := h.alloc buf false
    .ok (h', ⟨0, n, b⟩)

/-- build a value from a bit list through `BitvecBuilder` (used by drivers to set up inputs) -/
def builderBytes (bits : List Bool) : List Nat × Nat :=
  bits.foldl (fun (d, l) b => builderAppendBit d l b.toNat) ([], 0)

/-- `i128::wrapping_shr(k as u32) as u8`: arithmetic shift by `(k mod 2^32) mod 128`, low byte -/
def shrByte (val : Int) (k : Nat) : Nat :=
  ((val / (2 : Int) ^ ((k % 2 ^ 32) % 128)) % 256).toNat

/-- big-endian loop of `from_int` (`while i > 0`) -/
def fromIntBE (val : Int) : Nat → Nat → List Nat
  | 0, _ => []
  | fuel + 1, i =>
    if i > 0 then
      let n := min i 8
      let x := shrByte val (i - n)
      ((x <<< (8 - n)) % 256) :: fromIntBE val fuel (i - n)
    else []

/-- little-endian loop of `from_int` (`while i < num_bits`) -/
def fromIntLE (val : Int) (numBits : Nat) : Nat → Nat → List Nat
  | 0, _ => []
  | fuel + 1, i =>
    if i < numBits then
      let n := min (numBits - i) 8
      let x := shrByte val i
      ((x <<< (8 - n)) % 256) :: fromIntLE val numBits fuel (i + n)
    else []

def fromIntBytes (val : Int) (numBits : Nat) (o : Byteorder) : List Nat :=
  match o with
  | .big => fromIntBE val numBits numBits
  | .little => fromIntLE val numBits numBits 0

/-- `from_int` -/
def fromInt (h : Heap) (val : Int) (numBits : Nat) (o : Byteorder) : Heap × Handle :=
  let (h', b) := h.alloc (fromIntBytes val numBits o) false
  (h', ⟨0, numBits, b⟩)

/-- `from_f32` / `from_f64`: `to_be_bytes` / `to_le_bytes` of the bit pattern -/
def floatBytes (k : Nat) (bits : Nat) (o : Byteorder) : List Nat :=
  match o with
  | .big => beBytes k bits
  | .little => leBytes k bits

def fromF32 (h : Heap) (bits : Nat) (o : Byteorder) : Heap × Handle := fromVec h (floatBytes 4 bits o)
def fromF64 (h : Heap) (bits : Nat) (o : Byteorder) : Heap × Handle := fromVec h (floatBytes 8 bits o)

/-! ### range operations (bitstr.rs 156–208): every result is a clone (count + 1) with a new range -/

def seek (h : Heap) (s : Handle) (pos : Nat) : Heap × Option Handle :=
  if s.start ≤ pos ∧ pos ≤ s.end_ then (h.incRc s.buf, some { s with start := pos }) else (h, none)

/-- `read(&mut self, n)`: returns the heap, the updated receiver and the result -/
def read (h : Heap) (s : Handle) (numBits : Nat) : Heap × Handle × Option Handle :=
  match checkedAdd s.start numBits with
  | none => (h, s, none)
  | some pos =>
    if pos > s.end_ then (h, s, none)
    else (h.incRc s.buf, { s with start := pos }, some { s with end_ := pos })

def peek (h : Heap) (s : Handle) (numBits : Nat) : Heap × Option Handle :=
  match checkedAdd s.start numBits with
  | none => (h, none)
  | some e =>
    if s.start ≤ e ∧ e ≤ s.end_ then (h.incRc s.buf, some { s with end_ := e }) else (h, none)

def substr (h : Heap) (s : Handle) (a b : Nat) : Heap × Option Handle :=
  if a ≤ b ∧ s.start ≤ a ∧ b ≤ s.end_ then (h.incRc s.buf, some { s with start := a, end_ := b })
  else (h, none)

def splitAt (h : Heap) (s : Handle) (bitIndex : Nat) : Heap × Option (Handle × Handle) :=
  match checkedAdd s.start bitIndex with
  | none => (h, none)
  | some mid =>
    if mid > s.end_ then (h, none)
    else ((h.incRc s.buf).incRc s.buf, some ({ s with end_ := mid }, { s with start := mid }))

/-! ### detach / data_mut / append / insert / invert (bitstr.rs 382–448) -/

/-- `detach(self)`: the receiver is consumed -/
def detach (h : Heap) (s : Handle) : Outcome (Heap × Handle) :=
  -- a value that does not start at bit 0 is rebuilt even when uniquely owned (repair e3b1a9c):
  -- where the result starts does not depend on who else holds the buffer
  if (h.buf s.buf).rc == 1 && s.start == 0 then .ok (h, s)
  else if s.end_ - s.start == 0 then
    let (h1, t) := new h
    .ok (drop h1 s, t)
  else
    match (h.view s).iter8 with
    | .ok items =>
      let tmp := items.map fun (val, n) => (val <<< (8 - n)) % 256
      let (h1, b) := h.alloc tmp false
      .ok (drop h1 s, ⟨0, s.end_ - s.start, b⟩)
    | .panic e => .panic e
    | .err e => .err e

/-- `data_mut`: `Rc::make_mut` (clone the `Cow` into a fresh `Rc` when shared) then `Cow::to_mut`
    (copy a borrowed slice into an owned vector) -/
def dataMut (h : Heap) (s : Handle) : Heap × Handle :=
  let b := h.buf s.buf
  let (h1, s1) :=
    if b.rc == 1 then (h, s)
    else
      let (h', nb) := h.alloc b.bytes b.borrowed
      (h'.decRc s.buf, { s with buf := nb })
  (h1.set s1.buf { h1.buf s1.buf with borrowed := false }, s1)

def setBytes (h : Heap) (s : Handle) (bytes : List Nat) : Heap :=
  h.set s.buf { h.buf s.buf with bytes := bytes }

/-- `for x in tail.bits() { data[pos/8] |= x << (7 - pos%8); pos += 1 }` -/
def orBits : List Nat → Nat → List Nat → Outcome (List Nat × Nat)
  | data, pos, [] => .ok (data, pos)
  | data, pos, x :: r =>
    match data[pos / 8]? with
    | none => .panic "index out of bounds"
    | some d => orBits (data.set (pos / 8) (d ||| ((x <<< (7 - pos % 8)) % 256))) (pos + 1) r

/-- `Vec::resize_with(n, || 0)` -/
def resize (data : List Nat) (n : Nat) : List Nat :=
  if n ≤ data.length then data.take n else data ++ List.replicate (n - data.length) 0

/-- `data.truncate(upper_bound_index(end)); if end % 8 != 0 { data[end / 8] &= !(0xffu8 >> (end % 8)) }` -/
def truncMask (data0 : List Nat) (end_ : Nat) : Outcome (List Nat) :=
  let data1 := data0.take (upperBoundIndex end_)
  if end_ % 8 ≠ 0 then
    match data1[end_ / 8]? with
    | none => .panic "index out of bounds"
    | some d => .ok (data1.set (end_ / 8) (d &&& (255 - (255 >>> (end_ % 8)))))
  else .ok data1

/-- the byte-level body of `append_bits_mut` once the buffer is uniquely owned: new buffer contents and new end -/
def appendCore (data0 : List Nat) (start end_ : Nat) (tv : View) : Outcome (List Nat × Nat) :=
  match truncMask data0 end_ with
  | .panic e => .panic e
  | .err e => .err e
  | .ok data2 =>
    let sv : View := ⟨data2, start, end_⟩
    if sv.isU8Slice && tv.isU8Slice then
      match tv.slice with
      | .ok (some tb) => .ok (data2 ++ tb, end_ + tv.len)
      | .ok none => .panic "unwrap on None"
      | .panic e => .panic e
      | .err e => .err e
    else
      let newLen := upperBoundIndex (end_ + tv.len)
      let data3 := resize data2 newLen
      match tv.bitsIter with
      | .panic e => .panic e
      | .err e => .err e
      | .ok tbits =>
        match orBits data3 end_ tbits with
        | .panic e => .panic e
        | .err e => .err e
        | .ok (data4, pos) => .ok (data4, pos)

/-- `append_bits_mut(self, tail)` (receiver consumed, `tail` borrowed) -/
def appendBitsMut (h : Heap) (s : Handle) (tail : Handle) : Outcome (Heap × Handle) :=
  let (h1, s1) := dataMut h s
  match appendCore (h1.buf s1.buf).bytes s1.start s1.end_ (h1.view tail) with
  | .panic e => .panic e
  | .err e => .err e
  | .ok (data, e) => .ok (setBytes h1 s1 data, { s1 with end_ := e })

/-- `append(self, tail)` -/
def append (h : Heap) (s : Handle) (tail : Handle) : Outcome (Heap × Handle) :=
  match detach h s with
  | .ok (h1, s1) => appendBitsMut h1 s1 tail
  | o => o

/-- `insert(self, bit_index, s)`: the receiver is consumed whether or not the index is valid -/
def insert (h : Heap) (self : Handle) (bitIndex : Nat) (s : Handle) : Outcome (Heap × Option Handle) :=
  match splitAt h self bitIndex with
  | (_, none) => .ok (drop h self, none)
  | (h1, some (left, right)) =>
    match detach h1 left with
    | .panic e => .panic e
    | .err e => .err e
    | .ok (h2, l2) =>
      match appendBitsMut h2 l2 s with
      | .panic e => .panic e
      | .err e => .err e
      | .ok (h3, l3) =>
        match appendBitsMut h3 l3 right with
        | .panic e => .panic e
        | .err e => .err e
        | .ok (h4, l4) => .ok (drop (drop h4 right) self, some l4)

/-- `for pos in r { data[pos/8] ^= 1 << (7 - pos%8) }` -/
def xorBits : List Nat → Nat → Nat → Outcome (List Nat)
  | data, _, 0 => .ok data
  | data, pos, k + 1 =>
    match data[pos / 8]? with
    | none => .panic "index out of bounds"
    | some d => xorBits (data.set (pos / 8) (d ^^^ (1 <<< (7 - pos % 8)))) (pos + 1) k

/-- `invert(self)` -/
def invert (h : Heap) (s : Handle) : Outcome (Heap × Handle) :=
  match detach h s with
  | .ok (h1, s1) =>
    let (h2, s2) := dataMut h1 s1
    match xorBits (h2.buf s2.buf).bytes s2.start (s2.end_ - s2.start) with
    | .ok data => .ok (setBytes h2 s2 data, s2)
    | .panic e => .panic e
    | .err e => .err e
  | o => o

/-! ### abstraction function and well-formedness -/

/-- all bits of a buffer, 8 per byte, MSB first -/
def allBits (bytes : List Nat) : List Bool := ofBytes bytes

def View.bits (v : View) : List Bool := Bits.slice (allBits v.bytes) v.start v.end_

/-- the bit sequence a handle denotes -/
def bits (h : Heap) (s : Handle) : List Bool := (h.view s).bits

structure View.WF (v : View) : Prop where
  le : v.start ≤ v.end_
  bound : v.end_ ≤ 8 * v.bytes.length
  bytes : ∀ b ∈ v.bytes, b < 256

/-- well-formed handle in a heap: range inside the buffer, buffer allocated and alive -/
structure WF (h : Heap) (s : Handle) : Prop where
  view : (h.view s).WF
  alloc : s.buf < h.next
  live : 1 ≤ (h.buf s.buf).rc

end Xeh.Bitstr
