/-
A pool of bit-string values and the operations of `Bitstr`'s public API on it — the state machine behind C04's
"all operation sequences" (and C03's "copies share buffers"), in two versions:

* `Pool`: handles into the buffer heap of Model/Bitstr.lean (explicit reference counts, shared buffers, in-place
  mutation when the count is 1) — what the implementation does;
* `APool`: plain values — where a value starts (`start()` is part of the API: positions are absolute) and the
  sequence of its bits — what the operations mean.

Slots are numbered in creation order and never reused; a consumed or dropped value leaves an empty slot. The
receiver of `detach` / `invert` / `append` / `insert` is consumed and its slot receives the result (the Rust API
takes `self` by value), `read` advances its receiver in place. `Proofs/BitstrPool.lean` proves that every step
of `Pool` is the step of `APool` on the denotations, for every history; the driver (`Driver/C04.lean`) runs
`Pool.step`, so the correspondence check ties this machine to src/bitstr.rs.
-/
import XehModel.Model.Bitstr

namespace Xeh.Bitstr
open Xeh Xeh.Bits

inductive PoolOp where
  | newVec (bytes : List Nat)
  | newStatic (bytes : List Nat)
  | empty
  | clone (i : Nat)
  | drop (i : Nat)
  | read (i n : Nat)
  | peek (i n : Nat)
  | seek (i pos : Nat)
  | substr (i a b : Nat)
  | split (i k : Nat)
  | detach (i : Nat)
  | invert (i : Nat)
  | append (i j : Nat)
  | insert (i k j : Nat)
deriving Repr

structure Pool where
  heap : Heap := Heap.empty
  slots : List (Option Handle) := []

namespace Pool

def get (p : Pool) (i : Nat) : Option Handle := (p.slots[i]?).join

def push (p : Pool) (h : Heap) (s : Handle) : Pool := { heap := h, slots := p.slots ++ [some s] }

def put (p : Pool) (h : Heap) (i : Nat) (s : Option Handle) : Pool := { heap := h, slots := p.slots.set i s }

/-- one operation; `none` = no such slot (or `append i i`, which the API cannot express; or a byte that is not a byte), or
    the operation panics -/
def step (p : Pool) : PoolOp → Option Pool
  | .newVec bytes => if bytes.all (· < 256) then (let (h, s) := fromVec p.heap bytes; some (p.push h s)) else none
  | .newStatic bytes => if bytes.all (· < 256) then (let (h, s) := fromStatic p.heap bytes; some (p.push h s)) else none
  | .empty => let (h, s) := Bitstr.new p.heap; some (p.push h s)
  | .clone i => (p.get i).map fun s => let (h, s') := Bitstr.clone p.heap s; p.push h s'
  | .drop i => (p.get i).map fun s => p.put (Bitstr.drop p.heap s) i none
  | .read i n => (p.get i).map fun s =>
      match Bitstr.read p.heap s n with
      | (h, s', some r) => (p.put h i (some s')).push h r
      | (_, _, none) => p
  | .peek i n => (p.get i).map fun s =>
      match Bitstr.peek p.heap s n with
      | (h, some r) => p.push h r
      | (_, none) => p
  | .seek i pos => (p.get i).map fun s =>
      match Bitstr.seek p.heap s pos with
      | (h, some r) => p.push h r
      | (_, none) => p
  | .substr i a b => (p.get i).map fun s =>
      match Bitstr.substr p.heap s a b with
      | (h, some r) => p.push h r
      | (_, none) => p
  | .split i k => (p.get i).map fun s =>
      match Bitstr.splitAt p.heap s k with
      | (h, some (l, r)) => (p.push h l).push h r
      | (_, none) => p
  | .detach i => (p.get i).bind fun s =>
      match Bitstr.detach p.heap s with
      | .ok (h, s') => some (p.put h i (some s'))
      | _ => none
  | .invert i => (p.get i).bind fun s =>
      match Bitstr.invert p.heap s with
      | .ok (h, s') => some (p.put h i (some s'))
      | _ => none
  | .append i j => if i = j then none else
      (p.get i).bind fun s => (p.get j).bind fun t =>
      match Bitstr.append p.heap s t with
      | .ok (h, s') => some (p.put h i (some s'))
      | _ => none
  | .insert i k j => if i = j then none else
      (p.get i).bind fun s => (p.get j).bind fun t =>
      match Bitstr.insert p.heap s k t with
      | .ok (h, r) => some (p.put h i r)
      | _ => none

def run : List PoolOp → Pool → Option Pool
  | [], p => some p
  | op :: ops, p => (p.step op).bind (run ops)

end Pool

/-! ### what the operations mean: values are (start, bits) -/

abbrev AVal := Nat × List Bool

abbrev APool := List (Option AVal)

namespace APool

def get (a : APool) (i : Nat) : Option AVal := (a[i]?).join

/-- the same operations on plain values; where the concrete machine has no such slot the abstract pool is left as it
    is (the simulation theorem speaks of the steps the concrete machine takes) -/
def step (a : APool) : PoolOp → APool
  | .newVec bytes => a ++ [some (0, allBits bytes)]
  | .newStatic bytes => a ++ [some (0, allBits bytes)]
  | .empty => a ++ [some (0, [])]
  | .clone i => match get a i with | some v => a ++ [some v] | none => a
  | .drop i => match get a i with | some _ => a.set i none | none => a
  | .read i n =>
    match get a i with
    | some (st, l) =>
      if st + n ≤ usizeMax ∧ n ≤ l.length then (a.set i (some (st + n, l.drop n))) ++ [some (st, l.take n)] else a
    | none => a
  | .peek i n =>
    match get a i with
    | some (st, l) => if st + n ≤ usizeMax ∧ n ≤ l.length then a ++ [some (st, l.take n)] else a
    | none => a
  | .seek i pos =>
    match get a i with
    | some (st, l) => if st ≤ pos ∧ pos ≤ st + l.length then a ++ [some (pos, l.drop (pos - st))] else a
    | none => a
  | .substr i x y =>
    match get a i with
    | some (st, l) =>
      if x ≤ y ∧ st ≤ x ∧ y ≤ st + l.length then a ++ [some (x, Bits.slice l (x - st) (y - st))] else a
    | none => a
  | .split i k =>
    match get a i with
    | some (st, l) =>
      if st + k ≤ usizeMax ∧ k ≤ l.length then a ++ [some (st, l.take k), some (st + k, l.drop k)] else a
    | none => a
  | .detach i => match get a i with | some (_, l) => a.set i (some (0, l)) | none => a
  | .invert i => match get a i with | some (_, l) => a.set i (some (0, Bits.invert l)) | none => a
  | .append i j =>
    match get a i, get a j with
    | some (_, l), some (_, m) => a.set i (some (0, l ++ m))
    | _, _ => a
  | .insert i k j =>
    match get a i, get a j with
    | some (st, l), some (_, m) =>
      if k ≤ l.length ∧ st + k ≤ usizeMax then a.set i (some (0, l.take k ++ m ++ l.drop k)) else a.set i none
    | _, _ => a

def run : List PoolOp → APool → APool
  | [], a => a
  | op :: ops, a => run ops (a.step op)

end APool

end Xeh.Bitstr
