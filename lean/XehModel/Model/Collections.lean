/-
L3: ordering of cells, maps as sorted association lists, vector / string / map words.

Rust anchors: src/cell.rs (`PartialOrd`, `Ord`), src/state.rs (`core_word_insert remove length nth get
concat join sort reverse push collect unbox slice`, `relative_index`, `slicing_index`,
`map_collect_till_ptr`, `foreach_init/foreach_next/counter_value`), src/istype.rs,
rpds-1.0.0 `RedBlackTreeMap` (`insert`: an `Equal` key REPLACES the stored entry, key included;
`get/remove`: binary search with `Ord::cmp`; iteration in in-order = ascending `cmp` order).

**`Ord for Cell` is modelled as coded**: `cmp a b = Equal` for every pair that is not int/int,
real/real (both non-NaN) or str/str. That is not a lawful order (known finding, DESIGN §6 #16).

Maps are association lists kept sorted under that `cmp`. `insertL / lookupL / eraseL` walk the list
from the smallest key; rpds walks a red-black tree. The two agree for *every* tree shape exactly when
the comparison vector of the probe key against the stored keys has the form `gt* eq? lt*`
(`shapeFree`): this holds for every probe on a map whose keys and probe are of one comparable class
(`KeyClass`: int / non-NaN real / str), and on any map with at most one entry with any probe (that is
how `{ 1 "a" 2 5 }` collapses to `{ 2 5 }`). Outside `shapeFree` the answer of the real tree depends
on its balancing history; the driver answers `unsupported` there and the generator avoids it.

`sort` is `slice::sort` (stable) with the same `cmp`; the model is a stable insertion sort, faithful
when `cmp` is a consistent preorder on the elements (`sortConsistent`: one comparable class, or all
pairs `Equal`); otherwise std may return an unspecified order or panic (known finding #20).

`concat / join` print non-string, non-vector elements with `format_cell`; only the default printing of
untagged decimal ints, `nil` and flags is modelled (`fmtCell`); anything else makes the word answer the
distinguished error `ErrorMsg "model:unmodelled-printer"`, which the driver reports as `unsupported`.
-/
import XehModel.Model.Prog
import XehModel.Model.Equal
import XehModel.Model.MapCore
import XehModel.Model.SoftFloat

namespace Xeh

/-! ## `PartialOrd` / `Ord` for `Cell` -/

/-- `str::cmp`: lexicographic on UTF-8 bytes = lexicographic on code points -/
def strCmp : List Char → List Char → Ordering
  | [], [] => .eq
  | [], _ :: _ => .lt
  | _ :: _, [] => .gt
  | a :: as, b :: bs =>
    if a.toNat < b.toNat then .lt else if b.toNat < a.toNat then .gt else strCmp as bs

/-- `f64::partial_cmp` -/
def realPartialCmp (a b : UInt64) : Option Ordering :=
  if SF.lt64 a b then some .lt
  else if SF.lt64 b a then some .gt
  else if SF.eq64 a b then some .eq
  else none

/-- `PartialOrd for Cell` (through `value()`) -/
def Cell.partialCmp (a b : Cell) : Option Ordering :=
  match a.value, b.value with
  | .int x, .int y => some (compare x y)
  | .real x, .real y => realPartialCmp x y
  | .str x, .str y => some (strCmp x y)
  | _, _ => none

/-- `Ord for Cell`: `partial_cmp(..).unwrap_or(Equal)` -/
def Cell.cmp (a b : Cell) : Ordering := (Cell.partialCmp a b).getD .eq

/-- the three classes of values on which `cmp` is a genuine order -/
inductive KeyClass where
  | int | real | str
deriving DecidableEq, Repr

def Cell.keyClass (c : Cell) : Option KeyClass :=
  match c.value with
  | .int _ => some .int
  | .real r => if SF.isNaN64 r then none else some .real
  | .str _ => some .str
  | _ => none

/-! ## maps: association lists sorted under `cmp` -/

abbrev Entries := List (Cell × Cell)

/-- rpds `insert`: search by `cmp`; an `Equal` key replaces the whole entry (new key, new value) -/
def insertL (k v : Cell) : Entries → Entries
  | [] => [(k, v)]
  | (k', v') :: t =>
    match Cell.cmp k k' with
    | .lt => (k, v) :: (k', v') :: t
    | .eq => (k, v) :: t
    | .gt => (k', v') :: insertL k v t

def lookupL (k : Cell) : Entries → Option Cell
  | [] => none
  | (k', v') :: t =>
    match Cell.cmp k k' with
    | .lt => none
    | .eq => some v'
    | .gt => lookupL k t

def eraseL (k : Cell) : Entries → Entries
  | [] => []
  | (k', v') :: t =>
    match Cell.cmp k k' with
    | .lt => (k', v') :: t
    | .eq => t
    | .gt => (k', v') :: eraseL k t

/-- the probe's comparison vector is `gt* eq? lt*`: every tree shape gives the list answer -/
def shapeFree (k : Cell) : Entries → Bool
  | [] => true
  | (k', _) :: t =>
    match Cell.cmp k k' with
    | .gt => shapeFree k t
    | _ => t.all fun p => Cell.cmp k p.1 == .lt

def PairList.insert (m : PairList) (k v : Cell) : PairList := PairList.ofList (insertL k v m.toList)
def PairList.lookup (m : PairList) (k : Cell) : Option Cell := lookupL k m.toList
def PairList.erase (m : PairList) (k : Cell) : PairList := PairList.ofList (eraseL k m.toList)
-- `PairList.size` (= `m.toList.length`) comes from Model/MapCore.lean

/-- `map_collect_till_ptr`: `for x in cells.chunks(2) { m.insert_mut(x[1], x[0]) }` (value first, key second) -/
def mapCollectL : List Cell → Entries → Entries
  | v :: k :: rest, acc => mapCollectL rest (insertL k v acc)
  | _, acc => acc

def mapMissingKey : Xerr := .controlFlow "missing key element"

/-- the map literal `{ c₀ c₁ … }` from the cells between the braces, bottom first -/
def mapLiteral (cells : List Cell) : Outcome Cell :=
  if cells.length % 2 != 0 then .err mapMissingKey
  else .ok (.map (PairList.ofList (mapCollectL cells [])))

/-- every insertion performed by the literal was shape-independent -/
def mapLiteralShapeFree : List Cell → Entries → Bool
  | v :: k :: rest, acc => shapeFree k acc && mapLiteralShapeFree rest (insertL k v acc)
  | _, _ => true

/-- what the `I` of a `foreach` loop pushes over all iterations (`counter_value`: a map pushes the key,
    then the value, in ascending key order; a vector pushes the element) -/
def foreachItems (c : Cell) : Outcome (List Cell) :=
  match c.value with
  | .map m => .ok (m.toList.flatMap fun p => [p.1, p.2])
  | .vec v => .ok v.toList
  | other => .err (.typeNotSupported other)

/-- number of iterations (`foreach_init`) -/
def foreachLimit (c : Cell) : Outcome Nat :=
  match c.value with
  | .map m => .ok m.size
  | .vec v => .ok v.length
  | other => .err (.typeNotSupported other)

/-- cells that `c foreach I loop` leaves on the data stack, bottom first (after repair e729596 an empty
    collection is consumed by `foreach_init` like a non-empty one is by `foreach_next`) -/
def foreachLeaves (c : Cell) : Outcome (List Cell) := foreachItems c

/-! ## sort -/

def insertSorted (x : Cell) : List Cell → List Cell
  | [] => [x]
  | y :: t => if Cell.cmp x y == .gt then y :: insertSorted x t else x :: y :: t

/-- stable insertion sort under `cmp` (equal elements keep their original order) -/
def sortL : List Cell → List Cell
  | [] => []
  | x :: t => insertSorted x (sortL t)

/-- `cmp` is a consistent preorder on the elements: one comparable class, or all pairs `Equal` -/
def sortConsistent (l : List Cell) : Bool :=
  (match l with
   | [] => true
   | x :: _ => x.keyClass.isSome && l.all fun y => y.keyClass == x.keyClass)
  || l.all fun a => l.all fun b => Cell.cmp a b == .eq

/-! ## indices -/

/-- `relative_index(len, index: isize)` -/
def relativeIndex (len : Nat) (index : Int) : Option Nat :=
  if index < 0 then
    (if index.natAbs > len then none else some (len - index.natAbs))
  else if index.toNat < len then some index.toNat else none

/-- `slicing_index(idx: isize, len)` -/
def slicingIndex (idx : Int) (len : Nat) : Nat :=
  if idx < 0 then len - min idx.natAbs len else min idx.toNat len

/-- `i.max(isize::MIN).min(isize::MAX) as isize` -/
def clampIsize (i : Int) : Int := min (max i isizeMin) isizeMax

/-- `slice_vec` / `slice_str` (char-indexed): `iter().skip(start).take(end - start.min(end))` -/
def sliceList (l : List α) (start stop : Int) : List α :=
  let s := slicingIndex start l.length
  let e := slicingIndex stop l.length
  (l.drop s).take (e - min s e)

/-! ## concat / join -/

/-- `format_cell` for the values whose default printing is modelled -/
def fmtCell : Cell → Option (List Char)
  | .int i => some (toString i).toList
  | .nil => some ['n', 'i', 'l']
  | .flag true => some ['t', 'r', 'u', 'e']
  | .flag false => some ['f', 'a', 'l', 's', 'e']
  | _ => none

mutual
/-- one element of `join_str_vec`: vectors (through `value()`) are flattened with the same separator,
    strings are appended raw, everything else goes through `format_cell` -/
def joinPiece (sep : List Char) : Cell → Option (List Char)
  | .vec xs => joinCells sep xs
  | .str s => some s
  | .tagged (.vec xs) _ => joinCells sep xs
  | .tagged (.str s) _ => some s
  | c => fmtCell c
/-- the separator goes after every element except the last (`n += 1; if n < v.len()`) -/
def joinCells (sep : List Char) : CellList → Option (List Char)
  | .nil => some []
  | .cons x t =>
    match joinPiece sep x, t, joinCells sep t with
    | some a, .nil, _ => some a
    | some a, .cons _ _, some b => some (a ++ sep ++ b)
    | _, _, _ => none
end

def unmodelledPrinter : Xerr := .errorMsg "model:unmodelled-printer"

/-! ## the words -/

namespace Coll
open Prog

def natCell (n : Nat) : Cell := .int (n : Int)

/-- `insert` ( map val key -- map' ) -/
def wordInsert : Prog :=
  .pop fun key => .pop fun val => .pop fun coll =>
    match coll.value with
    | .map m => .push (.map (m.insert key val)) .done
    | _ => .fail (.typeNotSupported coll)

/-- `remove` ( map key -- map' ) -/
def wordRemove : Prog :=
  .pop fun key => .pop fun coll =>
    match coll.value with
    | .map m => .push (.map (m.erase key)) .done
    | _ => .fail (.typeNotSupported coll)

/-- `get` ( coll key -- val ): vector by `usize` index, map by key (missing → nil) -/
def wordGet : Prog :=
  .pop fun key => .pop fun coll =>
    match coll.value with
    | .vec v =>
      ofOutcome key.toUsize fun idx =>
        match v.toList[idx]? with
        | some x => .push x .done
        | none => .fail (.outOfBounds idx 0 v.length)
    | .map m => .push ((m.lookup key).getD .nil) .done
    | _ => .fail (.typeNotSupported coll)

/-- `length`: elements of a vector, **bytes** of a string, bits of a bit-string -/
def wordLength : Prog :=
  .pop fun val =>
    match val.value with
    | .vec v => .push (natCell v.length) .done
    | .str s => .push (natCell (utf8Len s)) .done
    | .bitstr b => .push (natCell b.length) .done
    | v => .fail (.typeNotSupported v)

/-- `nth` ( vec index -- x ): relative index, the index is converted before the vector is popped -/
def wordNth : Prog :=
  .pop fun idx => ofOutcome idx.toIsize fun i =>
  .pop fun vc => ofOutcome vc.toVec fun v =>
    match relativeIndex v.length i with
    | some a =>
      match v.toList[a]? with
      | some x => .push x .done
      | none => .fail (.outOfBounds a 0 v.length)
    | none => .fail (.outOfBounds i 0 v.length)

/-- `slice` ( seq start end -- seq' ) -/
def wordSlice : Prog :=
  .pop fun e => ofOutcome e.toXint fun ei =>
  .pop fun s => ofOutcome s.toXint fun si =>
  .pop fun indexed =>
    match indexed.value with
    | .vec v => .push (.vec (CellList.ofList (sliceList v.toList (clampIsize si) (clampIsize ei)))) .done
    | .str cs => .push (.str (sliceList cs (clampIsize si) (clampIsize ei))) .done
    | _ => .fail (.typeNotSupported indexed)

def wordConcat : Prog :=
  .pop fun vc => ofOutcome vc.toVec fun v =>
    match joinCells [] v with
    | some s => .push (.str s) .done
    | none => .fail unmodelledPrinter

def wordJoin : Prog :=
  .pop fun sp => ofOutcome sp.toStr fun sep =>
  .pop fun vc => ofOutcome vc.toVec fun v =>
    match joinCells sep v with
    | some s => .push (.str s) .done
    | none => .fail unmodelledPrinter

def wordSort : Prog :=
  .pop fun vc => ofOutcome vc.toVec fun v =>
    .push (.vec (CellList.ofList (sortL v.toList))) .done

def wordReverse : Prog :=
  .pop fun vc => ofOutcome vc.toVec fun v =>
    .push (.vec (CellList.ofList v.toList.reverse)) .done

/-- `push` ( val vec -- vec' ) -/
def wordPush : Prog :=
  .pop fun vc => ofOutcome vc.toVec fun v =>
  .pop fun val =>
    .push (.vec (CellList.ofList (v.toList ++ [val]))) .done

/-- `collect` ( x₁ … xₙ n -- vec ) -/
def wordCollect : Prog :=
  .pop fun nc => ofOutcome nc.toUsize fun n =>
  .depth fun d =>
    if n > d then .fail .stackUnderflow
    else .rawLen fun len => .rawFrom (len - n) fun cells =>
      popN n (.push (.vec (CellList.ofList cells)) .done)

def wordUnbox : Prog :=
  .pop fun vc => ofOutcome vc.toVec fun v => pushAll v.toList .done

/-- the `istype.rs` predicates: `…().is_ok()` of the accessor -/
def wordIs (test : Cell → Bool) : Prog := .pop fun a => .push (.flag (test a)) .done

def isNil (a : Cell) : Bool := match a.value with | .nil => true | _ => false
def isBool (a : Cell) : Bool := match a.value with | .flag _ => true | _ => false
def isInt (a : Cell) : Bool := match a.value with | .int _ => true | _ => false
def isReal (a : Cell) : Bool := match a.value with | .real _ => true | _ => false
def isStr (a : Cell) : Bool := match a.value with | .str _ => true | _ => false
def isBitstr (a : Cell) : Bool := match a.value with | .bitstr _ => true | _ => false
def isVec (a : Cell) : Bool := match a.value with | .vec _ => true | _ => false

/-- collection words + type predicates (stack words and the `[ ] { }` / `foreach` helpers live in
    Model/Words.lean) -/
def collTable : List (String × Prog) := [
  ("insert", wordInsert),
  ("remove", wordRemove),
  ("get", wordGet),
  ("length", wordLength),
  ("nth", wordNth),
  ("slice", wordSlice),
  ("concat", wordConcat),
  ("join", wordJoin),
  ("sort", wordSort),
  ("reverse", wordReverse),
  ("push", wordPush),
  ("collect", wordCollect),
  ("unbox", wordUnbox),
  ("nil?", wordIs isNil),
  ("bool?", wordIs isBool),
  ("int?", wordIs isInt),
  ("real?", wordIs isReal),
  ("str?", wordIs isStr),
  ("bitstr?", wordIs isBitstr),
  ("vec?", wordIs isVec)
]

def collWord (w : String) : Option Prog := collTable.lookup w

end Coll
end Xeh
