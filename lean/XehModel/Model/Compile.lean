/-
L6: the flow-stack compiler — src/state.rs 407–470 (`build1`, `build_word`), 1514–1700 (control words),
1792–1862 (`:` `;` `late`), 2095–2137 (`local` `var` `!`), 2208–2262 (`do` `loop` `foreach`).

A faithful, token-by-token transliteration: a pending-flow stack, jumps emitted with an
uninitialised distance and backpatched when the closing word arrives, `take_first_cond_flow`
skipping `Break` entries, the debug map (one source-token index per opcode) kept parallel to the
code. Words outside the model make `compile` answer `unsupported` (never a wrong answer).
-/
import XehModel.Model.VM

namespace Xeh.Compile

inductive Tok where
  | lit (c : Cell)
  | word (w : String)
deriving DecidableEq, Repr

structure FunFlow where
  start : Nat
  locals : List String   -- in declaration order
deriving DecidableEq, Repr

inductive Flow where
  | ifF (org : Nat)
  | elseF (org : Nat)
  | beginF (org : Nat)
  | whileF (org : Nat)
  | breakF (org : Nat)
  | caseF
  | caseOfF (org : Nat)
  | caseEndOfF (org : Nat)
  | vecF
  | mapF
  | tagsF
  | funF (ff : FunFlow)
  | doF (forOrg bodyOrg : Nat)
deriving DecidableEq, Repr

/-- compile-time errors carry the index of the token blamed (`last_token`) -/
structure CErr where
  err : Xerr
  tok : Nat
deriving DecidableEq, Repr

structure CState where
  code : List Op := []
  /-- debug map: index of the source token each opcode was emitted for -/
  dmap : List Nat := []
  /-- pending flows, top at the head, only the part above `ctx.fs_len` -/
  flows : List Flow := []
  /-- dictionary, newest first -/
  dict : List (String × Entry) := []
  heapLen : Nat := 0
  heapLimit : Option Nat := none
  /-- `xs.flow_stack.is_empty()` looks at the whole stack, hidden part included -/
  hiddenFlows : Nat := 0
  lastTok : Nat := 0
  /-- the current context is a meta block (`alloc_heap` refuses to work there) -/
  inMeta : Bool := false
deriving Repr

inductive CRes (α : Type) where
  | ok (a : α)
  /-- the error, and the compiler state at the moment of failure (what `build_unwind` starts from) -/
  | err (e : CErr) (s : CState)
  | unsupported (what : String)
deriving Repr

def unbalanced (msg : String) : Xerr := .controlFlow msg

/-- `Xerr::unbalanced_flow` : the message for a flow left open -/
def flowError : Flow → Xerr
  | .ifF _ | .elseF _ => unbalanced "balance then with preceding if/else"
  | .beginF _ | .whileF _ => unbalanced "balance repeat with preceding begin/while"
  | .breakF _ => unbalanced "`break` used outside of the loop control flow"
  | .caseF | .caseEndOfF _ => unbalanced "balance endcase with preceding case"
  | .caseOfF _ => unbalanced "balance endof with preceding of"
  | .vecF => unbalanced "unbalanced vector builder"
  | .mapF => unbalanced "unbalanced map builder"
  | .tagsF => unbalanced "unbalanced tags map builder"
  | .funF _ => unbalanced "balance ; with preceding :"
  | .doF _ _ => unbalanced "balance do with closing loop"

/-- `RelativeJump::from_to` -/
def fromTo (origin dest : Nat) : Int := (dest : Int) - (origin : Int)

namespace CState

def origin (s : CState) : Nat := s.code.length

/-- `code_emit`: the opcode is attributed to the last token read -/
def emit (s : CState) (op : Op) : CState :=
  { s with code := s.code ++ [op], dmap := s.dmap ++ [s.lastTok] }

def pushFlow (s : CState) (f : Flow) : CState := { s with flows := f :: s.flows }

def popFlow (s : CState) : Option (Flow × CState) :=
  match s.flows with
  | f :: rest => some (f, { s with flows := rest })
  | [] => none

/-- `backpatch_jump`: keep the kind of jump that is there, replace its distance -/
def backpatchJump (s : CState) (at_ : Nat) (rel : Int) : Option CState :=
  match s.code[at_]? with
  | some (.jump _) => some { s with code := s.code.set at_ (.jump rel) }
  | some (.jumpIf _) => some { s with code := s.code.set at_ (.jumpIf rel) }
  | some (.jumpIfNot _) => some { s with code := s.code.set at_ (.jumpIfNot rel) }
  | some (.caseOf _) => some { s with code := s.code.set at_ (.caseOf rel) }
  | _ => none   -- Rust: InternalError (index) or panic "not a jump instruction"

def backpatch (s : CState) (at_ : Nat) (op : Op) : CState := { s with code := s.code.set at_ op }

/-- `take_first_cond_flow`: the top-most non-`Break` entry, if it is a conditional kind -/
def takeFirstCond : List Flow → Option (Flow × List Flow)
  | [] => none
  | .breakF o :: rest =>
    match takeFirstCond rest with
    | some (f, rest') => some (f, .breakF o :: rest')
    | none => none
  | f :: rest =>
    match f with
    | .ifF _ | .elseF _ | .caseF | .caseOfF _ | .caseEndOfF _ => some (f, rest)
    | _ => none

/-- `top_function_flow` -/
def topFun : List Flow → Option FunFlow
  | [] => none
  | .funF ff :: _ => some ff
  | _ :: rest => topFun rest

def setTopFun (ff : FunFlow) : List Flow → List Flow
  | [] => []
  | .funF _ :: rest => .funF ff :: rest
  | f :: rest => f :: setTopFun ff rest

/-- `locals.iter().rposition(|x| x == name)` -/
def rposition (name : String) (ls : List String) : Option Nat :=
  let idxs := (List.range ls.length).filter fun i => ls[i]? == some name
  idxs.getLast?

end CState

open CState

def cerr (s : CState) (e : Xerr) : CRes α := .err ⟨e, s.lastTok⟩ s

/-- opcode for a literal / constant (`load_value_opcode`) -/
def loadValueOp (c : Cell) : Op := Mach.loadValueOp c

/-- names the model compiles itself (immediate words of `load_core`) -/
def immediates : List String :=
  ["if", "else", "then", "case", "of", "endof", "endcase", "begin", "while", "until", "break", "repeat",
   "[", "]", "{", "}", ":", ";", "late", "immediate", "local", "var", "!", "nil", "#(", "#)", "~)", "const",
   "do", "loop", "foreach", "defined", "let", "include", "require", "^{", "^}", "^hex", "^dec", "^oct", "^bin",
   "fmt/prefix", "fmt/tags", "fmt/upcase", "see", "enum", "endenum"]

/-- `endcase`: patch every pending `endof` jump, stop at the `case` -/
def endcaseLoop (fuel : Nat) (s : CState) (endOrg : Nat) : CRes CState :=
  match fuel with
  | 0 => .unsupported "fuel"
  | fuel + 1 =>
    match takeFirstCond s.flows with
    | some (.caseEndOfF org, rest) =>
      match ({ s with flows := rest } : CState).backpatchJump org (fromTo org endOrg) with
      | some s' => endcaseLoop fuel s' endOrg
      | none => .unsupported "backpatch"
    | some (.caseF, rest) => .ok { s with flows := rest }
    | _ => cerr s (unbalanced "balance endcase with preceding case")

/-- `repeat`: resolve pending breaks, then close `begin` or `begin … while` -/
def repeatLoop (fuel : Nat) (s : CState) : CRes CState :=
  match fuel with
  | 0 => .unsupported "fuel"
  | fuel + 1 =>
    match s.popFlow with
    | some (.breakF org, s) =>
      match s.backpatchJump org (fromTo org (s.origin + 1)) with
      | some s' => repeatLoop fuel s'
      | none => .unsupported "backpatch"
    | some (.beginF b, s) => .ok (s.emit (.jump (fromTo s.origin b)))
    | some (.whileF c, s) =>
      match s.popFlow with
      | some (.beginF b, s) =>
        match s.backpatchJump c (fromTo c (s.origin + 1)) with
        | some s' => .ok (s'.emit (.jump (fromTo s'.origin b)))
        | none => .unsupported "backpatch"
      | some (_, s') => cerr s' (unbalanced "balance while with preceding begin")
      | none => cerr s (unbalanced "balance while with preceding begin")
    | some (_, s') => cerr s' (unbalanced "balance repeat with preceding begin/while")
    | none => cerr s (unbalanced "balance repeat with preceding begin/while")

/-- `loop`: resolve pending breaks into `Break` opcodes, then close the `do` -/
def loopLoop (fuel : Nat) (s : CState) (loopOrg stopOrg : Nat) : CRes CState :=
  match fuel with
  | 0 => .unsupported "fuel"
  | fuel + 1 =>
    match s.popFlow with
    | some (.breakF org, s) => loopLoop fuel (s.backpatch org (.breakOp (fromTo org stopOrg))) loopOrg stopOrg
    | some (.doF forOrg bodyOrg, s) =>
      let s := s.backpatch forOrg (.doOp (fromTo forOrg stopOrg))
      .ok (s.backpatch loopOrg (.loopOp (fromTo loopOrg bodyOrg)))
    | some (_, s') => cerr s' (unbalanced "balance loop with preceding do")
    | none => cerr s (unbalanced "balance loop with preceding do")

def hasLoops (fl : List Flow) : Bool :=
  fl.any fun | .beginF _ | .whileF _ | .doF _ _ => true | _ => false

def emitNative (s : CState) (name : String) : CState := s.emit (.native name)

/-- one immediate word that takes no name argument -/
def immediate (s : CState) (w : String) : CRes CState :=
  match w with
  | "if" => .ok ((s.pushFlow (.ifF s.origin)).emit (.jumpIfNot 0))
  | "else" =>
    match takeFirstCond s.flows with
    | some (.ifF ifOrg, rest) =>
      let s := { s with flows := rest }
      let elseOrg := s.origin
      let s := (s.pushFlow (.elseF elseOrg)).emit (.jump 0)
      match s.backpatchJump ifOrg (fromTo ifOrg s.origin) with
      | some s => .ok s
      | none => .unsupported "backpatch"
    | some (_, rest) => cerr { s with flows := rest } (unbalanced "balance else with preceding if")
    | none => cerr s (unbalanced "balance else with preceding if")
  | "then" =>
    match takeFirstCond s.flows with
    | some (.ifF org, rest) | some (.elseF org, rest) =>
      match ({ s with flows := rest } : CState).backpatchJump org (fromTo org s.origin) with
      | some s => .ok s
      | none => .unsupported "backpatch"
    | some (_, rest) => cerr { s with flows := rest } (unbalanced "balance then with preceding if/else")
    | none => cerr s (unbalanced "balance then with preceding if/else")
  | "case" => .ok (s.pushFlow .caseF)
  | "of" => .ok ((s.pushFlow (.caseOfF s.origin)).emit (.caseOf 0))
  | "endof" =>
    match takeFirstCond s.flows with
    | some (.caseOfF ofOrg, rest) =>
      let s := { s with flows := rest }
      let endofOrg := s.origin
      let s := s.emit (.jump 0)
      match s.backpatchJump ofOrg (fromTo ofOrg s.origin) with
      | some s => .ok (s.pushFlow (.caseEndOfF endofOrg))
      | none => .unsupported "backpatch"
    | some (_, rest) => cerr { s with flows := rest } (unbalanced "balance endof with preceding of")
    | none => cerr s (unbalanced "balance endof with preceding of")
  | "endcase" => endcaseLoop (s.flows.length + 1) s s.origin
  | "begin" => .ok (s.pushFlow (.beginF s.origin))
  | "until" =>
    match s.popFlow with
    | some (.beginF b, s) => .ok (s.emit (.jumpIfNot (fromTo s.origin b)))
    | some (_, s') => cerr s' (unbalanced "balance util with preceding begin")
    | none => cerr s (unbalanced "balance util with preceding begin")
  | "while" => .ok ((s.emit (.jumpIfNot 0)).pushFlow (.whileF s.origin))
  | "repeat" => repeatLoop (s.flows.length + 1) s
  | "break" =>
    if hasLoops s.flows then .ok ((s.emit (.jump 0)).pushFlow (.breakF s.origin))
    else cerr s (unbalanced "`break` used outside of the loop control flow")
  | "[" => .ok (emitNative (s.pushFlow .vecF) "<vec-begin>")
  | "]" =>
    match s.popFlow with
    | some (.vecF, s) => .ok (emitNative s "<vec-end>")
    | some (_, s') => cerr s' (unbalanced "unbalanced vector builder")
    | none => cerr s (unbalanced "unbalanced vector builder")
  | "{" => .ok (emitNative (s.pushFlow .mapF) "<map-begin>")
  | "}" =>
    match s.popFlow with
    | some (.mapF, s) => .ok (emitNative s "<map-end>")
    | some (_, s') => cerr s' (unbalanced "unbalanced map builder")
    | none => cerr s (unbalanced "unbalanced map builder")
  | "^{" => .ok (emitNative (s.pushFlow .tagsF) "<vec-begin>")
  | "^}" =>
    match s.popFlow with
    | some (.tagsF, s) => .ok (emitNative s "<tags-end>")
    | some (_, s') => cerr s' (unbalanced "unbalanced vector builder")
    | none => cerr s (unbalanced "unbalanced vector builder")
  | ";" =>
    match s.popFlow with
    | some (.funF ff, s) =>
      let s := s.emit .ret
      match s.backpatchJump ff.start (fromTo ff.start s.origin) with
      | some s => .ok s
      | none => .unsupported "backpatch"
    | none => cerr s (unbalanced "balance ; with preceding :")
    | some (f, s') => cerr s' (flowError f)
  | "nil" => .ok (s.emit .loadNil)
  | "do" =>
    let forOrg := s.origin
    let s := s.emit (.doOp 0)
    .ok (s.pushFlow (.doF forOrg s.origin))
  | "loop" =>
    let loopOrg := s.origin
    let s := s.emit (.loopOp 0)
    loopLoop (s.flows.length + 1) s loopOrg s.origin
  | "foreach" =>
    let s := emitNative s "<foreach-init>"
    let forOrg := s.origin
    let s := s.emit (.doOp 0)
    let s := s.pushFlow (.doF forOrg s.origin)
    .ok (emitNative s "<foreach-next>")
  | "^hex" => .ok (emitNative (s.emit (loadValueOp (.int 16))) "<fmt-base>")
  | "^dec" => .ok (emitNative (s.emit (loadValueOp (.int 10))) "<fmt-base>")
  | "^oct" => .ok (emitNative (s.emit (loadValueOp (.int 8))) "<fmt-base>")
  | "^bin" => .ok (emitNative (s.emit (loadValueOp (.int 2))) "<fmt-base>")
  | "fmt/prefix" => .ok (emitNative s "<fmt-prefix>")
  | "fmt/tags" => .ok (emitNative s "<fmt-tags>")
  | "fmt/upcase" => .ok (emitNative s "<fmt-upcase>")
  | w => .unsupported w

/-- `build_local_variable` -/
def buildLocal (s : CState) (name : String) : CRes CState :=
  match topFun s.flows with
  | some ff =>
    let idx := ff.locals.length
    let s := { s with flows := setTopFun { ff with locals := ff.locals ++ [name] } s.flows }
    .ok (s.emit (.initLocal idx))
  | none => cerr s (unbalanced "has no effect outside of the function control flow")

/-- `build_global_variable` -/
def buildGlobal (s : CState) (name : String) : CRes CState :=
  if s.flows.isEmpty && s.hiddenFlows == 0 then
    if s.inMeta then cerr s Mach.constContext else
    match s.heapLimit with
    | some lim =>
      if s.heapLen ≥ lim then cerr s (.errorMsg s!"heap limit reached: {s.heapLen} of {lim}")
      else
        let a := s.heapLen
        .ok (({ s with heapLen := a + 1, dict := (name, .var a) :: s.dict } : CState).emit (.store a))
    | none =>
      let a := s.heapLen
      .ok (({ s with heapLen := a + 1, dict := (name, .var a) :: s.dict } : CState).emit (.store a))
  else cerr s (unbalanced "variable definition must be unconditional")

/-- an immediate word that reads the next token as a name -/
def withName (s : CState) (w name : String) : CRes CState :=
  match w with
  | ":" =>
    let start := s.origin
    let s := s.emit (.jump 0)
    let s := { s with dict := (name, .interp false s.origin) :: s.dict }
    .ok (s.pushFlow (.funF { start := start, locals := [] }))
  | "local" => buildLocal s name
  | "var" => buildGlobal s name
  | "!" =>
    match s.dict.lookup name with
    | none => cerr s (.unknownWord name.toList)
    | some (.var a) => .ok (s.emit (.store a))
    | some _ => cerr s (.errorMsg "word is readonly")
  | "defined" => .ok (s.emit (loadValueOp (.flag (s.dict.lookup name).isSome)))
  | w => .unsupported w

def takesName (w : String) : Bool := w == ":" || w == "local" || w == "var" || w == "!" || w == "defined" || w == "late"

/-- `late name`: the jump and the Resolve/Ret pair are emitted around reading the name -/
def late (s : CState) (name : String) (nameTok : Nat) : CRes CState :=
  -- Jump is attributed to the `late` token, Resolve and Ret to the name token
  let over := s.origin
  let s := s.emit (.jump 0)
  let s := { s with lastTok := nameTok }
  let wordStart := s.origin
  let s := (s.emit (.resolve name)).emit .ret
  match s.backpatchJump over (fromTo over s.origin) with
  | some s => .ok { s with dict := (name, .interp false wordStart) :: s.dict }
  | none => .unsupported "backpatch"

/-- `build_word` for a word that is not a local -/
def buildWord (s : CState) (w : String) : CRes CState :=
  match s.dict.lookup w with
  | none => cerr s (.unknownWord w.toList)
  | some (.const c) => .ok (s.emit (loadValueOp c))
  | some (.var a) => .ok (s.emit (.load a))
  | some (.interp true _) => .unsupported "user immediate"
  | some (.native true n) => immediate s n
  | some (.interp false a) => .ok (s.emit (.call a))
  | some (.native false n) => .ok (s.emit (.native n))

/-- `build1` over a token list (token `i` of the source has index `idx`) -/
def compileToks : List Tok → Nat → CState → CRes CState
  | [], idx, s =>
    -- end of input: `last_token` is the empty token at the end of the text (index = number of tokens)
    match s.flows with
    | [] => .ok s
    | f :: _ => cerr { s with lastTok := idx } (flowError f)
  | .lit c :: rest, idx, s =>
    let s := { s with lastTok := idx }
    compileToks rest (idx + 1) (s.emit (loadValueOp c))
  | .word w :: rest, idx, s =>
    let s := { s with lastTok := idx }
    match (topFun s.flows).bind fun ff => rposition w ff.locals with
    | some i => compileToks rest (idx + 1) (s.emit (.loadLocal i))
    | none =>
      match s.dict.lookup w with
      | some (.native true n) =>
        if takesName n then
          -- `next_name`: the following token must be a word; otherwise the *previous* token is blamed
          match rest with
          | .word name :: rest' =>
            let r := if n == "late" then late s name (idx + 1)
                     else withName { s with lastTok := idx + 1 } n name
            match r with
            | .ok s' => compileToks rest' (idx + 2) s'
            | .err e sp => .err e sp
            | .unsupported u => .unsupported u
          | _ =>
            if n == "late" then
              -- the Jump has been emitted already; the error is what matters
              cerr s .expectingName
            else cerr s .expectingName
        else
          match immediate s n with
          | .ok s' => compileToks rest (idx + 1) s'
          | .err e sp => .err e sp
          | .unsupported u => .unsupported u
      | _ =>
        match buildWord s w with
        | .ok s' => compileToks rest (idx + 1) s'
        | .err e sp => .err e sp
        | .unsupported u => .unsupported u

end Xeh.Compile
