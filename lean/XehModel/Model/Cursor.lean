/-
L2: the parsing cursor and the binary-construction words (src/bitstr_ext.rs 1–680).

Specification level over `List Bool` (modelling decision): a bit-string value is its bit list; the
open input is a bit list plus a position `pos` *relative to the input's first bit*.  The Rust
variables `offset`, the argument of `seek` and the result of `find` are absolute buffer positions;
the model therefore also carries `base` = `input.start()`, the absolute position of the input's
first bit inside its backing buffer.  `base` is a parameter supplied by the environment when an
input is opened (`POp.openBitstr base`): which buffer offset a bit-string value happens to live at
is representation (layer L1, C04/C05), not cursor behaviour.  It is observable only through
`offset`/`seek`/`find` (absolute numbers) and `find`'s requirement that the rest be byte-aligned
*in the buffer*.

    Rust variable            model
    input                    input (bits), base
    offset                   base + pos
    stash (vector of inputs tagged with their offset)   stash : List Frame (head = last pushed)
    big?                     bigEndian
    output / output-length   output : Option bits (none = nil, not intercepted) / outputLen

Every word is a total function `CurState → CurState × Outcome Unit`; arguments are taken from the
data stack `ds` (head = top) exactly in the order the Rust code pops them, so after an error the
cells the word had already popped are gone and nothing else has changed.  usize arithmetic is
explicit: `to_usize` (negative → "positive integer" type error, > usize::MAX → IntegerOverflow),
`n.checked_mul(8)`, `start.checked_add(n)`.  The only unchecked addition left in the file,
`output-length + len` in `emit`, is a panic value (debug profile; the release profile would wrap —
unreachable below 2^64 emitted bits).

Not modelled: `dump dump-at read-all write-all exec-piped random-bits bitstr-not/and/or/xor
hex>bitstr bitstr>hex bitstr>utf8 bitstr-len >b >kb >mb`, and the bytes `emit` writes to stdout
when interception is off (only its error/ok status and the length update are modelled).
-/
import XehModel.Model.CursorBits
import XehModel.Model.SoftFloat

namespace Xeh.Cur
open Xeh

structure Frame where
  bits : List Bool
  base : Nat
  pos : Nat
deriving DecidableEq, Repr

structure CurState where
  input : List Bool := []
  base : Nat := 0
  pos : Nat := 0
  stash : List Frame := []
  bigEndian : Bool := false
  ds : List Cell := []
  output : Option (List Bool) := none
  outputLen : Nat := 0
  /-- `Xstate::set_stack_limit` (feature `calc_limit`, on by default): `push_data` refuses when the stack holds that many -/
  stackLimit : Option Nat := none
deriving DecidableEq, Repr

/-- state right after `Xstate::boot()` -/
def CurState.boot : CurState := {}

abbrev Res := CurState × Outcome Unit

/-- the words; `bo = none` means "current byte order" (variable `big?`), `some true` = big -/
inductive POp where
  | push (c : Cell)                       -- `push_data` / a literal
  | intercept (yes : Bool)                -- `Xstate::intercept_output`
  | limit (l : Option Nat)                -- `Xstate::set_stack_limit`
  | bits | bytes
  | readU (n : Nat) (bo : Option Bool)    -- u8 u8le u8be … u64be
  | readI (n : Nat) (bo : Option Bool)
  | readF (n : Nat) (bo : Option Bool)    -- f32 f32le … f64be
  | uint | int | float                    -- width popped from the stack
  | magic | seek | find | remain | nulbytestr | cstr
  | openBitstr (base : Nat) | closeBitstr
  | big | little
  | offset | input                        -- reading the variables
  | packInt (n : Nat) (bo : Option Bool)  -- u8! i8! u8le! … (signedness is irrelevant when packing)
  | packIntN                              -- int! uint!
  | packF (n : Nat) (bo : Option Bool)    -- f32! … f64be!
  | packFN                                -- float!
  | toBitstr | bitstrAppend | emit | output | outputLength
deriving DecidableEq, Repr

/-! ### plumbing -/

def popCell (s : CurState) (k : Cell → CurState → Res) : Res :=
  match s.ds with
  | [] => (s, .err .stackUnderflow)
  | c :: r => k c { s with ds := r }

def lift {α : Type} (s : CurState) (o : Outcome α) (k : α → Res) : Res :=
  match o with
  | .ok a => k a
  | .err e => (s, .err e)
  | .panic p => (s, .panic p)

def popUsize (s : CurState) (k : Nat → CurState → Res) : Res :=
  popCell s fun c s => lift s c.toUsize fun n => k n s

def popBitstr (s : CurState) (k : List Bool → CurState → Res) : Res :=
  popCell s fun c s => lift s c.toBitstr fun b => k b s

/-- the stack holds as many cells as the limit allows -/
def full (s : CurState) : Bool :=
  match s.stackLimit with
  | some lim => decide (s.ds.length ≥ lim)
  | none => false

/-- the error of `check_stack_limit` -/
def limErr (s : CurState) : Xerr := .errorMsg s!"stack limit reached: {s.stackLimit.getD 0}"

/-- `push_data`: refused when the stack limit is reached -/
def pushC (s : CurState) (c : Cell) : Res :=
  if full s then (s, .err (limErr s)) else ({ s with ds := c :: s.ds }, .ok ())

/-- push, and go on only if the push was not refused -/
def pushThen (s : CurState) (c : Cell) (k : CurState → Res) : Res :=
  if full s then (s, .err (limErr s)) else k { s with ds := c :: s.ds }

def byteorder (s : CurState) : Option Bool → Bool
  | some b => b
  | none => s.bigEndian

/-! ### cursor primitives -/

/-- `s.end().max(offset) - offset` -/
def remainOf (s : CurState) : Nat := s.input.length - s.pos

/-- `peek_bits`: `start.checked_add(n)` then `substr(start, end)`; both failures give ReadError -/
def peek (s : CurState) (n : Nat) : Outcome (List Bool) :=
  if s.base + s.pos + n > usizeMaxN then .err (.readError (remainOf s) n)
  else if s.pos + n ≤ s.input.length then .ok ((s.input.drop s.pos).take n)
  else .err (.readError (remainOf s) n)

/-- `move_offset_checked(abs)?` followed by `k` -/
def moveThen (s : CurState) (abs : Nat) (k : CurState → Res) : Res :=
  if s.base ≤ abs ∧ abs ≤ s.base + s.input.length then k { s with pos := abs - s.base }
  else (s, .err (.seekError abs))

/-- `move_offset_checked` with an absolute target -/
def moveAbs (s : CurState) (abs : Nat) : Res := moveThen s abs fun s => (s, .ok ())

/-- `rest_bits`: `input.seek(offset)` -/
def rest (s : CurState) : Outcome (List Bool) :=
  if s.pos ≤ s.input.length then .ok (s.input.drop s.pos)
  else .err (.outOfBounds (s.base + s.pos) s.base (s.base + s.input.length))

/-- peek `n` bits, convert, push, move the offset past them (the value goes on the stack first: a push that the
    stack limit refuses leaves the offset where it was — `push_and_advance`) -/
def readWith (s : CurState) (n : Nat) (conv : List Bool → Outcome Cell) : Res :=
  lift s (peek s n) fun bs =>
  lift s (conv bs) fun c =>
  pushThen s c fun s1 => moveAbs s1 (s.base + s.pos + n)

def strCell (s : String) : Cell := .str s.toList

/-- `bitstr_num_tags` (little-endian host): `{ "big": true, "len": n }` in key order -/
def numTags (len : Nat) (big : Bool) : PairList :=
  if big then .cons (strCell "big") (.flag true) (.cons (strCell "len") (.int len) .nil)
  else .cons (strCell "len") (.int len) .nil

def convUnsigned (big : Bool) (bs : List Bool) : Outcome Cell :=
  if bs.length > 127 then .err .integerOverflow
  else .ok (.tagged (.int (toUint big bs)) (numTags bs.length big))

def convSigned (big : Bool) (bs : List Bool) : Outcome Cell :=
  if bs.length > 128 then .err .integerOverflow
  else .ok (.tagged (.int (toInt big bs)) (numTags bs.length big))

/-- `f64 as f32`: SoftFloat rounding for numbers; for NaN the conversion instruction's behaviour
    (x86-64 cvtsd2ss / AArch64 fcvt): sign kept, payload truncated to its top bits, quiet bit set -/
def f64to32 (r : UInt64) : UInt32 :=
  if SF.isNaN64 r then
    UInt32.ofNat ((r.toNat / 2^63) * 2^31 + 0x7fc00000 + (r.toNat / 2^29) % 2^22)
  else SF.f64to32 r

/-- `f32 as f64`: exact for numbers; NaN: sign kept, payload moved to the top bits, quiet bit set -/
def f32to64 (x : UInt32) : UInt64 :=
  if SF.isNaN SF.f32 x.toNat then
    UInt64.ofNat ((x.toNat / 2^31) * 2^63 + 0x7ff8000000000000 + (x.toNat % 2^22) * 2^29)
  else SF.f32to64 x

def floatLenErr (n : Nat) : Xerr := .errorMsg s!"unsupported float length {n}"

def convFloat (n : Nat) (big : Bool) (bs : List Bool) : Outcome Cell :=
  if n = 32 then .ok (.tagged (.real (f32to64 (UInt32.ofNat (toUint big bs)))) (numTags bs.length big))
  else if n = 64 then .ok (.tagged (.real (UInt64.ofNat (toUint big bs))) (numTags bs.length big))
  else .err (floatLenErr n)

/-- index of the first differing bit (`MatchError.fail_pos`) -/
def mismatchPos : List Bool → List Bool → Nat
  | a :: as, b :: bs => if a = b then mismatchPos as bs + 1 else 0
  | _, _ => 0

/-- `memmem::find` over bytes: first byte index at which `pat` occurs in `rest` -/
def findGo (pat : List Bool) : (fuel : Nat) → List Bool → Nat → Option Nat
  | 0, rest, i => if pat.isPrefixOf rest then some i else none
  | f+1, rest, i => if pat.isPrefixOf rest then some i else findGo pat f (rest.drop 8) (i + 1)

def findBytes (pat rest : List Bool) : Option Nat := findGo pat (rest.length / 8) rest 0

/-- length consumed by `nulbytestr`: groups of 8 up to and including the first zero group -/
def scanNul : (fuel : Nat) → List Bool → Nat
  | 0, _ => 0
  | f+1, bs =>
    if bs.isEmpty then 0
    else if beVal (bs.take 8) = 0 then min 8 bs.length
    else min 8 bs.length + scanNul f (bs.drop 8)

/-- `nulbytestr_peek`, then push what `mk` makes of the bytes, then move the offset behind them -/
def nulRead (s : CurState) (mk : List Bool → Cell) : Res :=
  lift s (rest s) fun r =>
  if r.length % 8 ≠ 0 then (s, .err .toBytestrError)
  else
    let len := scanNul r.length r
    pushThen s (mk (r.take len)) fun s1 => moveAbs s1 (s.base + s.pos + len)

/-- `cstr`: bytes before the first NUL, each byte one char (Latin-1) -/
def cstrChars (bs : List Bool) : List Char :=
  ((bytes8 bs).takeWhile (· ≠ 0)).map Char.ofNat

/-! ### `>bitstr` (`bitstr_concat`) -/

def byteCell (i : Int) : Outcome (List Bool) :=
  if 0 ≤ i ∧ i ≤ 255 then .ok (beBits 8 i.toNat) else .err .integerOverflow

mutual
/-- one element of a vector, after `x.value()` -/
def concatElem : Cell → Outcome (List Bool)
  | .int i => byteCell i
  | .str s => .ok (bytesToBits (utf8Bytes s))
  | .bitstr b => .ok b
  | .vec v => concatVec v
  | .tagged (.int i) _ => byteCell i
  | .tagged (.str s) _ => .ok (bytesToBits (utf8Bytes s))
  | .tagged (.bitstr b) _ => .ok b
  | .tagged (.vec v) _ => concatVec v
  | .tagged v _ => .err (.typeNotSupported v)
  | c => .err (.typeNotSupported c)
def concatVec : CellList → Outcome (List Bool)
  | .nil => .ok []
  | .cons x t =>
    match concatElem x with
    | .ok a =>
      match concatVec t with
      | .ok b => .ok (a ++ b)
      | e => e
    | e => e
end

/-- `bitstr_concat(val)` -/
def bitstrConcat (c : Cell) : Outcome (List Bool) :=
  match c.value with
  | .str s => .ok (bytesToBits (utf8Bytes s))
  | .vec v => concatVec v
  | .bitstr b => .ok b
  | v => .err (.typeNotSupported v)

/-! ### packers -/

def packIntBo (s : CurState) (n : Nat) (big : Bool) : Res :=
  popCell s fun c s => lift s c.toXint fun v => pushC s (.bitstr (fromInt big v n))

def packFloatBo (s : CurState) (n : Nat) (big : Bool) : Res :=
  popCell s fun c s => lift s c.toReal fun r =>
    if n = 32 then pushC s (.bitstr (fromInt big (f64to32 r).toNat 32))
    else if n = 64 then pushC s (.bitstr (fromInt big r.toNat 64))
    else (s, .err (floatLenErr n))

/-! ### the step function -/

def step (s : CurState) : POp → Res
  | .push c => pushC s c
  | .intercept true => ({ s with output := some (s.output.getD []) }, .ok ())
  | .intercept false => ({ s with output := none }, .ok ())
  | .limit l => ({ s with stackLimit := l }, .ok ())
  | .bits => popUsize s fun n s => readWith s n fun bs => .ok (.bitstr bs)
  | .bytes => popUsize s fun n s =>
      if n * 8 > usizeMaxN then (s, .err .integerOverflow)
      else readWith s (n * 8) fun bs => .ok (.bitstr bs)
  | .readU n bo => readWith s n (convUnsigned (byteorder s bo))
  | .readI n bo => readWith s n (convSigned (byteorder s bo))
  | .readF n bo => readWith s n (convFloat n (byteorder s bo))
  | .uint => popUsize s fun n s => readWith s n (convUnsigned s.bigEndian)
  | .int => popUsize s fun n s => readWith s n (convSigned s.bigEndian)
  | .float => popUsize s fun n s => readWith s n (convFloat n s.bigEndian)
  | .magic => popBitstr s fun pat s =>
      readWith s pat.length fun bs =>
        if bs ≠ pat then .err (.matchError (mismatchPos bs pat)) else .ok (.bitstr bs)
  | .seek => popUsize s fun p s => moveAbs s p
  | .find => popBitstr s fun pat s =>
      lift s (rest s) fun r =>
      if pat.length % 8 ≠ 0 then (s, .err .toBytestrError)
      else if (s.base + s.pos) % 8 ≠ 0 ∨ r.length % 8 ≠ 0 then (s, .err .bitstrSliceError)
      else match findBytes pat r with
        | some i => pushC s (.int (s.base + s.pos + i * 8 : Nat))
        | none => pushC s .nil
  | .remain => pushC s (.int (remainOf s : Nat))
  | .nulbytestr => nulRead s fun bs => .bitstr bs
  | .cstr => nulRead s fun bs => .str (cstrChars bs)
  | .openBitstr base => popBitstr s fun b s =>
      ({ s with input := b, base := base, pos := 0, stash := ⟨s.input, s.base, s.pos⟩ :: s.stash }, .ok ())
  | .closeBitstr =>
      match s.stash with
      | [] => (s, .err (.outOfBounds 0 0 0))
      | f :: r => ({ s with input := f.bits, base := f.base, pos := f.pos, stash := r }, .ok ())
  | .big => ({ s with bigEndian := true }, .ok ())
  | .little => ({ s with bigEndian := false }, .ok ())
  | .offset => pushC s (.int (s.base + s.pos : Nat))
  | .input => pushC s (.bitstr s.input)
  | .packInt n bo => packIntBo s n (byteorder s bo)
  | .packIntN => popUsize s fun n s => packIntBo s n s.bigEndian
  | .packF n bo => packFloatBo s n (byteorder s bo)
  | .packFN => popUsize s fun n s => packFloatBo s n s.bigEndian
  | .toBitstr => popCell s fun c s => lift s (bitstrConcat c) fun b => pushC s (.bitstr b)
  | .bitstrAppend => popBitstr s fun head s => popBitstr s fun tail s => pushC s (.bitstr (head ++ tail))
  | .emit => popBitstr s fun bs s =>
      if s.outputLen + bs.length > usizeMaxN then (s, .panic "emit: output-length + len overflows usize")
      else
        let s := { s with outputLen := s.outputLen + bs.length }
        match s.output with
        | some o => ({ s with output := some (o ++ bs) }, .ok ())
        | none => if bs.length % 8 = 0 then (s, .ok ()) else (s, .err .toBytestrError)
  | .output => pushC s (match s.output with | some o => .bitstr o | none => .nil)
  | .outputLength => pushC s (.int (s.outputLen : Nat))

/-- run a sequence, stopping at the first error (what one `eval` of several words does) -/
def run (s : CurState) : List POp → Res
  | [] => (s, .ok ())
  | op :: ops =>
    match step s op with
    | (s1, .ok ()) => run s1 ops
    | r => r

/-- run a sequence word by word, carrying on after errors (what the harness does with one `eval`
    per word); returns the final state -/
def runAll (s : CurState) : List POp → CurState
  | [] => s
  | op :: ops => runAll (step s op).1 ops

/-- dictionary name → word -/
def wordOp (w : String) : Option POp :=
  let bo (suffix : String) : Option (Option Bool) :=
    if suffix = "" then some none else if suffix = "le" then some (some false)
    else if suffix = "be" then some (some true) else none
  let sized (w : String) (mk : Nat → Option Bool → POp) : Option POp :=
    [8, 16, 32, 64].firstM fun n =>
      let p := toString n
      if w.startsWith p then (bo ((w.drop p.length).toString)).map (mk n) else none
  match w with
  | "bits" => some .bits | "bytes" => some .bytes
  | "uint" => some .uint | "int" => some .int | "float" => some .float
  | "magic" => some .magic | "seek" => some .seek | "find" => some .find | "remain" => some .remain
  | "nulbytestr" => some .nulbytestr | "cstr" => some .cstr
  | "close-bitstr" => some .closeBitstr
  | "big" => some .big | "little" => some .little
  | "offset" => some .offset | "input" => some .input
  | "int!" => some .packIntN | "uint!" => some .packIntN | "float!" => some .packFN
  | ">bitstr" => some .toBitstr | "bitstr-append" => some .bitstrAppend | "emit" => some .emit
  | "output" => some .output | "output-length" => some .outputLength
  | _ =>
    if w.endsWith "!" then
      let body := (w.dropEnd 1).toString
      if body.startsWith "u" || body.startsWith "i" then sized ((body.drop 1).toString) .packInt
      else if body.startsWith "f" then
        [32, 64].firstM fun n =>
          let p := toString n
          let r := (body.drop 1).toString
          if r.startsWith p then (bo ((r.drop p.length).toString)).map (POp.packF n) else none
      else none
    else if w.startsWith "u" then sized ((w.drop 1).toString) .readU
    else if w.startsWith "i" then sized ((w.drop 1).toString) .readI
    else if w.startsWith "f" then
      [32, 64].firstM fun n =>
        let p := toString n
        let r := (w.drop 1).toString
        if r.startsWith p then (bo ((r.drop p.length).toString)).map (POp.readF n) else none
    else none

end Xeh.Cur
