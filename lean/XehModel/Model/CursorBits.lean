/-
L2 (part 0): number ↔ bits functions used by the parsing cursor and the construction words,
at the *specification level over `List Bool`* (first list element = first bit of the value).

Rust anchors: src/bitstr.rs `to_uint` / `to_int` / `from_int` / `to_f32` / `to_f64` / `from_f32` /
`from_f64` / `Iter8`.  The representation level (bytes, start offset inside a buffer, sharing) is
layer L1 (properties C04/C05); here a bit-string *is* its bit list.

* `beVal`  — big-endian value: the bit list read as one binary numeral, first bit = MSB.
* `leVal`  — little-endian value as xeh defines it after the C05 repair: the list is cut into
             groups of 8 bits *from the value's first bit* (last group may be shorter); group k has
             weight 2^(8k); inside a group the first bit is the most significant one.
* `sext`   — two's-complement reinterpretation of an n-bit unsigned value.
* `fromIntBE/LE` — `Bitstr::from_int`, written as the same chunk loops as the Rust code, with the
             `wrapping_shr` shift count reduced mod 128 exactly as Rust does (matters only for
             widths above 128).
-/
import XehModel.Model.Value

namespace Xeh.Cur

def usizeMaxN : Nat := 2^64 - 1

/-- binary numeral, first bit most significant -/
def beVal (bs : List Bool) : Nat := bs.foldl (fun a b => 2 * a + b.toNat) 0

/-- `n` bits of `x mod 2^n`, most significant first -/
def beBits : Nat → Nat → List Bool
  | 0, _ => []
  | n+1, x => (x / 2^n % 2 == 1) :: beBits n x

/-- groups of 8 from the first bit; `Iter8` of a bit list (fuel = length suffices) -/
def chunks8 : (fuel : Nat) → List Bool → List (List Bool)
  | 0, _ => []
  | f+1, bs => if bs.isEmpty then [] else bs.take 8 :: chunks8 f (bs.drop 8)

/-- the byte values `Iter8` yields (a short last group is right-aligned, as in Rust) -/
def bytes8 (bs : List Bool) : List Nat := (chunks8 bs.length bs).map beVal

/-- little-endian value: Σ beVal(group k) · 2^(8k) -/
def leValF : (fuel : Nat) → List Bool → Nat
  | 0, _ => 0
  | f+1, bs => if bs.isEmpty then 0 else beVal (bs.take 8) + 256 * leValF f (bs.drop 8)

def leVal (bs : List Bool) : Nat := leValF bs.length bs

/-- `Bitstr::to_uint` on a value of at most 128 bits (the read words reject longer ones before
    looking at the result) -/
def toUint (big : Bool) (bs : List Bool) : Nat := if big then beVal bs else leVal bs

/-- two's complement: `Bitstr::to_int` given the unsigned value and the length -/
def sext (n : Nat) (u : Nat) : Int :=
  if n = 0 then 0 else if u ≥ 2^(n-1) then (u : Int) - 2^n else u

def toInt (big : Bool) (bs : List Bool) : Int := sext bs.length (toUint big bs)

/-- low `k` bits of `x`, most significant first: `(x as u8) << (8-k)` seen as `k` bits -/
def chunkBits (x : Int) (k : Nat) : List Bool := beBits k (x % 2^k).toNat

/-- `from_int`, big-endian loop: `i` bits remain; chunk = `val.wrapping_shr((i-k) as u32)` -/
def fromIntBEgo (v : Int) : (fuel : Nat) → (i : Nat) → List Bool
  | 0, _ => []
  | f+1, i =>
    if i = 0 then [] else
      let k := min i 8
      chunkBits (v >>> ((i - k) % 128)) k ++ fromIntBEgo v f (i - k)

def fromIntBE (v : Int) (n : Nat) : List Bool := fromIntBEgo v n n

/-- `from_int`, little-endian loop: `i` bits done of `n`; chunk = `val.wrapping_shr(i as u32)` -/
def fromIntLEgo (v : Int) (n : Nat) : (fuel : Nat) → (i : Nat) → List Bool
  | 0, _ => []
  | f+1, i =>
    if i < n then
      let k := min (n - i) 8
      chunkBits (v >>> (i % 128)) k ++ fromIntLEgo v n f (i + k)
    else []

def fromIntLE (v : Int) (n : Nat) : List Bool := fromIntLEgo v n n 0

def fromInt (big : Bool) (v : Int) (n : Nat) : List Bool :=
  if big then fromIntBE v n else fromIntLE v n

/-- bytes → bits (each byte 8 bits, MSB first): `Bitstr::from(Vec<u8>)` -/
def bytesToBits (l : List Nat) : List Bool := l.flatMap (beBits 8)

/-- UTF-8 bytes of a string: `s.to_string().into_bytes()` -/
def utf8Bytes (s : List Char) : List Nat := s.flatMap fun c => (String.utf8EncodeChar c).map (·.toNat)

end Xeh.Cur
