/-
L2 (records): typed fields, the words that pack them and the words that parse them back (C07).

A `Field` is packed by `Field.packProg` (construction words of bitstr_ext.rs leaving ONE cell — the
*piece* — on the stack) and parsed by `Field.parseProg` (the matching read words).  A record is packed
either by collecting the pieces in a vector and applying `>bitstr`, or by `emit`ting groups of pieces
with output interception on.

    form      pack                               parse
    generic   big|little  v w int!/uint!         big|little  w int/uint          (any width)
    fixedBo   v u16le!                           u16le                           (w ∈ {8,16,32,64})
    fixedCur  big|little  v u16!                 big|little  u16
  floats the same with float!/float, f32le!/f32le, f32!/f32.
-/
import XehModel.Model.Cursor

namespace Xeh.Cur
open Xeh

inductive Form where
  | generic | fixedBo | fixedCur
deriving DecidableEq, Repr

inductive Field where
  | int (w : Nat) (signed : Bool) (big : Bool) (form : Form) (v : Int)
  | flt (w : Nat) (big : Bool) (form : Form) (x : UInt64)
  | raw (bits : List Bool)
  | str (s : List Char)
  | bytes (l : List Nat)
  | cstr (l : List Nat)
deriving DecidableEq, Repr

def boOp (big : Bool) : POp := if big then .big else .little

def intVec (l : List Nat) : Cell := .vec (CellList.ofList (l.map fun b => .int (b : Nat)))

/-- words that leave the field's piece on top of the stack -/
def Field.packProg : Field → List POp
  | .int w _ big .generic v => [boOp big, .push (.int v), .push (.int w), .packIntN]
  | .int w _ big .fixedBo v => [.push (.int v), .packInt w (some big)]
  | .int w _ big .fixedCur v => [boOp big, .push (.int v), .packInt w none]
  | .flt w big .generic x => [boOp big, .push (.real x), .push (.int w), .packFN]
  | .flt w big .fixedBo x => [.push (.real x), .packF w (some big)]
  | .flt w big .fixedCur x => [boOp big, .push (.real x), .packF w none]
  | .raw b => [.push (.bitstr b)]
  | .str s => [.push (.str s)]
  | .bytes l => [.push (intVec l)]
  | .cstr l => [.push (intVec (l ++ [0]))]

/-- the bits the field occupies in the record (specification) -/
def Field.bits : Field → List Bool
  | .int w _ big _ v => fromInt big v w
  | .flt w big _ x => if w = 32 then fromInt big (f64to32 x).toNat 32 else fromInt big x.toNat 64
  | .raw b => b
  | .str s => bytesToBits (utf8Bytes s)
  | .bytes l => bytesToBits l
  | .cstr l => bytesToBits (l ++ [0])

def Field.width (f : Field) : Nat :=
  match f with
  | .int w _ _ _ _ => w
  | .flt w _ _ _ => if w = 32 then 32 else 64
  | .raw b => b.length
  | .str s => 8 * (utf8Bytes s).length
  | .bytes l => 8 * l.length
  | .cstr l => 8 * (l.length + 1)

/-- the read words matching the field -/
def Field.parseProg : Field → List POp
  | .int w sg big .generic _ => [boOp big, .push (.int w), if sg then .int else .uint]
  | .int w sg big .fixedBo _ => [if sg then .readI w (some big) else .readU w (some big)]
  | .int w sg big .fixedCur _ => [boOp big, if sg then .readI w none else .readU w none]
  | .flt w big .generic _ => [boOp big, .push (.int w), .float]
  | .flt w big .fixedBo _ => [.readF w (some big)]
  | .flt w big .fixedCur _ => [boOp big, .readF w none]
  | .raw b => [.push (.int b.length), .bits]
  | .str s => [.push (.int (utf8Bytes s).length), .bytes]
  | .bytes l => [.push (.int l.length), .bytes]
  | .cstr _ => [.cstr]

/-- the value the matching read word must deliver: the original value reduced to the width -/
def Field.value : Field → Cell
  | .int w sg big _ v =>
    .tagged (.int (if sg then sext w (v % 2^w).toNat else (v % 2^w))) (numTags w big)
  | .flt w big _ x =>
    if w = 32 then .tagged (.real (f32to64 (f64to32 x))) (numTags 32 big)
    else .tagged (.real x) (numTags 64 big)
  | .raw b => .bitstr b
  | .str s => .bitstr (bytesToBits (utf8Bytes s))
  | .bytes l => .bitstr (bytesToBits l)
  | .cstr l => .str (l.map Char.ofNat)

/-- field is inside the domain of the round-trip claim -/
def Field.Ok : Field → Prop
  | .int w sg _ form _ => (if sg then w ≤ 128 else w ≤ 127) ∧ (form ≠ .generic → w = 8 ∨ w = 16 ∨ w = 32 ∨ w = 64)
  | .flt w _ _ _ => w = 32 ∨ w = 64
  | .raw _ => True
  | .str _ => True
  | .bytes l => ∀ b ∈ l, b < 256
  | .cstr l => ∀ b ∈ l, 0 < b ∧ b < 256

instance : (f : Field) → Decidable f.Ok
  | .int .. => by unfold Field.Ok; infer_instance
  | .flt .. => by unfold Field.Ok; infer_instance
  | .raw _ => by unfold Field.Ok; infer_instance
  | .str _ => by unfold Field.Ok; infer_instance
  | .bytes _ => by unfold Field.Ok; infer_instance
  | .cstr _ => by unfold Field.Ok; infer_instance

/-- the record's bits -/
def packAll (fs : List Field) : List Bool := (fs.map Field.bits).flatten

/-- run a field's pack words and take the piece off the stack (what `[ … ]` collects) -/
def Field.piece (s : CurState) (f : Field) : CurState × Outcome Cell :=
  match run s f.packProg with
  | (s1, .ok ()) =>
    match s1.ds with
    | c :: r => ({ s1 with ds := r }, .ok c)
    | [] => (s1, .err .stackUnderflow)
  | (s1, .err e) => (s1, .err e)
  | (s1, .panic p) => (s1, .panic p)

/-- pieces of a field list, left to right, threading the state (byte order is state) -/
def pieces : CurState → List Field → CurState × Outcome (List Cell)
  | s, [] => (s, .ok [])
  | s, f :: fs =>
    match f.piece s with
    | (s1, .ok c) =>
      match pieces s1 fs with
      | (s2, .ok cs) => (s2, .ok (c :: cs))
      | r => r
    | (s1, .err e) => (s1, .err e)
    | (s1, .panic p) => (s1, .panic p)

/-- `[ pieces… ] >bitstr emit` for every group of a split of the field list -/
def emitGroups : CurState → List (List Field) → Res
  | s, [] => (s, .ok ())
  | s, g :: gs =>
    match pieces s g with
    | (s1, .ok cs) =>
      match run s1 [.push (.vec (CellList.ofList cs)), .toBitstr, .emit] with
      | (s2, .ok ()) => emitGroups s2 gs
      | r => r
    | (s1, .err e) => (s1, .err e)
    | (s1, .panic p) => (s1, .panic p)

def parseAll (fs : List Field) : List POp := (fs.map Field.parseProg).flatten

/-- cut a list into consecutive groups of the given sizes (rest in a last group) -/
def splitBy {α : Type} : List Nat → List α → List (List α)
  | [], l => [l]
  | n :: ns, l => l.take n :: splitBy ns (l.drop n)

end Xeh.Cur
