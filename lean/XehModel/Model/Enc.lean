/-
L8: text encodings of binary data — src/base_ext.rs (the glue, xeh's own code) over the dependency
crates base32-0.4.0, base64-0.21.2 (engine `general_purpose::STANDARD`) and z85-3.0.5.

The crates are *dependencies*: they are modelled here from their source as radix regrouping
(`bytes → big-endian number per chunk → fixed count of digits in base 32 / 64 / 85 → alphabet`)
plus each crate's exact padding / tail / leniency rules, and validated against the compiled crates by
the correspondence run (Tie A). Everything operates on byte values (`List Nat`, each < 256); a
string argument is turned into its UTF-8 bytes first (`utf8Bytes`), as `&Xstr: AsRef<[u8]>` does.

Crate facts that the model reproduces (all observed on the real code as well):
* base32 (`Alphabet::RFC4648 {padding: true}`): decoding upper-cases, maps `'='` to digit 0 *anywhere*
  (index 13 of the 43-entry inverse table is 0), never checks the length, strips at most six trailing
  `'='` to compute the output length, zero-fills the last chunk.
* base32hex in xeh is really `Alphabet::Crockford`: no padding on output, lenient table
  (lower case, `O`→0, `I`/`L`→1), `'='` is invalid (but still shortens the computed output length).
* base64 STANDARD: padding is written and *required* (`RequireCanonical`), trailing bits must be zero,
  `'='` only in the last quad.
* z85 3.0.5: lengths not divisible by 4 are encoded with a tail chunk whose first `4 - r` letters are
  `'#'`; decoding a last chunk `"#####"` panics inside the crate (debug: `4 - diff as u32` overflows;
  release: `&binchunk[5..]` of a 4-byte array). xeh's glue rejects that text before calling the
  crate (`zero85_decode_res`, after the C18 repair), the crate model keeps the panic as a value.
-/
import XehModel.Model.Prog

namespace Xeh.Enc
open Xeh Prog

/-! ### radix regrouping -/

/-- `k` digits of `n` in base `b`, least significant first -/
def toDigitsLE (b : Nat) : Nat → Nat → List Nat
  | 0, _ => []
  | k + 1, n => n % b :: toDigitsLE b k (n / b)

def ofDigitsLE (b : Nat) : List Nat → Nat
  | [] => 0
  | d :: ds => d + b * ofDigitsLE b ds

/-- `k` digits of `n` in base `b`, most significant first (`n` is reduced mod `b^k`) -/
def toDigits (b k n : Nat) : List Nat := (toDigitsLE b k n).reverse

/-- big-endian value of a digit list -/
def ofDigits (b : Nat) (ds : List Nat) : Nat := ofDigitsLE b ds.reverse

/-- look up every element, `none` as soon as one is invalid -/
def vals (f : Nat → Option Nat) : List Nat → Option (List Nat)
  | [] => some []
  | c :: cs =>
    match f c, vals f cs with
    | some v, some vs => some (v :: vs)
    | _, _ => none

def zeros (n : Nat) : List Nat := List.replicate n 0

/-! ### strings ↔ bytes ↔ bits -/

/-- UTF-8 encoding of one scalar value -/
def utf8Char (c : Char) : List Nat :=
  let n := c.toNat
  if n < 0x80 then [n]
  else if n < 0x800 then [0xC0 + n / 64, 0x80 + n % 64]
  else if n < 0x10000 then [0xE0 + n / 4096, 0x80 + n / 64 % 64, 0x80 + n % 64]
  else [0xF0 + n / 262144, 0x80 + n / 4096 % 64, 0x80 + n / 64 % 64, 0x80 + n % 64]

def utf8Bytes (s : List Char) : List Nat := s.flatMap utf8Char

/-- the crates return ASCII bytes, `String::from_utf8(ret)` -/
def asciiStr (l : List Nat) : List Char := l.map Char.ofNat

/-- bits of a byte, most significant first (`Bits::next`: `offset = 7 - pos % 8`) -/
def byteBits (n : Nat) : List Bool :=
  [n / 128 % 2 == 1, n / 64 % 2 == 1, n / 32 % 2 == 1, n / 16 % 2 == 1,
   n / 8 % 2 == 1, n / 4 % 2 == 1, n / 2 % 2 == 1, n % 2 == 1]

def bytesToBits (l : List Nat) : List Bool := l.flatMap byteBits

def bitVal (b : Bool) : Nat := if b then 1 else 0

/-- big-endian value of a (short) bit list -/
def bitsNat : List Bool → Nat → Nat
  | [], acc => acc
  | b :: bs, acc => bitsNat bs (2 * acc + bitVal b)

/-- `to_bytes_with_padding` / `slice`: consecutive groups of 8 bits (a final partial group is
    yielded by `iter8` too, it never matters because `bytestr` requires a multiple of 8) -/
def bitsToBytes : List Bool → List Nat
  | b0 :: b1 :: b2 :: b3 :: b4 :: b5 :: b6 :: b7 :: rest =>
    bitsNat [b0, b1, b2, b3, b4, b5, b6, b7] 0 :: bitsToBytes rest
  | [] => []
  | part => [bitsNat part 0]

/-- `Bitstr::bytestr` (bitstr.rs 340): defined iff the length is a multiple of 8, at any alignment -/
def bytestr (bits : List Bool) : Option (List Nat) :=
  if bits.length % 8 = 0 then some (bitsToBytes bits) else none

/-! ### the result of a crate's decoder -/

inductive Dec where
  | bytes (l : List Nat)
  | invalid
  | panic (site : String)
deriving DecidableEq, Repr

def Dec.ofOption : Option (List Nat) → Dec
  | some l => .bytes l
  | none => .invalid

/-! ### base32-0.4.0 -/

/-- `RFC4648_ALPHABET = "ABCDEFGHIJKLMNOPQRSTUVWXYZ234567"` -/
def rfcAlphabet : List Nat :=
  [65, 66, 67, 68, 69, 70, 71, 72, 73, 74, 75, 76, 77, 78, 79, 80,
   81, 82, 83, 84, 85, 86, 87, 88, 89, 90, 50, 51, 52, 53, 54, 55]

/-- `CROCKFORD_ALPHABET = "0123456789ABCDEFGHJKMNPQRSTVWXYZ"` -/
def crockAlphabet : List Nat :=
  [48, 49, 50, 51, 52, 53, 54, 55, 56, 57, 65, 66, 67, 68, 69, 70,
   71, 72, 74, 75, 77, 78, 80, 81, 82, 83, 84, 86, 87, 88, 89, 90]

/-- `RFC4648_INV_ALPHABET: [i8; 43]`, index = upper-cased byte − `'0'`; `-1` is `none` -/
def rfcInv : List (Option Nat) :=
  [none, none, some 26, some 27, some 28, some 29, some 30, some 31, none, none, none, none, none,
   some 0, none, none, none, some 0, some 1, some 2, some 3, some 4, some 5, some 6, some 7, some 8,
   some 9, some 10, some 11, some 12, some 13, some 14, some 15, some 16, some 17, some 18, some 19,
   some 20, some 21, some 22, some 23, some 24, some 25]

/-- `CROCKFORD_INV_ALPHABET: [i8; 43]` -/
def crockInv : List (Option Nat) :=
  [some 0, some 1, some 2, some 3, some 4, some 5, some 6, some 7, some 8, some 9, none, none, none,
   none, none, none, none, some 10, some 11, some 12, some 13, some 14, some 15, some 16, some 17,
   some 1, some 18, some 19, some 1, some 20, some 21, some 0, some 22, some 23, some 24, some 25,
   some 26, none, some 27, some 28, some 29, some 30, some 31]

/-- `u8::to_ascii_uppercase` -/
def upper (c : Nat) : Nat := if 97 ≤ c ∧ c ≤ 122 then c - 32 else c

/-- `alphabet.get(c.to_ascii_uppercase().wrapping_sub(b'0') as usize)`: a byte below `'0'` wraps to
    an index ≥ 208, outside the 43-entry table -/
def b32Val (tbl : List (Option Nat)) (c : Nat) : Option Nat :=
  let u := upper c
  if u < 48 then none else (tbl[u - 48]?).join

/-- five bytes (zero-filled) → eight digits -/
def b32Chunk (bs : List Nat) : List Nat := toDigits 32 8 (ofDigits 256 bs)

def alphaAt (alpha : List Nat) (d : Nat) : Nat := alpha.getD d 0

/-- `8-(data.len()%5*8+4)/5` for the `r = data.len() % 5` bytes of the last chunk -/
def b32Extra (r : Nat) : Nat := 8 - (r * 8 + 4) / 5

/-- `base32::encode`: chunks of five bytes; the last chunk is zero-filled, and its last
    `b32Extra r` letters are replaced by `'='` (padding) or cut off (Crockford) -/
def b32Encode (alpha : List Nat) (padding : Bool) : List Nat → List Nat
  | a :: b :: c :: d :: e :: rest =>
    (b32Chunk [a, b, c, d, e]).map (alphaAt alpha) ++ b32Encode alpha padding rest
  | [] => []
  | tail =>
    let extra := b32Extra tail.length
    let ds := ((b32Chunk (tail ++ zeros (5 - tail.length))).take (8 - extra)).map (alphaAt alpha)
    if padding then ds ++ List.replicate extra 61 else ds

/-- number of trailing `'='` -/
def trailingPads (data : List Nat) : Nat := (data.reverse.takeWhile (· == 61)).length

/-- `unpadded_data_length`: at most six trailing `'='` are not counted -/
def unpaddedLen (data : List Nat) : Nat := data.length - min 6 (trailingPads data)

/-- the chunk loop of `base32::decode` over *all* of `data` (padding included), last chunk
    zero-filled: eight digits → five bytes -/
def b32DecChunks (tbl : List (Option Nat)) : List Nat → Option (List Nat)
  | c0 :: c1 :: c2 :: c3 :: c4 :: c5 :: c6 :: c7 :: rest =>
    match vals (b32Val tbl) [c0, c1, c2, c3, c4, c5, c6, c7], b32DecChunks tbl rest with
    | some v, some r => some (toDigits 256 5 (ofDigits 32 v) ++ r)
    | _, _ => none
  | [] => some []
  | part =>
    match vals (b32Val tbl) part with
    | some v => some (toDigits 256 5 (ofDigits 32 (v ++ zeros (8 - part.length))))
    | none => none

/-- `base32::decode` -/
def b32Decode (tbl : List (Option Nat)) (data : List Nat) : Option (List Nat) :=
  if data.any (· ≥ 128) then none
  else (b32DecChunks tbl data).map fun ret => ret.take (unpaddedLen data * 5 / 8)

/-! ### base64-0.21.2, `general_purpose::STANDARD` -/

/-- `"ABCDEFGHIJKLMNOPQRSTUVWXYZabcdefghijklmnopqrstuvwxyz0123456789+/"` -/
def b64Alphabet : List Nat :=
  [65, 66, 67, 68, 69, 70, 71, 72, 73, 74, 75, 76, 77, 78, 79, 80, 81, 82, 83, 84, 85, 86, 87, 88, 89, 90,
   97, 98, 99, 100, 101, 102, 103, 104, 105, 106, 107, 108, 109, 110, 111, 112, 113, 114, 115, 116, 117,
   118, 119, 120, 121, 122, 48, 49, 50, 51, 52, 53, 54, 55, 56, 57, 43, 47]

/-- the decode table is the inverse of the alphabet, every other byte is `INVALID_VALUE` -/
def b64Val (c : Nat) : Option Nat :=
  if 65 ≤ c ∧ c ≤ 90 then some (c - 65)
  else if 97 ≤ c ∧ c ≤ 122 then some (c - 71)
  else if 48 ≤ c ∧ c ≤ 57 then some (c + 4)
  else if c = 43 then some 62
  else if c = 47 then some 63
  else none

/-- `Engine::encode` with padding: 3 bytes → 4 letters; one left-over byte → 2 letters + `"=="`,
    two → 3 letters + `"="` (low bits zero) -/
def b64Encode : List Nat → List Nat
  | a :: b :: c :: rest =>
    (toDigits 64 4 (ofDigits 256 [a, b, c])).map (alphaAt b64Alphabet) ++ b64Encode rest
  | [] => []
  | [a] => (toDigits 64 2 (a * 16)).map (alphaAt b64Alphabet) ++ [61, 61]
  | [a, b] => (toDigits 64 3 (ofDigits 256 [a, b] * 4)).map (alphaAt b64Alphabet) ++ [61]

/-- last quad (`decode_suffix` with `RequireCanonical`, `decode_allow_trailing_bits = false`):
    `xxxx`, `xxx=` or `xx==`, unused low bits zero -/
def b64Final (c0 c1 c2 c3 : Nat) : Option (List Nat) :=
  match b64Val c0, b64Val c1 with
  | some v0, some v1 =>
    if c2 = 61 then
      if c3 = 61 then
        if (v0 * 64 + v1) % 16 = 0 then some [(v0 * 64 + v1) / 16] else none
      else none
    else
      match b64Val c2 with
      | none => none
      | some v2 =>
        if c3 = 61 then
          let n := ofDigits 64 [v0, v1, v2]
          if n % 4 = 0 then some (toDigits 256 2 (n / 4)) else none
        else
          match b64Val c3 with
          | none => none
          | some v3 => some (toDigits 256 3 (ofDigits 64 [v0, v1, v2, v3]))
  | _, _ => none

/-- quads: every quad but the last is four letters of the alphabet (`decode_chunk`: `'='` is an
    invalid byte there); a length that is not a multiple of 4 is an error -/
def b64DecQuads : List Nat → Option (List Nat)
  | c0 :: c1 :: c2 :: c3 :: rest =>
    if rest.isEmpty then b64Final c0 c1 c2 c3
    else
      match vals b64Val [c0, c1, c2, c3], b64DecQuads rest with
      | some v, some r => some (toDigits 256 3 (ofDigits 64 v) ++ r)
      | _, _ => none
  | [] => some []
  | _ => none

def b64Decode (data : List Nat) : Option (List Nat) := b64DecQuads data

/-! ### z85-3.0.5 -/

def z85Letters : List Nat :=
  [0x30, 0x31, 0x32, 0x33, 0x34, 0x35, 0x36, 0x37, 0x38, 0x39, 0x61, 0x62, 0x63, 0x64, 0x65, 0x66,
   0x67, 0x68, 0x69, 0x6A, 0x6B, 0x6C, 0x6D, 0x6E, 0x6F, 0x70, 0x71, 0x72, 0x73, 0x74, 0x75, 0x76,
   0x77, 0x78, 0x79, 0x7A, 0x41, 0x42, 0x43, 0x44, 0x45, 0x46, 0x47, 0x48, 0x49, 0x4A, 0x4B, 0x4C,
   0x4D, 0x4E, 0x4F, 0x50, 0x51, 0x52, 0x53, 0x54, 0x55, 0x56, 0x57, 0x58, 0x59, 0x5A, 0x2E, 0x2D,
   0x3A, 0x2B, 0x3D, 0x5E, 0x21, 0x2F, 0x2A, 0x3F, 0x26, 0x3C, 0x3E, 0x28, 0x29, 0x5B, 0x5D, 0x7B,
   0x7D, 0x40, 0x25, 0x24, 0x23]

def z85Octets : List Nat :=
  [0xFF, 0x44, 0xFF, 0x54, 0x53, 0x52, 0x48, 0xFF, 0x4B, 0x4C, 0x46, 0x41, 0xFF, 0x3F, 0x3E, 0x45,
   0x00, 0x01, 0x02, 0x03, 0x04, 0x05, 0x06, 0x07, 0x08, 0x09, 0x40, 0xFF, 0x49, 0x42, 0x4A, 0x47,
   0x51, 0x24, 0x25, 0x26, 0x27, 0x28, 0x29, 0x2A, 0x2B, 0x2C, 0x2D, 0x2E, 0x2F, 0x30, 0x31, 0x32,
   0x33, 0x34, 0x35, 0x36, 0x37, 0x38, 0x39, 0x3A, 0x3B, 0x3C, 0x3D, 0x4D, 0xFF, 0x4E, 0x43, 0xFF,
   0xFF, 0x0A, 0x0B, 0x0C, 0x0D, 0x0E, 0x0F, 0x10, 0x11, 0x12, 0x13, 0x14, 0x15, 0x16, 0x17, 0x18,
   0x19, 0x1A, 0x1B, 0x1C, 0x1D, 0x1E, 0x1F, 0x20, 0x21, 0x22, 0x23, 0x4F, 0xFF, 0x50, 0xFF, 0xFF]

/-- `decode_chunk`'s per-letter test: `letter <= 0x20 || 0x80 <= letter` or `OCTETS[letter-32] == 0xFF` -/
def z85Val (c : Nat) : Option Nat :=
  if c ≤ 0x20 ∨ 0x80 ≤ c then none
  else
    let v := z85Octets.getD (c - 32) 0xFF
    if v = 0xFF then none else some v

/-- `encode_chunk`: `u32::from_be_bytes` → five letters -/
def z85Chunk (bs : List Nat) : List Nat := (toDigits 85 5 (ofDigits 256 bs)).map (alphaAt z85Letters)

/-- `z85::encode`: chunks of four; a tail of `r` bytes is left-padded with zero bytes, encoded, and its
    first `4 - r` letters replaced by `'#'` -/
def z85Encode : List Nat → List Nat
  | a :: b :: c :: d :: rest => z85Chunk [a, b, c, d] ++ z85Encode rest
  | [] => []
  | tail =>
    let diff := 4 - tail.length
    List.replicate diff 0x23 ++ (z85Chunk (zeros diff ++ tail)).drop diff

/-- `decode_chunk` on up to five letters: value must fit `u32` -/
def z85DecChunk (letters : List Nat) : Option (List Nat) :=
  match vals z85Val letters with
  | none => none
  | some v =>
    let n := ofDigits 85 v
    if n > 0xFFFFFFFF then none else some (toDigits 256 4 n)

/-- `decode_tail` + `BinTail::append_to_vec` on the last five letters -/
def z85DecTail (chunk : List Nat) : Dec :=
  let diff := (chunk.takeWhile (· == 0x23)).length
  match z85DecChunk (chunk.drop diff) with
  | none => .invalid
  | some bin =>
    -- `256_u32.pow(4 - diff as u32)`: debug build overflows on the subtraction, release build wraps
    -- and then slices `&binchunk[5..]` of a `[u8; 4]`
    if diff > 4 then .panic "z85 decode_tail: diff = 5"
    else if ofDigits 256 bin > 256 ^ (4 - diff) - 1 then .invalid
    else .bytes (bin.drop diff)

/-- chunks of five letters; the *last* chunk is a tail iff it starts with `'#'` -/
def z85DecChunks : List Nat → Dec
  | c0 :: c1 :: c2 :: c3 :: c4 :: rest =>
    if rest.isEmpty ∧ c0 = 0x23 then z85DecTail [c0, c1, c2, c3, c4]
    else
      match z85DecChunk [c0, c1, c2, c3, c4] with
      | none => .invalid
      | some bin =>
        match z85DecChunks rest with
        | .bytes r => .bytes (bin ++ r)
        | d => d
  | [] => .bytes []
  | _ => .invalid

/-- `z85::decode` -/
def z85Decode (data : List Nat) : Dec :=
  if data.length % 5 ≠ 0 then .invalid else z85DecChunks data

/-- xeh's guard in `zero85_decode_res` (C18 repair): `s.len() % 5 == 0 && s.ends_with("#####")` is
    rejected before the crate is called -/
def z85Guarded (data : List Nat) : Dec :=
  if data.length % 5 = 0 ∧ data.reverse.take 5 = [0x23, 0x23, 0x23, 0x23, 0x23] then .invalid
  else z85Decode data

/-! ### the glue: `bitstr_concat` (bitstr_ext.rs 431), `into_bitstr`, the eight words -/

/-- one element of a vector that is not itself a vector -/
def concatLeaf (v : Cell) : Outcome (List Bool) :=
  match v with
  | .int i => if 0 ≤ i ∧ i ≤ 255 then .ok (byteBits i.toNat) else .err .integerOverflow
  | .str s => .ok (bytesToBits (utf8Bytes s))
  | .bitstr b => .ok b
  | v => .err (.typeNotSupported v)

mutual
/-- the `for x in v.iter()` loop: first failing element decides -/
def concatList : CellList → Outcome (List Bool)
  | .nil => .ok []
  | .cons x t =>
    match concatElem x with
    | .ok a =>
      match concatList t with
      | .ok b => .ok (a ++ b)
      | e => e
    | e => e
/-- `match x.value()` inside the loop -/
def concatElem : Cell → Outcome (List Bool)
  | .vec xs => concatList xs
  | .tagged (.vec xs) _ => concatList xs
  | .tagged v _ => concatLeaf v
  | v => concatLeaf v
end

/-- `bitstr_concat(val)`: `match val.value()` -/
def bitstrConcat (c : Cell) : Outcome (List Bool) :=
  match c.value with
  | .str s => .ok (bytesToBits (utf8Bytes s))
  | .vec xs => concatList xs
  | .bitstr b => .ok b
  | v => .err (.typeNotSupported v)

/-- `>bitstr` -/
def wordIntoBitstr : Prog :=
  .pop fun c => ofOutcome (bitstrConcat c) fun bits => .push (.bitstr bits) .done

/-- `base32_encode2` / `base64_encode` / `zero85_encode` -/
def encodeWord (enc : List Nat → List Nat) : Prog :=
  .pop fun c => ofOutcome (bitstrConcat c) fun bits =>
    match bytestr bits with
    | none => .fail .toBytestrError
    | some bytes => .push (.str (asciiStr (enc bytes))) .done

/-- `if let Ok(bs) = decode2(xs) { push bs } else { push NIL }` where `decode2` is
    `xs.pop_data()?.to_xstr()?` followed by the crate call: *every* failure — stack underflow
    (`pop_data` fails iff the visible depth is 0), a non-string argument, invalid text — pushes nil. -/
def decodeWord (dec : List Nat → Dec) : Prog :=
  .depth fun n =>
    if n = 0 then .push .nil .done
    else .pop fun c =>
      match c.toStr with
      | .ok s =>
        match dec (utf8Bytes s) with
        | .bytes l => .push (.bitstr (bytesToBits l)) .done
        | .invalid => .push .nil .done
        | .panic site => .panic site
      | _ => .push .nil .done

def base32Enc : List Nat → List Nat := b32Encode rfcAlphabet true
def base32Dec (d : List Nat) : Dec := .ofOption (b32Decode rfcInv d)
def base32hexEnc : List Nat → List Nat := b32Encode crockAlphabet false
def base32hexDec (d : List Nat) : Dec := .ofOption (b32Decode crockInv d)
def base64Dec (d : List Nat) : Dec := .ofOption (b64Decode d)

/-- the word table of base_ext.rs -/
def encTable : List (String × Prog) := [
  ("base32", encodeWord base32Enc),
  ("base32>", decodeWord base32Dec),
  ("base32hex", encodeWord base32hexEnc),
  ("base32hex>", decodeWord base32hexDec),
  ("base64", encodeWord b64Encode),
  ("base64>", decodeWord base64Dec),
  ("zero85", encodeWord z85Encode),
  ("zero85>", decodeWord z85Guarded)
]

def encWord (w : String) : Option Prog := encTable.lookup w

end Xeh.Enc
