/-
`PartialEq for Cell` (src/cell.rs 199–214): tags are ignored at every depth, reals compare as IEEE
(`-0.0 == 0.0`, `NaN != NaN`), functions by address, `AnyRc` never equal.
Maps: rpds compares sizes and looks every key of the left map up in the right one; on maps whose
keys are mutually comparable that is element-wise equality of the sorted entry lists, which is what
is modelled here (maps with colliding keys are the C12 known finding).
-/
import XehModel.Model.Value
import XehModel.Model.SoftFloat

namespace Xeh

mutual
def Cell.beq : Cell → Cell → Bool
  | .tagged v _, b => Cell.beqV v b
  | a, b => Cell.beqV a b
/-- left operand already untagged -/
def Cell.beqV : Cell → Cell → Bool
  | a, .tagged w _ => Cell.beqVV a w
  | a, b => Cell.beqVV a b
/-- both operands untagged (one level; `value()` is one level in Rust too) -/
def Cell.beqVV : Cell → Cell → Bool
  | .nil, .nil => true
  | .flag a, .flag b => a == b
  | .int a, .int b => a == b
  | .real a, .real b => SF.eq64 a b
  | .str a, .str b => a == b
  | .bitstr a, .bitstr b => a == b
  | .vec a, .vec b => CellList.beq a b
  | .map a, .map b => PairList.beq a b
  | .fn n a, .fn m b => n == m && a == b
  | _, _ => false
def CellList.beq : CellList → CellList → Bool
  | .nil, .nil => true
  | .cons a as, .cons b bs => Cell.beq a b && CellList.beq as bs
  | _, _ => false
def PairList.beq : PairList → PairList → Bool
  | .nil, .nil => true
  | .cons k v t, .cons k' v' t' => Cell.beq k k' && Cell.beq v v' && PairList.beq t t'
  | _, _ => false
end

end Xeh
