/-
Specifications of the integer leaf functions that Tie B translates from the Rust source
(DESIGN §4.2). These are written independently of the code, in the vocabulary the model layers use
(bits of a byte MSB-first, ceiling division, Python-style indices); Proofs/LeafBridge.lean proves
that the denotation of the *regenerated* Rust ASTs equals them.

Core only.
-/

namespace Xeh.LeafSpec

/-! ### bitstr.rs -/

/-- number of bytes needed for `n` bits: ⌈n / 8⌉ (`upper_bound_index`) -/
def upperBoundIndex (n : Nat) : Nat := (n + 7) / 8

/-- the `len` low bits set (`bit_mask`, meaningful for `len ≤ 8`) -/
def bitMask (len : Nat) : Nat := 2 ^ len - 1

/-- bit `i` (0 = most significant) of the byte `x` -/
def byteBit (x i : Nat) : Bool := (x / 2 ^ (7 - i)) % 2 = 1

/-- big-endian value of a bit list -/
def bitsToNat : List Bool → Nat
  | [] => 0
  | b :: bs => (if b then 2 ^ bs.length else 0) + bitsToNat bs

/-- how many bits `cut_bits` takes out of the byte that holds bit `start` of the range
    `start .. end_`: up to the end of the range or the end of the byte -/
def cutBitsLen (start end_ : Nat) : Nat := min (end_ - start) (8 - start % 8)

/-- those bits of byte `x`, starting at bit `start % 8` (MSB first), as a number -/
def cutBitsVal (x start end_ : Nat) : Nat :=
  (x / 2 ^ (8 - start % 8 - cutBitsLen start end_)) % 2 ^ cutBitsLen start end_

/-- the same, said with bits: the `len` bits of `x` from bit `sb`, read big-endian -/
def cutBitsBits (x sb len : Nat) : Nat :=
  bitsToNat ((List.range len).map fun j => byteBit x (sb + j))

/-! ### opcodes.rs -/

/-- a relative jump is the signed distance from the jump instruction to its destination -/
def jumpDistance (origin dest : Nat) : Int := (dest : Int) - origin

/-- where a jump with distance `rel` executed at `ip` lands -/
def jumpTarget (rel : Int) (ip : Nat) : Int := (ip : Int) + rel

/-! ### state.rs -/

/-- index into a sequence of length `len`; negative indices count from the end (`-1` = last,
    `-len` = first); `none` when outside (`relative_index`) -/
def relativeIndex (len : Nat) (i : Int) : Option Nat :=
  if 0 ≤ i then (if i < len then some i.toNat else none)
  else (if 0 ≤ (len : Int) + i then some ((len : Int) + i).toNat else none)

/-- slice bound with Python-style clamping: negative counts from the end, then clamp to `0 ..= len`
    (`slicing_index`) -/
def slicingIndex (i : Int) (len : Nat) : Nat :=
  (max 0 (min (len : Int) (if i < 0 then (len : Int) + i else i))).toNat

/-- the compiler keeps an integer literal inline (`LoadI64`) exactly when it fits an `i64` -/
def fitsI64 (i : Int) : Bool := decide (-(2 ^ 63) ≤ i ∧ i ≤ 2 ^ 63 - 1)

/-! ### fmt_flags.rs -/

def fmtBaseMask : Nat := 0xff
def fmtPrefixBit : Nat := 0x100
def fmtTagsBit : Nat := 0x200
def fmtFitscreenBit : Nat := 0x400
def fmtUpcaseBit : Nat := 0x800
/-- base 10, `0x`-style prefix shown, tags hidden, no upcase -/
def fmtDefault : Nat := 10 + fmtPrefixBit

end Xeh.LeafSpec
