/-
L4: the lexer (src/lex.rs), character by character over `List Char` with byte positions.

Rust anchors: `Lex::next` (lex.rs 95–302), `next_nonws` (86–93), `last_substr` (82–84),
`token_location` (312–345).

Representation. Rust keeps `buf : Xstr`, `pos`, `start_pos` (byte offsets) and re-decodes the
char at `pos` on every `peek_char`. Here a lexer state carries the *remaining* characters
`rest` (= `buf[pos..]`) and the byte offsets `pos`, `startPos`; `last` is the text
`buf[start_pos..pos]`, i.e. what `last_substr()` returns. Every sub-scanner returns the triple
(outcome, taken, rest') so that the consumed text is explicit; `pos` advances by
`utf8Len taken` (`take_char` adds `len_utf8`).

Every function is structurally recursive on the remaining input: the lexer is total by
construction.

Reals. `str::parse::<f64>` is not re-implemented in the model a theorem talks about: a real
literal is `Tok.realLit text` where `text` is exactly the string handed to the parser (`tmp`);
the *syntax* accepted by Rust's parser (`validFloat`) is modelled because it decides between a
literal and `parse float error`. `Model/LexReal.lean` gives the value (exact decimal → nearest
even double) for the driver; the correspondence compares it with Rust's parser on every run.
-/
import XehModel.Model.Value

namespace Xeh.Lex

/-! ### character classes -/

/-- `char::is_ascii_whitespace`: space, \t, \n, \x0C, \r — NOT \x0B. -/
def isWs (c : Char) : Bool :=
  c == ' ' || c == '\t' || c == '\n' || c == '\x0c' || c == '\r'

/-- `char::is_ascii_digit` -/
def isDigit (c : Char) : Bool := 48 ≤ c.toNat && c.toNat ≤ 57

/-- `char::to_digit(radix)` for `radix ≤ 36` -/
def toDigit (radix : Nat) (c : Char) : Option Nat :=
  let n := c.toNat
  let d : Option Nat :=
    if 48 ≤ n ∧ n ≤ 57 then some (n - 48)
    else if 97 ≤ n ∧ n ≤ 122 then some (n - 87)
    else if 65 ≤ n ∧ n ≤ 90 then some (n - 55)
    else none
  match d with
  | some v => if v < radix then some v else none
  | none => none

/-- longest prefix satisfying `p`, and the rest (`while let Some(c) = peek { if p(c) take else break }`) -/
def spanP (p : Char → Bool) : List Char → List Char × List Char
  | [] => ([], [])
  | c :: r =>
    if p c then
      let (a, b) := spanP p r
      (c :: a, b)
    else ([], c :: r)

/-! ### tokens and errors -/

inductive Tok where
  | eof
  | word (s : List Char)
  | ws (s : List Char)
  | comment (s : List Char)
  | lit (c : Cell)
  /-- a real literal: the text handed to `str::parse::<f64>` (accepted by its grammar) -/
  | realLit (text : List Char)
deriving DecidableEq, Repr

inductive ErrKind where
  | parseInt | parseFloat | parseBitstr | unterminatedStr | unterminatedBitstr
  | escapeSeq | expectWs | unterminatedComment
deriving DecidableEq, Repr

def ErrKind.msg : ErrKind → String
  | .parseInt => "parse int error"
  | .parseFloat => "parse float error"
  | .parseBitstr => "parse bitstr error"
  | .unterminatedStr => "unterminated string"
  | .unterminatedBitstr => "unterminated bit-string"
  | .escapeSeq => "unknown string escape sequence"
  | .expectWs => "expect whitespace word separator"
  | .unterminatedComment => "unterminated multiline comment"

/-- `Xerr::ParseError { msg, substr }`; `lo..hi` is the byte range of `substr` in the buffer. -/
structure LexErr where
  kind : ErrKind
  lo : Nat
  hi : Nat
deriving DecidableEq, Repr

def LexErr.toXerr (e : LexErr) : Xerr := .parseError e.kind.msg

instance : DecidableEq (Except LexErr Tok)
  | .ok a, .ok b => if h : a = b then isTrue (by rw [h]) else isFalse (by intro e; cases e; exact h rfl)
  | .error a, .error b => if h : a = b then isTrue (by rw [h]) else isFalse (by intro e; cases e; exact h rfl)
  | .ok _, .error _ => isFalse (by intro e; cases e)
  | .error _, .ok _ => isFalse (by intro e; cases e)

/-! ### string literals (lex.rs 111–155) -/

def unescape : Char → Option Char
  | '\\' => some '\\'
  | '"' => some '"'
  | 'n' => some '\n'
  | 'r' => some '\r'
  | 't' => some '\t'
  | _ => none

inductive StrEnd where
  /-- closing quote found; `sepOk` = next char is ASCII whitespace or end of input -/
  | closed (val : List Char) (sepOk : Bool)
  /-- end of input inside the literal (`afterBackslash`: the pending char was a `\`) -/
  | eof (afterBackslash : Bool)
  | badEscape (c2 : Char)
deriving DecidableEq, Repr

def StrEnd.push (d : Char) : StrEnd → StrEnd
  | .closed v w => .closed (d :: v) w
  | e => e

/-- the loop after the opening quote: (outcome, taken, rest) -/
def scanStr : List Char → StrEnd × List Char × List Char
  | [] => (.eof false, [], [])
  | c :: r =>
    if c == '\\' then
      match r with
      | [] => (.eof true, [c], [])
      | c2 :: r2 =>
        match unescape c2 with
        | some d =>
          let (e, t, r') := scanStr r2
          (e.push d, c :: c2 :: t, r')
        | none => (.badEscape c2, [c, c2], r2)
    else if c == '"' || c == '”' then
      (.closed [] (match r with | [] => true | w :: _ => isWs w), [c], r)
    else
      let (e, t, r') := scanStr r
      (e.push c, c :: t, r')

/-! ### bit-string literals (lex.rs 156–184) -/

/-- the four bits of a hex digit, most significant first (`for i in (0..4).rev()`) -/
def nibbleBits (x : Nat) : List Bool := [x.testBit 3, x.testBit 2, x.testBit 1, x.testBit 0]

inductive BitsEnd where
  | closed (bits : List Bool)
  | eof
  | bad (c : Char)
deriving DecidableEq, Repr

def BitsEnd.prepend (bs : List Bool) : BitsEnd → BitsEnd
  | .closed b => .closed (bs ++ b)
  | e => e

/-- the loop after the opening `|` -/
def scanBits : List Char → BitsEnd × List Char × List Char
  | [] => (.eof, [], [])
  | c :: r =>
    match toDigit 16 c with
    | some x =>
      let (e, t, r') := scanBits r
      (e.prepend (nibbleBits x), c :: t, r')
    | none =>
      if isWs c then
        let (e, t, r') := scanBits r
        (e, c :: t, r')
      else if c == '.' then
        let (e, t, r') := scanBits r
        (e.prepend [false], c :: t, r')
      else if c == 'x' then
        let (e, t, r') := scanBits r
        (e.prepend [true], c :: t, r')
      else if c == '|' then (.closed [], [c], r)
      else (.bad c, [c], r)

/-! ### numbers (lex.rs 185–233, 272–299) -/

/-- value of a digit string in `radix`; `none` on a non-digit -/
def digitsVal (radix : Nat) : List Char → Nat → Option Nat
  | [], acc => some acc
  | c :: r, acc =>
    match toDigit radix c with
    | some d => digitsVal radix r (acc * radix + d)
    | none => none

/-- the optional single leading sign of `from_str_radix`: (negative?, digits) -/
def splitSign : List Char → Bool × List Char
  | '-' :: r => (true, r)
  | '+' :: r => (false, r)
  | s => (false, s)

/-- `i128::from_str_radix`: optional single sign, at least one digit, every char a digit of the
    radix, value inside the i128 range; anything else is an error. -/
def parseInt (radix : Nat) (s : List Char) : Option Int :=
  let neg := (splitSign s).1
  let ds := (splitSign s).2
  if ds.isEmpty then none
  else
    match digitsVal radix ds 0 with
    | none => none
    | some n =>
      let v : Int := if neg then -(n : Int) else (n : Int)
      if InRange v then some v else none

/-- the grammar accepted by `str::parse::<f64>` (core::num::dec2flt), restricted to what can
    reach it from the lexer (the text starts with an optional sign and a digit, so `inf`/`nan`
    spellings are unreachable): sign? digits* ('.' digits*)? ([eE] sign? digits+)?, at least
    one mantissa digit, nothing after. -/
def validFloat (s : List Char) : Bool :=
  let s1 := match s with
    | '+' :: r => r
    | '-' :: r => r
    | _ => s
  let (i, r1) := spanP isDigit s1
  let (f, r2) : List Char × List Char := match r1 with
    | '.' :: r => spanP isDigit r
    | _ => ([], r1)
  if i.isEmpty && f.isEmpty then false
  else
    match r2 with
    | [] => true
    | e :: r3 =>
      if e == 'e' || e == 'E' then
        let r4 := match r3 with
          | '+' :: r => r
          | '-' :: r => r
          | _ => r3
        !r4.isEmpty && r4.all isDigit
      else false

/-- the head of a number/word token after its first char `c` has been taken:
    (num_prefix, tmp, taken, rest) — lex.rs 190–203 -/
def numHead (c : Char) (r : List Char) : Option Char × List Char × List Char × List Char :=
  if isDigit c then (some c, [c], [c], r)
  else if c == '-' || c == '+' then
    match r with
    | c2 :: r2 => if isDigit c2 then (some c2, [c, c2], [c, c2], r2) else (none, [], [c], r)
    | [] => (none, [], [c], r)
  else (none, [], [c], r)

/-- the radix prefix (lex.rs 204–218): only when the first digit is `0`; `tmp.pop()` removes
    that `0` (the sign, if any, stays). Returns (radix, tmp, extra taken, rest). -/
def radixPrefix (np : Option Char) (tmp r : List Char) : Option Nat × List Char × List Char × List Char :=
  if np == some '0' then
    match r with
    | 'b' :: r' => (some 2, tmp.dropLast, ['b'], r')
    | 'x' :: r' => (some 16, tmp.dropLast, ['x'], r')
    | _ => (none, tmp, [], r)
  else (none, tmp, [], r)

/-! ### comments (lex.rs 236–269) -/

/-- the loop of `\(`: (closed?, taken, rest). Closes on ASCII whitespace + `\)` + (ASCII
    whitespace, consumed | end of input). A `\` after whitespace is consumed even when no `)`
    follows; `\)` followed by a non-blank does not close and scanning resumes at that char. -/
def scanMl : List Char → Bool × List Char × List Char
  | [] => (false, [], [])
  | c :: r =>
    if isWs c then
      match r with
      | [] => (false, [c], [])
      | b :: r1 =>
        if b == '\\' then
          -- `self.take_char()` of the backslash
          match r1 with
          | [] => (false, [c, b], [])
          | p :: r2 =>
            if p == ')' then
              -- `self.take_char()` of the paren; `peek_char().unwrap_or('\n')`
              match r2 with
              | [] => (true, [c, b, p], [])
              | w :: r3 =>
                if isWs w then (true, [c, b, p, w], r3)
                else
                  let (x, t, r') := scanMl (w :: r3)
                  (x, c :: b :: p :: t, r')
            else
              let (x, t, r') := scanMl (p :: r2)
              (x, c :: b :: t, r')
        else
          let (x, t, r') := scanMl (b :: r1)
          (x, c :: t, r')
    else
      let (x, t, r') := scanMl r
      (x, c :: t, r')

/-! ### `Lex::next` -/

/-- one step of the pure core: outcome, consumed text, remaining text -/
structure Step where
  res : Except LexErr Tok
  taken : List Char
  rest : List Char
deriving Repr, DecidableEq

/-- lex.rs 272–299: what a numeric token denotes. `d` is the first digit (`num_prefix`), `radix`
    the explicit prefix, `tmp1` the digits collected by the head (sign kept, prefix `0` popped),
    `body` the rest of the token. `_` is dropped, a `.` anywhere in `body` makes it a real. -/
def numDecide (d : Char) (radix : Option Nat) (tmp1 body : List Char) : Except ErrKind Tok :=
  let hasDot := body.any (· == '.')
  let tmp := tmp1 ++ body.filter (· != '_')
  if hasDot then
    if radix.isSome then .error .parseFloat
    else if validFloat tmp then .ok (.realLit tmp)
    else .error .parseFloat
  else
    let rx := match radix with
      | some x => x
      | none => if d == '0' then 16 else 10
    match parseInt rx tmp with
    | some i => .ok (.lit (.int i))
    | none => .error .parseInt

/-- word / number / comment branch (lex.rs 185–300); `c` is the first char, already taken. -/
def scanWord (pos : Nat) (c : Char) (r : List Char) : Step :=
  let (np, tmp0, taken0, r0) := numHead c r
  let (radix, tmp1, takenP, r1) := radixPrefix np tmp0 r0
  let (body, r2) := spanP (fun c => !isWs c) r1
  let taken := taken0 ++ takenP ++ body
  let endPos := pos + utf8Len taken
  match np with
  | none =>
    if taken == ['\\'] then
      let (line, r3) := spanP (fun c => c != '\n') r2
      ⟨.ok (.comment (taken ++ line)), taken ++ line, r3⟩
    else if taken == ['\\', '('] then
      let (closed, t, r3) := scanMl r2
      let all := taken ++ t
      if closed then ⟨.ok (.comment all), all, r3⟩
      else ⟨.error ⟨.unterminatedComment, pos, pos + utf8Len all⟩, all, r3⟩
    else ⟨.ok (.word taken), taken, r2⟩
  | some d =>
    match numDecide d radix tmp1 body with
    | .ok t => ⟨.ok t, taken, r2⟩
    | .error k => ⟨.error ⟨k, pos, endPos⟩, taken, r2⟩

/-- `Lex::next` after the first char `c` (not ASCII whitespace) has been taken (lex.rs 109–301);
    `c :: r = buf[pos..]` -/
def scanTok (pos : Nat) (c : Char) (r : List Char) : Step :=
  if c == '"' || c == '“' then
    let (e, t, r') := scanStr r
    let taken := c :: t
    let endPos := pos + utf8Len taken
    match e with
    | .closed v true => ⟨.ok (.lit (.str v)), taken, r'⟩
    | .closed _ false => ⟨.error ⟨.expectWs, pos, endPos⟩, taken, r'⟩
    | .eof false => ⟨.error ⟨.unterminatedStr, endPos, endPos⟩, taken, r'⟩
    | .eof true => ⟨.error ⟨.unterminatedStr, endPos - 1, endPos⟩, taken, r'⟩
    | .badEscape c2 => ⟨.error ⟨.escapeSeq, endPos - utf8Size c2 - 1, endPos⟩, taken, r'⟩
  else if c == '|' then
    let (e, t, r') := scanBits r
    let taken := c :: t
    let endPos := pos + utf8Len taken
    let total := pos + utf8Len (c :: r)
    match e with
    | .closed bits => ⟨.ok (.lit (.bitstr bits)), taken, r'⟩
    | .eof => ⟨.error ⟨.unterminatedBitstr, endPos, total⟩, taken, r'⟩
    | .bad b => ⟨.error ⟨.parseBitstr, endPos - utf8Size b, total⟩, taken, r'⟩
  else scanWord pos c r

/-- `Lex::next` on the remaining input `input = buf[pos..]` -/
def scan (pos : Nat) (input : List Char) : Step :=
  match spanP isWs input with
  | (w :: ws, r) => ⟨.ok (.ws (w :: ws)), w :: ws, r⟩
  | ([], _) =>
    match input with
    | [] => ⟨.ok .eof, [], []⟩
    | c :: r => scanTok pos c r

/-- lexer state: `rest = buf[pos..]`, `last = buf[start_pos..pos]` (= `last_substr()`) -/
structure Lex where
  rest : List Char
  pos : Nat
  startPos : Nat
  last : List Char
deriving Repr

/-- `Lex::new` -/
def Lex.new (buf : List Char) : Lex := ⟨buf, 0, 0, []⟩

/-- `Lex::next` -/
def Lex.next (lx : Lex) : Except LexErr Tok × Lex :=
  let s := scan lx.pos lx.rest
  (s.res, ⟨s.rest, lx.pos + utf8Len s.taken, lx.pos, s.taken⟩)

/-- `Lex::last_substr` -/
def Lex.lastSubstr (lx : Lex) : List Char := lx.last

/-- `Lex::next_nonws` with explicit fuel (all-fuel theorem: `nextNonws_fuel` in Proofs/LexTiling) -/
def Lex.nextNonwsFuel : Nat → Lex → Option (Except LexErr Tok × Lex)
  | 0, _ => none
  | n + 1, lx =>
    match lx.next with
    | (.ok (.ws _), lx') => nextNonwsFuel n lx'
    | (.ok (.comment _), lx') => nextNonwsFuel n lx'
    | r => some r

/-- `next_nonws`: a blank/comment token consumes at least one char, so `|rest| + 1` steps suffice -/
def Lex.nextNonws (lx : Lex) : Option (Except LexErr Tok × Lex) := nextNonwsFuel (lx.rest.length + 1) lx

/-! ### running the lexer to the end (what `build1` and the harness do) -/

/-- one reported token: what `next()` returned and `last_substr()`'s text and range -/
structure Item where
  tok : Tok
  text : List Char
  lo : Nat
  hi : Nat
deriving Repr, DecidableEq

structure Run where
  items : List Item
  /-- `none`: EndOfInput reached; `some (e, text, lo, hi)`: first error with `last_substr()` -/
  err : Option (LexErr × List Char × Nat × Nat)
  final : Lex
deriving Repr

def runFuel : Nat → Lex → Run
  | 0, lx => ⟨[], none, lx⟩
  | n + 1, lx =>
    match lx.next with
    | (.ok .eof, lx') => ⟨[], none, lx'⟩
    | (.ok t, lx') =>
      let r := runFuel n lx'
      ⟨⟨t, lx'.last, lx'.startPos, lx'.pos⟩ :: r.items, r.err, r.final⟩
    | (.error e, lx') => ⟨[], some (e, lx'.last, lx'.startPos, lx'.pos), lx'⟩

/-- lex a whole text: every non-eof token consumes ≥ 1 char, so `|text| + 1` steps suffice
    (`run_fuel_enough` in Proofs/LexTiling) -/
def run (text : List Char) : Run := runFuel (text.length + 1) (Lex.new text)

/-! ### `token_location` (lex.rs 312–345) -/

structure Loc where
  line : Nat
  col : Nat
  /-- byte range of `whole_line` in the source text -/
  lineLo : Nat
  lineHi : Nat
deriving DecidableEq, Repr

/-- the `while let Some((i, c)) = it.next()` loop; state `(start, end, line, col)` -/
def locLoop (tokStart : Nat) : List Char → Nat → Nat → Nat → Nat → Nat → Nat × Nat × Nat × Nat
  | [], _, start, end_, line, col => (start, end_, line, col)
  | c :: cs, i, start, _, line, col =>
    let end_ := i + utf8Size c
    if c == '\n' || c == '\r' then
      if start ≤ tokStart ∧ tokStart < end_ then (start, i, line, col)
      else locLoop tokStart cs end_ end_ end_ (if c == '\n' then line + 1 else line) 0
    else locLoop tokStart cs end_ start end_ line (if i < tokStart then col + 1 else col)

/-- skip `n` bytes; `none` when `n` is past the end or inside a char -/
def dropBytes : List Char → Nat → Option (List Char)
  | cs, 0 => some cs
  | [], _ + 1 => none
  | c :: cs, n + 1 => if utf8Size c ≤ n + 1 then dropBytes cs (n + 1 - utf8Size c) else none

/-- the first `n` bytes; `none` when `n` is past the end or inside a char -/
def takeBytes : List Char → Nat → Option (List Char)
  | _, 0 => some []
  | [], _ + 1 => none
  | c :: cs, n + 1 =>
    if utf8Size c ≤ n + 1 then (takeBytes cs (n + 1 - utf8Size c)).map (c :: ·) else none

/-- `buf.substr(lo..hi)` — arcstr panics unless `lo ≤ hi ≤ len` on char boundaries (`none`) -/
def substrBytes (text : List Char) (lo hi : Nat) : Option (List Char) :=
  if lo ≤ hi then (dropBytes text lo).bind (fun r => takeBytes r (hi - lo)) else none

/-- `token_location` for a token starting at byte `tokStart` of `text` (filename lookup aside):
    the scan (initial `start = 0, end = 0` — after the repair 752c812 of the original
    `end = 1`, which made `substr(0..1)` panic on the empty text), then
    `parent.substr(start..end)`, which would panic if the range were not inside the text on
    char boundaries (`location_total` in Props/C17loc: it never is). -/
def tokenLocation (text : List Char) (tokStart : Nat) : Outcome (Loc × List Char) :=
  let (start, end_, line, col) := locLoop tokStart text 0 0 0 0 0
  match substrBytes text start end_ with
  | some l => .ok (⟨line, col, start, end_⟩, l)
  | none => .panic "token_location: substr out of range"

end Xeh.Lex
