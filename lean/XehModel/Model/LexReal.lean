/-
Decimal → binary64, correctly rounded (round to nearest, ties to even): the "standard
decimal-to-double conversion" that `str::parse::<f64>` implements. Used by the C16 driver to
answer with the bits of a real literal; the correspondence then compares this exact-rational
computation with Rust's parser on every generated real spelling. Not used by any theorem
(`Tok.realLit` carries the text; the conversion is the documented parameter of C16).

Input: a text accepted by `Lex.validFloat` (sign? digits* ('.' digits*)? ([eE] sign? digits+)?).
-/
import XehModel.Model.Lex
import XehModel.Model.SoftFloat

namespace Xeh.Lex

def decNat (ds : List Char) : Nat := ds.foldl (fun a c => a * 10 + (c.toNat - 48)) 0

/-- value of a valid float text as bits; `none` when the text is not valid -/
def decToF64 (s : List Char) : Option UInt64 :=
  if !validFloat s then none else
  let (neg, s1) : Bool × List Char := match s with
    | '+' :: r => (false, r)
    | '-' :: r => (true, r)
    | _ => (false, s)
  let (i, r1) := spanP isDigit s1
  let (f, r2) : List Char × List Char := match r1 with
    | '.' :: r => spanP isDigit r
    | _ => ([], r1)
  let (eneg, eds) : Bool × List Char := match r2 with
    | _ :: '+' :: r => (false, r)
    | _ :: '-' :: r => (true, r)
    | _ :: r => (false, r)
    | [] => (false, [])
  -- strip leading zeros of the mantissa so that the magnitude estimate below is meaningful
  let mant := (i ++ f).dropWhile (· == '0')
  let m := decNat mant
  -- a huge exponent literal is clamped: beyond ±100000 the result is already 0 / inf for any
  -- mantissa the harness can generate (mantissa length < 50000 digits)
  let eabs := if eds.length > 7 then 10000000 else decNat eds
  let e10 : Int := (if eneg then -(eabs : Int) else (eabs : Int)) - (f.length : Int)
  if m = 0 then some (UInt64.ofNat (SF.withSign SF.f64 neg 0))
  else
    let mag : Int := e10 + (mant.length : Int)   -- value < 10^mag, ≥ 10^(mag-1)
    if mag > 400 then some (UInt64.ofNat (SF.withSign SF.f64 neg SF.f64.infBits))
    else if mag < -400 then some (UInt64.ofNat (SF.withSign SF.f64 neg 0))
    else if e10 ≥ 0 then some (UInt64.ofNat (SF.roundRat SF.f64 neg (m * 10 ^ e10.toNat) 1 0))
    else some (UInt64.ofNat (SF.roundRat SF.f64 neg m (10 ^ (-e10).toNat) 0))

end Xeh.Lex
