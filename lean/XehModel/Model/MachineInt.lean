/-
Tie B (DESIGN §4.2): a small deep embedding of the Rust subset that `tools/extract.py` translates
(the pure integer leaf functions of bitstr.rs / opcodes.rs / state.rs / fmt_flags.rs) together with
its denotation: Rust's machine-integer semantics in both build profiles.

* `debug`   : `+ - *`, unary `-`, `abs` that leave the type's range panic, `<< >>` by a count
              ≥ the bit width panic (`overflow-checks = on`);
* `release` : the same operations wrap / mask the count.
* both      : `/ %` by zero and `MIN / -1`, `MIN % -1` panic; `as` truncates / sign-extends;
              `wrapping_*` never panic; `usize`/`isize` are 64 bits (the target the suite pins in
              opcodes.rs `test_size`).

Values carry their type at run time (`Val`), so the translator does not have to infer types: an
unsuffixed literal has type `lit` and takes the type of the operand it meets (as rustc's inference
does for every function in the subset); any other type mismatch is a *stuck* evaluation and is
reported as `panic "type: …"`, so a bridge theorem that states `.ok …` also states that the
function type-checks under this reading.

Core only (no Mathlib, no Std): this file is imported by `Generated/Leaf.lean`.
-/

namespace Xeh.MI

inductive Profile where
  | debug | release
deriving DecidableEq, Repr

inductive Ty where
  | u8 | u16 | u32 | u64 | u128 | usize
  | i8 | i16 | i32 | i64 | i128 | isize
  | bool
  /-- an integer literal without suffix, not yet unified with an operand type -/
  | lit
deriving DecidableEq, Repr

namespace Ty

def bits : Ty → Nat
  | u8 => 8 | u16 => 16 | u32 => 32 | u64 => 64 | u128 => 128 | usize => 64
  | i8 => 8 | i16 => 16 | i32 => 32 | i64 => 64 | i128 => 128 | isize => 64
  | bool => 1 | lit => 0

def signed : Ty → Bool
  | i8 | i16 | i32 | i64 | i128 | isize => true
  | _ => false

def isInt : Ty → Bool
  | bool => false
  | _ => true

/-- smallest value (`T::MIN`) -/
def lo : Ty → Int
  | i8 => -2^7 | i16 => -2^15 | i32 => -2^31 | i64 => -2^63 | i128 => -2^127 | isize => -2^63
  | _ => 0

/-- largest value (`T::MAX`) -/
def hi : Ty → Int
  | u8 => 2^8 - 1 | u16 => 2^16 - 1 | u32 => 2^32 - 1 | u64 => 2^64 - 1 | u128 => 2^128 - 1
  | usize => 2^64 - 1
  | i8 => 2^7 - 1 | i16 => 2^15 - 1 | i32 => 2^31 - 1 | i64 => 2^63 - 1 | i128 => 2^127 - 1
  | isize => 2^63 - 1
  | bool => 1 | lit => 0

/-- a literal fits every value; every other type is an interval -/
def InRange (t : Ty) (v : Int) : Prop := t = lit ∨ (t.lo ≤ v ∧ v ≤ t.hi)

instance (t : Ty) (v : Int) : Decidable (t.InRange v) := by unfold InRange; infer_instance

/-- reduction into the type's range: truncation for unsigned, two's complement for signed -/
def wrap (t : Ty) (v : Int) : Int :=
  match t with
  | lit => v
  | _ => if t.signed then (v + 2^(t.bits - 1)) % 2^t.bits - 2^(t.bits - 1) else v % 2^t.bits

/-- the unsigned type of the same width (`unsigned_abs`) -/
def unsignedOf : Ty → Ty
  | i8 => u8 | i16 => u16 | i32 => u32 | i64 => u64 | i128 => u128 | isize => usize
  | t => t

/-- two's-complement image as a natural number -/
def toU (t : Ty) (v : Int) : Nat := (v % 2^t.bits).toNat

end Ty

structure Val where
  v : Int
  t : Ty
deriving DecidableEq, Repr

inductive Res (α : Type) where
  | ok (a : α)
  | panic (site : String)
deriving DecidableEq, Repr

namespace Res
def bind (x : Res α) (f : α → Res β) : Res β :=
  match x with
  | ok a => f a
  | panic s => panic s

@[simp] theorem bind_ok (a : α) (f : α → Res β) : (ok a).bind f = f a := rfl
@[simp] theorem bind_panic (s : String) (f : α → Res β) : (panic s : Res α).bind f = panic s := rfl
end Res

inductive UnOp where
  | neg | not
deriving DecidableEq, Repr

inductive BinOp where
  | add | sub | mul | div | rem
  | band | bor | bxor | shl | shr
  | eq | ne | lt | le | gt | ge
deriving DecidableEq, Repr

/-- methods without argument -/
inductive Meth1 where
  | abs | unsignedAbs | wrappingNeg
deriving DecidableEq, Repr

/-- methods with one argument -/
inductive Meth2 where
  | min | max | wrappingAdd | wrappingSub | wrappingMul | wrappingShl | wrappingShr
deriving DecidableEq, Repr

/-- Expressions. Variables are de Bruijn indices (0 = innermost binding; parameters are bound left
    to right, so the last parameter is the innermost); the source name is carried along and checked
    by `Expr.wellScoped`, so the index computation of the translator is not trusted. An expression
    denotes a *list* of values: scalars are singletons, `(a, b)` is `pair a b`, `Option` is a tag
    followed by the payload. -/
inductive Expr where
  | lit (v : Int) (t : Ty)
  | tmin (t : Ty)
  | tmax (t : Ty)
  | var (i : Nat) (name : String)
  | un (op : UnOp) (e : Expr)
  | bin (op : BinOp) (a b : Expr)
  /-- short-circuit `&&` -/
  | andE (a b : Expr)
  /-- short-circuit `||` -/
  | orE (a b : Expr)
  | cast (e : Expr) (t : Ty)
  | m1 (m : Meth1) (recv : Expr)
  | m2 (m : Meth2) (recv arg : Expr)
  | ite (c t e : Expr)
  | letE (name : String) (v body : Expr)
  | unit
  | pair (a b : Expr)
  | none
  | some (e : Expr)
  /-- call of another translated function / constant; the callee's signature and body are embedded -/
  | call (name : String) (params : List (String × Ty)) (ret : List Ty) (body : Expr) (args : Expr)
deriving Repr

structure FnAst where
  name : String
  params : List (String × Ty)
  ret : List Ty
  body : Expr
deriving Repr

def Expr.callFn (f : FnAst) (args : Expr) : Expr := .call f.name f.params f.ret f.body args

/-! ### scope check (names against indices) -/

def Expr.wellScoped : List String → Expr → Bool
  | _, .lit _ _ => true
  | _, .tmin _ => true
  | _, .tmax _ => true
  | sc, .var i n => sc[i]? == Option.some n
  | sc, .un _ e => wellScoped sc e
  | sc, .bin _ a b => wellScoped sc a && wellScoped sc b
  | sc, .andE a b => wellScoped sc a && wellScoped sc b
  | sc, .orE a b => wellScoped sc a && wellScoped sc b
  | sc, .cast e _ => wellScoped sc e
  | sc, .m1 _ e => wellScoped sc e
  | sc, .m2 _ a b => wellScoped sc a && wellScoped sc b
  | sc, .ite c t e => wellScoped sc c && wellScoped sc t && wellScoped sc e
  | sc, .letE n v b => wellScoped sc v && wellScoped (n :: sc) b
  | _, .unit => true
  | sc, .pair a b => wellScoped sc a && wellScoped sc b
  | _, .none => true
  | sc, .some e => wellScoped sc e
  | sc, .call _ ps _ body args => wellScoped sc args && wellScoped (ps.map (·.1)).reverse body

def FnAst.wellScoped (f : FnAst) : Bool := f.body.wellScoped (f.params.map (·.1)).reverse

/-! ### primitive operations -/

/-- keep the exact result if it fits, otherwise panic (debug) or wrap (release) -/
def fit (p : Profile) (t : Ty) (v : Int) (site : String) : Res Val :=
  if t.InRange v then .ok ⟨v, t⟩
  else match p with
    | .debug => .panic site
    | .release => .ok ⟨t.wrap v, t⟩

/-- give a value the type `t`: literals adopt it (they must fit), equal types pass, anything else
    is a type error -/
def coerce (t : Ty) (x : Val) : Res Val :=
  if x.t = t then .ok x
  else if x.t = .lit ∧ t.isInt then
    (if t.InRange x.v then .ok ⟨x.v, t⟩ else .panic "type: literal out of range")
  else .panic "type: mismatch"

/-- common type of two operands -/
def unify (a b : Val) : Res (Ty × Int × Int) :=
  if a.t = b.t then .ok (a.t, a.v, b.v)
  else if a.t = .lit then (coerce b.t a).bind fun a' => .ok (b.t, a'.v, b.v)
  else if b.t = .lit then (coerce a.t b).bind fun b' => .ok (a.t, a.v, b'.v)
  else .panic "type: mismatch"

def bitAnd (t : Ty) (a b : Int) : Int := t.wrap (t.toU a &&& t.toU b : Nat)
def bitOr (t : Ty) (a b : Int) : Int := t.wrap (t.toU a ||| t.toU b : Nat)
def bitXor (t : Ty) (a b : Int) : Int := t.wrap (t.toU a ^^^ t.toU b : Nat)
def bitNot (t : Ty) (a : Int) : Int := t.wrap ((2^t.bits - 1 - t.toU a : Nat) : Int)
/-- shift left by an already reduced count, dropping the bits that leave the type -/
def shlW (t : Ty) (a : Int) (k : Nat) : Int := t.wrap (a * 2^k)
/-- shift right by an already reduced count: logical for unsigned, arithmetic (floor) for signed -/
def shrW (_t : Ty) (a : Int) (k : Nat) : Int := a / 2^k

def boolVal (b : Bool) : Val := ⟨if b then 1 else 0, .bool⟩

def unop (p : Profile) (op : UnOp) (a : Val) : Res Val :=
  match op with
  | .neg =>
    if a.t = .lit then .ok ⟨-a.v, .lit⟩
    else if a.t.signed then fit p a.t (-a.v) "attempt to negate with overflow"
    else .panic "type: negation of an unsigned value"
  | .not =>
    if a.t = .bool then .ok (boolVal (a.v = 0))
    else if a.t = .lit then .panic "type: `!` of an untyped literal"
    else .ok ⟨bitNot a.t a.v, a.t⟩

/-- shift count check: debug panics on a count outside `0 .. bits-1`, release masks it -/
def shiftCount (p : Profile) (t : Ty) (k : Int) (site : String) : Res Nat :=
  if 0 ≤ k ∧ k < t.bits then .ok k.toNat
  else match p with
    | .debug => .panic site
    | .release => .ok (k % t.bits).toNat

/-- arithmetic, comparison and bit operators on two operands of the common type `t` -/
def arith (p : Profile) (op : BinOp) (t : Ty) (x y : Int) : Res Val :=
  match op with
  | .eq => .ok (boolVal (x = y))
  | .ne => .ok (boolVal (x ≠ y))
  | .lt => if t = .bool then .panic "type: order on bool" else .ok (boolVal (x < y))
  | .le => if t = .bool then .panic "type: order on bool" else .ok (boolVal (x ≤ y))
  | .gt => if t = .bool then .panic "type: order on bool" else .ok (boolVal (x > y))
  | .ge => if t = .bool then .panic "type: order on bool" else .ok (boolVal (x ≥ y))
  | .add => if t = .bool then .panic "type: arithmetic on bool" else fit p t (x + y) "attempt to add with overflow"
  | .sub => if t = .bool then .panic "type: arithmetic on bool" else fit p t (x - y) "attempt to subtract with overflow"
  | .mul => if t = .bool then .panic "type: arithmetic on bool" else fit p t (x * y) "attempt to multiply with overflow"
  | .div =>
    if t = .bool then .panic "type: arithmetic on bool"
    else if y = 0 then .panic "attempt to divide by zero"
    else if t.InRange (x.tdiv y) then .ok ⟨x.tdiv y, t⟩ else .panic "attempt to divide with overflow"
  | .rem =>
    if t = .bool then .panic "type: arithmetic on bool"
    else if y = 0 then .panic "attempt to calculate the remainder with a divisor of zero"
    else if t.InRange (x.tdiv y) then .ok ⟨x.tmod y, t⟩
    else .panic "attempt to calculate the remainder with overflow"
  | .band => if t = .lit then .panic "type: bit operation on an untyped literal" else .ok ⟨bitAnd t x y, t⟩
  | .bor => if t = .lit then .panic "type: bit operation on an untyped literal" else .ok ⟨bitOr t x y, t⟩
  | .bxor => if t = .lit then .panic "type: bit operation on an untyped literal" else .ok ⟨bitXor t x y, t⟩
  | .shl => .panic "type: shift"
  | .shr => .panic "type: shift"

/-- `a << b`, `a >> b`: the result has the type of `a`, the count may have any integer type -/
def shiftOp (p : Profile) (left : Bool) (a b : Val) : Res Val :=
  if a.t = .lit ∨ a.t = .bool ∨ b.t = .bool then .panic "type: shift"
  else if left then
    (shiftCount p a.t b.v "attempt to shift left with overflow").bind fun k => .ok ⟨shlW a.t a.v k, a.t⟩
  else
    (shiftCount p a.t b.v "attempt to shift right with overflow").bind fun k => .ok ⟨shrW a.t a.v k, a.t⟩

def binop (p : Profile) (op : BinOp) (a b : Val) : Res Val :=
  match op with
  | .shl => shiftOp p true a b
  | .shr => shiftOp p false a b
  | _ => (unify a b).bind fun u => arith p op u.1 u.2.1 u.2.2

/-- `e as t` (integer and bool sources; truncation / sign extension) -/
def castTo (t : Ty) (x : Val) : Res Val :=
  if t = .lit ∨ t = .bool then .panic "type: cast target"
  else .ok ⟨t.wrap x.v, t⟩

def meth1 (p : Profile) (m : Meth1) (a : Val) : Res Val :=
  if ¬ a.t.signed then .panic "type: method of a signed integer"
  else match m with
    | .abs => fit p a.t (a.v.natAbs : Int) "attempt to negate with overflow"
    | .unsignedAbs => .ok ⟨(a.v.natAbs : Int), a.t.unsignedOf⟩
    | .wrappingNeg => .ok ⟨a.t.wrap (-a.v), a.t⟩

/-- `a.wrapping_shl(k)` / `a.wrapping_shr(k)`: the count is a `u32`, masked with `bits - 1` -/
def wshift (left : Bool) (a : Val) (k : Int) : Val :=
  if left then ⟨shlW a.t a.v (k % a.t.bits).toNat, a.t⟩ else ⟨shrW a.t a.v (k % a.t.bits).toNat, a.t⟩

/-- methods whose argument has the receiver's type -/
def meth2Same (m : Meth2) (t : Ty) (a b : Int) : Res Val :=
  match m with
  | .min => .ok ⟨min a b, t⟩
  | .max => .ok ⟨max a b, t⟩
  | .wrappingAdd => .ok ⟨t.wrap (a + b), t⟩
  | .wrappingSub => .ok ⟨t.wrap (a - b), t⟩
  | .wrappingMul => .ok ⟨t.wrap (a * b), t⟩
  | .wrappingShl => .panic "type: shift"
  | .wrappingShr => .panic "type: shift"

def meth2 (_p : Profile) (m : Meth2) (a b : Val) : Res Val :=
  if a.t = .lit ∨ a.t = .bool then .panic "type: receiver"
  else match m with
    | .wrappingShl => (coerce .u32 b).bind fun k => .ok (wshift true a k.v)
    | .wrappingShr => (coerce .u32 b).bind fun k => .ok (wshift false a k.v)
    | _ => (coerce a.t b).bind fun b' => meth2Same m a.t a.v b'.v

/-- exactly one value -/
def one : Res (List Val) → Res Val
  | .ok [x] => .ok x
  | .ok _ => .panic "type: arity"
  | .panic s => .panic s

@[simp] theorem one_ok (x : Val) : one (.ok [x]) = .ok x := rfl

def coerceAll : List Ty → List Val → Res (List Val)
  | [], [] => .ok []
  | t :: ts, x :: xs => (coerce t x).bind fun y => (coerceAll ts xs).bind fun ys => .ok (y :: ys)
  | _, _ => .panic "type: arity"

def asBool (x : Val) : Res Bool :=
  if x.t = .bool then .ok (x.v ≠ 0) else .panic "type: bool expected"

/-! ### denotation -/

def evalE (p : Profile) : List Val → Expr → Res (List Val)
  | _, .lit v t => if t.InRange v then .ok [⟨v, t⟩] else .panic "type: literal out of range"
  | _, .tmin t => .ok [⟨t.lo, t⟩]
  | _, .tmax t => .ok [⟨t.hi, t⟩]
  | env, .var i _ =>
    match env[i]? with
    | some x => .ok [x]
    | none => .panic "type: unbound variable"
  | env, .un op e => (one (evalE p env e)).bind fun a => (unop p op a).bind fun r => .ok [r]
  | env, .bin op a b =>
    (one (evalE p env a)).bind fun x => (one (evalE p env b)).bind fun y =>
      (binop p op x y).bind fun r => .ok [r]
  | env, .andE a b =>
    (one (evalE p env a)).bind fun x => (asBool x).bind fun bx =>
      if bx then (one (evalE p env b)).bind fun y => (asBool y).bind fun by_ => .ok [boolVal by_]
      else .ok [boolVal false]
  | env, .orE a b =>
    (one (evalE p env a)).bind fun x => (asBool x).bind fun bx =>
      if bx then .ok [boolVal true]
      else (one (evalE p env b)).bind fun y => (asBool y).bind fun by_ => .ok [boolVal by_]
  | env, .cast e t => (one (evalE p env e)).bind fun x => (castTo t x).bind fun r => .ok [r]
  | env, .m1 m e => (one (evalE p env e)).bind fun x => (meth1 p m x).bind fun r => .ok [r]
  | env, .m2 m a b =>
    (one (evalE p env a)).bind fun x => (one (evalE p env b)).bind fun y =>
      (meth2 p m x y).bind fun r => .ok [r]
  | env, .ite c t e =>
    (one (evalE p env c)).bind fun x => (asBool x).bind fun bx =>
      if bx then evalE p env t else evalE p env e
  | env, .letE _ v body => (one (evalE p env v)).bind fun x => evalE p (x :: env) body
  | _, .unit => .ok []
  | env, .pair a b => (evalE p env a).bind fun xs => (evalE p env b).bind fun ys => .ok (xs ++ ys)
  | _, .none => .ok [boolVal false, ⟨0, .lit⟩]
  | env, .some e => (one (evalE p env e)).bind fun x => .ok [boolVal true, x]
  | env, .call _ ps ret body args =>
    (evalE p env args).bind fun xs => (coerceAll (ps.map (·.2)) xs).bind fun ys =>
      (evalE p ys.reverse body).bind fun rs => coerceAll ret rs

/-- arguments of a function under test: plain integers that must lie in the parameter types -/
def bindArgs : List (String × Ty) → List Int → Res (List Val)
  | [], [] => .ok []
  | (_, t) :: ps, a :: as =>
    if t ≠ .lit ∧ t.InRange a then (bindArgs ps as).bind fun r => .ok (⟨a, t⟩ :: r)
    else .panic "precondition: argument outside its parameter type"
  | _, _ => .panic "precondition: number of arguments"

/-- denotation of a translated function: arguments and results as plain integers (tuples
    flattened, `Option` as tag 0/1 followed by the payload, `bool` as 0/1) -/
def evalFn (p : Profile) (f : FnAst) (args : List Int) : Res (List Int) :=
  (bindArgs f.params args).bind fun env =>
    (evalE p env.reverse f.body).bind fun rs =>
      (coerceAll f.ret rs).bind fun ws => .ok (ws.map (·.v))

end Xeh.MI
