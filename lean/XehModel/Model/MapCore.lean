/-
`Ord for Cell` as coded (src/cell.rs 218–233) and the map operations of rpds's red-black tree as
seen through iteration order: a map is a `PairList` strictly sorted under `cellCmp`; inserting a
key that compares Equal to an existing one replaces key *and* value (rpds `ins`, Ordering::Equal).
`cellCmp` returns `eq` for every pair that is not int/int, real/real or str/str — the C12 finding.
-/
import XehModel.Model.Value
import XehModel.Model.SoftFloat

namespace Xeh

def charListCmp : List Char → List Char → Ordering
  | [], [] => .eq
  | [], _ :: _ => .lt
  | _ :: _, [] => .gt
  | a :: as, b :: bs => if a.toNat < b.toNat then .lt else if a.toNat > b.toNat then .gt else charListCmp as bs

/-- `partial_cmp(..).unwrap_or(Equal)` through `value()` -/
def cellCmp (a b : Cell) : Ordering :=
  match a.value, b.value with
  | .int x, .int y => compare x y
  | .real x, .real y => if SF.lt64 x y then .lt else if SF.lt64 y x then .gt else .eq
  | .str x, .str y => charListCmp x y
  | _, _ => .eq

def mapInsert (k v : Cell) : PairList → PairList
  | .nil => .cons k v .nil
  | .cons k' v' t =>
    match cellCmp k k' with
    | .lt => .cons k v (.cons k' v' t)
    | .eq => .cons k v t
    | .gt => .cons k' v' (mapInsert k v t)

def mapGet (k : Cell) : PairList → Option Cell
  | .nil => none
  | .cons k' v' t =>
    match cellCmp k k' with
    | .lt => none
    | .eq => some v'
    | .gt => mapGet k t

def mapRemove (k : Cell) : PairList → PairList
  | .nil => .nil
  | .cons k' v' t =>
    match cellCmp k k' with
    | .lt => .cons k' v' t
    | .eq => t
    | .gt => .cons k' v' (mapRemove k t)

def PairList.size (m : PairList) : Nat := m.toList.length

end Xeh
