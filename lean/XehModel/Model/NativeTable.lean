/- The word table the VM looks native calls up in: name → program over primitives. -/
import XehModel.Model.Words
import XehModel.Model.Tags
import XehModel.Model.Enc
import XehModel.Model.PrintWords

namespace Xeh

def nativeTable : List (String × Prog) :=
  coreTable ++ arithTable ++ Coll.collTable ++ Coll.tagTable ++ Enc.encTable ++ printTable

def nativeProg (name : String) : Option Prog := nativeTable.lookup name

/-- an outcome produced by a gap of the model (a word or a printing case it does not cover), never
    by the modelled code: the driver answers `unsupported` instead of guessing -/
def isModelGap : Outcome α → Bool
  | .panic s => s.startsWith "model:"
  | .err (.errorMsg m) => m.startsWith "model:"
  | _ => false

end Xeh
