/- The word table the VM looks native calls up in: name → program over primitives. -/
import XehModel.Model.Words

namespace Xeh

def nativeTable : List (String × Prog) := coreTable ++ arithTable

def nativeProg (name : String) : Option Prog := nativeTable.lookup name

end Xeh
