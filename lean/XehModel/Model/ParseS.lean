/-
`parseS`: the structural reading of a token list (DESIGN Appendix B) for the stage-1 fragment of
Model/Structured.lean. It answers `none` for anything outside the fragment (definitions, calls of
interpreted words, locals, `late`, meta blocks, user immediates, malformed nesting); those programs
are covered by the faithful compiler model and the correspondence only.
-/
import XehModel.Model.Structured

namespace Xeh.Structured
open Xeh Xeh.Compile

/-- parser state: the part of the compiler state that naming needs -/
structure PState where
  dict : List (String × Entry)
  heapLen : Nat
  /-- address of the first statement of the block being parsed -/
  pc : Nat := 0
  /-- locals of the definition being parsed (declaration order); `none` outside a definition -/
  locals : Option (List String) := none
  /-- interpreted words defined so far: (entry address, body, token of `;`) -/
  funs : List (Nat × Stmt × Nat) := []
deriving Repr

def accSize (acc : List Stmt) : Nat := (acc.map size).sum

/-- why a block ended -/
inductive Term where
  | eof | thenT | elseT | untilT | whileT | repeatT | loopT | endofT | endcaseT | rbrack | rbrace | rtags | semiT
deriving DecidableEq, Repr

def termOf : String → Option Term
  | "then" => some .thenT | "else" => some .elseT | "until" => some .untilT | "while" => some .whileT
  | "repeat" => some .repeatT | "loop" => some .loopT | "endof" => some .endofT | "endcase" => some .endcaseT
  | "]" => some .rbrack | "}" => some .rbrace | "^}" => some .rtags | ";" => some .semiT
  | _ => none

/-- does a statement contain a `break` that is not bound by a loop inside it -/
def freeBrk : Stmt → Bool
  | .skip | .op _ _ => false
  | .seq a b => freeBrk a || freeBrk b
  | .ifThen _ a => freeBrk a
  | .ifElse _ _ a b => freeBrk a || freeBrk b
  | .untilLoop _ a => freeBrk a
  | .whileLoop _ _ c _ => freeBrk c
  | .repeatLoop _ _ | .doLoop _ _ _ => false
  | .brk _ => true
  | .caseS a => freeBrk a
  | .arm _ _ b => freeBrk b
  | .defn _ _ _ | .call _ _ _ => false

/-- does the spine of a statement contain an `arm` that is not inside a nested `caseS` -/
def freeArm : Stmt → Bool
  | .seq a b => freeArm a || freeArm b
  | .arm _ _ _ => true
  | _ => false

def seqs : List Stmt → Stmt
  | [] => .skip
  | [s] => s
  | s :: rest => .seq s (seqs rest)

/-- result of parsing a block: the statement, the terminator with its token index, what is left -/
structure Block where
  stmt : Stmt
  term : Term
  termIdx : Nat
  rest : List Tok
  next : Nat
  st : PState

/-- `top` = no flow is open (only then may `var` define a global) -/
def parseBlock : Nat → List Tok → Nat → PState → Bool → List Stmt → Option Block
  | 0, _, _, _, _, _ => none
  | _ + 1, [], idx, st, _, acc => some ⟨seqs acc.reverse, .eof, idx, [], idx, st⟩
  | f + 1, .lit c :: rest, idx, st, top, acc =>
    parseBlock f rest (idx + 1) st top (.op idx (loadValueOp c) :: acc)
  | f + 1, .word w :: rest, idx, st, top, acc =>
    let pc0 := st.pc
    let cur := st.pc + accSize acc
    match (st.locals.bind fun ls => CState.rposition w ls) with
    | some i => parseBlock f rest (idx + 1) st top (.op idx (.loadLocal i) :: acc)
    | none =>
    match st.dict.lookup w with
    | none => none
    | some (.const c) => parseBlock f rest (idx + 1) st top (.op idx (loadValueOp c) :: acc)
    | some (.var a) => parseBlock f rest (idx + 1) st top (.op idx (.load a) :: acc)
    | some (.interp true _) => none
    | some (.interp false addr) => parseBlock f rest (idx + 1) st top (.call idx addr (cur + 1) :: acc)
    | some (.native false n) => parseBlock f rest (idx + 1) st top (.op idx (.native n) :: acc)
    | some (.native true n) =>
      match termOf n with
      | some t => some ⟨seqs acc.reverse, t, idx, rest, idx + 1, st⟩
      | none =>
        match n with
        | "if" =>
          match parseBlock f rest (idx + 1) { st with pc := cur + 1 } false [] with
          | some ⟨a, .thenT, _, rest, nx, st⟩ => parseBlock f rest nx { st with pc := pc0 } top (.ifThen idx a :: acc)
          | some ⟨a, .elseT, te, rest, nx, st⟩ =>
            match parseBlock f rest nx { st with pc := cur + 1 + size a + 1 } false [] with
            | some ⟨b, .thenT, _, rest, nx, st⟩ => parseBlock f rest nx { st with pc := pc0 } top (.ifElse idx te a b :: acc)
            | _ => none
          | _ => none
        | "begin" =>
          match parseBlock f rest (idx + 1) { st with pc := cur } false [] with
          | some ⟨a, .untilT, tu, rest, nx, st⟩ =>
            if freeBrk a then none else parseBlock f rest nx { st with pc := pc0 } top (.untilLoop tu a :: acc)
          | some ⟨a, .repeatT, tr, rest, nx, st⟩ => parseBlock f rest nx { st with pc := pc0 } top (.repeatLoop tr a :: acc)
          | some ⟨c, .whileT, tw, rest, nx, st⟩ =>
            if freeBrk c then none else
            match parseBlock f rest nx { st with pc := cur + size c + 1 } false [] with
            | some ⟨a, .repeatT, tr, rest, nx, st⟩ => parseBlock f rest nx { st with pc := pc0 } top (.whileLoop tw tr c a :: acc)
            | _ => none
          | _ => none
        | "do" =>
          match parseBlock f rest (idx + 1) { st with pc := cur + 1 } false [] with
          | some ⟨a, .loopT, tl, rest, nx, st⟩ => parseBlock f rest nx { st with pc := pc0 } top (.doLoop idx tl a :: acc)
          | _ => none
        | "foreach" =>
          match parseBlock f rest (idx + 1) { st with pc := cur + 3 } false [] with
          | some ⟨a, .loopT, tl, rest, nx, st⟩ =>
            parseBlock f rest nx { st with pc := pc0 } top
              (.doLoop idx tl (.seq (.op idx (.native "<foreach-next>")) a) :: .op idx (.native "<foreach-init>") :: acc)
          | _ => none
        | "case" =>
          match parseBlock f rest (idx + 1) { st with pc := cur } false [] with
          | some ⟨a, .endcaseT, _, rest, nx, st⟩ => parseBlock f rest nx { st with pc := pc0 } top (.caseS a :: acc)
          | _ => none
        | "of" =>
          match parseBlock f rest (idx + 1) { st with pc := cur + 1 } false [] with
          | some ⟨a, .endofT, te, rest, nx, st⟩ =>
            if freeArm a then none else parseBlock f rest nx { st with pc := pc0 } top (.arm idx te a :: acc)
          | _ => none
        | "[" =>
          match parseBlock f rest (idx + 1) { st with pc := cur + 1 } false [] with
          | some ⟨a, .rbrack, tc, rest, nx, st⟩ =>
            if freeBrk a || freeArm a then none else
            parseBlock f rest nx { st with pc := pc0 } top (.op tc (.native "<vec-end>") :: a :: .op idx (.native "<vec-begin>") :: acc)
          | _ => none
        | "{" =>
          match parseBlock f rest (idx + 1) { st with pc := cur + 1 } false [] with
          | some ⟨a, .rbrace, tc, rest, nx, st⟩ =>
            if freeBrk a || freeArm a then none else
            parseBlock f rest nx { st with pc := pc0 } top (.op tc (.native "<map-end>") :: a :: .op idx (.native "<map-begin>") :: acc)
          | _ => none
        | "^{" =>
          match parseBlock f rest (idx + 1) { st with pc := cur + 1 } false [] with
          | some ⟨a, .rtags, tc, rest, nx, st⟩ =>
            if freeBrk a || freeArm a then none else
            parseBlock f rest nx { st with pc := pc0 } top (.op tc (.native "<tags-end>") :: a :: .op idx (.native "<vec-begin>") :: acc)
          | _ => none
        | "break" => parseBlock f rest (idx + 1) st top (.brk idx :: acc)
        | "nil" => parseBlock f rest (idx + 1) st top (.op idx .loadNil :: acc)
        | "^hex" => parseBlock f rest (idx + 1) st top (.op idx (.native "<fmt-base>") :: .op idx (loadValueOp (.int 16)) :: acc)
        | "^dec" => parseBlock f rest (idx + 1) st top (.op idx (.native "<fmt-base>") :: .op idx (loadValueOp (.int 10)) :: acc)
        | "^oct" => parseBlock f rest (idx + 1) st top (.op idx (.native "<fmt-base>") :: .op idx (loadValueOp (.int 8)) :: acc)
        | "^bin" => parseBlock f rest (idx + 1) st top (.op idx (.native "<fmt-base>") :: .op idx (loadValueOp (.int 2)) :: acc)
        | "fmt/prefix" => parseBlock f rest (idx + 1) st top (.op idx (.native "<fmt-prefix>") :: acc)
        | "fmt/tags" => parseBlock f rest (idx + 1) st top (.op idx (.native "<fmt-tags>") :: acc)
        | "fmt/upcase" => parseBlock f rest (idx + 1) st top (.op idx (.native "<fmt-upcase>") :: acc)
        | ":" =>
          match rest with
          | .word name :: rest' =>
            -- no definition inside a definition; the name is bound before the body is read (recursion)
            if st.locals.isSome then none else
            let stB : PState := { st with pc := cur + 1, locals := some ([] : List String), dict := (name, Entry.interp false (cur + 1)) :: st.dict }
            match parseBlock f rest' (idx + 2) stB false [] with
            | some ⟨body, .semiT, ts, rest, nx, st⟩ =>
              if freeBrk body || freeArm body then none else
              parseBlock f rest nx { st with pc := pc0, locals := none, funs := (cur + 1, body, ts) :: st.funs } top
                (.defn (idx + 1) ts body :: acc)
            | _ => none
          | _ => none
        | "local" =>
          match rest, st.locals with
          | .word name :: rest', some ls =>
            parseBlock f rest' (idx + 2) { st with locals := some (ls ++ [name]) } top (.op (idx + 1) (.initLocal ls.length) :: acc)
          | _, _ => none
        | "var" =>
          match rest with
          | .word name :: rest' =>
            if top then
              let a := st.heapLen
              parseBlock f rest' (idx + 2) { st with dict := (name, .var a) :: st.dict, heapLen := a + 1 } top
                (.op (idx + 1) (.store a) :: acc)
            else none
          | _ => none
        | "!" =>
          match rest with
          | .word name :: rest' =>
            match st.dict.lookup name with
            | some (.var a) => parseBlock f rest' (idx + 2) st top (.op (idx + 1) (.store a) :: acc)
            | _ => none
          | _ => none
        | "defined" =>
          match rest with
          | .word name :: rest' =>
            parseBlock f rest' (idx + 2) st top (.op (idx + 1) (loadValueOp (.flag (st.dict.lookup name).isSome)) :: acc)
          | _ => none
        | _ => none

/-- a whole source: the block must end at the end of input and be well-formed -/
def parseS (toks : List Tok) (st : PState) : Option (Stmt × PState) :=
  match parseBlock (2 * toks.length + 2) toks 0 st true [] with
  | some ⟨s, .eof, _, _, _, st'⟩ => if WFS s false false && placed (tabOf s) s 0 then some (s, st') else none
  | _ => none

end Xeh.Structured
