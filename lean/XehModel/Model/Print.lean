/-
L3 (printer): `impl Debug for Cell` (src/cell.rs 82–194) under `FmtFlags` (src/fmt_flags.rs),
as used by `State::format_cell` (state.rs 194–197: `format!("{:1$?}", val, flags)`; the flags
travel in the formatter's width and are inherited by nested elements through `x.fmt(f)`; the
`#fmt` tag of a *nested* element is not consulted).

Modelled exactly: nil, flags, integers in every base/prefix/upcase combination (Rust's
`{:x} {:o} {:b}` of a negative i128 print the 128-bit two's-complement pattern), bit-strings,
vectors, maps (value before key), tagged values with and without `show_tags`, strings made of
printable ASCII and `\n \r \t \\ \" \0`.

Excluded (`none`): reals (`{}` of f64: shortest round-trip printing is not modelled), functions
and `any` values (addresses), strings containing any other character (Rust's `escape_debug`
consults the Unicode printable/grapheme-extend tables), and the `fitscreen` elisions.
-/
import XehModel.Model.Value

namespace Xeh.Print

structure Flags where
  base : Nat := 10
  showPrefix : Bool := true
  upcase : Bool := false
  showTags : Bool := false
deriving DecidableEq, Repr

/-- `FmtFlags::from_raw` (fitscreen bit ignored here) -/
def Flags.ofRaw (raw : Nat) : Flags :=
  ⟨raw % 256, raw.testBit 8, raw.testBit 11, raw.testBit 9⟩

/-- digit `d < 36` as Rust prints it (`up`: `{:X}`) -/
def digitChar (up : Bool) (d : Nat) : Char :=
  if d < 10 then Char.ofNat (48 + d) else Char.ofNat ((if up then 55 else 87) + d)

/-- positional digits of `n` in base `b ≥ 2`, most significant first, `"0"` for zero -/
def natDigits (b : Nat) (up : Bool) (n : Nat) : List Char :=
  if _h : n < b ∨ b < 2 then [digitChar up n]
  else natDigits b up (n / b) ++ [digitChar up (n % b)]
termination_by n
decreasing_by
  have : 2 ≤ b := by omega
  exact Nat.div_lt_self (by omega) this

/-- `Cell::Int(n)` under the flags (cell.rs 91–111) -/
def printInt (fl : Flags) (n : Int) : List Char :=
  let u : Nat := (n % 2^128).toNat   -- the bit pattern `{:x}`/`{:o}`/`{:b}` print
  match fl.base with
  | 2 => (if fl.showPrefix then ['0', 'b'] else []) ++ natDigits 2 false u
  | 8 => (if fl.showPrefix then ['0', 'o'] else []) ++ natDigits 8 false u
  | 16 => (if fl.showPrefix then ['0', 'x'] else []) ++ natDigits 16 fl.upcase u
  | _ => if n < 0 then '-' :: natDigits 10 false n.natAbs else natDigits 10 false n.natAbs

/-- `{:?}` of one char of a `str`, for the modelled class -/
def escapeChar (c : Char) : Option (List Char) :=
  if c == '"' then some ['\\', '"']
  else if c == '\\' then some ['\\', '\\']
  else if c == '\n' then some ['\\', 'n']
  else if c == '\r' then some ['\\', 'r']
  else if c == '\t' then some ['\\', 't']
  else if c == '\x00' then some ['\\', '0']
  else if 32 ≤ c.toNat ∧ c.toNat ≤ 126 then some [c]
  else none

def printStr (s : List Char) : Option (List Char) :=
  (s.mapM escapeChar).map fun parts => '"' :: parts.flatten ++ ['"']

/-! ### bit-strings (cell.rs 148–175 over `Bitstr::iter8`) -/

/-- value of a bit list, most significant bit first -/
def bitsVal : List Bool → Nat
  | [] => 0
  | b :: r => (if b then 2 ^ r.length else 0) + bitsVal r

/-- `iter8`: successive groups of 8 bits from the start, the last one possibly shorter -/
def chunks8 (bs : List Bool) : List (List Bool) :=
  if h : bs = [] then [] else bs.take 8 :: chunks8 (bs.drop 8)
termination_by bs.length
decreasing_by
  cases bs with
  | nil => exact absurd rfl h
  | cons a t => simp only [List.length_drop, List.length_cons]; omega

/-- one `(x, n)` item of `iter8` as printed: if n > 4 one hex digit for the high 4 bits; if the
    remaining count is exactly 4 another hex digit; the remaining (< 4) low bits as `x`/`.`.
    (`x < 2^n` for an `iter8` item, so `x >> (n-4)` and `x & 0xf` are single `{:X}` digits.) -/
def printChunk (x n : Nat) : List Char :=
  let (s1, n1) : List Char × Nat := if n > 4 then ([digitChar true (x >>> (n - 4))], n - 4) else ([], n)
  let (s2, n2) : List Char × Nat := if n1 = 4 then ([digitChar true (x &&& 0xf)], 0) else ([], n1)
  s1 ++ s2 ++ (List.range n2).reverse.map fun i => if x.testBit i then 'x' else '.'

def joinSp : List (List Char) → List Char
  | [] => []
  | [a] => a
  | a :: b :: r => a ++ ' ' :: joinSp (b :: r)

def printBits (bs : List Bool) : List Char :=
  '|' :: joinSp ((chunks8 bs).map fun c => printChunk (bitsVal c) c.length) ++ ['|']

/-! ### cells -/

mutual
def printCell (fl : Flags) : Cell → Option (List Char)
  | .nil => some "nil".toList
  | .flag b => some (if b then "true".toList else "false".toList)
  | .int n => some (printInt fl n)
  | .real _ => none
  | .str s => printStr s
  | .vec xs => (printElems fl xs).map fun b => '[' :: ' ' :: b ++ [']']
  | .map kv => (printPairs fl kv).map fun b => '{' :: ' ' :: b ++ ['}']
  | .fn _ _ => none
  | .bitstr bs => some (printBits bs)
  | .any _ => none
  | .tagged v t =>
    if fl.showTags then do
      let a ← printCell fl v
      let b ← printTagPairs fl t
      pure (a ++ " #{".toList ++ b ++ " }".toList)
    else printCell fl v
/-- `x.fmt(f)?; f.write_str(" ")?` per element -/
def printElems (fl : Flags) : CellList → Option (List Char)
  | .nil => some []
  | .cons h t => do
    let a ← printCell fl h
    let b ← printElems fl t
    pure (a ++ ' ' :: b)
/-- value, space, key, space per entry -/
def printPairs (fl : Flags) : PairList → Option (List Char)
  | .nil => some []
  | .cons k v t => do
    let a ← printCell fl v
    let b ← printCell fl k
    let c ← printPairs fl t
    pure (a ++ ' ' :: b ++ ' ' :: c)
/-- space, value, space, key per tag -/
def printTagPairs (fl : Flags) : PairList → Option (List Char)
  | .nil => some []
  | .cons k v t => do
    let a ← printCell fl v
    let b ← printCell fl k
    let c ← printTagPairs fl t
    pure (' ' :: a ++ ' ' :: b ++ c)
end

/-- `State::format_cell` for an untagged value or a value whose only tag is `#fmt` (the general
    tag-map lookup goes through the `Ord for Cell` of C12 and is not modelled here): flags from
    the `#fmt` tag when it is a usize, else the default. -/
def formatCell (c : Cell) : Option (List Char) :=
  match c with
  | .tagged _ (.cons (.str k) (.int raw) .nil) =>
    if k = "#fmt".toList ∧ 0 ≤ raw ∧ raw < 2^64 then printCell (Flags.ofRaw raw.toNat) c
    else printCell {} c
  | .tagged _ _ => none
  | _ => printCell {} c

end Xeh.Print
