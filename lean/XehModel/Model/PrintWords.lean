/- `print`, `println`, `newline`, `.s` (src/state.rs 2585–2610) as programs over the primitives; the text
   of a value is Model/Print.lean's `formatCell` (values it does not cover: a model gap, never a guess). -/
import XehModel.Model.Prog
import XehModel.Model.Print

namespace Xeh

def gapPrint : Prog := .panic "model: printing this value is outside the model"

def wordPrint (k : Prog) : Prog :=
  .pop fun c =>
    match Print.formatCell c with
    | some s => .print s k
    | none => gapPrint

/-- `.s`: the visible stack, top first, one value per line, printed in one piece -/
def wordDisplayStack : Prog :=
  .depth fun n => .rawLen fun len => .rawFrom (len - n) fun cells =>
    match cells.reverse.mapM Print.formatCell with
    | some lines => .print (lines.flatMap fun l => l ++ ['\n']) .done
    | none => gapPrint

def printTable : List (String × Prog) := [
  ("print", wordPrint .done),
  ("println", wordPrint (.print ['\n'] .done)),
  ("newline", .print ['\n'] .done),
  (".s", wordDisplayStack)
]

end Xeh
