/-
Native words as programs over the interpreter's primitives (state.rs 1333–1511).

Every native word in the Rust source touches the data stack, the loop stack, the vector-builder
stack and the heap *only* through `push_data / pop_data / top_data / dup / swap / rot / over /
push_loop / … / swap_cell_ref` (Tie B's mutation-site table checks that claim against the source).
`Prog` is the free monad over exactly those primitives, so a theorem proved for every `Prog`
(reversibility C02, recording-transparency C15, limit bounds C14) holds for every native word,
including ones not written yet.
-/
import XehModel.Model.Value

namespace Xeh

structure Loop where
  items : Cell
  start : Int
  stop : Int
deriving DecidableEq, Repr

inductive Prog where
  | done : Prog
  | fail (e : Xerr) : Prog
  | panic (site : String) : Prog
  | pop (k : Cell → Prog) : Prog
  | push (c : Cell) (k : Prog) : Prog
  | top (k : Cell → Prog) : Prog
  | dup (k : Prog) : Prog
  | swap (k : Prog) : Prog
  | rot (k : Prog) : Prog
  | over (k : Prog) : Prog
  /-- `data_depth()` : visible depth -/
  | depth (k : Nat → Prog) : Prog
  /-- `data_stack.len()` : raw length (vector builder marks) -/
  | rawLen (k : Nat → Prog) : Prog
  /-- read-only `&data_stack[ptr..]`, bottom-first, as `vec_collect_till_ptr` does -/
  | rawFrom (ptr : Nat) (k : List Cell → Prog) : Prog
  /-- read-only view of the *whole* raw stack, top first (`.s` before the C11 repair iterated it) -/
  | getVar (idx : Nat) (k : Cell → Prog) : Prog
  | setVar (idx : Nat) (c : Cell) (k : Prog) : Prog
  | print (s : List Char) (k : Prog) : Prog
  | pushSpecial (ptr : Nat) (k : Prog) : Prog
  | popSpecial (k : Option Nat → Prog) : Prog
  /-- `loops[ls_len..].nth_back(n)` -/
  | loopAt (n : Nat) (k : Option Loop → Prog) : Prog
  /-- `foreach_next`: replace the `items` of the innermost loop (logged after the C02 repair) -/
  | setLoopItems (c : Cell) (k : Prog) : Prog
  /-- `about_to_stop = true` -/
  | stop (k : Prog) : Prog

namespace Prog

/-- lift an `Outcome` computed from already-popped operands -/
def ofOutcome (o : Outcome α) (k : α → Prog) : Prog :=
  match o with
  | .ok a => k a
  | .err e => .fail e
  | .panic s => .panic s

/-- push a list of cells, first element first -/
def pushAll : List Cell → Prog → Prog
  | [], k => k
  | c :: cs, k => .push c (pushAll cs k)

/-- pop `n` cells (used by the builders) -/
def popN : Nat → Prog → Prog
  | 0, k => k
  | n + 1, k => .pop fun _ => popN n k

/-! ### the pure fragment: semantics on a bare data stack (top first), `hidden` = cells below
    `ctx.ds_len` that no primitive may touch -/

def runStack : Prog → (hidden : Nat) → List Cell → Outcome (List Cell)
  | .done, _, s => .ok s
  | .fail e, _, _ => .err e
  | .panic site, _, _ => .panic site
  | .pop k, h, s =>
    match s with
    | c :: s' => if s.length > h then runStack (k c) h s' else .err .stackUnderflow
    | [] => .err .stackUnderflow
  | .push c k, h, s => runStack k h (c :: s)
  | .top k, h, s =>
    match s with
    | c :: _ => if s.length > h then runStack (k c) h s else .err .stackUnderflow
    | [] => .err .stackUnderflow
  | .dup k, h, s =>
    match s with
    | c :: _ => if s.length > h then runStack k h (c :: s) else .err .stackUnderflow
    | [] => .err .stackUnderflow
  | .swap k, h, s =>
    match s with
    | a :: b :: r => if s.length ≥ h + 2 then runStack k h (b :: a :: r) else .err .stackUnderflow
    | _ => .err .stackUnderflow
  | .rot k, h, s =>
    match s with
    | a :: b :: c :: r => if s.length ≥ h + 3 then runStack k h (c :: b :: a :: r) else .err .stackUnderflow
    | _ => .err .stackUnderflow
  | .over k, h, s =>
    match s with
    | a :: b :: r => if s.length ≥ h + 2 then runStack k h (b :: a :: b :: r) else .err .stackUnderflow
    | _ => .err .stackUnderflow
  | .depth k, h, s => runStack (k (s.length - h)) h s
  | .rawLen k, h, s => runStack (k s.length) h s
  | .rawFrom ptr k, h, s => runStack (k ((s.reverse).drop ptr)) h s
  | .getVar _ _, _, _ => .panic "model: state primitive in runStack"
  | .setVar _ _ _, _, _ => .panic "model: state primitive in runStack"
  | .print _ k, h, s => runStack k h s
  | .pushSpecial _ _, _, _ => .panic "model: state primitive in runStack"
  | .popSpecial _, _, _ => .panic "model: state primitive in runStack"
  | .loopAt _ _, _, _ => .panic "model: state primitive in runStack"
  | .setLoopItems _ _, _, _ => .panic "model: state primitive in runStack"
  | .stop k, h, s => runStack k h s

end Prog
end Xeh
