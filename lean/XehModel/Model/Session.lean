/-
L7: the interpreter session — src/state.rs 358–640 (`compile`/`eval`, `build_from_source`, `BuildMark`,
`build_unwind`, `build1`, `context_open`, `context_close`), 961–980 (`run`, `abort_run`),
2241–2300 (`#(` `#)` `const`), src/repl.rs 185–212 (a REPL line = compile, run, abort on failure).

One state for what the compiler and the VM share: the machine (code, dictionary, heap, stacks, the
current context), the debug map, the whole pending-flow stack, the saved contexts and the undo list
of replaced constants. A token is compiled by the flow-stack compiler of Model/Compile.lean on the
*visible* part of the flow stack (`toC` / `fromC`); inside a meta block the code compiled so far is
run at every token boundary where no control structure is open.

Not modelled (answered `unsupported`): `~)`, `include`/`require`, user-defined immediate words, `let`,
`enum`. A source is a token list: the lexer is L3 (C16/C17), tied separately.
-/
import XehModel.Model.Compile
import XehModel.Model.NativeTable

namespace Xeh.Session
open Xeh Xeh.Mach Xeh.Compile

structure Sess where
  m : Mach := {}
  /-- debug map, parallel to `m.code` -/
  dmap : List Nat := []
  /-- the whole pending-flow stack, top at the head; `m.ctx.fsLen` entries at the bottom are hidden -/
  flows : List Flow := []
  /-- saved contexts, innermost at the head -/
  nested : List Ctx := []
  /-- `const_undo`: (dictionary position counted from the oldest entry, previous value), newest first -/
  constUndo : List (Nat × Cell) := []
  lastTok : Nat := 0
deriving Repr

inductive SRes where
  | ok (s : Sess)
  | err (e : Xerr) (s : Sess)
  | panic (p : String) (s : Sess)
  | unsupported (what : String)
  | timeout
deriving Repr

def unbalancedContext : Xerr := .errorMsg "unbalanced context"

namespace Sess

def visLen (s : Sess) : Nat := s.flows.length - s.m.ctx.fsLen
def visible (s : Sess) : List Flow := s.flows.take s.visLen
def hidden (s : Sess) : List Flow := s.flows.drop s.visLen
def hasPendingFlow (s : Sess) : Bool := s.flows.length > s.m.ctx.fsLen

/-- the compiler's view of the session -/
def toC (s : Sess) : CState :=
  { code := s.m.code, dmap := s.dmap, flows := s.visible, dict := s.m.dict, heapLen := s.m.heap.length,
    heapLimit := s.m.heapLimit, hiddenFlows := s.flows.length - s.visLen, lastTok := s.lastTok,
    inMeta := s.m.ctx.mode == .metaEval }

/-- write the compiler's result back (`var` allocates nil cells) -/
def fromC (s : Sess) (c : CState) : Sess :=
  { s with m := { s.m with code := c.code, dict := c.dict,
                           heap := s.m.heap ++ List.replicate (c.heapLen - s.m.heap.length) Cell.nil },
           dmap := c.dmap, flows := c.flows ++ s.hidden, lastTok := c.lastTok }

def ofC (s : Sess) : CRes CState → SRes
  | .ok c => .ok (s.fromC c)
  | .err e c => .err e.err { (s.fromC c) with lastTok := e.tok }
  | .unsupported u => .unsupported u

/-- `code_emit` -/
def emit (s : Sess) (op : Op) : Sess :=
  { s with m := { s.m with code := s.m.code ++ [op] }, dmap := s.dmap ++ [s.lastTok] }

/-- `context_open` -/
def contextOpen (s : Sess) (mode : Mode) : Sess :=
  let c := s.m.ctx
  let tmp : Ctx :=
    { dsLen := if c.mode = mode then c.dsLen else s.m.ds.length
      csLen := s.m.code.length, rsLen := s.m.rs.length, fsLen := s.flows.length, lsLen := s.m.loops.length,
      ssPtr := s.m.special.length, diLen := s.m.dict.length, ip := s.m.code.length, mode := mode,
      dsOpen := s.m.ds.length }
  { s with m := { s.m with ctx := tmp }, nested := c :: s.nested }

/-- `State::run` on the session's machine -/
def runS (fuel : Nat) (s : Sess) : SRes :=
  match Mach.run nativeProg fuel s.m with
  | none => .timeout
  | some (.ok _, m) => .ok { s with m := m }
  | some (.err e, m) => if isModelGap (.err e : Outcome Unit) then .unsupported (match e with | .errorMsg t => t | _ => "native") else .err e { s with m := m }
  | some (.panic p, m) => if p.startsWith "model:" then .unsupported p else .panic p { s with m := m }

/-- `Vec::swap_remove` -/
def swapRemove (d : List α) (i : Nat) : List α :=
  match d.getLast? with
  | some l => if i + 1 = d.length then d.dropLast else (d.set i l).dropLast
  | none => d

/-- the purge loop of `context_close` over the dictionary in Rust order (oldest first) -/
def purgeLoop : Nat → Nat → List (String × Entry) → List (String × Entry)
  | 0, _, d => d
  | f + 1, i, d =>
    match d[i]? with
    | some (_, .const _) => purgeLoop f (i + 1) d
    | some _ => purgeLoop f i (swapRemove d i)
    | none => d

/-- remove the non-constant entries added since `diLen` (the dictionary is kept newest first) -/
def purge (dict : List (String × Entry)) (diLen : Nat) : List (String × Entry) :=
  (purgeLoop dict.length diLen dict.reverse).reverse

/-- re-emit the results of a meta block (what it left above the stack it was opened on) as literals,
    top of the stack first -/
def emitResults : Nat → Sess → SRes
  | 0, s => .ok s
  | f + 1, s =>
    if s.m.ds.length > max s.m.ctx.dsOpen s.m.ctx.dsLen then
      -- bookkeeping of the build, not a step of any program: the value is taken off the stack without a
      -- reverse-log entry (repair 0bda475 of /repo: a logged pop left an entry that reverse stepping undid)
      match s.m.ds with
      | v :: rest => emitResults f (({ s with m := { s.m with ds := rest } } : Sess).emit (Mach.loadValueOp v))
      | [] => .ok s
    else .ok s

/-- `context_close`. A failing `run` returns early: the saved context has been popped already and the
    current one is *not* restored (the Rust does exactly that). -/
def contextClose (fuel : Nat) (s : Sess) : SRes :=
  match s.nested with
  | [] => .err unbalancedContext s
  | prev :: rest =>
    let s := { s with nested := rest }
    match s.m.ctx.mode with
    | .eval =>
      match s.runS fuel with
      | .ok s =>
        let prev := if prev.mode = .eval then { prev with ip := s.m.ctx.ip } else prev
        .ok { s with m := { s.m with ctx := prev } }
      | r => r
    | .metaEval =>
      match s.runS fuel with
      | .ok s =>
        let cs := s.m.ctx.csLen
        let s := { s with m := { s.m with code := s.m.code.take cs, dict := purge s.m.dict s.m.ctx.diLen },
                          dmap := s.dmap.take cs }
        -- an enclosing meta block with anything open is compiling: the results are inlined there
        -- (`Flow::Enum` is the exception in the Rust; enums are outside this model)
        let compiling := s.flows.length > prev.fsLen
        let r := if prev.mode != .metaEval || compiling then emitResults (s.m.ds.length + 1) s else .ok s
        match r with
        | .ok s => .ok { s with m := { s.m with ctx := prev } }
        | r => r
      | r => r
    | .compile => .ok { s with m := { s.m with ctx := prev } }

/-- `#)` -/
def nestedEnd (fuel : Nat) (s : Sess) : SRes :=
  if s.m.ctx.mode != .metaEval then .err unbalancedContext s
  else if s.hasPendingFlow then
    match s.flows with
    | f :: _ => .err (flowError f) s
    | [] => .panic "flow stack" s
  else s.contextClose fuel

/-- `const name` (the name has been read; `last_token` is the name) -/
def constDef (s : Sess) (name : String) : SRes :=
  if s.m.ctx.mode != .metaEval then .err (.errorMsg "const word used out of the meta-eval context") s
  else
    match s.m.popData with
    | (.ok v, m) =>
      let s := { s with m := m }
      match s.m.dict.findIdx? (·.1 == name) with
      | some i =>
        match s.m.dict[i]? with
        | some (_, .const old) =>
          .ok { s with m := { s.m with dict := s.m.dict.set i (name, .const v) },
                       constUndo := (s.m.dict.length - 1 - i, old) :: s.constUndo }
        | _ => .err constContext s
      | none => .ok { s with m := { s.m with dict := (name, .const v) :: s.m.dict } }
    | (.err e, m) => .err e { s with m := m }
    | (.panic p, m) => .panic p { s with m := m }

/-- inside a meta block, whatever has been compiled is run as soon as no control structure is open -/
def metaRun (fuel : Nat) (s : Sess) : SRes :=
  if s.m.ctx.mode == .metaEval && !s.hasPendingFlow then s.runS fuel else .ok s

def andRun (fuel : Nat) : SRes → SRes
  | .ok s => s.metaRun fuel
  | r => r

/-- `build1` after its first meta run: one token, then the meta run that precedes the next one -/
def tokens (fuel depth : Nat) : List Tok → Nat → Sess → SRes
  | [], idx, s =>
    let s := { s with lastTok := idx }
    if s.nested.length != depth then .err unbalancedContext s
    else if s.hasPendingFlow then
      match s.flows with
      | f :: _ => .err (flowError f) s
      | [] => .panic "flow stack" s
    else .ok s
  | .lit c :: rest, idx, s =>
    match andRun fuel (.ok (({ s with lastTok := idx } : Sess).emit (Mach.loadValueOp c))) with
    | .ok s => tokens fuel depth rest (idx + 1) s
    | r => r
  | .word w :: rest, idx, s =>
    let s := { s with lastTok := idx }
    match (CState.topFun s.visible).bind fun ff => CState.rposition w ff.locals with
    | some i =>
      match andRun fuel (.ok (s.emit (.loadLocal i))) with
      | .ok s => tokens fuel depth rest (idx + 1) s
      | r => r
    | none =>
      match s.m.dict.lookup w with
      | some (.native true n) =>
        if n == "#(" then
          match andRun fuel (.ok (s.contextOpen .metaEval)) with
          | .ok s => tokens fuel depth rest (idx + 1) s
          | r => r
        else if n == "#)" then
          match andRun fuel (s.nestedEnd fuel) with
          | .ok s => tokens fuel depth rest (idx + 1) s
          | r => r
        else if n == "const" || takesName n then
          match rest with
          | .word name :: rest' =>
            let r := if n == "const" then ({ s with lastTok := idx + 1 } : Sess).constDef name
                     else if n == "late" then s.ofC (late s.toC name (idx + 1))
                     else ({ s with lastTok := idx + 1 } : Sess).ofC (withName ({ s with lastTok := idx + 1 } : Sess).toC n name)
            match andRun fuel r with
            | .ok s => tokens fuel depth rest' (idx + 2) s
            | r => r
          | _ => .err .expectingName s
        else
          match andRun fuel (s.ofC (immediate s.toC n)) with
          | .ok s => tokens fuel depth rest (idx + 1) s
          | r => r
      | _ =>
        match andRun fuel (s.ofC (buildWord s.toC w)) with
        | .ok s => tokens fuel depth rest (idx + 1) s
        | r => r

/-- `build1` -/
def build1 (fuel : Nat) (toks : List Tok) (s : Sess) : SRes :=
  match s.metaRun fuel with
  | .ok s' => tokens fuel s.nested.length toks 0 s'
  | r => r

/-- restore one replaced constant (`build_unwind`'s loop body); `pos` counts from the oldest entry -/
def undoConst (dict : List (String × Entry)) (u : Nat × Cell) : List (String × Entry) :=
  let i := dict.length - 1 - u.1
  if u.1 < dict.length then
    match dict[i]? with
    | some (n, .const _) => dict.set i (n, .const u.2)
    | _ => dict
  else dict

/-- `build_unwind`: forget everything the rejected source did (`mark` is the session when it was submitted) -/
def unwind (mark s : Sess) : Sess :=
  let nUndo := s.constUndo.length - mark.constUndo.length
  let dict := (s.constUndo.take nUndo).foldl undoConst s.m.dict
  { s with
    nested := s.nested.drop (s.nested.length - mark.nested.length)
    flows := s.flows.drop (s.flows.length - mark.flows.length)
    dmap := s.dmap.take mark.m.code.length
    constUndo := s.constUndo.drop nUndo
    m := { s.m with
      ctx := mark.m.ctx
      code := s.m.code.take mark.m.code.length
      dict := dict.drop (dict.length - mark.m.dict.length)
      heap := s.m.heap.take mark.m.heap.length
      ds := s.m.ds.drop (s.m.ds.length - mark.m.ds.length)
      rs := s.m.rs.drop (s.m.rs.length - mark.m.rs.length)
      loops := s.m.loops.drop (s.m.loops.length - mark.m.loops.length)
      special := s.m.special.drop (s.m.special.length - mark.m.special.length)
      log := s.m.log.map fun l => l.drop (l.length - (mark.m.log.map List.length).getD 0) } }

/-- `forget_build_log`: drop the reverse-log entries made since the source was submitted (`mark`) -/
def forgetBuildLog (mark m : Mach) : Mach :=
  { m with log := m.log.map fun l => l.drop (l.length - (mark.log.map List.length).getD 0) }

/-- outcome of submitting one source -/
inductive BRes where
  /-- built (and, in eval mode, run) -/
  | done (s : Sess)
  /-- rejected while it was being read or compiled; the state is the unwound one -/
  | rejected (e : Xerr) (s : Sess)
  /-- built, then failed while running (`context_close` of an eval source) -/
  | failed (e : Xerr) (s : Sess)
  | panic (p : String) (s : Sess)
  | unsupported (what : String)
  | timeout
deriving Repr

/-- `build_from_source` -/
def buildSource (fuel : Nat) (mode : Mode) (toks : List Tok) (s : Sess) : BRes :=
  let s1 := s.contextOpen mode
  match s1.build1 fuel toks with
  | .err e s2 => .rejected e (unwind s s2)
  | .panic p s2 => .panic p s2
  | .unsupported u => .unsupported u
  | .timeout => .timeout
  | .ok s2 =>
    -- `forget_build_log` (repair fa36941): what ran while the source was built leaves nothing in the reverse log
    let s2 := { s2 with constUndo := s2.constUndo.drop (s2.constUndo.length - s.constUndo.length), m := forgetBuildLog s.m s2.m }
    match s2.contextClose fuel with
    | .ok s3 => .done s3
    | .err e s3 => .failed e s3
    | .panic p s3 => .panic p s3
    | .unsupported u => .unsupported u
    | .timeout => .timeout

/-- `abort_run` -/
def abortRun (s : Sess) : Sess :=
  { s with m := { s.m with
      rs := s.m.rs.drop (s.m.rs.length - s.m.ctx.rsLen)
      loops := s.m.loops.drop (s.m.loops.length - s.m.ctx.lsLen)
      special := s.m.special.drop (s.m.special.length - s.m.ctx.ssPtr)
      ctx := { s.m.ctx with ip := s.m.code.length } } }

end Sess
end Xeh.Session
