/-
IEEE-754 binary64 / binary32 as exact integer arithmetic on bit patterns.

Every operation is "decode to an exact dyadic rational, compute exactly, round to nearest even".
Nothing here depends on Lean's `Float`; the correspondence check compares these functions with
the hardware FPU through Rust (`a + b`, `a % b`, `as i128`, `as f32`, …) on every run.
NaN *payloads* are not modelled: every NaN result is the canonical quiet NaN and the
correspondence compares NaNs as a class.
-/
namespace Xeh.SF

structure Fmt where
  mbits : Nat      -- explicit mantissa bits (52 / 23)
  ebits : Nat      -- exponent bits (11 / 8)

def f64 : Fmt := ⟨52, 11⟩
def f32 : Fmt := ⟨23, 8⟩

def Fmt.expMax (f : Fmt) : Nat := 2^f.ebits - 1
def Fmt.bias (f : Fmt) : Nat := 2^(f.ebits - 1) - 1
/-- exponent of the least significant bit of a subnormal -/
def Fmt.emin (f : Fmt) : Int := 1 - (f.bias : Int) - (f.mbits : Int)
def Fmt.signBit (f : Fmt) : Nat := 2^(f.mbits + f.ebits)
def Fmt.infBits (f : Fmt) : Nat := f.expMax * 2^f.mbits
def Fmt.nanBits (f : Fmt) : Nat := f.infBits + 2^(f.mbits - 1)

/-- decoded value: `fin neg m e` denotes (-1)^neg · m · 2^e (m may be 0) -/
inductive FVal where
  | nan
  | inf (neg : Bool)
  | fin (neg : Bool) (m : Nat) (e : Int)
deriving DecidableEq, Repr

def decode (f : Fmt) (b : Nat) : FVal :=
  let sign := (b / f.signBit) % 2 == 1
  let ex := (b / 2^f.mbits) % 2^f.ebits
  let fr := b % 2^f.mbits
  if ex == f.expMax then (if fr == 0 then .inf sign else .nan)
  else if ex == 0 then .fin sign fr f.emin
  else .fin sign (fr + 2^f.mbits) ((ex : Int) - 1 + f.emin)

def withSign (f : Fmt) (neg : Bool) (b : Nat) : Nat := if neg then b + f.signBit else b

/-- floor (num·2^s / den) together with the round-to-nearest-even decision -/
def quotRNE (num den : Nat) (s : Int) : Nat :=
  let n := if s ≥ 0 then num * 2^s.toNat else num
  let d := if s ≥ 0 then den else den * 2^(-s).toNat
  let q := n / d
  let r := n % d
  if 2 * r > d ∨ (2 * r = d ∧ q % 2 = 1) then q + 1 else q

def quotFloor (num den : Nat) (s : Int) : Nat :=
  let n := if s ≥ 0 then num * 2^s.toNat else num
  let d := if s ≥ 0 then den else den * 2^(-s).toNat
  n / d

/-- round the exact value (-1)^neg · (num/den) · 2^e to the format, nearest-even, with overflow to
    infinity and gradual underflow. `den > 0`. -/
def roundRat (f : Fmt) (neg : Bool) (num den : Nat) (e : Int) : Nat :=
  if num = 0 then withSign f neg 0 else
  let l : Int := (num.log2 : Int) - (den.log2 : Int)
  let e1 : Int := l + e - f.mbits
  let q1 := quotFloor num den (e - e1)
  let e2 : Int := if q1 < 2^f.mbits then e1 - 1 else e1
  let eE : Int := if e2 < f.emin then f.emin else e2
  let q := quotRNE num den (e - eE)
  let bits := (eE - f.emin).toNat * 2^f.mbits + q
  if bits ≥ f.infBits then withSign f neg f.infBits else withSign f neg bits

def encode (f : Fmt) : FVal → Nat
  | .nan => f.nanBits
  | .inf neg => withSign f neg f.infBits
  | .fin neg m e => roundRat f neg m 1 e

def isNaN (f : Fmt) (b : Nat) : Bool := decode f b == .nan

/-- exact signed integer value of a pair of finite operands at their common exponent -/
def alignSum (na : Bool) (ma : Nat) (ea : Int) (nb : Bool) (mb : Nat) (eb : Int) : Int × Int :=
  let e := if ea ≤ eb then ea else eb
  let xa : Int := (ma * 2^(ea - e).toNat : Nat)
  let xb : Int := (mb * 2^(eb - e).toNat : Nat)
  ((if na then -xa else xa) + (if nb then -xb else xb), e)

def addV (f : Fmt) (a b : FVal) : Nat :=
  match a, b with
  | .nan, _ => f.nanBits
  | _, .nan => f.nanBits
  | .inf s, .inf t => if s == t then withSign f s f.infBits else f.nanBits
  | .inf s, _ => withSign f s f.infBits
  | _, .inf t => withSign f t f.infBits
  | .fin na ma ea, .fin nb mb eb =>
    let (s, e) := alignSum na ma ea nb mb eb
    if s = 0 then (if na && nb then withSign f true 0 else 0)
    else roundRat f (s < 0) s.natAbs 1 e

def negV : FVal → FVal
  | .nan => .nan
  | .inf s => .inf (!s)
  | .fin s m e => .fin (!s) m e

def mulV (f : Fmt) (a b : FVal) : Nat :=
  match a, b with
  | .nan, _ => f.nanBits
  | _, .nan => f.nanBits
  | .inf s, .inf t => withSign f (s != t) f.infBits
  | .inf s, .fin t m _ => if m = 0 then f.nanBits else withSign f (s != t) f.infBits
  | .fin s m _, .inf t => if m = 0 then f.nanBits else withSign f (s != t) f.infBits
  | .fin na ma ea, .fin nb mb eb => roundRat f (na != nb) (ma * mb) 1 (ea + eb)

def divV (f : Fmt) (a b : FVal) : Nat :=
  match a, b with
  | .nan, _ => f.nanBits
  | _, .nan => f.nanBits
  | .inf _, .inf _ => f.nanBits
  | .inf s, .fin t _ _ => withSign f (s != t) f.infBits
  | .fin s _ _, .inf t => withSign f (s != t) 0
  | .fin na ma ea, .fin nb mb eb =>
    if mb = 0 then (if ma = 0 then f.nanBits else withSign f (na != nb) f.infBits)
    else roundRat f (na != nb) ma mb (ea - eb)

/-- C `fmod` (= Rust `%` on floats): exact, sign of the dividend -/
def remV (f : Fmt) (abits : Nat) (a b : FVal) : Nat :=
  match a, b with
  | .nan, _ => f.nanBits
  | _, .nan => f.nanBits
  | .inf _, _ => f.nanBits
  | .fin _ _ _, .inf _ => abits
  | .fin na ma ea, .fin _ mb eb =>
    if mb = 0 then f.nanBits
    else if ma = 0 then abits
    else
      let e := if ea ≤ eb then ea else eb
      let x := ma * 2^(ea - e).toNat
      let y := mb * 2^(eb - e).toNat
      roundRat f na (x % y) 1 e

/-- strict comparison; unordered → false -/
def ltV (a b : FVal) : Bool :=
  match a, b with
  | .nan, _ => false
  | _, .nan => false
  | .inf s, .inf t => s && !t
  | .inf s, .fin _ _ _ => s
  | .fin _ _ _, .inf t => !t
  | .fin na ma ea, .fin nb mb eb =>
    let (s, _) := alignSum na ma ea (!nb) mb eb   -- a - b
    s < 0

def eqV (a b : FVal) : Bool :=
  match a, b with
  | .nan, _ => false
  | _, .nan => false
  | .inf s, .inf t => s == t
  | .fin na ma ea, .fin nb mb eb => (alignSum na ma ea (!nb) mb eb).1 == 0
  | _, _ => false

/-- `f64::round`: nearest integer, ties away from zero -/
def roundV (f : Fmt) (bits : Nat) (a : FVal) : Nat :=
  match a with
  | .fin neg m e =>
    if e ≥ 0 then bits
    else
      let k := (-e).toNat
      let q := m / 2^k
      let fr := m % 2^k
      let q' := if 2 * fr ≥ 2^k then q + 1 else q
      roundRat f neg q' 1 0
  | _ => if isNaN f bits then f.nanBits else bits

/-- `x as i128` from a float: truncation toward zero, saturating, NaN → 0 -/
def toInt128 (a : FVal) : Int :=
  match a with
  | .nan => 0
  | .inf neg => if neg then -(2^127) else 2^127 - 1
  | .fin neg m e =>
    let mag : Nat := if e ≥ 0 then m * 2^e.toNat else m / 2^(-e).toNat
    let v : Int := if neg then -(mag : Int) else mag
    if v < -(2^127) then -(2^127) else if v > 2^127 - 1 then 2^127 - 1 else v

/-- `i as f64` for an integer: correctly rounded -/
def ofInt (f : Fmt) (i : Int) : Nat := roundRat f (i < 0) i.natAbs 1 0

/-- `x as f32` from f64 / `x as f64` from f32 : correctly rounded re-encoding -/
def convert (src dst : Fmt) (b : Nat) : Nat := encode dst (decode src b)

/-! ### operations on binary64 bit patterns (`UInt64`) -/

abbrev D := decode f64

def add64 (a b : UInt64) : UInt64 := .ofNat (addV f64 (D a.toNat) (D b.toNat))
def sub64 (a b : UInt64) : UInt64 := .ofNat (addV f64 (D a.toNat) (negV (D b.toNat)))
def mul64 (a b : UInt64) : UInt64 := .ofNat (mulV f64 (D a.toNat) (D b.toNat))
def div64 (a b : UInt64) : UInt64 := .ofNat (divV f64 (D a.toNat) (D b.toNat))
def rem64 (a b : UInt64) : UInt64 := .ofNat (remV f64 a.toNat (D a.toNat) (D b.toNat))
def neg64 (a : UInt64) : UInt64 := a ^^^ 0x8000000000000000
def abs64 (a : UInt64) : UInt64 := a &&& 0x7fffffffffffffff
def lt64 (a b : UInt64) : Bool := ltV (D a.toNat) (D b.toNat)
def eq64 (a b : UInt64) : Bool := eqV (D a.toNat) (D b.toNat)
def isZero64 (a : UInt64) : Bool := eqV (D a.toNat) (.fin false 0 0)
def isNaN64 (a : UInt64) : Bool := isNaN f64 a.toNat
def round64 (a : UInt64) : UInt64 := .ofNat (roundV f64 a.toNat (D a.toNat))
def toInt64 (a : UInt64) : Int := toInt128 (D a.toNat)
def ofInt64 (i : Int) : UInt64 := .ofNat (ofInt f64 i)
/-- Rust `f64::min`: a NaN operand yields the other operand -/
def min64 (a b : UInt64) : UInt64 :=
  if isNaN64 a then b else if isNaN64 b then a else if lt64 b a then b else a
def max64 (a b : UInt64) : UInt64 :=
  if isNaN64 a then b else if isNaN64 b then a else if lt64 a b then b else a
def f64to32 (a : UInt64) : UInt32 := .ofNat (convert f64 f32 a.toNat)
def f32to64 (a : UInt32) : UInt64 := .ofNat (convert f32 f64 a.toNat)

end Xeh.SF
