/-
The *structural reading* of xeh's control-flow grammar (DESIGN Appendix B) and its two meanings:

* `compileS` — a compositional compiler to relative-jump bytecode (no flow stack, no backpatching);
* `evalS`    — a direct structural big-step evaluator (recursion on the syntax tree, fuel for loops);
  it never looks at an instruction pointer, at bytecode or at a jump distance.

`Stmt` nodes carry the index of the source token that the real compiler attributes their opcode to
(`if` for the conditional jump, `until`/`while`/`repeat`/`do`/`loop`/`of`/`endof`/`break` for theirs),
so "fails at the same point" can be stated: an error of `evalS` names a token, an error of the VM
names `debug_map[ip]`.

Stage 1 (this file): literals, every straight-line opcode (native words, variable load/store),
if/else/then, case/of/endof/endcase, begin-until, begin-while-repeat, begin-repeat, do-loop (hence
foreach), break. Definitions, calls and locals are compiled and executed by the faithful model
(Model/Compile.lean + Model/VM.lean) and validated by correspondence; their structural theorem is
stage 2.
-/
import XehModel.Model.VM
import XehModel.Model.Compile

namespace Xeh.Structured
open Xeh Xeh.Mach

inductive Stmt where
  | skip
  /-- one straight-line opcode (literal load, native word, variable load/store, loadnil) -/
  | op (t : Nat) (o : Op)
  | seq (a b : Stmt)
  | ifThen (tIf : Nat) (a : Stmt)
  | ifElse (tIf tElse : Nat) (a b : Stmt)
  | untilLoop (tUntil : Nat) (a : Stmt)
  | whileLoop (tWhile tRepeat : Nat) (c a : Stmt)
  | repeatLoop (tRepeat : Nat) (a : Stmt)
  | doLoop (tDo tLoop : Nat) (a : Stmt)
  | brk (t : Nat)
  /-- `case … endcase`; arms are `arm` nodes directly in the `seq` spine of the body -/
  | caseS (a : Stmt)
  /-- `of body endof` -/
  | arm (tOf tEndof : Nat) (body : Stmt)
  /-- `: name body ;` — at run time a definition is jumped over; the name is bound by the parser -/
  | defn (tColon tSemi : Nat) (body : Stmt)
  /-- call of the interpreted word whose body starts at `addr`. `ret` is the address the compiler gives the
      opcode after the call: the evaluator copies it into the frame it pushes (so that frames are comparable
      with the VM's) and never looks at it -/
  | call (t : Nat) (addr ret : Nat)
deriving DecidableEq, Repr

/-- number of opcodes a statement compiles to (independent of the context) -/
def size : Stmt → Nat
  | .skip => 0
  | .op _ _ => 1
  | .seq a b => size a + size b
  | .ifThen _ a => 1 + size a
  | .ifElse _ _ a b => 1 + size a + 1 + size b
  | .untilLoop _ a => size a + 1
  | .whileLoop _ _ c a => size c + 1 + size a + 1
  | .repeatLoop _ a => size a + 1
  | .doLoop _ _ a => 1 + size a + 1
  | .brk _ => 1
  | .caseS a => size a
  | .arm _ _ body => 1 + size body + 1
  | .defn _ _ body => 1 + size body + 1
  | .call _ _ _ => 1

/-- what `break` means here: nothing encloses it, or a `begin` loop / a counted loop whose exit lies
    `k` opcodes after the end of the current fragment -/
inductive BK where
  | none
  | jump (k : Nat)
  | loop (k : Nat)
deriving DecidableEq, Repr

def BK.shift : BK → Nat → BK
  | .none, _ => .none
  | .jump k, n => .jump (k + n)
  | .loop k, n => .loop (k + n)

/-- straight-line opcodes: they fall through to the next instruction whenever they succeed -/
def straight : Op → Bool
  | .nop | .native _ | .load _ | .loadNil | .loadI64 _ | .loadF64 _ | .loadStr _ | .loadCell _ | .store _
  | .initLocal _ | .loadLocal _ => true
  | _ => false

/-- the compositional compiler: opcode × token index. `ce` = distance from the end of the fragment
    to the `endcase` of the enclosing case (only meaningful directly inside a `caseS`). -/
def compileS : Stmt → BK → Option Nat → List (Op × Nat)
  | .skip, _, _ => []
  | .op t o, _, _ => [(o, t)]
  | .seq a b, bk, ce => compileS a (bk.shift (size b)) (ce.map (· + size b)) ++ compileS b bk ce
  | .ifThen t a, bk, _ => (.jumpIfNot (size a + 1), t) :: compileS a bk none
  | .ifElse t te a b, bk, _ =>
    (.jumpIfNot (size a + 2), t) :: compileS a (bk.shift (1 + size b)) none ++
      (.jump (size b + 1), te) :: compileS b bk none
  | .untilLoop t a, _, _ => compileS a .none none ++ [(.jumpIfNot (-(size a : Int)), t)]
  | .whileLoop tw tr c a, _, _ =>
    compileS c .none none ++ (.jumpIfNot (size a + 2), tw) :: compileS a (.jump 1) none ++
      [(.jump (-((size c + 1 + size a : Nat) : Int)), tr)]
  | .repeatLoop tr a, _, _ => compileS a (.jump 1) none ++ [(.jump (-(size a : Int)), tr)]
  | .doLoop td tl a, _, _ =>
    (.doOp (size a + 2), td) :: compileS a (.loop 1) none ++ [(.loopOp (-(size a : Int)), tl)]
  | .brk t, bk, _ =>
    match bk with
    | .jump k => [(.jump (k + 1), t)]
    | .loop k => [(.breakOp (k + 1), t)]
    | .none => [(.nop, t)]
  | .caseS a, bk, _ => compileS a bk (some 0)
  | .arm tOf tEndof body, bk, ce =>
    (.caseOf (size body + 2), tOf) :: compileS body (bk.shift 1) none ++ [(.jump ((ce.getD 0 : Nat) + 1), tEndof)]
  | .defn tc ts body, _, _ => (.jump (size body + 2), tc) :: compileS body .none none ++ [(.ret, ts)]
  | .call t addr _, _, _ => [(.call addr, t)]

/-- well-formedness w.r.t. the grammar the flow-stack compiler accepts: `break` only with a loop
    open (and never directly inside `begin … until` or a `while` condition), arms only in the spine
    of a `case`, straight-line opcodes only in `op` -/
def WFS : Stmt → (brkOk armOk : Bool) → Bool
  | .skip, _, _ => true
  | .op _ o, _, _ => straight o
  | .seq a b, k, r => WFS a k r && WFS b k r
  | .ifThen _ a, k, _ => WFS a k false
  | .ifElse _ _ a b, k, _ => WFS a k false && WFS b k false
  | .untilLoop _ a, _, _ => WFS a false false
  | .whileLoop _ _ c a, _, _ => WFS c false false && WFS a true false
  | .repeatLoop _ a, _, _ => WFS a true false
  | .doLoop _ _ a, _, _ => WFS a true false
  | .brk _, k, _ => k
  | .caseS a, k, _ => WFS a k true
  | .arm _ _ body, k, r => r && WFS body k false
  | .defn _ _ body, _, _ => WFS body false false
  | .call _ _ _, _, _ => true

/-- the interpreted words a program can call: entry address ↦ (body, token of its `;`) -/
abbrev FunTab := Nat → Option (Stmt × Nat)

/-- positions: every call node refers to a word of the table and carries the address of the opcode after it
    (the parser computes it; the evaluator only copies it into the frame) -/
def placed (F : FunTab) : Stmt → Nat → Bool
  | .call _ addr ret, pc => ret == pc + 1 && (F addr).isSome
  | .seq a b, pc => placed F a pc && placed F b (pc + size a)
  | .ifThen _ a, pc => placed F a (pc + 1)
  | .ifElse _ _ a b, pc => placed F a (pc + 1) && placed F b (pc + 1 + size a + 1)
  | .untilLoop _ a, pc => placed F a pc
  | .whileLoop _ _ c a, pc => placed F c pc && placed F a (pc + size c + 1)
  | .repeatLoop _ a, pc => placed F a pc
  | .doLoop _ _ a, pc => placed F a (pc + 1)
  | .caseS a, pc => placed F a pc
  | .arm _ _ b, pc => placed F b (pc + 1)
  | .defn _ _ b, pc => placed F b (pc + 1)
  | _, _ => true

/-- the definitions of a program with the addresses the compiler gives them: (entry address, body, token of `;`) -/
def funsOf : Stmt → Nat → List (Nat × Stmt × Nat)
  | .defn _ ts b, pc => (pc + 1, b, ts) :: funsOf b (pc + 1)
  | .seq a b, pc => funsOf a pc ++ funsOf b (pc + size a)
  | .ifThen _ a, pc => funsOf a (pc + 1)
  | .ifElse _ _ a b, pc => funsOf a (pc + 1) ++ funsOf b (pc + 1 + size a + 1)
  | .untilLoop _ a, pc => funsOf a pc
  | .whileLoop _ _ c a, pc => funsOf c pc ++ funsOf a (pc + size c + 1)
  | .repeatLoop _ a, pc => funsOf a pc
  | .doLoop _ _ a, pc => funsOf a (pc + 1)
  | .caseS a, pc => funsOf a pc
  | .arm _ _ b, pc => funsOf b (pc + 1)
  | _, _ => []

/-- the function table of a whole program (compiled at address 0) -/
def tabOf (st : Stmt) : FunTab := fun addr => ((funsOf st 0).find? (·.1 == addr)).map (·.2)

/-! ### structural evaluation -/

/-- outcome of evaluating a statement -/
inductive Res where
  | ok (m : Mach)
  /-- a `break` (token `t`) is travelling to the nearest enclosing loop -/
  | brk (t : Nat) (m : Mach)
  /-- a matched `of … endof` arm finished: leave the enclosing `case` -/
  | exitCase (m : Mach)
  /-- failed at the opcode of token `tok` -/
  | err (e : Xerr) (tok : Nat) (m : Mach)
  | panic (s : String) (tok : Nat) (m : Mach)
  | timeout
deriving Repr

/-- effect of a straight-line opcode, without any instruction pointer -/
def straightEff (np : String → Option Prog) (m : Mach) : Op → R Unit
  | .nop => (.ok (), m)
  | .native name =>
    match np name with
    | some p => runProg p m
    | none => (.panic s!"model: native word {name} is outside the model", m)
  | .loadStr s => m.pushData (.str s)
  | .loadF64 x => m.pushData (.real x)
  | .loadI64 x => m.pushData (.int x)
  | .loadNil => m.pushData .nil
  | .loadCell c => m.pushData c
  | .load idx =>
    match m.cellRef idx with
    | .ok c => m.pushData c
    | .err e => (.err e, m)
    | .panic s => (.panic s, m)
  | .store idx =>
    match m.popData with
    | (.ok v, m) => m.swapCellRef idx v
    | (.err e, m) => (.err e, m)
    | (.panic s, m) => (.panic s, m)
  | .initLocal idx =>
    match m.popData with
    | (.ok v, m) =>
      match m.rs with
      | f :: rest =>
        if m.rs.length > m.ctx.rsLen then
          let f' : Frame := { f with locals := setLocal f.locals idx v }
          let m' : Mach := { m with rs := f' :: rest }
          (.ok (), m'.logStep (.restoreLocals f.locals))
        else (.err .returnStackUnderflow, m)
      | [] => (.err .returnStackUnderflow, m)
    | (.err e, m) => (.err e, m)
    | (.panic s, m) => (.panic s, m)
  | .loadLocal i =>
    match m.topFrame with
    | .ok f =>
      match f.locals[i]? with
      | some v => m.pushData v
      | none => (.err (localOutOfBounds i), m)
    | .err e => (.err e, m)
    | .panic s => (.panic s, m)
  | _ => (.panic "model: not a straight-line opcode", m)

/-- pop a condition (`JumpIfNot`'s operand) -/
def popCond (m : Mach) : R Bool :=
  match m.popData with
  | (.ok c, m) =>
    match c.condTrue with
    | .ok b => (.ok b, m)
    | .err e => (.err e, m)
    | .panic s => (.panic s, m)
  | (.err e, m) => (.err e, m)
  | (.panic s, m) => (.panic s, m)

/-- `CaseOf`'s test: pop the candidate, compare with the selector underneath; on a match pop the
    selector too -/
def caseTest (m : Mach) : R Bool :=
  match m.popData with
  | (.ok a, m) =>
    match m.topData with
    | (.ok b, m) =>
      if Cell.beq a b then
        match m.popData with
        | (.ok _, m) => (.ok true, m)
        | (.err e, m) => (.err e, m)
        | (.panic s, m) => (.panic s, m)
      else (.ok false, m)
    | (.err e, m) => (.err e, m)
    | (.panic s, m) => (.panic s, m)
  | (.err e, m) => (.err e, m)
  | (.panic s, m) => (.panic s, m)

def ofR (r : R α) (tok : Nat) (k : α → Mach → Res) : Res :=
  match r with
  | (.ok a, m) => k a m
  | (.err e, m) => .err e tok m
  | (.panic s, m) => .panic s tok m

mutual
/-- Structural big-step evaluation. `fuel` bounds the depth of the evaluation (every recursive call,
    in particular every loop iteration, costs one unit); every theorem quantifies over all fuel. -/
def evalS (np : String → Option Prog) (F : FunTab) : Nat → Stmt → Mach → Res
  | 0, _, _ => .timeout
  | f + 1, s, m =>
    match s with
    | .skip => .ok m
    | .op t o => ofR (straightEff np m o) t fun _ m => .ok m
    | .seq a b =>
      match evalS np F f a m with
      | .ok m => evalS np F f b m
      | r => r
    | .ifThen t a => ofR (popCond m) t fun c m => if c then evalS np F f a m else .ok m
    | .ifElse t _ a b => ofR (popCond m) t fun c m => if c then evalS np F f a m else evalS np F f b m
    | .untilLoop t a =>
      match evalS np F f a m with
      | .ok m => ofR (popCond m) t fun c m => if c then .ok m else evalS np F f (.untilLoop t a) m
      | r => r
    | .whileLoop tw tr c a =>
      match evalS np F f c m with
      | .ok m =>
        ofR (popCond m) tw fun b m =>
          if b then
            match evalS np F f a m with
            | .ok m => evalS np F f (.whileLoop tw tr c a) m
            | .brk _ m => .ok m
            | r => r
          else .ok m
      | r => r
    | .repeatLoop tr a =>
      match evalS np F f a m with
      | .ok m => evalS np F f (.repeatLoop tr a) m
      | .brk _ m => .ok m
      | r => r
    | .doLoop td tl a =>
      ofR m.doInit td fun l m =>
        if l.start < l.stop then doIter np F f tl a (m.pushLoop l) else .ok m
    | .brk t => .brk t m
    | .caseS a =>
      match evalS np F f a m with
      | .exitCase m => .ok m
      | r => r
    | .arm tOf _ body =>
      ofR (caseTest m) tOf fun hit m =>
        if hit then
          match evalS np F f body m with
          | .ok m => .exitCase m
          | r => r
        else .ok m
    | .defn _ _ _ => .ok m
    | .call _ addr ret =>
      match F addr with
      | some (body, tSemi) =>
        -- a frame for the callee, its body, then `;` pops the frame
        match evalS np F f body (m.pushReturn { fnAddr := addr, returnTo := ret, locals := [] }) with
        | .ok m => ofR m.popReturn tSemi fun _ m => .ok m
        -- no `break` and no finished arm leaves a definition (the parser rejects such bodies)
        | .brk t m => .panic "model: break escaping a definition" t m
        | .exitCase m => .panic "model: endof escaping a definition" tSemi m
        | r => r
      | none => .panic "model: call of a word outside the function table" 0 m
/-- the iterations of a counted loop whose `Loop` record is on the loop stack -/
def doIter (np : String → Option Prog) (F : FunTab) : Nat → Nat → Stmt → Mach → Res
  | 0, _, _, _ => .timeout
  | f + 1, tl, a, m =>
    match evalS np F f a m with
    | .ok m =>
      ofR m.loopNext tl fun more m =>
        if more then doIter np F f tl a m
        else ofR m.popLoop tl fun _ m => .ok m
    | .brk tb m =>
      -- `break` inside a counted loop is the `Break` opcode: it pops the loop record
      ofR m.popLoop tb fun _ m => .ok m
    | r => r
end

end Xeh.Structured
