/-
L3: tags — `tags with-tags insert-tag remove-tag get-tag` (src/state.rs `core_word_tags` …,
src/cell.rs `insert_tag remove_tag get_tag tags with_tags value`), and recursive untagging `strip`
(specification device of C13; no Rust counterpart).

A tag map is an ordinary `Xmap`, so its keys are subject to the same `Ord for Cell` as every map
(Model/Collections.lean): `get-tag` on a tag map whose keys are not of one comparable class is the
C12 known finding seen through tags.
-/
import XehModel.Model.Collections

namespace Xeh

/-- `Cell::insert_tag` -/
def Cell.insertTag (c key val : Cell) : Cell :=
  match c.tags with
  | some t => c.withTags (t.insert key val)
  | none => c.withTags (PairList.nil.insert key val)

/-- `Cell::remove_tag` (an untagged value becomes a value with an empty tag map) -/
def Cell.removeTag (c key : Cell) : Cell :=
  match c.tags with
  | some t => c.withTags (t.erase key)
  | none => c.withTags .nil

/-- `Cell::get_tag` -/
def Cell.getTag (c key : Cell) : Option Cell :=
  match c.tags with
  | some t => t.lookup key
  | none => none

/-! ### recursive untagging -/

mutual
def Cell.strip : Cell → Cell
  | .tagged v _ => Cell.strip v
  | .vec xs => .vec (CellList.strip xs)
  | .map kv => .map (PairList.strip kv)
  | c => c
def CellList.strip : CellList → CellList
  | .nil => .nil
  | .cons h t => .cons (Cell.strip h) (CellList.strip t)
def PairList.strip : PairList → PairList
  | .nil => .nil
  | .cons k v t => .cons (Cell.strip k) (Cell.strip v) (PairList.strip t)
end

mutual
/-- tags never nest directly (`with_tags` stores `value()`): the payload of a tagged cell is untagged.
    Holds for every value the implementation can build. -/
def Cell.TagWF : Cell → Prop
  | .tagged v t => v.tags = none ∧ Cell.TagWF v ∧ PairList.TagWF t
  | .vec xs => CellList.TagWF xs
  | .map kv => PairList.TagWF kv
  | _ => True
def CellList.TagWF : CellList → Prop
  | .nil => True
  | .cons h t => Cell.TagWF h ∧ CellList.TagWF t
def PairList.TagWF : PairList → Prop
  | .nil => True
  | .cons k v t => Cell.TagWF k ∧ Cell.TagWF v ∧ PairList.TagWF t
end

def Xerr.strip : Xerr → Xerr
  | .typeErrorMsg v m => .typeErrorMsg v.strip m
  | .typeNotSupported v => .typeNotSupported v.strip
  | .assertEqFailed a b => .assertEqFailed a.strip b.strip
  | .userError c => .userError c.strip
  | e => e

/-- an outcome with every tag removed: what remains to compare between a tagged and an untagged run -/
def stripOutcome : Outcome (List Cell) → Outcome (List Cell)
  | .ok s => .ok (s.map Cell.strip)
  | .err e => .err e.strip
  | .panic s => .panic s

namespace Coll
open Prog

def wordTags : Prog :=
  .pop fun val =>
    match val.tags with
    | some t => .push (.map t) .done
    | none => .push .nil .done

/-- `with-tags` ( val map -- val' ) -/
def wordWithTags : Prog :=
  .pop fun tg => ofOutcome tg.toMap fun t =>
  .pop fun val => .push (val.withTags t) .done

/-- `insert-tag` ( x val key -- x' ) -/
def wordInsertTag : Prog :=
  .pop fun key => .pop fun val => .pop fun x => .push (x.insertTag key val) .done

/-- `remove-tag` ( x key -- x' ) -/
def wordRemoveTag : Prog :=
  .pop fun key => .pop fun x => .push (x.removeTag key) .done

/-- `get-tag` ( x key -- val|nil ) -/
def wordGetTag : Prog :=
  .pop fun key => .pop fun x => .push ((x.getTag key).getD .nil) .done

/-! ### the formatting words (`^hex ^dec ^oct ^bin fmt/prefix fmt/tags fmt/upcase`, src/state.rs `update_fmt_*`):
they change the `#fmt` tag of the value on top and nothing else -/

def fmtKey : Cell := .str "#fmt".toList

/-- `State::parse_fmt_flags(..).unwrap_or_default()`: the raw flag word of the `#fmt` tag when it is a usize, masked to
    the defined bits (`FmtFlags::from_raw`), else the default `10 | PREFIX` -/
def fmtRaw (c : Cell) : Nat :=
  match c.getTag fmtKey with
  | some f =>
    match f.toUsize with
    | .ok n => n % 4096
    | _ => 266
  | none => 266

/-- `flags` with bit `k` set / cleared -/
def setFlagBit (flags k : Nat) (t : Bool) : Nat :=
  if t then (if flags.testBit k then flags else flags + 2 ^ k)
  else (if flags.testBit k then flags - 2 ^ k else flags)

/-- `update_fmt_flags`: the value on top gets the tag, every other tag stays (`Cell::insert_tag`) -/
def putFmt (flags : Nat) : Prog := .pop fun v => .push (v.insertTag fmtKey (.int (flags : Nat))) .done

/-- `<fmt-base>` ( x n -- x' ) -/
def wordFmtBase : Prog :=
  .pop fun nc => ofOutcome nc.toUsize fun n => .top fun v =>
    if fmtRaw v % 256 ≠ n then putFmt (fmtRaw v - fmtRaw v % 256 + n % 256) else .done

/-- `<fmt-prefix>` / `<fmt-tags>` / `<fmt-upcase>` ( x flag -- x' ): bit 8 / 9 / 11 -/
def wordFmtBit (k : Nat) : Prog :=
  .pop fun tc => ofOutcome tc.toBool fun t => .top fun v =>
    if (fmtRaw v).testBit k ≠ t then putFmt (setFlagBit (fmtRaw v) k t) else .done

def tagTable : List (String × Prog) := [
  ("<fmt-base>", wordFmtBase),
  ("<fmt-prefix>", wordFmtBit 8),
  ("<fmt-tags>", wordFmtBit 9),
  ("<fmt-upcase>", wordFmtBit 11),
  ("tags", wordTags),
  ("with-tags", wordWithTags),
  ("insert-tag", wordInsertTag),
  ("remove-tag", wordRemoveTag),
  ("get-tag", wordGetTag)
]

def tagWord (w : String) : Option Prog := tagTable.lookup w

end Coll
end Xeh
