/-
L5: the bytecode VM — src/state.rs 831–1511 (primitives, `fetch_and_run`, `next`, `rnext`,
`reverse_changes`, meters and limits) and src/opcodes.rs.

Faithful to the tree *after* the repairs: zero-distance jumps are self-jumps, `InitLocal` pads
skipped slots with nil and logs the previous locals, `foreach_next` logs the loop it changes.
Every primitive appends its `ReverseStep` exactly where the Rust does (before or after the
mutation), because C02 is about that log.
-/
import XehModel.Model.Prog
import XehModel.Model.Equal

namespace Xeh

structure Frame where
  fnAddr : Nat
  returnTo : Nat
  locals : List Cell
deriving DecidableEq, Repr

inductive RStep where
  | setIp (ip : Nat)
  | pushData (c : Cell)
  | popData
  | swapData
  | rotData
  | overData
  | popReturn
  | pushReturn (f : Frame)
  | popLoop
  | pushLoop (l : Loop)
  | loopNextBack (l : Loop)
  | popSpecial
  | pushSpecial (p : Nat)
  | restoreLocals (ls : List Cell)
  | swapRef (idx : Nat) (c : Cell)
deriving DecidableEq, Repr

inductive Mode where
  | compile | eval | metaEval
deriving DecidableEq, Repr

inductive Op where
  | nop
  | call (addr : Nat)
  | resolve (name : String)
  | native (name : String)
  | ret
  | jumpIf (rel : Int)
  | jumpIfNot (rel : Int)
  | jump (rel : Int)
  | doOp (rel : Int)
  | breakOp (rel : Int)
  | loopOp (rel : Int)
  | caseOf (rel : Int)
  | load (idx : Nat)
  | loadNil
  | loadI64 (i : Int)
  | loadF64 (bits : UInt64)
  | loadStr (s : List Char)
  | loadCell (c : Cell)
  | store (idx : Nat)
  | initLocal (i : Nat)
  | loadLocal (i : Nat)
deriving DecidableEq, Repr

inductive Entry where
  | const (c : Cell)
  | var (idx : Nat)
  | interp (immediate : Bool) (addr : Nat)
  | native (immediate : Bool) (name : String)
deriving DecidableEq, Repr

structure Ctx where
  dsLen : Nat := 0
  csLen : Nat := 0
  rsLen : Nat := 0
  fsLen : Nat := 0
  lsLen : Nat := 0
  ssPtr : Nat := 0
  diLen : Nat := 0
  ip : Nat := 0
  mode : Mode := .eval
  /-- data stack height when the context was opened -/
  dsOpen : Nat := 0
deriving DecidableEq, Repr

/-- The machine. Stacks are lists with the *top at the head*; `ds.length - ctx.dsLen` cells are visible. -/
structure Mach where
  code : List Op := []
  heap : List Cell := []
  ds : List Cell := []
  rs : List Frame := []
  loops : List Loop := []
  special : List Nat := []
  ctx : Ctx := {}
  meter : Nat := 0
  insnLimit : Option Nat := none
  stackLimit : Option Nat := none
  heapLimit : Option Nat := none
  /-- reverse log, most recent entry at the head; `none` = recording off -/
  log : Option (List RStep) := none
  /-- captured stdout, in order -/
  out : List Char := []
  aboutToStop : Bool := false
  /-- dictionary, newest entry first (only `Resolve` reads it at run time) -/
  dict : List (String × Entry) := []
deriving Repr

abbrev R (α : Type) := Outcome α × Mach

namespace Mach

def isRecording (m : Mach) : Bool := m.log.isSome

/-! ### what the host configures (`State::set_insn_limit`, `set_stack_limit`, `set_heap_limit`, `set_recording_enabled`) -/

/-- `set_insn_limit`: the limit, and the count starts afresh — the only one of the four that touches the meter -/
def setInsnLimit (m : Mach) (l : Option Nat) : Mach := { m with insnLimit := l, meter := 0 }
def setStackLimit (m : Mach) (l : Option Nat) : Mach := { m with stackLimit := l }
def setHeapLimit (m : Mach) (l : Option Nat) : Mach := { m with heapLimit := l }
/-- `set_recording_enabled`: on = an empty log unless there is one already (asserting it again is not a restart),
    off = the log is dropped -/
def setRecording (m : Mach) (on : Bool) : Mach :=
  { m with log := if on then (if m.log.isSome then m.log else some []) else none }

def logStep (m : Mach) (s : RStep) : Mach := { m with log := m.log.map (s :: ·) }

def ip (m : Mach) : Nat := m.ctx.ip
def isRunning (m : Mach) : Bool := m.ctx.ip < m.code.length

/-- `set_ip` / `next_ip`: log the old ip, then move -/
def setIp (m : Mach) (n : Nat) : Mach :=
  let m := m.logStep (.setIp m.ctx.ip)
  { m with ctx := { m.ctx with ip := n } }

def nextIp (m : Mach) : Mach := m.setIp (m.ctx.ip + 1)

def limitMsg (what : String) (lim : Nat) : Xerr := .errorMsg s!"{what} limit reached: {lim}"

/-- `push_data`: stack-limit check, log, push -/
def pushData (m : Mach) (c : Cell) : R Unit :=
  match m.stackLimit with
  | some lim =>
    if m.ds.length ≥ lim then (.err (limitMsg "stack" lim), m)
    else (.ok (), { (m.logStep .popData) with ds := c :: m.ds })
  | none => (.ok (), { (m.logStep .popData) with ds := c :: m.ds })

/-- `pop_data` -/
def popData (m : Mach) : R Cell :=
  match m.ds with
  | c :: rest =>
    if m.ds.length > m.ctx.dsLen then (.ok c, { (m.logStep (.pushData c)) with ds := rest })
    else (.err .stackUnderflow, m)
  | [] => (.err .stackUnderflow, m)

def topData (m : Mach) : R Cell :=
  match m.ds with
  | c :: _ => if m.ds.length > m.ctx.dsLen then (.ok c, m) else (.err .stackUnderflow, m)
  | [] => (.err .stackUnderflow, m)

def dupData (m : Mach) : R Unit :=
  match m.topData with
  | (.ok c, m) => m.pushData c
  | (.err e, m) => (.err e, m)
  | (.panic s, m) => (.panic s, m)

/-- `swap_data`: logs *before* swapping -/
def swapData (m : Mach) : R Unit :=
  match m.ds with
  | a :: b :: r =>
    if m.ds.length ≥ m.ctx.dsLen + 2 then (.ok (), { (m.logStep .swapData) with ds := b :: a :: r })
    else (.err .stackUnderflow, m)
  | _ => (.err .stackUnderflow, m)

def rotData (m : Mach) : R Unit :=
  match m.ds with
  | a :: b :: c :: r =>
    if m.ds.length ≥ m.ctx.dsLen + 3 then (.ok (), { (m.logStep .rotData) with ds := c :: b :: a :: r })
    else (.err .stackUnderflow, m)
  | _ => (.err .stackUnderflow, m)

/-- `over_data`: logs `OverData`, then `push_data` logs `PopData` as well -/
def overData (m : Mach) : R Unit :=
  match m.ds with
  | _ :: b :: _ =>
    if m.ds.length ≥ m.ctx.dsLen + 2 then (m.logStep .overData).pushData b
    else (.err .stackUnderflow, m)
  | _ => (.err .stackUnderflow, m)

def pushReturn (m : Mach) (f : Frame) : Mach := { (m.logStep .popReturn) with rs := f :: m.rs }

def popReturn (m : Mach) : R Frame :=
  match m.rs with
  | f :: rest =>
    if m.rs.length > m.ctx.rsLen then (.ok f, { (m.logStep (.pushReturn f)) with rs := rest })
    else (.err .returnStackUnderflow, m)
  | [] => (.err .returnStackUnderflow, m)

def topFrame (m : Mach) : Outcome Frame :=
  match m.rs with
  | f :: _ => if m.rs.length > m.ctx.rsLen then .ok f else .err .returnStackUnderflow
  | [] => .err .returnStackUnderflow

def pushLoop (m : Mach) (l : Loop) : Mach := { (m.logStep .popLoop) with loops := l :: m.loops }

def popLoop (m : Mach) : R Loop :=
  match m.loops with
  | l :: rest =>
    if m.loops.length > m.ctx.lsLen then (.ok l, { (m.logStep (.pushLoop l)) with loops := rest })
    else (.err .loopStackUnderflow, m)
  | [] => (.err .loopStackUnderflow, m)

/-- `Range<isize>::next` then `!is_empty()` -/
def loopNext (m : Mach) : R Bool :=
  match m.loops with
  | l :: rest =>
    if m.ctx.lsLen < m.loops.length then
      let l' : Loop := if l.start < l.stop then { l with start := l.start + 1 } else l
      (.ok (decide (l'.start < l'.stop)), ({ m with loops := l' :: rest } : Mach).logStep (.loopNextBack l))
    else (.err .loopStackUnderflow, m)
  | [] => (.err .loopStackUnderflow, m)

def pushSpecial (m : Mach) (p : Nat) : Mach := { (m.logStep .popSpecial) with special := p :: m.special }

def popSpecial (m : Mach) : Option Nat × Mach :=
  match m.special with
  | p :: rest =>
    if m.special.length > m.ctx.ssPtr then (some p, { (m.logStep (.pushSpecial p)) with special := rest })
    else (none, m)
  | [] => (none, m)

def constContext : Xerr := .errorMsg "the meta-eval context can operate only with constants"

def hexLower (n : Nat) : String := String.ofList (Nat.toDigits 16 n)

def cellOutOfBounds (idx : Nat) : Xerr := .errorMsg s!"heap address 0x{hexLower idx} out of bounds"

/-- `cell_ref` -/
def cellRef (m : Mach) (idx : Nat) : Outcome Cell :=
  if m.ctx.mode == .metaEval then .err constContext
  else match m.heap[idx]? with
    | some c => .ok c
    | none => .err (cellOutOfBounds idx)

/-- `swap_cell_ref` -/
def swapCellRef (m : Mach) (idx : Nat) (val : Cell) : R Unit :=
  if m.ctx.mode == .metaEval then (.err constContext, m)
  else match m.heap[idx]? with
    | some old => (.ok (), { (m.logStep (.swapRef idx old)) with heap := m.heap.set idx val })
    | none => (.err (cellOutOfBounds idx), m)

/-- `alloc_heap` -/
def allocHeap (m : Mach) (val : Cell) : R Nat :=
  if m.ctx.mode == .metaEval then (.err constContext, m)
  else match m.heapLimit with
    | some lim =>
      if m.heap.length ≥ lim then (.err (.errorMsg s!"heap limit reached: {m.heap.length} of {lim}"), m)
      else (.ok m.heap.length, { m with heap := m.heap ++ [val] })
    | none => (.ok m.heap.length, { m with heap := m.heap ++ [val] })

/-- `insn_meter_increase` -/
def meterIncrease (m : Mach) : R Unit :=
  match m.insnLimit with
  | some lim =>
    if m.meter ≥ lim then (.err (limitMsg "insn" lim), m)
    else (.ok (), { m with meter := m.meter + 1 })
  | none => (.ok (), { m with meter := m.meter + 1 })

/-- `foreach_next`: replace the items of the innermost loop, logging the loop as it was.
    The Rust reaches `loops.last_mut()` only after `loops[ls_len..].last()` succeeded; the primitive
    carries that guard so that it is meaningful for every program. -/
def setLoopItems (m : Mach) (c : Cell) : R Unit :=
  match m.loops with
  | l :: rest =>
    if m.loops.length > m.ctx.lsLen then
      (.ok (), ({ m with loops := { l with items := c } :: rest } : Mach).logStep (.loopNextBack l))
    else (.err .loopStackUnderflow, m)
  | [] => (.err .loopStackUnderflow, m)

/-! ### native words: interpretation of `Prog` over the primitives -/

def runProg : Prog → Mach → R Unit
  | .done, m => (.ok (), m)
  | .fail e, m => (.err e, m)
  | .panic s, m => (.panic s, m)
  | .pop k, m =>
    match m.popData with
    | (.ok c, m) => runProg (k c) m
    | (.err e, m) => (.err e, m)
    | (.panic s, m) => (.panic s, m)
  | .push c k, m =>
    match m.pushData c with
    | (.ok (), m) => runProg k m
    | (.err e, m) => (.err e, m)
    | (.panic s, m) => (.panic s, m)
  | .top k, m =>
    match m.topData with
    | (.ok c, m) => runProg (k c) m
    | (.err e, m) => (.err e, m)
    | (.panic s, m) => (.panic s, m)
  | .dup k, m =>
    match m.dupData with
    | (.ok (), m) => runProg k m
    | (.err e, m) => (.err e, m)
    | (.panic s, m) => (.panic s, m)
  | .swap k, m =>
    match m.swapData with
    | (.ok (), m) => runProg k m
    | (.err e, m) => (.err e, m)
    | (.panic s, m) => (.panic s, m)
  | .rot k, m =>
    match m.rotData with
    | (.ok (), m) => runProg k m
    | (.err e, m) => (.err e, m)
    | (.panic s, m) => (.panic s, m)
  | .over k, m =>
    match m.overData with
    | (.ok (), m) => runProg k m
    | (.err e, m) => (.err e, m)
    | (.panic s, m) => (.panic s, m)
  | .depth k, m => runProg (k (m.ds.length - m.ctx.dsLen)) m
  | .rawLen k, m => runProg (k m.ds.length) m
  | .rawFrom ptr k, m => runProg (k (m.ds.reverse.drop ptr)) m
  | .getVar idx k, m =>
    match m.cellRef idx with
    | .ok c => runProg (k c) m
    | .err e => (.err e, m)
    | .panic s => (.panic s, m)
  | .setVar idx c k, m =>
    match m.swapCellRef idx c with
    | (.ok (), m) => runProg k m
    | (.err e, m) => (.err e, m)
    | (.panic s, m) => (.panic s, m)
  | .print s k, m => runProg k { m with out := m.out ++ s }
  | .pushSpecial p k, m => runProg k (m.pushSpecial p)
  | .popSpecial k, m =>
    let (r, m) := m.popSpecial
    runProg (k r) m
  | .loopAt n k, m =>
    runProg (k ((m.loops.take (m.loops.length - m.ctx.lsLen))[n]?)) m
  | .setLoopItems c k, m =>
    match m.setLoopItems c with
    | (.ok (), m) => runProg k m
    | (.err e, m) => (.err e, m)
    | (.panic s, m) => (.panic s, m)
  | .stop k, m => runProg k { m with aboutToStop := true }

/-! ### `fetch_and_run` -/

/-- `RelativeJump::calculate`: `(ip as isize + rel as isize) as usize` -/
def calcJump (ip : Nat) (rel : Int) : Nat := (((ip : Int) + rel) % 2^64).toNat

def localOutOfBounds (i : Nat) : Xerr := .errorMsg s!"local variable index {i} out of bounds"

/-- `InitLocal`: pad skipped slots with nil, then store -/
def setLocal (ls : List Cell) (idx : Nat) (val : Cell) : List Cell :=
  let padded := ls ++ List.replicate (idx - ls.length) Cell.nil
  if idx < padded.length then padded.set idx val else padded ++ [val]

/-- `do_init` -/
def doInit (m : Mach) : R Loop :=
  match m.popData with
  | (.ok start, m) =>
    match m.popData with
    | (.ok limit, m) =>
      match start.toIsize with
      | .ok s =>
        match limit.toIsize with
        | .ok l => (.ok { items := .nil, start := s, stop := l }, m)
        | .err e => (.err e, m)
        | .panic p => (.panic p, m)
      | .err e => (.err e, m)
      | .panic p => (.panic p, m)
    | (.err e, m) => (.err e, m)
    | (.panic s, m) => (.panic s, m)
  | (.err e, m) => (.err e, m)
  | (.panic s, m) => (.panic s, m)

/-- `load_value_opcode` (used by `Resolve` of a constant) -/
def loadValueOp (c : Cell) : Op :=
  match c with
  | .int i => if -(2^63) ≤ i ∧ i ≤ 2^63 - 1 then .loadI64 i else .loadCell c
  | .str s => .loadStr s
  | .nil => .loadNil
  | c => .loadCell c

def dictLookup (d : List (String × Entry)) (name : String) : Option Entry := d.lookup name

/-- one opcode, after the meter. `nativeProg` is the word table (name → program over primitives) -/
def exec (nativeProg : String → Option Prog) (m : Mach) (ip : Nat) : Op → R Unit
  | .nop => (.ok (), m.nextIp)
  | .jump rel => (.ok (), m.setIp (calcJump ip rel))
  | .jumpIf rel =>
    match m.popData with
    | (.ok c, m) =>
      match c.condTrue with
      | .ok true => (.ok (), m.setIp (calcJump ip rel))
      | .ok false => (.ok (), m.nextIp)
      | .err e => (.err e, m)
      | .panic s => (.panic s, m)
    | (.err e, m) => (.err e, m)
    | (.panic s, m) => (.panic s, m)
  | .jumpIfNot rel =>
    match m.popData with
    | (.ok c, m) =>
      match c.condTrue with
      | .ok false => (.ok (), m.setIp (calcJump ip rel))
      | .ok true => (.ok (), m.nextIp)
      | .err e => (.err e, m)
      | .panic s => (.panic s, m)
    | (.err e, m) => (.err e, m)
    | (.panic s, m) => (.panic s, m)
  | .caseOf rel =>
    match m.popData with
    | (.ok a, m) =>
      match m.topData with
      | (.ok b, m) =>
        if Cell.beq a b then
          match m.popData with
          | (.ok _, m) => (.ok (), m.nextIp)
          | (.err e, m) => (.err e, m)
          | (.panic s, m) => (.panic s, m)
        else (.ok (), m.setIp (calcJump ip rel))
      | (.err e, m) => (.err e, m)
      | (.panic s, m) => (.panic s, m)
    | (.err e, m) => (.err e, m)
    | (.panic s, m) => (.panic s, m)
  | .call addr =>
    (.ok (), (m.pushReturn { fnAddr := addr, returnTo := ip + 1, locals := [] }).setIp addr)
  | .native name =>
    match nativeProg name with
    | some p =>
      match runProg p m with
      | (.ok (), m) => (.ok (), m.nextIp)
      | (.err e, m) => (.err e, m)
      | (.panic s, m) => (.panic s, m)
    | none => (.panic s!"model: native word {name} is outside the model", m)
  | .ret =>
    match m.popReturn with
    | (.ok f, m) => (.ok (), m.setIp f.returnTo)
    | (.err e, m) => (.err e, m)
    | (.panic s, m) => (.panic s, m)
  | .resolve _ => (.panic "model: resolve is handled by step", m)
  | .loadStr s =>
    match m.pushData (.str s) with
    | (.ok (), m) => (.ok (), m.nextIp)
    | (.err e, m) => (.err e, m)
    | (.panic s, m) => (.panic s, m)
  | .loadF64 x =>
    match m.pushData (.real x) with
    | (.ok (), m) => (.ok (), m.nextIp)
    | (.err e, m) => (.err e, m)
    | (.panic s, m) => (.panic s, m)
  | .loadI64 x =>
    match m.pushData (.int x) with
    | (.ok (), m) => (.ok (), m.nextIp)
    | (.err e, m) => (.err e, m)
    | (.panic s, m) => (.panic s, m)
  | .loadNil =>
    match m.pushData .nil with
    | (.ok (), m) => (.ok (), m.nextIp)
    | (.err e, m) => (.err e, m)
    | (.panic s, m) => (.panic s, m)
  | .loadCell c =>
    match m.pushData c with
    | (.ok (), m) => (.ok (), m.nextIp)
    | (.err e, m) => (.err e, m)
    | (.panic s, m) => (.panic s, m)
  | .load idx =>
    match m.cellRef idx with
    | .ok c =>
      match m.pushData c with
      | (.ok (), m) => (.ok (), m.nextIp)
      | (.err e, m) => (.err e, m)
      | (.panic s, m) => (.panic s, m)
    | .err e => (.err e, m)
    | .panic s => (.panic s, m)
  | .store idx =>
    match m.popData with
    | (.ok v, m) =>
      match m.swapCellRef idx v with
      | (.ok (), m) => (.ok (), m.nextIp)
      | (.err e, m) => (.err e, m)
      | (.panic s, m) => (.panic s, m)
    | (.err e, m) => (.err e, m)
    | (.panic s, m) => (.panic s, m)
  | .initLocal idx =>
    match m.popData with
    | (.ok v, m) =>
      match m.rs with
      | f :: rest =>
        if m.rs.length > m.ctx.rsLen then
          let f' : Frame := { f with locals := setLocal f.locals idx v }
          let m' : Mach := { m with rs := f' :: rest }
          (.ok (), (m'.logStep (.restoreLocals f.locals)).nextIp)
        else (.err .returnStackUnderflow, m)
      | [] => (.err .returnStackUnderflow, m)
    | (.err e, m) => (.err e, m)
    | (.panic s, m) => (.panic s, m)
  | .loadLocal i =>
    match m.topFrame with
    | .ok f =>
      match f.locals[i]? with
      | some v =>
        match m.pushData v with
        | (.ok (), m) => (.ok (), m.nextIp)
        | (.err e, m) => (.err e, m)
        | (.panic s, m) => (.panic s, m)
      | none => (.err (localOutOfBounds i), m)
    | .err e => (.err e, m)
    | .panic s => (.panic s, m)
  | .doOp rel =>
    match m.doInit with
    | (.ok l, m) =>
      if l.start < l.stop then (.ok (), (m.pushLoop l).nextIp)
      else (.ok (), m.setIp (calcJump ip rel))
    | (.err e, m) => (.err e, m)
    | (.panic s, m) => (.panic s, m)
  | .breakOp rel =>
    match m.popLoop with
    | (.ok _, m) => (.ok (), m.setIp (calcJump ip rel))
    | (.err e, m) => (.err e, m)
    | (.panic s, m) => (.panic s, m)
  | .loopOp rel =>
    match m.loopNext with
    | (.ok true, m) => (.ok (), m.setIp (calcJump ip rel))
    | (.ok false, m) =>
      match m.popLoop with
      | (.ok _, m) => (.ok (), m.nextIp)
      | (.err e, m) => (.err e, m)
      | (.panic s, m) => (.panic s, m)
    | (.err e, m) => (.err e, m)
    | (.panic s, m) => (.panic s, m)

/-- the opcode a `Resolve` is backpatched with -/
def resolveOp (m : Mach) (name : String) : Outcome Op :=
  match dictLookup m.dict name with
  | none => .err (.unknownWord name.toList)
  | some (.const c) => .ok (loadValueOp c)
  | some (.var idx) => .ok (.load idx)
  | some (.interp _ addr) => .ok (.call addr)
  | some (.native _ n) => .ok (.native n)

/-- what `Resolve` does to the code: backpatch the resolved opcode — except inside a meta block, where
    the name is bound for this execution only (the block's definitions are purged when it closes) -/
def patchCode (m : Mach) (ip : Nat) (op : Op) : Mach :=
  if m.ctx.mode = .metaEval then m else { m with code := m.code.set ip op }

theorem patchCode_eq (m : Mach) (ip : Nat) (op : Op) : ∃ cp, m.patchCode ip op = { m with code := cp } ∧
    cp.length = m.code.length ∧ (m.ctx.mode = .metaEval → cp = m.code) := by
  unfold patchCode; split
  · exact ⟨m.code, rfl, rfl, fun _ => rfl⟩
  · rename_i h; exact ⟨_, rfl, by simp, fun hm => absurd hm h⟩

/-- `fetch_and_run` (precondition of the Rust: `ip < code.len()`, otherwise the index panics) -/
def step (nativeProg : String → Option Prog) (m : Mach) : R Unit :=
  let ip := m.ctx.ip
  match m.meterIncrease with
  | (.err e, m) => (.err e, m)
  | (.panic s, m) => (.panic s, m)
  | (.ok (), m) =>
    match m.code[ip]? with
    | none => (.panic "code[ip] out of bounds", m)
    | some (.resolve name) =>
      match m.resolveOp name with
      | .err e => (.err e, m)
      | .panic s => (.panic s, m)
      | .ok op =>
        -- inside a meta block the name is bound for this execution only (the block's definitions are purged)
        let m := m.patchCode ip op
        -- the patched instruction is fetched again, through the meter
        match m.meterIncrease with
        | (.err e, m) => (.err e, m)
        | (.panic s, m) => (.panic s, m)
        | (.ok (), m) => exec nativeProg m ip op
    | some op => exec nativeProg m ip op

/-- `State::next` -/
def next (nativeProg : String → Option Prog) (m : Mach) : R Unit :=
  if m.isRunning then step nativeProg m else (.ok (), m)

/-- `State::run`, fuel-bounded: `none` = fuel exhausted while still running -/
def run (nativeProg : String → Option Prog) : Nat → Mach → Option (R Unit)
  | 0, m => if m.isRunning then none else some (.ok (), m)
  | fuel + 1, m =>
    if m.isRunning then
      match step nativeProg m with
      | (.ok (), m) => run nativeProg fuel m
      | r => some r
    else some (.ok (), m)

/-! ### reverse stepping -/

/-- the part of the machine that reverse stepping restores (everything C02 lists) -/
structure Core where
  ctx : Ctx
  ds : List Cell
  rs : List Frame
  loops : List Loop
  special : List Nat
  heap : List Cell
deriving DecidableEq, Repr

def core (m : Mach) : Core := ⟨m.ctx, m.ds, m.rs, m.loops, m.special, m.heap⟩

def setCore (m : Mach) (c : Core) : Mach :=
  { m with ctx := c.ctx, ds := c.ds, rs := c.rs, loops := c.loops, special := c.special, heap := c.heap }

/-- `reverse_changes`, as a function of the core alone (it reads and writes nothing else) -/
def undoC (m : Core) : RStep → Outcome Unit × Core
  | .setIp ip => (.ok (), { m with ctx := { m.ctx with ip := ip } })
  | .popData =>
    match m.ds with
    | _ :: rest => if m.ds.length > m.ctx.dsLen then (.ok (), { m with ds := rest }) else (.err .stackUnderflow, m)
    | [] => (.err .stackUnderflow, m)
  | .pushData c => (.ok (), { m with ds := c :: m.ds })
  | .swapData =>
    match m.ds with
    | a :: b :: r => if m.ds.length ≥ m.ctx.dsLen + 2 then (.ok (), { m with ds := b :: a :: r }) else (.err .stackUnderflow, m)
    | _ => (.err .stackUnderflow, m)
  | .rotData =>
    match m.ds with
    | a :: b :: c :: r => if m.ds.length ≥ m.ctx.dsLen + 3 then (.ok (), { m with ds := c :: b :: a :: r }) else (.err .stackUnderflow, m)
    | _ => (.err .stackUnderflow, m)
  | .overData =>
    -- Rust: `drop_data()` is a *logging* pop, so it pushes `PushData(top)` onto the log, and the very
    -- next iteration of rnext's loop pops that entry and pushes `top` back. The net effect of the two
    -- iterations is: fail with StackUnderflow if nothing is visible, otherwise leave the stack as it
    -- is. Modelled as that net effect, so that undoing never writes to the log.
    match m.ds with
    | _ :: _ => if m.ds.length > m.ctx.dsLen then (.ok (), m) else (.err .stackUnderflow, m)
    | [] => (.err .stackUnderflow, m)
  | .popReturn =>
    match m.rs with
    | _ :: rest => if m.rs.length > m.ctx.rsLen then (.ok (), { m with rs := rest }) else (.err .returnStackUnderflow, m)
    | [] => (.err .returnStackUnderflow, m)
  | .pushReturn f => (.ok (), { m with rs := f :: m.rs })
  | .pushLoop l => (.ok (), { m with loops := l :: m.loops })
  | .popLoop =>
    match m.loops with
    | _ :: rest => if m.loops.length > m.ctx.lsLen then (.ok (), { m with loops := rest }) else (.err .loopStackUnderflow, m)
    | [] => (.err .loopStackUnderflow, m)
  | .loopNextBack l =>
    match m.loops with
    | _ :: rest => if m.loops.length > m.ctx.lsLen then (.ok (), { m with loops := l :: rest }) else (.err .loopStackUnderflow, m)
    | [] => (.err .loopStackUnderflow, m)
  | .pushSpecial p => (.ok (), { m with special := p :: m.special })
  | .popSpecial =>
    match m.special with
    | _ :: rest =>
      if m.special.length > m.ctx.ssPtr then (.ok (), { m with special := rest })
      else (.err (.controlFlow "unbalanced vector builder"), m)
    | [] => (.err (.controlFlow "unbalanced vector builder"), m)
  | .restoreLocals ls =>
    match m.rs with
    | f :: rest =>
      if m.rs.length > m.ctx.rsLen then (.ok (), { m with rs := { f with locals := ls } :: rest })
      else (.err .returnStackUnderflow, m)
    | [] => (.err .returnStackUnderflow, m)
  | .swapRef idx c =>
    match m.heap[idx]? with
    | some _ => (.ok (), { m with heap := m.heap.set idx c })
    | none => (.err (cellOutOfBounds idx), m)

/-- `reverse_changes` -/
def undo (m : Mach) (s : RStep) : R Unit :=
  let (o, c) := undoC m.core s
  (o, m.setCore c)

/-- the `while let Some(step) = pop(self)` loop of `rnext`: undo entries up to (not including) the
    next `SetIp`; returns the outcome, the core and the log that remains -/
def undoSeg : List RStep → Core → Outcome Unit × Core × List RStep
  | [], c => (.ok (), c, [])
  | .setIp ip :: rest, c => (.ok (), c, .setIp ip :: rest)
  | s :: rest, c =>
    match undoC c s with
    | (.ok (), c) => undoSeg rest c
    | (.err e, c) => (.err e, c, rest)
    | (.panic p, c) => (.panic p, c, rest)

/-- `State::rnext` on (core, log): undo at least one entry, then everything up to the previous `SetIp` -/
def rnextC (c : Core) : List RStep → Outcome Unit × Core × List RStep
  | [] => (.ok (), c, [])
  | s :: rest =>
    match undoC c s with
    | (.ok (), c) => undoSeg rest c
    | (.err e, c) => (.err e, c, rest)
    | (.panic p, c) => (.panic p, c, rest)

/-- `State::rnext` -/
def rnext (m : Mach) : R Unit :=
  match m.log with
  | none => (.ok (), m)
  | some l =>
    let r := rnextC m.core l
    (r.1, { (m.setCore r.2.1) with log := some r.2.2 })

end Mach
end Xeh
